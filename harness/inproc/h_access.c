/* correspondence harness for access rules and forwarded client addresses (C03)
 *
 * Building blocks (stateless, one case per line; byte fields hex, "-" = empty):
 *   sfx  <nc> <path> <v>...      array_match_value_suffix{,_nc}()  -> index | -1
 *   vpfx <nc> <path> <v>...      array_match_value_prefix{,_nc}()
 *   kpfx <nc> <path> <k>...      array_match_key_prefix{,_nc}()
 *   ksfx <nc> <path> <k>...      array_match_key_suffix{,_nc}()
 *   poe  <path> <k>...           array_match_path_or_ext()
 *   chk  <lc> <path> <na> <allow>*na <deny>*   mod_access_check()            -> 0 | 1
 *   lcs  <hex>                   buffer_copy_string_len_lc()       -> hex
 *   xfa  <hdr>                   extract_forward_array()           -> tok,tok,... | -
 *   trust <fwd> <ip>             is_proxy_trusted()                -> 0 | 1
 *   xff  <fwd> <hdrs> <peer> <name>:<val>[;<name>:<val>...]
 *        mod_extforward_uri_handler() on a request with these header fields from TCP peer <peer>
 *        (extforward.forwarder = <fwd>, extforward.headers = <hdrs>)
 *        -> "<rc> <http_status> <remote address used for the request | = if unchanged>"
 *     <fwd>  = "-" | key=value,key=value...   (hex; parsed by mod_extforward_parse_forwarder())
 *     <hdrs> = "-" (default: X-Forwarded-For, Forwarded-For) | name,name...
 *
 * Whole request pipeline ("mini server"): the REAL configuration parser, the real
 * set_defaults of mod_access / mod_auth / mod_authn_file / mod_extforward / mod_staticfile,
 * the real plugin dispatch (plugins_call_init slots) and the real http_response_handler()
 * (http_response_prepare: uri_raw/uri_clean hooks, docroot, physical path check and
 * path-info split on a real directory tree, subrequest_start hooks, static file), without
 * sockets:
 *   srv <confhex> <model tokens>... / <req> <req> ...
 *     <confhex>: lighttpd.conf text; @DOCROOT@ and @USERFILE@ are substituted
 *     <model tokens>: docroot, parseopts, lc, tree and blocks as the generator intended them
 *                     (read by the Lean model only; this harness prints what the parser built)
 *     <req> = 1,<peer>,<h1 head block>         HTTP/1.x: http_request_headers_process()
 *           | 2,<peer>,<method>,<path>,<authority>,<name>:<val>;...   HTTP/2 pseudo-headers +
 *                fields through http_request_parse_header() / http_request_headers_process_h2()
 *     (a request from another peer address than the previous one is a new connection)
 *   -> "<parseopts> <lc>" then per request
 *      "<status>,<uri.path>,<pathinfo>,<remote addr>,<content of the file sent (= its canonical path) | ->"
 *      (uri.path and pathinfo are "-" when the request head was rejected by the parser)
 * The document root ($LTV_C03_ROOT/docroot) and the user file ($LTV_C03_ROOT/users.txt) are
 * prepared by the check module; this harness only writes its configuration file there.
 *   utf8 <hex>   data_config_pcre_compile("x*") + config_pcre_match() on the subject: does a
 *                condition regex (PCRE2_UTF) see the subject at all?       -> 0 | 1
 *   pton <hex>   sock_addr_inet_pton(AF_INET, then AF_INET6)  -> "4 <addr>" | "6 <addr>" | none
 *   gai  <hex>   sock_addr_from_str_numeric()                 -> same
 */
#include "first.h"
#include "configfile-glue.c"   /* (static config_reference is reset between configurations) */
#include "configfile.c"
#include "configparser.c"

#define plugin_config access_plugin_config
#define plugin_data   access_plugin_data
#include "mod_access.c"
#undef plugin_config
#undef plugin_data

#define plugin_config auth_plugin_config
#define plugin_data   auth_plugin_data
#include "mod_auth.c"
#undef plugin_config
#undef plugin_data

#define plugin_config authn_plugin_config
#define plugin_data   authn_plugin_data
#include "mod_authn_file.c"
#undef plugin_config
#undef plugin_data

#define plugin_config staticfile_plugin_config
#define plugin_data   staticfile_plugin_data
#include "mod_staticfile.c"
#undef plugin_config
#undef plugin_data

#include "mod_extforward.c"     /* plugin_config / plugin_data below are mod_extforward's */

#include "harness_common.h"
#include "stat_cache.h"
#include "reqpool.h"
#include "response.h"
#include "plugins.h"
#include "sock_addr.h"
#include "http_kv.h"
#include "chunk.h"
#include <unistd.h>
#include <fcntl.h>
#include <sys/stat.h>

static fdlog_st *errh;
static char tmproot[512];      /* scratch directory of this process */
static char docroot[600];
static char userfile[600];
static char cfgpath[600];

/* ------------------------------------------------------------------ helpers */
static int split(char *s, char sep, char **out, int max) {
    int n = 0;
    out[n++] = s;
    for (; *s; ++s) if (*s == sep) { *s = 0; if (n < max) out[n++] = s + 1; }
    return n;
}

static buffer *hexbuf(const char *hex) {
    size_t n; unsigned char *b = ltv_unhex(hex, &n);
    buffer *o = buffer_init();
    buffer_copy_string_len(o, (char *)b, n);
    free(b);
    return o;
}

static void put_idx_value(const array *a, const buffer *m) {
    if (NULL == m) { puts("-1"); return; }
    for (uint32_t i = 0; i < a->used; ++i)
        if (&((data_string *)a->data[i])->value == m) { printf("%u\n", i); return; }
    puts("?");
}

static void put_idx_data(const array *a, const data_unset *m) {
    if (NULL == m) { puts("-1"); return; }
    for (uint32_t i = 0; i < a->used; ++i)
        if (a->data[i] == m) { printf("%u\n", i); return; }
    puts("?");
}

/* ------------------------------------------------------------- array_match */
static void op_match(void) {
    const char *op = ltv_tok[0];
    const int poe = (0 == strcmp(op, "poe"));
    int t = 1;
    int nc = 0;
    if (!poe) nc = atoi(ltv_tok[t++]);
    if (ltv_ntok < t + 1) { puts("bad-op"); return; }
    buffer *path = hexbuf(ltv_tok[t++]);
    array *a = array_init(4);
    const int keyed = (op[0] == 'k' || poe);
    for (int i = t; i < ltv_ntok; ++i) {
        size_t n; unsigned char *v = ltv_unhex(ltv_tok[i], &n);
        if (keyed) {
            /* keyed entries (insertion order kept in a->data[]); duplicate keys are a generator bug */
            if (array_get_element_klen(a, (char *)v, (uint32_t)n)) { puts("dup-key"); free(v); goto done; }
            array_set_key_value(a, (char *)v, (uint32_t)n, CONST_STR_LEN("x"));
        }
        else
            array_insert_value(a, (char *)v, (uint32_t)n);
        free(v);
    }
    if (0 == strcmp(op, "sfx"))
        put_idx_value(a, nc ? array_match_value_suffix_nc(a, path) : array_match_value_suffix(a, path));
    else if (0 == strcmp(op, "vpfx"))
        put_idx_value(a, nc ? array_match_value_prefix_nc(a, path) : array_match_value_prefix(a, path));
    else if (0 == strcmp(op, "kpfx"))
        put_idx_data(a, nc ? array_match_key_prefix_nc(a, path) : array_match_key_prefix(a, path));
    else if (0 == strcmp(op, "ksfx"))
        put_idx_data(a, nc ? array_match_key_suffix_nc(a, path) : array_match_key_suffix(a, path));
    else
        put_idx_data(a, array_match_path_or_ext(a, path));
  done:
    array_free(a);
    buffer_free(path);
}

static void op_chk(void) {
    if (ltv_ntok < 4) { puts("bad-op"); return; }
    const int lc = atoi(ltv_tok[1]);
    buffer *path = hexbuf(ltv_tok[2]);
    const int na = atoi(ltv_tok[3]);
    if (na < 0 || 4 + na > ltv_ntok) { puts("bad-op"); buffer_free(path); return; }
    array *allow = array_init(4), *deny = array_init(4);
    for (int i = 4; i < ltv_ntok; ++i) {
        size_t n; unsigned char *v = ltv_unhex(ltv_tok[i], &n);
        array_insert_value(i < 4 + na ? allow : deny, (char *)v, (uint32_t)n);
        free(v);
    }
    printf("%d\n", mod_access_check(allow, deny, path, lc));
    array_free(allow); array_free(deny); buffer_free(path);
}

/* ------------------------------------------------------------- extforward */
static server xsrv;            /* for the building-block ops */
static connection xcon;
static plugin_data *xp;
static array *xfwd_arr, *xhdr_arr;
static struct forwarder_cfg *xfwd;

static void x_free(void) {
    if (xfwd) { free(xfwd); xfwd = NULL; }
    if (xfwd_arr) { array_free(xfwd_arr); xfwd_arr = NULL; }
    if (xhdr_arr) { array_free(xhdr_arr); xhdr_arr = NULL; }
}

/* build p->defaults from "<fwd>" (and "<hdrs>") the way set_defaults does */
static int x_conf(char *fwd, char *hdrs) {
    if (NULL == xp) {
        xsrv.errh = errh;
        xp = mod_extforward_init();
        xp->id = 1;
        mod_extforward_plugin_data_singleton = xp;
    }
    memset(&xp->defaults, 0, sizeof(xp->defaults));
    xp->nconfig = 0;
    if (!(fwd[0] == '-' && fwd[1] == 0)) {
        xfwd_arr = array_init(4);
        char *ent[256]; int ne = split(fwd, ',', ent, 256);
        for (int i = 0; i < ne; ++i) {
            char *kv[2];
            if (2 != split(ent[i], '=', kv, 2)) return 0;
            size_t kn, vn;
            unsigned char *k = ltv_unhex(kv[0], &kn), *v = ltv_unhex(kv[1], &vn);
            if (array_get_element_klen(xfwd_arr, (char *)k, (uint32_t)kn)) { free(k); free(v); return 0; }
            array_set_key_value(xfwd_arr, (char *)k, (uint32_t)kn, (char *)v, (uint32_t)vn);
            free(k); free(v);
        }
        xfwd = mod_extforward_parse_forwarder(&xsrv, xfwd_arr);
        if (NULL == xfwd) return -1;
        xp->defaults.forwarder = xfwd->forwarder;
        xp->defaults.forward_all = xfwd->forward_all;
        xp->defaults.forward_masks_used = xfwd->addrs_used;
        xp->defaults.forward_masks = xfwd->addrs;
    }
    xhdr_arr = array_init(2);
    if (NULL == hdrs || (hdrs[0] == '-' && hdrs[1] == 0)) {
        array_insert_value(xhdr_arr, CONST_STR_LEN("X-Forwarded-For"));
        array_insert_value(xhdr_arr, CONST_STR_LEN("Forwarded-For"));
    }
    else {
        char *ent[32]; int ne = split(hdrs, ',', ent, 32);
        for (int i = 0; i < ne; ++i) {
            size_t n; unsigned char *v = ltv_unhex(ent[i], &n);
            array_insert_value(xhdr_arr, (char *)v, (uint32_t)n);
            free(v);
        }
    }
    for (uint32_t i = 0; i < xhdr_arr->used; ++i) {
        data_string * const ds = (data_string *)xhdr_arr->data[i];
        ds->ext = http_header_hkey_get(BUF_PTR_LEN(&ds->value));
    }
    xp->defaults.headers = xhdr_arr;
    return 1;
}

static void op_xfa(void) {
    if (ltv_ntok != 2) { puts("bad-op"); return; }
    buffer *h = hexbuf(ltv_tok[1]);
    array *a = array_init(4);
    extract_forward_array(a, h);
    if (0 == a->used) fputc('-', stdout);
    for (uint32_t i = 0; i < a->used; ++i) {
        const buffer *v = &((data_string *)a->data[i])->value;
        if (i) fputc(',', stdout);
        ltv_puthex(v->ptr, buffer_clen(v));
    }
    fputc('\n', stdout);
    array_free(a); buffer_free(h);
}

static void op_trust(void) {
    if (ltv_ntok != 3) { puts("bad-op"); return; }
    int rc = x_conf(ltv_tok[1], NULL);
    if (rc <= 0) { puts(rc ? "config-error" : "bad-op"); x_free(); return; }
    if (NULL == xp->defaults.forwarder) { puts("no-forwarder"); x_free(); return; }
    memcpy(&xp->conf, &xp->defaults, sizeof(plugin_config));
    size_t n; unsigned char *ip = ltv_unhex(ltv_tok[2], &n);
    printf("%d\n", is_proxy_trusted(xp, (char *)ip, n));
    free(ip);
    x_free();
}

static int set_peer(connection *con, const unsigned char *peer, size_t n) {
    memset(&con->dst_addr, 0, sizeof(con->dst_addr));
    if (1 != sock_addr_inet_pton(&con->dst_addr, (const char *)peer, AF_INET, 40000)
        && 1 != sock_addr_inet_pton(&con->dst_addr, (const char *)peer, AF_INET6, 40000))
        return 0;
    buffer_copy_string_len(&con->dst_addr_buf, (const char *)peer, n);
    return 1;
}

static void op_xff(void) {
    if (ltv_ntok != 5) { puts("bad-op"); return; }
    int rc = x_conf(ltv_tok[1], ltv_tok[2]);
    if (rc <= 0) { puts(rc ? "config-error" : "bad-op"); x_free(); return; }
    static request_st *r;
    if (NULL == r) {
        memset(&xcon, 0, sizeof(xcon));
        xcon.srv = &xsrv;
        xcon.plugin_ctx = ck_calloc(4, sizeof(void *));
        r = &xcon.request;
        r->con = &xcon;
        r->plugin_ctx = ck_calloc(4, sizeof(void *));
        r->tmp_buf = buffer_init();
        r->conf.errh = errh;
    }
    size_t pn; unsigned char *peer = ltv_unhex(ltv_tok[3], &pn);
    if (!set_peer(&xcon, peer, pn)) { puts("bad-peer"); free(peer); x_free(); return; }
    free(peer);
    r->dst_addr = &xcon.dst_addr;
    r->dst_addr_buf = &xcon.dst_addr_buf;
    r->http_status = 0;
    r->rqst_htags = 0;
    array_reset_data_strings(&r->rqst_headers);
    buffer_copy_string_len(&r->uri.scheme, CONST_STR_LEN("http"));
    if (!(ltv_tok[4][0] == '-' && ltv_tok[4][1] == 0)) {
        char *ent[64]; int ne = split(ltv_tok[4], ';', ent, 64);
        for (int i = 0; i < ne; ++i) {
            char *kv[2];
            if (2 != split(ent[i], ':', kv, 2)) { puts("bad-op"); x_free(); return; }
            size_t kn, vn;
            unsigned char *k = ltv_unhex(kv[0], &kn), *v = ltv_unhex(kv[1], &vn);
            http_header_request_append(r, http_header_hkey_get((char *)k, (uint32_t)kn),
                                       (char *)k, (uint32_t)kn, (char *)v, (uint32_t)vn);
            free(k); free(v);
        }
    }
    handler_t h = mod_extforward_uri_handler(r, xp);
    printf("%d %d ", (int)h, r->http_status);
    if (r->dst_addr_buf == &xcon.dst_addr_buf) fputc('=', stdout);
    else ltv_puthex(r->dst_addr_buf->ptr, buffer_clen(r->dst_addr_buf));
    fputc('\n', stdout);
    mod_extforward_restore(r, xp);
    mod_extforward_handle_con_close(&xcon, xp);
    x_free();
}

/* ----------------------------------------------------------- mini server */
static server *srv;
static connection con;
static server_socket ssock;
static const buffer default_tag = { "ltv", 4, 0 };

static void cleanup(void) {
    if (cfgpath[0]) unlink(cfgpath);
}

static int tree_init(void) {
    const char *root = getenv("LTV_C03_ROOT");
    if (NULL == root || !*root) return 0;
    snprintf(tmproot, sizeof(tmproot), "%s", root);
    snprintf(docroot, sizeof(docroot), "%s/docroot", tmproot);
    snprintf(userfile, sizeof(userfile), "%s/users.txt", tmproot);
    snprintf(cfgpath, sizeof(cfgpath), "%s/lighttpd.%d.conf", tmproot, (int)getpid());
    struct stat st;
    if (0 != stat(docroot, &st) || !S_ISDIR(st.st_mode)) return 0;
    atexit(cleanup);
    return 1;
}

static int con_up;

static void world_free(void) {
    if (NULL == srv) return;
    if (con_up) {
        request_st * const r = &con.request;
        request_reset(r);
        plugins_call_handle_connection_close(&con);
        request_free_data(r);
        free(con.plugin_ctx);
        free(con.dst_addr_buf.ptr);
        memset(&con, 0, sizeof(con));
        con_up = 0;
    }
    stat_cache_free();
    if (srv->plugin_slots) plugins_free(srv);
    config_free(srv);
    config_reference.data = NULL;
    config_reference.used = 0;
    buffer_free(srv->tmp_buf);
    free(srv);
    srv = NULL;
}

static const struct { const char *name; int (*init)(plugin *p); } modtab[] = {
    { "mod_access",     mod_access_plugin_init },
    { "mod_auth",       mod_auth_plugin_init },
    { "mod_authn_file", mod_authn_file_plugin_init },
    { "mod_extforward", mod_extforward_plugin_init },
    { "mod_staticfile", mod_staticfile_plugin_init },
    { NULL, NULL }
};

/* plugins_load() without dlopen(): the modules compiled into this harness, in the
 * order of server.modules as finalised by configfile.c */
static int mods_load(void) {
    srv->plugins.ptr = ck_calloc(srv->srvconf.modules->used + 1, sizeof(plugin *));
    for (uint32_t i = 0; i < srv->srvconf.modules->used; ++i) {
        const buffer *m = &((data_string *)srv->srvconf.modules->data[i])->value;
        int j;
        for (j = 0; modtab[j].name; ++j)
            if (buffer_eq_slen(m, modtab[j].name, strlen(modtab[j].name))) break;
        if (NULL == modtab[j].name) {
            /* (mod_h2 is appended by configfile.c when server.h2proto is on; HTTP/2 requests
             *  enter this harness below the framing layer, so it is not needed) */
            if (buffer_eq_slen(m, CONST_STR_LEN("mod_h2"))) continue;
            return 0;
        }
        plugin *p = ck_calloc(1, sizeof(plugin));
        if (modtab[j].init(p)) { free(p); return 0; }
        ((plugin **)srv->plugins.ptr)[srv->plugins.used++] = p;
    }
    return 1;
}

static void subst(buffer *out, const unsigned char *cfg, size_t len) {
    buffer_clear(out);
    for (size_t i = 0; i < len; ) {
        if (len - i >= 9 && 0 == memcmp(cfg + i, "@DOCROOT@", 9)) { buffer_append_string(out, docroot); i += 9; }
        else if (len - i >= 10 && 0 == memcmp(cfg + i, "@USERFILE@", 10)) { buffer_append_string(out, userfile); i += 10; }
        else { buffer_append_char(out, (char)cfg[i]); ++i; }
    }
}

static int world_init(const unsigned char *cfg, size_t len) {
    buffer *txt = buffer_init();
    subst(txt, cfg, len);
    FILE *f = fopen(cfgpath, "w");
    if (!f) { buffer_free(txt); return 0; }
    fwrite(txt->ptr, 1, buffer_clen(txt), f);
    fclose(f);
    buffer_free(txt);
    srv = ck_calloc(1, sizeof(*srv));
    srv->tmp_buf = buffer_init();
    srv->errh = errh;
    srv->plugins_request_reset = plugins_call_handle_request_reset;
    config_init(srv);
    const int dbg = (NULL != getenv("LTV_C03_DEBUG"));
  #define FAIL(what) do { if (dbg) fprintf(stderr, "world_init: %s failed\n", what); return 0; } while (0)
    if (0 != config_read(srv, cfgpath)) FAIL("config_read");
    if (0 != config_set_defaults(srv)) FAIL("config_set_defaults");
    if (!mods_load()) FAIL("mods_load");
    if (HANDLER_GO_ON != plugins_call_init(srv)) FAIL("plugins_call_init");
    if (HANDLER_GO_ON != plugins_call_set_defaults(srv)) FAIL("plugins_call_set_defaults");
    if (!config_finalize(srv, &default_tag)) FAIL("config_finalize");
    if (!stat_cache_init(NULL, errh)) FAIL("stat_cache_init");
  #undef FAIL
    memset(&con, 0, sizeof(con));
    memset(&ssock, 0, sizeof(ssock));
    con.srv = srv;
    con.fd = -1;
    con.config_data_base = srv->config_data_base;
    con.plugin_slots = srv->plugin_slots;
    con.srv_socket = &ssock;
    con.proto_default_port = 80;
    con.plugin_ctx = ck_calloc(srv->plugins.used + 1, sizeof(void *));
    request_init_data(&con.request, &con, srv);
    con_up = 1;
    return 1;
}

static unsigned short hoff[8192];

static void put_below_docroot(const buffer *b) {
    const size_t dl = strlen(docroot);
    const uint32_t n = buffer_clen(b);
    if (n >= dl && 0 == memcmp(b->ptr, docroot, dl)) ltv_puthex(b->ptr + dl, n - dl);
    else if (0 == n) fputc('-', stdout);
    else { fputc('!', stdout); ltv_puthex(b->ptr, n); }
}

static int run_req(char *req) {
    request_st * const r = &con.request;
    char *f[6]; int nf = split(req, ',', f, 6);
    if (nf < 3) return 0;
    request_reset(r);
    r->http_status = 0;
    con.proto_default_port = 80;    /* (mod_extforward proto=https sets it for the connection) */
    r->conditional_is_valid = (1 << COMP_SERVER_SOCKET) | (1 << COMP_HTTP_REMOTE_IP);
    config_cond_cache_reset(r);
    size_t pn; unsigned char *peer = ltv_unhex(f[1], &pn);
    if (!buffer_eq_slen(&con.dst_addr_buf, (char *)peer, pn)) {
        /* another client: connection-level plugin state (mod_extforward trust cache) goes */
        plugins_call_handle_connection_close(&con);
        if (!set_peer(&con, peer, pn)) { free(peer); return 0; }
    }
    free(peer);
    unsigned char *blk = NULL;
    if (f[0][0] == '1' && nf == 3) {
        size_t n; blk = ltv_unhex(f[2], &n);
        hoff[0] = 1; hoff[1] = 0;
        uint32_t hlen = http_header_parse_hoff((char *)blk, (uint32_t)n, hoff);
        if (0 == hlen || hoff[0] <= 1 || hlen > r->conf.max_request_field_size
            || hoff[0] >= sizeof(hoff)/sizeof(hoff[0])-1) { free(blk); return 0; }
        r->rqst_header_len = hlen;
        http_request_headers_process(r, (char *)blk, hoff, con.proto_default_port);
    }
    else if (f[0][0] == '2' && nf == 6) {
        http_header_parse_ctx hpctx;
        memset(&hpctx, 0, sizeof(hpctx));
        hpctx.pseudo = 1;
        hpctx.max_request_field_size = r->conf.max_request_field_size;
        hpctx.http_parseopts = r->conf.http_parseopts;
        r->http_version = HTTP_VERSION_2;
        struct { const char *k; int8_t id; char *hex; } ps[4] = {
            { ":method", HTTP_HEADER_H2_METHOD, f[2] }, { ":scheme", HTTP_HEADER_H2_SCHEME, NULL },
            { ":path", HTTP_HEADER_H2_PATH, f[3] }, { ":authority", HTTP_HEADER_H2_AUTHORITY, f[4] } };
        int st = 0;
        for (int i = 0; i < 4 && 0 == st; ++i) {
            size_t n; unsigned char *v;
            if (ps[i].hex) v = ltv_unhex(ps[i].hex, &n);
            else { v = (unsigned char *)strdup("http"); n = 4; }
            if (0 == n && i == 3) { free(v); continue; }      /* no :authority */
            hpctx.k = (char *)ps[i].k; hpctx.klen = (uint32_t)strlen(ps[i].k);
            hpctx.v = (char *)v; hpctx.vlen = (uint32_t)n;
            hpctx.id = ps[i].id;
            st = http_request_parse_header(r, &hpctx);
            free(v);
        }
        if (0 == st && !(f[5][0] == '-' && f[5][1] == 0)) {
            char *ent[64]; int ne = split(f[5], ';', ent, 64);
            for (int i = 0; i < ne && 0 == st; ++i) {
                char *kv[2];
                if (2 != split(ent[i], ':', kv, 2)) return 0;
                size_t kn, vn;
                unsigned char *k = ltv_unhex(kv[0], &kn), *v = ltv_unhex(kv[1], &vn);
                hpctx.k = (char *)k; hpctx.klen = (uint32_t)kn;
                hpctx.v = (char *)v; hpctx.vlen = (uint32_t)vn;
                hpctx.id = HTTP_HEADER_H2_UNKNOWN;
                st = http_request_parse_header(r, &hpctx);
                free(k); free(v);
            }
        }
        if (0 != st) r->http_status = st;
        else if (hpctx.pseudo)
            r->http_status = http_request_validate_pseudohdrs(r, hpctx.scheme, hpctx.http_parseopts);
        http_request_headers_process_h2(r, con.proto_default_port);
    }
    else return 0;

    const int parsed = (0 == r->http_status);
    handler_t rc = http_response_handler(r);
    printf(" %d,", (HANDLER_GO_ON == rc || HANDLER_FINISHED == rc) ? r->http_status : -(int)rc);
    if (parsed) ltv_puthex(r->uri.path.ptr, buffer_clen(&r->uri.path)); else fputc('-', stdout);
    fputc(',', stdout);
    if (parsed) ltv_puthex(r->pathinfo.ptr, buffer_clen(&r->pathinfo)); else fputc('-', stdout);
    fputc(',', stdout);
    ltv_puthex(r->dst_addr_buf->ptr, buffer_clen(r->dst_addr_buf));
    fputc(',', stdout);
    /* which file (if any) is in the response body: identified by its CONTENT (every file of the
     * tree holds its own canonical path), not by the spelling of the name it was opened under */
    const chunk *c = r->write_queue.first;
    if (c && c->type == FILE_CHUNK && 200 == r->http_status) {
        char fbuf[1024];
        ssize_t fn = (c->file.fd >= 0) ? pread(c->file.fd, fbuf, sizeof(fbuf), 0) : -1;
        if (fn > 0) ltv_puthex(fbuf, (size_t)fn);
        else { fputc('?', stdout); put_below_docroot(c->mem); }
    }
    else fputc('-', stdout);
    free(blk);
    return 1;
}

static void op_srv(void) {
    int sep = -1;
    for (int i = 2; i < ltv_ntok; ++i) if (0 == strcmp(ltv_tok[i], "/")) { sep = i; break; }
    if (sep < 0) { puts("bad-op"); return; }
    size_t len; unsigned char *cfg = ltv_unhex(ltv_tok[1], &len);
    if (!world_init(cfg, len)) { puts("config-error"); free(cfg); world_free(); return; }
    free(cfg);
    char *obuf = NULL; size_t olen = 0;
    FILE *real = stdout;
    FILE *mem = open_memstream(&obuf, &olen);
    stdout = mem;
    printf("%u %d", (unsigned)con.request.conf.http_parseopts,
           (int)con.request.conf.force_lowercase_filenames);
    int ok = 1;
    for (int i = sep + 1; i < ltv_ntok && ok; ++i) ok = run_req(ltv_tok[i]);
    fclose(mem);
    stdout = real;
    if (ok) { fwrite(obuf, 1, olen, stdout); fputc('\n', stdout); }
    else puts("bad-op");
    free(obuf);
    world_free();
}

int main(void) {
    int nullfd = open("/dev/null", O_WRONLY);
    errh = log_set_global_errh(NULL, 0);
    if (nullfd >= 0 && !getenv("LTV_C03_DEBUG")) errh->fd = nullfd;    /* module diagnostics are not part of the observation */
    chunkqueue_set_tempdirs_default(NULL, 0);
    strftime_cache_reset();
    int tree_ok = -1;
    while (ltv_next()) {
        if (ltv_ntok < 1) { puts("bad-op"); continue; }
        const char *op = ltv_tok[0];
        if (0 == strcmp(op, "sfx") || 0 == strcmp(op, "vpfx") || 0 == strcmp(op, "kpfx")
            || 0 == strcmp(op, "ksfx") || 0 == strcmp(op, "poe")) {
            if (ltv_ntok < 2) puts("bad-op"); else op_match();
        }
        else if (0 == strcmp(op, "chk")) op_chk();
        else if (0 == strcmp(op, "lcs") && ltv_ntok == 2) {
            size_t n; unsigned char *v = ltv_unhex(ltv_tok[1], &n);
            buffer *b = buffer_init();
            buffer_copy_string_len_lc(b, (char *)v, n);
            ltv_puthex(b->ptr, buffer_clen(b)); fputc('\n', stdout);
            buffer_free(b); free(v);
        }
        else if ((0 == strcmp(op, "pton") || 0 == strcmp(op, "gai")) && ltv_ntok == 2) {
            size_t n; unsigned char *v = ltv_unhex(ltv_tok[1], &n);
            sock_addr sa; memset(&sa, 0, sizeof(sa));
            int ok;
            if (op[0] == 'p')
                ok = (strlen((char *)v) == n)
                  && (1 == sock_addr_inet_pton(&sa, (char *)v, AF_INET, 0)
                      || 1 == sock_addr_inet_pton(&sa, (char *)v, AF_INET6, 0));
            else {
                sa.plain.sa_family = AF_UNSPEC;
                ok = (strlen((char *)v) == n) && 1 == sock_addr_from_str_numeric(&sa, (char *)v, errh)
                  && sa.plain.sa_family != AF_UNSPEC;
            }
            if (ok && sa.plain.sa_family == AF_INET) { fputs("4 ", stdout); ltv_puthex(&sa.ipv4.sin_addr, 4); fputc('\n', stdout); }
            else if (ok && sa.plain.sa_family == AF_INET6) { fputs("6 ", stdout); ltv_puthex(&sa.ipv6.sin6_addr, 16); fputc('\n', stdout); }
            else puts("none");
            free(v);
        }
        else if (0 == strcmp(op, "utf8") && ltv_ntok == 2) {
            static data_config *dc;
            if (NULL == dc) {
                dc = data_config_init();
                buffer_copy_string_len(&dc->string, CONST_STR_LEN("x*"));
                if (!data_config_pcre_compile(dc, 0, errh)) { puts("pcre-error"); continue; }
              #ifdef HAVE_PCRE2_H
                dc->match_data = pcre2_match_data_create(10, NULL);
              #endif
            }
            buffer *b = hexbuf(ltv_tok[1]);
            static request_st rr;
            printf("%d\n", config_pcre_match(&rr, dc, b) > 0);
            buffer_free(b);
        }
        else if (0 == strcmp(op, "xfa")) op_xfa();
        else if (0 == strcmp(op, "trust")) op_trust();
        else if (0 == strcmp(op, "xff")) op_xff();
        else if (0 == strcmp(op, "srv")) {
            if (tree_ok < 0) tree_ok = tree_init();
            if (!tree_ok) puts("tree-error"); else op_srv();
        }
        else puts("bad-op");
    }
    return 0;
}
