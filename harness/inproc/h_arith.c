/* correspondence harness for C12 (size / overflow arithmetic under ASan+UBSan)
 *
 * One case per line; every input buffer handed to the code under test is an
 * exact-size heap copy, so any over-read/over-write is an ASan report; a
 * sanitizer report kills the process (the runner bisects to the line); an
 * assertion abort (ck_assert_failed -> abort()) is caught and printed as "abort".
 *
 * ops
 *  s64 <hex>                    li_restricted_strtoint64()            -> <rv> <consumed>
 *  ck1 <ms_kB> <bytes_in> <hex> h1_chunked(): one call on a read queue holding <hex>, with
 *                               reqbody_queue.bytes_in preset        -> err <status> | ok te=<n> in=<n> rest=<n> len=<n>
 *  ck2 <hex>                    http_chunk_decode_append_mem(): one call on fresh state
 *                                                                     -> err | ok te=<n> out=<n> done=<0|1>
 *  gwd <maxfield> <prefix> <unit> <count> <suffix>
 *  gws <maxfield> <seg> [<seg> ...]
 *                               http_chunk_decode_append_mem() once per read on ONE decoder state (gwd: reads =
 *                               prefix, then <count> times unit, then suffix; empty pieces skipped); stops at the
 *                               first -1; prints the state after the last successful read and the largest
 *                               gw_dechunk->b length seen after any read (maxh) / while it held no LF (maxp)
 *                               -> rc=<0|-1> n=<reads ok> te=<n> h=<len> done=<0|1> out=<n> maxh=<n> maxp=<n>
 *  h1d <ms_kB> <maxfield> <prefix> <unit> <count> <suffix>
 *  h1s <ms_kB> <maxfield> <seg> [<seg> ...]
 *                               h1_chunked() after every read appended to the read queue, until the body is
 *                               complete; maxrest = largest number of unconsumed bytes left in the read queue
 *                               after any call that did not complete the body
 *                               -> err <status> n=<calls> maxrest=<n> | ok te=<n> in=<n> rest=<n> len=<n> ka=<0|1> n=<calls> maxrest=<n>
 *  hoff <hoff0> <hex>           http_header_parse_hoff() on a heap hoff[8192] (sentinel filled)
 *                                                                     -> <hlen> <hoff0> <maxidx> <fnv32 of hoff[0..maxidx]> <tail clean|dirty>
 *  rng <len> <hex>              http_range_parse() (text after "bytes=") on an exact-size heap ranges[RMAX*2]
 *                                                                     -> <npairs> a-b ...
 *  buf <op>...                  buffer growth on one buffer: p<N> prepare_append, c<N> commit,
 *                               e<N> extend, y<N> prepare_copy, t<N> truncate, x clear, f free_ptr,
 *                               R<N> buffer_realloc(b,N) directly
 *                               -> after every op "<used>/<size>", or "abort" (rest of ops skipped)
 *  ckr <n> <x> <elt>            ck_realloc_u32(&NULL, n, x, elt)       -> ok <bytes> | abort
 */
#include "first.h"
#include "harness_common.h"
#include <fcntl.h>
#include <unistd.h>
#include <signal.h>
#include <setjmp.h>
#include <errno.h>
#include <limits.h>
#include <sys/mman.h>
#include <sys/syscall.h>

/* ---- allocation shim for buffer.c: sizes >= LTV_BIG are address-space only ---- */
#define LTV_BIG ((size_t)1 << 20)
#define LTV_NFAKE 64
static struct { void *p; size_t sz; } ltv_fake[LTV_NFAKE];

static int ltv_fake_idx(const void *p) {
    if (!p) return -1;
    for (int i = 0; i < LTV_NFAKE; ++i) if (ltv_fake[i].p == p) return i;
    return -1;
}
static void ltv_free(void *p) {
    int i = ltv_fake_idx(p);
    if (i < 0) { free(p); return; }
    syscall(SYS_munmap, ltv_fake[i].p, ltv_fake[i].sz);
    ltv_fake[i].p = NULL;
}
static void *ltv_realloc(void *p, size_t sz) {
    if (sz < LTV_BIG && ltv_fake_idx(p) < 0) return realloc(p, sz);
    /* (contents are irrelevant to the arithmetic under test: not copied) */
    size_t msz = (sz + 4095) & ~(size_t)4095;
    if (msz < sz || msz == 0) return NULL;
    void *q = (void *)syscall(SYS_mmap, NULL, msz, PROT_READ|PROT_WRITE,
                              MAP_PRIVATE|MAP_ANONYMOUS|MAP_NORESERVE, -1, 0);
    if (q == MAP_FAILED || (long)q == -1 || (unsigned long)q > (unsigned long)-4096L) return NULL;
    if (p) ltv_free(p);
    for (int i = 0; i < LTV_NFAKE; ++i)
        if (!ltv_fake[i].p) { ltv_fake[i].p = q; ltv_fake[i].sz = msz; return q; }
    syscall(SYS_munmap, q, msz);
    return NULL;
}
#define realloc ltv_realloc
#define free ltv_free
#include "buffer.c"
#undef realloc
#undef free

#include "h1.c"
#include "fdlog.h"
#include "http_chunk.h"
#include "http_header.h"
#include "ck.h"
#include "http_range.c"

static sigjmp_buf ltv_jmp;
static volatile sig_atomic_t ltv_armed;
static volatile sig_atomic_t ltv_partial;
static void on_abort(int sig) {
    (void)sig;
    if (ltv_armed) siglongjmp(ltv_jmp, 1);
    _exit(134);
}

static unsigned char *exact(const unsigned char *s, size_t n) {
    unsigned char *p = malloc(n ? n : 1);
    if (n) memcpy(p, s, n);
    return p;
}

static uint32_t fnv16(const unsigned short *a, size_t n) {
    uint32_t h = 2166136261u;
    for (size_t i = 0; i < n; ++i) {
        h = (h ^ (a[i] & 0xff)) * 16777619u;
        h = (h ^ (a[i] >> 8)) * 16777619u;
    }
    return h;
}

static unsigned long long tok_u64(const char *s) { return strtoull(s, NULL, 10); }

/* the reads of a dribble case: prefix, count x unit, suffix (empty pieces skipped) */
struct ltv_reads { unsigned char *p[3]; size_t n[3]; unsigned long count; };
static size_t reads_total(const struct ltv_reads *rd) {
    return (rd->n[0] ? 1 : 0) + (rd->n[1] ? rd->count : 0) + (rd->n[2] ? 1 : 0);
}
static const unsigned char *reads_get(const struct ltv_reads *rd, size_t i, size_t *len) {
    if (rd->n[0]) { if (i == 0) { *len = rd->n[0]; return rd->p[0]; } --i; }
    if (rd->n[1]) { if (i < rd->count) { *len = rd->n[1]; return rd->p[1]; } i -= rd->count; }
    *len = rd->n[2]; return rd->p[2];
}

int main(void) {
    struct sigaction sa; memset(&sa, 0, sizeof(sa));
    sa.sa_handler = on_abort; sa.sa_flags = SA_NODEFER;
    sigaction(SIGABRT, &sa, NULL);
    int devnull = open("/dev/null", O_WRONLY);

    request_st rq; memset(&rq, 0, sizeof(rq));
    request_st * const r = &rq;
    connection con; memset(&con, 0, sizeof(con));
    r->con = &con;
    r->tmp_buf = buffer_init();
    r->conf.errh = fdlog_init(NULL, devnull, FDLOG_FD);
    chunkqueue_set_tempdirs_default(NULL, 0);
    chunkqueue_init(&r->write_queue);
    chunkqueue_init(&r->read_queue);
    chunkqueue_init(&r->reqbody_queue);

    while (ltv_next()) {
        if (ltv_ntok < 1) { puts("bad-op"); continue; }
        const char *op = ltv_tok[0];
        ltv_armed = 1;
        ltv_partial = 0;
        if (sigsetjmp(ltv_jmp, 1)) { ltv_armed = 0; puts(ltv_partial ? " abort" : "abort"); fflush(stdout); continue; }

        if (0 == strcmp(op, "s64") && ltv_ntok == 2) {
            size_t n; unsigned char *t = ltv_unhex(ltv_tok[1], &n);
            unsigned char *v = exact(t, n); free(t);
            const char *err = NULL;
            int64_t rv = li_restricted_strtoint64((char *)v, (uint32_t)n, &err);
            printf("%lld %lld\n", (long long)rv, (long long)(err - (char *)v));
            free(v);
        }
        else if (0 == strcmp(op, "ck1") && ltv_ntok == 4) {
            r->conf.max_request_size = (unsigned int)tok_u64(ltv_tok[1]);
            r->conf.max_request_field_size = 8192;
            r->x.h1.te_chunked = 0;
            r->reqbody_length = -1;
            r->keep_alive = 1;
            r->http_status = 0;
            r->resp_header_len = 0;
            chunkqueue_reset(&r->read_queue);
            chunkqueue_reset(&r->reqbody_queue);
            r->read_queue.bytes_in = r->read_queue.bytes_out = 0;
            r->reqbody_queue.bytes_out = 0;
            r->reqbody_queue.bytes_in = (off_t)tok_u64(ltv_tok[2]);
            const off_t in0 = r->reqbody_queue.bytes_in;
            size_t n; unsigned char *seg = ltv_unhex(ltv_tok[3], &n);
            if (n) chunkqueue_append_mem(&r->read_queue, (char *)seg, n);
            free(seg);
            handler_t rc = h1_chunked(r, &r->read_queue, &r->reqbody_queue);
            if (rc != HANDLER_GO_ON) printf("err %d\n", r->http_status ? r->http_status : 599);
            else printf("ok te=%lld in=%lld rest=%lld len=%lld\n", (long long)r->x.h1.te_chunked,
                        (long long)(r->reqbody_queue.bytes_in - in0),
                        (long long)chunkqueue_length(&r->read_queue), (long long)r->reqbody_length);
        }
        else if (0 == strcmp(op, "ck2") && ltv_ntok == 2) {
            response_dechunk dc; memset(&dc, 0, sizeof(dc));
            r->gw_dechunk = &dc;
            r->resp_send_chunked = 0;
            r->resp_body_finished = 0;
            r->http_status = 200;
            r->conf.max_request_field_size = 8192;
            chunkqueue_reset(&r->write_queue);
            r->write_queue.bytes_in = r->write_queue.bytes_out = 0;
            size_t n; unsigned char *t = ltv_unhex(ltv_tok[1], &n);
            unsigned char *v = exact(t, n); free(t);
            int rc = http_chunk_decode_append_mem(r, (char *)v, n);
            if (rc != 0) puts("err");
            else printf("ok te=%lld out=%lld done=%d\n", (long long)dc.gw_chunked,
                        (long long)r->write_queue.bytes_in, dc.done ? 1 : 0);
            free(v);
            free(dc.b.ptr);
            r->gw_dechunk = NULL;
        }
        else if ((0 == strcmp(op, "gwd") && ltv_ntok == 6) || (0 == strcmp(op, "gws") && ltv_ntok >= 3)) {
            const int drip = (op[2] == 'd');
            response_dechunk dc; memset(&dc, 0, sizeof(dc));
            r->gw_dechunk = &dc;
            r->resp_send_chunked = 0;
            r->resp_body_finished = 0;
            r->http_status = 200;
            r->conf.max_request_field_size = (unsigned int)tok_u64(ltv_tok[1]);
            chunkqueue_reset(&r->write_queue);
            r->write_queue.bytes_in = r->write_queue.bytes_out = 0;
            struct ltv_reads rd; memset(&rd, 0, sizeof(rd));
            size_t nreads;
            if (drip) {
                rd.p[0] = ltv_unhex(ltv_tok[2], &rd.n[0]);
                rd.p[1] = ltv_unhex(ltv_tok[3], &rd.n[1]);
                rd.count = strtoul(ltv_tok[4], NULL, 10);
                rd.p[2] = ltv_unhex(ltv_tok[5], &rd.n[2]);
                nreads = reads_total(&rd);
            }
            else nreads = (size_t)(ltv_ntok - 2);
            long long s_te = 0, s_out = 0; unsigned s_h = 0, maxh = 0, maxp = 0; int s_done = 0, rc = 0;
            size_t k = 0;
            for (; k < nreads; ++k) {
                size_t n; const unsigned char *src; unsigned char *tmp = NULL;
                if (drip) src = reads_get(&rd, k, &n);
                else { tmp = ltv_unhex(ltv_tok[2 + k], &n); src = tmp; }
                unsigned char *v = exact(src, n);
                free(tmp);
                rc = n ? http_chunk_decode_append_mem(r, (char *)v, n) : 0;
                free(v);
                if (rc != 0) break;
                s_te = (long long)dc.gw_chunked; s_out = (long long)r->write_queue.bytes_in;
                s_h = buffer_clen(&dc.b); s_done = dc.done ? 1 : 0;
                if (s_h > maxh) maxh = s_h;
                if (s_h > maxp && (0 == s_h || NULL == memchr(dc.b.ptr, '\n', s_h))) maxp = s_h;
            }
            printf("rc=%d n=%zu te=%lld h=%u done=%d out=%lld maxh=%u maxp=%u\n", rc ? -1 : 0, k, s_te, s_h,
                   s_done, s_out, maxh, maxp);
            if (drip) { free(rd.p[0]); free(rd.p[1]); free(rd.p[2]); }
            free(dc.b.ptr);
            r->gw_dechunk = NULL;
        }
        else if ((0 == strcmp(op, "h1d") && ltv_ntok == 7) || (0 == strcmp(op, "h1s") && ltv_ntok >= 4)) {
            const int drip = (op[2] == 'd');
            r->conf.max_request_size = (unsigned int)tok_u64(ltv_tok[1]);
            r->conf.max_request_field_size = (unsigned int)tok_u64(ltv_tok[2]);
            r->x.h1.te_chunked = 0;
            r->reqbody_length = -1;
            r->keep_alive = 1;
            r->http_status = 0;
            r->resp_header_len = 0;
            chunkqueue_reset(&r->read_queue);
            chunkqueue_reset(&r->reqbody_queue);
            r->read_queue.bytes_in = r->read_queue.bytes_out = 0;
            r->reqbody_queue.bytes_in = r->reqbody_queue.bytes_out = 0;
            struct ltv_reads rd; memset(&rd, 0, sizeof(rd));
            size_t nreads;
            if (drip) {
                rd.p[0] = ltv_unhex(ltv_tok[3], &rd.n[0]);
                rd.p[1] = ltv_unhex(ltv_tok[4], &rd.n[1]);
                rd.count = strtoul(ltv_tok[5], NULL, 10);
                rd.p[2] = ltv_unhex(ltv_tok[6], &rd.n[2]);
                nreads = reads_total(&rd);
            }
            else nreads = (size_t)(ltv_ntok - 3);
            long long maxrest = 0; int err = 0; size_t k = 0;
            for (; k < nreads && r->reqbody_length < 0; ) {
                size_t n; const unsigned char *src; unsigned char *tmp = NULL;
                if (drip) src = reads_get(&rd, k, &n);
                else { tmp = ltv_unhex(ltv_tok[3 + k], &n); src = tmp; }
                ++k;
                if (n) chunkqueue_append_mem(&r->read_queue, (const char *)src, n);
                free(tmp);
                chunkqueue_remove_finished_chunks(&r->read_queue);
                handler_t hrc = h1_chunked(r, &r->read_queue, &r->reqbody_queue);
                if (hrc != HANDLER_GO_ON) { err = r->http_status ? r->http_status : 599; break; }
                chunkqueue_remove_finished_chunks(&r->read_queue);
                if (r->reqbody_length < 0 && chunkqueue_length(&r->read_queue) > maxrest)
                    maxrest = chunkqueue_length(&r->read_queue);
            }
            if (err) printf("err %d n=%zu maxrest=%lld\n", err, k, maxrest);
            else printf("ok te=%lld in=%lld rest=%lld len=%lld ka=%d n=%zu maxrest=%lld\n", (long long)r->x.h1.te_chunked,
                        (long long)r->reqbody_queue.bytes_in, (long long)chunkqueue_length(&r->read_queue),
                        (long long)r->reqbody_length, r->keep_alive ? 1 : 0, k, maxrest);
            if (drip) { free(rd.p[0]); free(rd.p[1]); free(rd.p[2]); }
        }
        else if (0 == strcmp(op, "hoff") && ltv_ntok == 3) {
            size_t n; unsigned char *t = ltv_unhex(ltv_tok[2], &n);
            unsigned char *v = exact(t, n); free(t);
            unsigned short *hoff = malloc(8192 * sizeof(unsigned short));
            for (int i = 0; i < 8192; ++i) hoff[i] = 0xFFFF;
            hoff[0] = (unsigned short)tok_u64(ltv_tok[1]);
            hoff[1] = 0;
            uint32_t hlen = http_header_parse_hoff((char *)v, (uint32_t)n, hoff);
            size_t maxidx = hlen ? (size_t)hoff[0] + 1 : (size_t)hoff[0];
            if (maxidx > 8191) maxidx = 8191;
            int dirty = 0;
            for (size_t i = maxidx + 1; i < 8192; ++i) if (hoff[i] != 0xFFFF) dirty = 1;
            printf("%u %u %zu %u %s\n", hlen, (unsigned)hoff[0], maxidx, fnv16(hoff, maxidx + 1),
                   dirty ? "dirty" : "clean");
            free(hoff); free(v);
        }
        else if (0 == strcmp(op, "rng") && ltv_ntok == 3) {
            size_t n; unsigned char *h = ltv_unhex(ltv_tok[2], &n);
            size_t sl = strlen((char *)h);
            char *s = malloc(sl + 1); memcpy(s, h, sl + 1); free(h);
            long long len = strtoll(ltv_tok[1], NULL, 10);
            if (len <= 0) { puts("bad-op"); free(s); continue; }
            off_t *ranges = malloc(RMAX * 2 * sizeof(off_t));
            int np = http_range_parse(s, (off_t)len, ranges);
            printf("%d", np / 2);
            for (int i = 0; i + 1 < np; i += 2)
                printf(" %lld-%lld", (long long)ranges[i], (long long)ranges[i+1]);
            fputc('\n', stdout);
            free(ranges); free(s);
        }
        else if (0 == strcmp(op, "buf") && ltv_ntok >= 2) {
            static buffer *b;
            if (b) { ltv_free(b->ptr); b->ptr = NULL; b->used = b->size = 0; }
            else b = buffer_init();
            for (int i = 1; i < ltv_ntok; ++i) {
                const char k = ltv_tok[i][0];
                const size_t N = (size_t)tok_u64(ltv_tok[i] + 1);
                switch (k) {
                  case 'p': buffer_string_prepare_append(b, N); break;
                  case 'c': buffer_commit(b, N); break;
                  case 'e': buffer_extend(b, N); break;
                  case 'y': buffer_string_prepare_copy(b, N); break;
                  case 't': buffer_truncate(b, (uint32_t)N); break;
                  case 'x': buffer_clear(b); break;
                  case 'f': { char *p = b->ptr; b->ptr = NULL; b->used = b->size = 0; ltv_free(p); break; }
                  case 'R': buffer_realloc(b, N); break;
                  default: break;
                }
                printf("%s%u/%u", i > 1 ? " " : "", b->used, b->size);
                ltv_partial = 1;
            }
            fputc('\n', stdout);
        }
        else if (0 == strcmp(op, "ckr") && ltv_ntok == 4) {
            void *list = NULL;
            size_t nn = (size_t)tok_u64(ltv_tok[1]), x = (size_t)tok_u64(ltv_tok[2]),
                   e = (size_t)tok_u64(ltv_tok[3]);
            ck_realloc_u32(&list, nn, x, e);
            printf("ok %llu\n", (unsigned long long)((nn + x) * e));
            free(list);
        }
        else puts("bad-op");
        ltv_armed = 0;
        fflush(stdout);
    }
    return 0;
}
