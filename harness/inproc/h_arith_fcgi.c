/* C12 harness, shared scratch buffer: histories over the ONE server-wide srv->tmp_buf that
 * h2.c sizes in h2_init_con() and later relies on (force_assert(tb->size >= ...) in the HPACK
 * encode/decode paths), interleaved with another module that uses the same buffer as scratch:
 * mod_fastcgi.c:fcgi_recv_parse_loop() (#included for the statics) fed FastCGI records for a
 * request of ANOTHER (HTTP/1.1) client.  Real h2_init_con / h2_parse_frames / h2_retire_con from
 * the sanitized library; no sockets.
 *
 *  tmpb <step> [<step> ...]
 *     I          open an HTTP/2 connection (client preface supplied, h2_init_con)
 *     X          retire it
 *     Q          one complete HEADERS frame (GET, END_HEADERS|END_STREAM, next odd stream id) appended to the
 *                read queue of the h2 connection, h2_parse_frames()  [HPACK decode uses r->tmp_buf]
 *     E<n>:<p>   FCGI_STDERR record, n content octets + p padding octets -> fcgi_recv_parse_loop()
 *     O<n>:<p>   FCGI_STDOUT record (response head already complete)     -> fcgi_recv_parse_loop()
 *   -> tb=<srv->tmp_buf->size after each step, comma separated> used=<final used>
 *      or "abort" (force_assert / ck_assert) — steps are not continued after an abort
 */
#include "first.h"
#include "harness_common.h"
#include <fcntl.h>
#include <unistd.h>
#include <signal.h>
#include <setjmp.h>

#define plugin_data ltv_h2_plugin_data   /* both files define a file-local plugin_data */
#include "h2.c"
#undef plugin_data
#include "mod_fastcgi.c"
#include "base.h"
#include "request.h"
#include "burl.h"
#include "http_header.h"
#include "log.h"
#include "chunk.h"
#include "h2.h"
#include "fdlog.h"
#include "reqpool.h"
#include "plugin.h"

static sigjmp_buf ltv_jmp;
static volatile sig_atomic_t ltv_armed;
static void on_abort(int sig) { (void)sig; if (ltv_armed) siglongjmp(ltv_jmp, 1); _exit(134); }

static server srv;
static connection con;      /* the HTTP/2 client */
static connection con1;     /* an HTTP/1.1 client whose request is served by the FastCGI backend */
static request_config defconf;
static handler_ctx *hctx;
static uint32_t next_sid;

static int nr(connection *c, chunkqueue *cq, off_t max) { (void)c; (void)cq; (void)max; return 0; }
static int nw(connection *c, chunkqueue *cq, off_t max) {
    (void)c; (void)max;
    chunkqueue_mark_written(cq, chunkqueue_length(cq));
    return 0;
}

static void con_setup(connection *c) {
    memset(c, 0, sizeof(*c));
    c->srv = &srv;
    c->plugin_slots = calloc(256, sizeof(uint16_t));
    c->plugin_ctx = calloc(8, sizeof(void *));
    c->fd = -1;
    c->proto_default_port = 80;
    buffer_copy_string_len(&c->dst_addr_buf, CONST_STR_LEN("127.0.0.1"));
    request_init_data(&c->request, c, &srv);
    c->read_queue = &c->request.read_queue;
    c->write_queue = &c->request.write_queue;
    c->network_read = nr;
    c->network_write = nw;
}

static void h2_begin(void) {
    request_st * const h2r = &con.request;
    chunkqueue_reset(con.read_queue);
    chunkqueue_reset(con.write_queue);
    con.read_queue->bytes_in = con.read_queue->bytes_out = 0;
    con.write_queue->bytes_in = con.write_queue->bytes_out = 0;
    con.request_count = 0;
    h2r->state = CON_STATE_READ;
    h2r->http_version = HTTP_VERSION_2;
    chunkqueue_append_mem(con.read_queue, CONST_STR_LEN("PRI * HTTP/2.0\r\n\r\nSM\r\n\r\n"));
    h2_init_con(h2r, &con);
    chunkqueue_reset(con.write_queue);
    next_sid = 1;
}

static void h2_end(void) {
    request_st * const h2r = &con.request;
    if (con.hx) {
        h2con * const h2c = (h2con *)con.hx;
        for (uint32_t i = 0; i < h2c->rused; ++i) h2c->r[i]->http_status = 0; /*(no request_done hooks)*/
        h2r->state = CON_STATE_ERROR;
        h2_retire_con(h2r, &con);
    }
    chunkqueue_reset(con.read_queue);
    chunkqueue_reset(con.write_queue);
}

static void h2_headers(void) {
    /* SETTINGS (first time) is not required by h2_parse_frames for HEADERS to be decoded */
    unsigned char f[9 + 6] = { 0, 0, 6, 0x01, 0x05, 0, 0, 0, 0,  0x82, 0x86, 0x84, 0x41, 0x01, 0x61 };
    f[5] = (unsigned char)(next_sid >> 24); f[6] = (unsigned char)(next_sid >> 16);
    f[7] = (unsigned char)(next_sid >> 8);  f[8] = (unsigned char)next_sid;
    next_sid += 2;
    chunkqueue_append_mem(con.read_queue, (char *)f, sizeof(f));
    h2_parse_frames(&con);
    chunkqueue_reset(con.write_queue);
}

static void fcgi_record(int type, unsigned n, unsigned pad) {
    request_st * const r = &con1.request;
    const size_t tot = 8 + (size_t)n + pad;
    unsigned char *rec = malloc(tot);
    rec[0] = 1; rec[1] = (unsigned char)type; rec[2] = 0; rec[3] = 1;
    rec[4] = (unsigned char)(n >> 8); rec[5] = (unsigned char)n; rec[6] = (unsigned char)pad; rec[7] = 0;
    for (unsigned i = 0; i < n; ++i) rec[8 + i] = (unsigned char)("backend says: hello\n"[i % 20]);
    memset(rec + 8 + n, 0, pad);
    chunkqueue_append_mem(hctx->rb, (char *)rec, tot);
    free(rec);
    r->resp_body_started = 1;
    r->http_status = 200;
    (void)fcgi_recv_parse_loop(r, hctx);
    chunkqueue_reset(&r->write_queue);
    chunkqueue_reset(hctx->rb);
}

int main(void) {
    struct sigaction sa; memset(&sa, 0, sizeof(sa));
    sa.sa_handler = on_abort; sa.sa_flags = SA_NODEFER;
    sigaction(SIGABRT, &sa, NULL);
    int devnull = open("/dev/null", O_WRONLY);

    memset(&srv, 0, sizeof(srv));
    srv.config_context = array_init(1);
    srv.tmp_buf = buffer_init();
    srv.errh = fdlog_init(NULL, devnull, FDLOG_FD);
    log_set_global_errh(srv.errh, 0);
    memset(&defconf, 0, sizeof(defconf));
    defconf.errh = srv.errh;
    defconf.max_request_field_size = 8192;
    defconf.http_parseopts = HTTP_PARSEOPT_HEADER_STRICT | HTTP_PARSEOPT_HOST_STRICT
                           | HTTP_PARSEOPT_HOST_NORMALIZE | HTTP_PARSEOPT_URL_NORMALIZE
                           | HTTP_PARSEOPT_URL_NORMALIZE_UNRESERVED
                           | HTTP_PARSEOPT_URL_NORMALIZE_CTRLS_REJECT
                           | HTTP_PARSEOPT_URL_NORMALIZE_PATH_2F_DECODE
                           | HTTP_PARSEOPT_URL_NORMALIZE_PATH_DOTSEG_REMOVE;
    defconf.h2proto = 2;
    defconf.max_keep_alive_idle = 5;
    request_config_set_defaults(&defconf);
    chunkqueue_set_tempdirs_default(NULL, 0);
    log_epoch_secs = 1700000000;
    log_monotonic_secs = 1000;

    con_setup(&con);
    con_setup(&con1);
    con1.request.http_version = HTTP_VERSION_1_1;
    con1.request.conf.errh = srv.errh;

    hctx = calloc(1, sizeof(*hctx));
    hctx->r = &con1.request;
    hctx->con = &con1;
    hctx->rb = chunkqueue_init(NULL);
    hctx->request_id = 1;
    hctx->send_content_body = 1;
    hctx->gw_mode = GW_RESPONDER;
    hctx->opts.backend = BACKEND_FASTCGI;
    hctx->opts.pdata = hctx;

    while (ltv_next()) {
        if (ltv_ntok < 2 || 0 != strcmp(ltv_tok[0], "tmpb")) { puts("bad-op"); fflush(stdout); continue; }
        /* every case starts from the state of a freshly started server */
        if (con.hx) h2_end();
        buffer_free_ptr(srv.tmp_buf);   /*(same object: pooled request_st keep the pointer)*/
        ltv_armed = 1;
        if (sigsetjmp(ltv_jmp, 1)) {
            ltv_armed = 0; puts("abort"); fflush(stdout);
            con.hx = NULL;
            chunkqueue_reset(con.read_queue); chunkqueue_reset(con.write_queue);
            chunkqueue_reset(hctx->rb); chunkqueue_reset(&con1.request.write_queue);
            continue;
        }
        int bad = 0;
        char line[8192]; size_t ll = 0;
        for (int i = 1; i < ltv_ntok && !bad; ++i) {
            const char *s = ltv_tok[i];
            unsigned n = 0, p = 0;
            switch (s[0]) {
              case 'I': if (con.hx) h2_end(); h2_begin(); break;
              case 'X': h2_end(); break;
              case 'Q': if (!con.hx) { bad = 1; break; } h2_headers(); break;
              case 'E': case 'O':
                if (2 != sscanf(s + 1, "%u:%u", &n, &p) || n > 65535 || p > 255) { bad = 1; break; }
                fcgi_record(s[0] == 'E' ? FCGI_STDERR : FCGI_STDOUT, n, p);
                break;
              default: bad = 1; break;
            }
            if (ll + 16 < sizeof(line))
                ll += (size_t)snprintf(line + ll, sizeof(line) - ll, "%s%u", i > 1 ? "," : "", (unsigned)srv.tmp_buf->size);
        }
        ltv_armed = 0;
        if (bad) puts("bad-op");
        else printf("tb=%s used=%u\n", line, (unsigned)srv.tmp_buf->used);
        fflush(stdout);
    }
    return 0;
}
