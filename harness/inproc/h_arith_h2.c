/* C12 harness, HTTP/2 side: the real h2.c frame parser driven in-process under
 * ASan+UBSan with scripted input (no sockets).
 *
 * ops (frames hex-encoded; every frame buffer handed over is exact-size heap memory)
 *  h2f <maxfield> <seg> [<seg> ...]
 *        fresh connection (client preface supplied by the harness), segments appended to the
 *        read queue one by one, h2_parse_frames() after each
 *        -> goaway=<code|-> cid=<n> rused=<n> fsize=<n> disc=<n> s=<id:h2state:status:reqlen:bodyin,...> wq=<bytes queued>:<fnv32>
 *           rq=<largest number of bytes left in the read queue after any h2_parse_frames() call that was
 *               not stopped by GOAWAY or by a full write queue>
 *  h2c <fsize> <hex>
 *        h2_recv_continuation(9+flen(first frame), clen, cqlen, cq, con) on a read queue that
 *        holds <hex> in one chunk  -> ret=<n> flen=<merged u24> pad=<s[9] if PADDED> goaway=<code|-> clen=<n> bytes=<fnv32 of the chunk afterwards>
 *  h2h <cid> <goaway> <hex frame>
 *        h2_recv_headers(con, s, flen) directly (flen from the frame header; frame is the whole
 *        buffer)  -> rc=<n> goaway=<code|-> rused=<n> disc=<n>
 *  h2d <hex frame>
 *        one open stream id 1 (reqbody_length -1), frame in the read queue, h2_recv_data()
 *        -> rc=<n> goaway=<code|-> in=<reqbody bytes> rest=<read queue length>
 *  prio <hex>   h2_parse_priority_update() -> <u8>
 */
#include "first.h"
#include "harness_common.h"
#include <fcntl.h>
#include <unistd.h>
#include <signal.h>
#include <setjmp.h>

#include "h2.c"
#include "fdlog.h"
#include "reqpool.h"
#include "plugin.h"
#include "burl.h"

static sigjmp_buf ltv_jmp;
static volatile sig_atomic_t ltv_armed;
static void on_abort(int sig) { (void)sig; if (ltv_armed) siglongjmp(ltv_jmp, 1); _exit(134); }

static server srv;
static connection con;
static request_config defconf;

static int nr(connection *c, chunkqueue *cq, off_t max) { (void)c; (void)cq; (void)max; return 0; }
static int nw(connection *c, chunkqueue *cq, off_t max) {
    (void)c; (void)max;
    chunkqueue_mark_written(cq, chunkqueue_length(cq));
    return 0;
}

static uint32_t fnv_cq(const chunkqueue *cq, off_t *total) {
    uint32_t h = 2166136261u; off_t t = 0;
    for (const chunk *c = cq->first; c; c = c->next) {
        if (c->type != MEM_CHUNK) continue;
        const unsigned char *p = (unsigned char *)c->mem->ptr + c->offset;
        size_t n = buffer_clen(c->mem) - (size_t)c->offset;
        for (size_t i = 0; i < n; ++i) h = (h ^ p[i]) * 16777619u;
        t += (off_t)n;
    }
    *total = t;
    return h;
}

static void con_begin(uint32_t maxfield) {
    request_st * const h2r = &con.request;
    defconf.max_request_field_size = maxfield;
    h2r->conf.max_request_field_size = maxfield;
    chunkqueue_reset(con.read_queue);
    chunkqueue_reset(con.write_queue);
    con.read_queue->bytes_in = con.read_queue->bytes_out = 0;
    con.write_queue->bytes_in = con.write_queue->bytes_out = 0;
    con.request_count = 0;
    h2r->state = CON_STATE_READ;
    h2r->http_version = HTTP_VERSION_2;
    chunkqueue_append_mem(con.read_queue, CONST_STR_LEN("PRI * HTTP/2.0\r\n\r\nSM\r\n\r\n"));
    h2_init_con(h2r, &con);
    chunkqueue_reset(con.write_queue);   /* drop our own SETTINGS: only reactions are observed */
    con.write_queue->bytes_in = con.write_queue->bytes_out = 0;
}

static void con_end(void) {
    request_st * const h2r = &con.request;
    if (con.hx) {
        h2con * const h2c = (h2con *)con.hx;
        for (uint32_t i = 0; i < h2c->rused; ++i) h2c->r[i]->http_status = 0; /*(no request_done hooks)*/
        h2r->state = CON_STATE_ERROR;
        h2_retire_con(h2r, &con);
    }
    chunkqueue_reset(con.read_queue);
    chunkqueue_reset(con.write_queue);
}

static void put_goaway(const h2con *h2c) {
    if (h2c->sent_goaway) printf("goaway=%d", h2c->sent_goaway); else fputs("goaway=-", stdout);
}

/* put bytes into the read queue as ONE exact-size chunk */
static void rq_set_exact(const unsigned char *p, size_t n) {
    chunkqueue * const cq = con.read_queue;
    chunkqueue_reset(cq);
    cq->bytes_in = cq->bytes_out = 0;
    buffer *b = chunkqueue_append_buffer_open_sz(cq, n + 1);
    /* replace the (rounded-up) allocation by an exact one so ASan sees every over-read */
    free(b->ptr);
    b->ptr = malloc(n + 1);
    b->size = (uint32_t)(n + 1);
    memcpy(b->ptr, p, n);
    b->ptr[n] = '\0';
    b->used = (uint32_t)(n + 1);
    chunkqueue_append_buffer_commit(cq);
}

int main(void) {
    struct sigaction sa; memset(&sa, 0, sizeof(sa));
    sa.sa_handler = on_abort; sa.sa_flags = SA_NODEFER;
    sigaction(SIGABRT, &sa, NULL);
    int devnull = open("/dev/null", O_WRONLY);

    memset(&srv, 0, sizeof(srv));
    srv.config_context = array_init(1);
    srv.tmp_buf = buffer_init();
    srv.errh = fdlog_init(NULL, devnull, FDLOG_FD);
    log_set_global_errh(srv.errh, 0);
    memset(&defconf, 0, sizeof(defconf));
    defconf.errh = srv.errh;
    defconf.max_request_field_size = 8192;
    defconf.http_parseopts = HTTP_PARSEOPT_HEADER_STRICT | HTTP_PARSEOPT_HOST_STRICT
                           | HTTP_PARSEOPT_HOST_NORMALIZE | HTTP_PARSEOPT_URL_NORMALIZE
                           | HTTP_PARSEOPT_URL_NORMALIZE_UNRESERVED
                           | HTTP_PARSEOPT_URL_NORMALIZE_CTRLS_REJECT
                           | HTTP_PARSEOPT_URL_NORMALIZE_PATH_2F_DECODE
                           | HTTP_PARSEOPT_URL_NORMALIZE_PATH_DOTSEG_REMOVE;
    defconf.h2proto = 2;
    defconf.max_keep_alive_idle = 5;
    request_config_set_defaults(&defconf);
    chunkqueue_set_tempdirs_default(NULL, 0);

    memset(&con, 0, sizeof(con));
    con.srv = &srv;
    con.plugin_slots = calloc(256, sizeof(uint16_t));
    con.plugin_ctx = calloc(8, sizeof(void *));
    con.fd = -1;
    con.proto_default_port = 80;
    buffer_copy_string_len(&con.dst_addr_buf, CONST_STR_LEN("127.0.0.1"));
    request_init_data(&con.request, &con, &srv);
    con.read_queue = &con.request.read_queue;
    con.write_queue = &con.request.write_queue;
    con.network_read = nr;
    con.network_write = nw;
    log_epoch_secs = 1700000000;
    log_monotonic_secs = 1000;

    while (ltv_next()) {
        if (ltv_ntok < 1) { puts("bad-op"); continue; }
        const char *op = ltv_tok[0];
        ltv_armed = 1;
        if (sigsetjmp(ltv_jmp, 1)) { ltv_armed = 0; puts("abort"); fflush(stdout); con.hx = NULL; continue; }

        if (0 == strcmp(op, "h2f") && ltv_ntok >= 3) {
            con_begin((uint32_t)atoi(ltv_tok[1]));
            h2con * const h2c = (h2con *)con.hx;
            off_t rqmax = 0;
            for (int i = 2; i < ltv_ntok; ++i) {
                size_t n; unsigned char *seg = ltv_unhex(ltv_tok[i], &n);
                if (n) chunkqueue_append_mem(con.read_queue, (char *)seg, n);
                free(seg);
                if (h2c->sent_goaway > 0) continue;
                h2_parse_frames(&con);
                if (0 == h2c->sent_goaway && chunkqueue_length(con.write_queue) <= 65536
                    && chunkqueue_length(con.read_queue) > rqmax)
                    rqmax = chunkqueue_length(con.read_queue);
            }
            put_goaway(h2c);
            printf(" cid=%u rused=%u fsize=%u disc=%u s=", h2c->h2_cid, h2c->rused, h2c->s_max_frame_size,
                   (unsigned)h2c->n_discarded_headers);
            if (0 == h2c->rused) fputc('-', stdout);
            for (uint32_t i = 0; i < h2c->rused; ++i) {
                const request_st * const r = h2c->r[i];
                printf("%s%u:%d:%d:%lld:%lld", i ? "," : "", r->x.h2.id, (int)r->x.h2.state, r->http_status,
                       (long long)r->reqbody_length, (long long)r->reqbody_queue.bytes_in);
            }
            off_t tot; uint32_t h = fnv_cq(con.write_queue, &tot);
            printf(" wq=%lld:%u rq=%lld\n", (long long)tot, h, (long long)rqmax);
            con_end();
        }
        else if (0 == strcmp(op, "h2c") && ltv_ntok == 3) {
            con_begin(8192);
            h2con * const h2c = (h2con *)con.hx;
            h2c->s_max_frame_size = (uint32_t)strtoul(ltv_tok[1], NULL, 10);
            size_t n; unsigned char *t = ltv_unhex(ltv_tok[2], &n);
            if (n < 9) { puts("bad-op"); free(t); con_end(); continue; }
            rq_set_exact(t, n);
            const uint32_t flen = h2_u24(t);
            const int padded = t[4] & H2_FLAG_PADDED;
            free(t);
            if ((off_t)(9 + flen) > (off_t)n) { puts("bad-op"); con_end(); continue; }
            uint32_t ret = h2_recv_continuation(9 + flen, (uint32_t)n, (off_t)n, con.read_queue, &con);
            const chunk * const c = con.read_queue->first;
            const uint8_t * const s = (uint8_t *)(c->mem->ptr + c->offset);
            printf("ret=%u flen=%u pad=%d ", ret, h2_u24(s), padded && flen ? (int)s[9] : -1);
            put_goaway(h2c);
            {
                const uint32_t cl = buffer_clen(c->mem) - (uint32_t)c->offset;
                uint32_t hh = 2166136261u;
                for (uint32_t i = 0; i < cl; ++i) hh = (hh ^ s[i]) * 16777619u;
                printf(" clen=%u bytes=%u\n", (unsigned)cl, hh);
            }
            con_end();
        }
        else if (0 == strcmp(op, "h2h") && ltv_ntok == 4) {
            con_begin(65535);
            h2con * const h2c = (h2con *)con.hx;
            h2c->h2_cid = (uint32_t)strtoul(ltv_tok[1], NULL, 10);
            h2c->sent_goaway = atoi(ltv_tok[2]);
            size_t n; unsigned char *t = ltv_unhex(ltv_tok[3], &n);
            if (n < 9) { puts("bad-op"); free(t); con_end(); continue; }
            /* like every chunk buffer, the frame is followed by a NUL terminator */
            uint8_t *s = malloc(n + 1); memcpy(s, t, n); s[n] = 0; free(t);
            uint32_t flen = (uint32_t)(n - 9);
            int rc = h2_recv_headers(&con, s, flen);
            printf("rc=%d ", rc);
            put_goaway(h2c);
            printf(" rused=%u disc=%u\n", h2c->rused, (unsigned)h2c->n_discarded_headers);
            free(s);
            con_end();
        }
        else if (0 == strcmp(op, "h2d") && ltv_ntok == 2) {
            con_begin(8192);
            h2con * const h2c = (h2con *)con.hx;
            request_st * const r = h2_init_stream(&con.request, &con);
            r->x.h2.id = 1;
            r->x.h2.state = H2_STATE_OPEN;
            r->state = CON_STATE_READ_POST;
            r->reqbody_length = -1;
            h2c->h2_cid = 1;
            size_t n; unsigned char *t = ltv_unhex(ltv_tok[1], &n);
            if (n < 9) { puts("bad-op"); free(t); con_end(); continue; }
            rq_set_exact(t, n);
            free(t);
            const chunk * const c = con.read_queue->first;
            const uint8_t * const s = (uint8_t *)(c->mem->ptr + c->offset);
            int rc = h2_recv_data(&con, s, (uint32_t)(n - 9));
            printf("rc=%d ", rc);
            put_goaway(h2c);
            printf(" in=%lld rest=%lld st=%d\n", (long long)r->reqbody_queue.bytes_in,
                   (long long)chunkqueue_length(con.read_queue), (int)r->x.h2.state);
            con_end();
        }
        else if (0 == strcmp(op, "prio") && ltv_ntok == 2) {
            size_t n; unsigned char *t = ltv_unhex(ltv_tok[1], &n);
            char *v = malloc(n ? n : 1); if (n) memcpy(v, t, n); free(t);
            printf("%u\n", (unsigned)h2_parse_priority_update(v, (uint32_t)n));
            free(v);
        }
        else puts("bad-op");
        ltv_armed = 0;
        fflush(stdout);
    }
    return 0;
}
