/* C12 harness, malformed-input exploration of the pure parsers under ASan+UBSan:
 * HTTP-date, ETag lists, Forwarded (mod_extforward), Digest Authorization parameters (mod_auth).
 * Every input string handed to the code is an exact-size NUL-terminated heap copy (these
 * parsers take C strings / lighttpd buffers, which are always NUL-terminated).
 *
 * ops
 *  date <now> <hex>         http_date_str_to_tm() + timegm, http_date_if_modified_since(.., now)
 *                             -> null | <t> <ims>
 *  dfmt <t>                 http_date_time_to_str() into an exact 30-byte heap buffer -> hex | -
 *  etag <weak_ok> <etag> <hdr>  http_etag_matches()  -> 0|1
 *  fwd <opts> <trusted,...|-> <hex Forwarded value>
 *                           mod_extforward_Forwarded() with extforward.forwarder = trusted list
 *                             -> rc=<n> st=<status> addr=<hex> scheme=<hex> host=<hex|~> user=<hex|~>
 *  xff <trusted,...|-> <hex X-Forwarded-For value>   mod_extforward_X_Forwarded_For()
 *                             -> rc=<n> addr=<hex>
 *  dig <now> <secret hex|~> <hex text after "Digest ">
 *                           mod_auth_digest_parse_authorization(), then (as mod_auth_check_digest does)
 *                           mod_auth_digest_validate_params() and mod_auth_digest_validate_nonce()
 *                             -> p=<mask of parameters found> v=<rc>:<status> [n=<rc>:<status>]
 */
#include "first.h"
#include "harness_common.h"
#include <fcntl.h>
#include <unistd.h>
#include <signal.h>
#include <setjmp.h>
#include <time.h>

#include "base.h"
#include "buffer.h"
#include "log.h"
#include "fdlog.h"
#include "request.h"
#include "http_header.h"
#include "http_etag.h"
#include "burl.h"
#include "http_date.c"

#define plugin_config xf_plugin_config
#define plugin_data   xf_plugin_data
#define handler_ctx   xf_handler_ctx
#define handler_ctx_init xf_handler_ctx_init
#define handler_ctx_free xf_handler_ctx_free
#include "mod_extforward.c"
#undef plugin_config
#undef plugin_data
#undef handler_ctx
#undef handler_ctx_init
#undef handler_ctx_free

#include "mod_auth.c"

static sigjmp_buf ltv_jmp;
static volatile sig_atomic_t ltv_armed;
static void on_abort(int sig) { (void)sig; if (ltv_armed) siglongjmp(ltv_jmp, 1); _exit(134); }

/* lighttpd buffer with an exact-size allocation: ptr[n] = NUL, size = used = n+1 */
static void exact_buf(buffer *b, const char *tok) {
    size_t n; unsigned char *t = ltv_unhex(tok, &n);
    size_t sl = strlen((char *)t);          /* header values cannot contain NUL */
    b->ptr = malloc(sl + 1);
    memcpy(b->ptr, t, sl); b->ptr[sl] = '\0';
    b->used = (uint32_t)(sl + 1);
    b->size = (uint32_t)(sl + 1);
    free(t);
}

static void put_buf(const buffer *b) {
    if (!b) { fputc('~', stdout); return; }
    ltv_puthex(b->ptr, buffer_clen(b));
}

static void set_trusted(array *a, char *list) {
    array_reset_data_strings(a);
    if (list[0] == '-' && list[1] == 0) return;
    char *save = NULL;
    for (char *t = strtok_r(list, ",", &save); t; t = strtok_r(NULL, ",", &save))
        array_set_key_value(a, t, strlen(t), CONST_STR_LEN("trust"));
}

int main(void) {
    struct sigaction sa; memset(&sa, 0, sizeof(sa));
    sa.sa_handler = on_abort; sa.sa_flags = SA_NODEFER;
    sigaction(SIGABRT, &sa, NULL);
    int devnull = open("/dev/null", O_WRONLY);

    static server srv;
    static connection con;
    request_st * const r = &con.request;
    con.srv = &srv;
    con.plugin_ctx = calloc(8, sizeof(void *));
    r->con = &con;
    r->tmp_buf = buffer_init();
    r->conf.errh = fdlog_init(NULL, devnull, FDLOG_FD);
    r->plugin_ctx = calloc(8, sizeof(void *));
    r->dst_addr = &con.dst_addr;
    r->dst_addr_buf = &con.dst_addr_buf;
    buffer_copy_string_len(&con.dst_addr_buf, CONST_STR_LEN("10.0.0.1"));
    r->conf.http_parseopts = HTTP_PARSEOPT_HOST_STRICT | HTTP_PARSEOPT_HOST_NORMALIZE;

    static xf_plugin_data xp;
    xp.id = 1;
    array *trusted = array_init(4);
    xp.conf.forwarder = trusted;

    static http_auth_require_t req;
    static buffer realm, secret;
    buffer_copy_string_len(&realm, CONST_STR_LEN("realm"));
    req.realm = &realm;
    req.algorithm = HTTP_AUTH_DIGEST_MD5 | HTTP_AUTH_DIGEST_SHA256 | HTTP_AUTH_DIGEST_SESS;
    array_set_key_value(&req.user, CONST_STR_LEN("u"), CONST_STR_LEN("u"));

    while (ltv_next()) {
        if (ltv_ntok < 1) { puts("bad-op"); continue; }
        const char *op = ltv_tok[0];
        ltv_armed = 1;
        if (sigsetjmp(ltv_jmp, 1)) { ltv_armed = 0; puts("abort"); fflush(stdout); continue; }

        if (0 == strcmp(op, "date") && ltv_ntok == 3) {
            log_epoch_secs = (unix_time64_t)strtoll(ltv_tok[1], NULL, 10);
            buffer b; exact_buf(&b, ltv_tok[2]);
            struct tm tm; memset(&tm, 0, sizeof(tm));
            if (NULL == http_date_str_to_tm(b.ptr, buffer_clen(&b), &tm)) puts("null");
            else {
                long long t = (long long)timegm(&tm);
                printf("%lld %d\n", t, http_date_if_modified_since(b.ptr, buffer_clen(&b), log_epoch_secs) ? 1 : 0);
            }
            free(b.ptr);
        }
        else if (0 == strcmp(op, "dfmt") && ltv_ntok == 2) {
            char *s = malloc(HTTP_DATE_SZ);
            uint32_t n = http_date_time_to_str(s, HTTP_DATE_SZ, (unix_time64_t)strtoll(ltv_tok[1], NULL, 10));
            ltv_puthex(s, n);
            fputc('\n', stdout);
            free(s);
        }
        else if (0 == strcmp(op, "etag") && ltv_ntok == 4) {
            buffer e, h; exact_buf(&e, ltv_tok[2]); exact_buf(&h, ltv_tok[3]);
            printf("%d\n", http_etag_matches(&e, h.ptr, atoi(ltv_tok[1])) ? 1 : 0);
            free(e.ptr); free(h.ptr);
        }
        else if (0 == strcmp(op, "fwd") && ltv_ntok == 4) {
            xp.conf.opts = (unsigned int)atoi(ltv_tok[1]);
            set_trusted(trusted, ltv_tok[2]);
            buffer h; exact_buf(&h, ltv_tok[3]);
            /* per-request reset */
            r->http_status = 0;
            r->http_host = NULL;
            r->rqst_htags = 0;
            array_reset_data_strings(&r->rqst_headers);
            array_reset_data_strings(&r->env);
            buffer_copy_string_len(&r->uri.scheme, CONST_STR_LEN("http"));
            con.proto_default_port = 80;
            if (r->plugin_ctx[xp.id]) { handler_rctx_free(r->plugin_ctx[xp.id]); r->plugin_ctx[xp.id] = NULL; }
            r->dst_addr = &con.dst_addr;
            r->dst_addr_buf = &con.dst_addr_buf;
            handler_t rc = mod_extforward_Forwarded(r, &xp, &h);
            printf("rc=%d st=%d addr=", (int)rc, r->http_status);
            put_buf(r->dst_addr_buf);
            fputs(" scheme=", stdout); put_buf(&r->uri.scheme);
            fputs(" host=", stdout); put_buf(r->http_host);
            fputs(" user=", stdout); put_buf(http_header_env_get(r, CONST_STR_LEN("REMOTE_USER")));
            fputc('\n', stdout);
            free(h.ptr);
        }
        else if (0 == strcmp(op, "xff") && ltv_ntok == 3) {
            set_trusted(trusted, ltv_tok[1]);
            buffer h; exact_buf(&h, ltv_tok[2]);
            r->http_status = 0;
            r->rqst_htags = 0;
            array_reset_data_strings(&r->rqst_headers);
            if (r->plugin_ctx[xp.id]) { handler_rctx_free(r->plugin_ctx[xp.id]); r->plugin_ctx[xp.id] = NULL; }
            r->dst_addr = &con.dst_addr;
            r->dst_addr_buf = &con.dst_addr_buf;
            handler_t rc = mod_extforward_X_Forwarded_For(r, &xp, &h);
            printf("rc=%d addr=", (int)rc);
            put_buf(r->dst_addr_buf);
            fputc('\n', stdout);
            free(h.ptr);
        }
        else if (0 == strcmp(op, "dig") && ltv_ntok == 4) {
            log_epoch_secs = (unix_time64_t)strtoll(ltv_tok[1], NULL, 10);
            if (ltv_tok[2][0] == '~') req.nonce_secret = NULL;
            else {
                size_t n; unsigned char *t = ltv_unhex(ltv_tok[2], &n);
                buffer_copy_string_len(&secret, (char *)t, n); free(t);
                req.nonce_secret = &secret;
            }
            buffer h; exact_buf(&h, ltv_tok[3]);
            r->http_status = 0;
            r->resp_htags = 0;
            array_reset_data_strings(&r->resp_headers);
            buffer_copy_string_len(&r->target_orig, CONST_STR_LEN("/x"));
            http_auth_digest_params_t dp;
            http_auth_info_t ai; memset(&ai, 0, sizeof(ai));
            memset(&dp, 0, sizeof(dp) - sizeof(dp.rdigest));
            mod_auth_digest_parse_authorization(&dp, h.ptr);
            unsigned mask = 0;
            for (int i = 0; i < http_auth_digest_params_sz; ++i) {
                if (!dp.ptr[i]) continue;
                mask |= 1u << i;
                /* every reported parameter must lie inside the header value */
                if (dp.ptr[i] < h.ptr || dp.ptr[i] + dp.len[i] > h.ptr + buffer_clen(&h)) mask |= 1u << 31;
            }
            printf("p=%x", mask);
            handler_t rc = mod_auth_digest_validate_params(r, &req, &dp, &ai);
            printf(" v=%d:%d", (int)rc, r->http_status);
            if (rc == HANDLER_GO_ON) {
                rc = mod_auth_digest_validate_nonce(r, &req, &dp, &ai);
                printf(" n=%d:%d", (int)rc, r->http_status);
            }
            fputc('\n', stdout);
            free(h.ptr);
        }
        else puts("bad-op");
        ltv_armed = 0;
        fflush(stdout);
    }
    return 0;
}
