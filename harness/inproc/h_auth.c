/* correspondence harness for HTTP authentication (C16): the real
 * mod_auth.c (rule lookup, Basic, Digest, auth cache, periodic cleanup) and
 * mod_authn_file.c (plain / htdigest / htpasswd backends) driven in-process.
 *
 * (link with -lcrypt: htpasswd records of 13+ bytes go to crypt(3))
 *
 * One self-contained scenario per line:
 *   run <hsel> <hmod> <cache> <backend> <file> <mono0> <epoch0> <nrules> <rule>... <op>...
 *     hsel    r|s     cache key = djb(user, djb(le64(rule index | scheme id)))      (see ltv_djbhash)
 *     hmod    n       0: full 32-bit key; n>0: key reduced mod n (forces collisions)
 *     cache   -|n     no auth.cache | auth.cache with max-age n
 *     backend plain|htdigest|htpasswd|none   (several backend scopes: joined by '+', scope 0 first)
 *     file    hex     contents of the backend's user file (one per scope, joined by '+')
 *     rule    pfx,scheme(b|d),realm,algorithm-mask,nonce-secret|~,userhash(0|1),require   (byte fields hex)
 *     op      q,METHOD,target_orig,uri.path,Authorization|~,h2ext   one request through mod_auth_uri_handler()
 *             h,idmode,<name>:<value>;...      an HTTP/2 request: the decoded header list goes through the real
 *                         http_request_parse_header() / http_request_validate_pseudohdrs() /
 *                         http_request_headers_process_h2(), then mod_auth_uri_handler()
 *                         -> "h2:<status>" | "m=<method>,x=<h2_connect_ext>,t=<target_orig>,p=<uri.path>/<result>|<cache>"
 *             a,dt        ONE server loop iteration dt seconds later: mod_auth_periodic() on the old second, then clocks += dt
 *             s,n         n loop iterations one second apart
 *             b,n         the following requests' config conditions select backend scope n
 *             e,de        shift the wall clock (log_epoch_secs) by signed de
 *             n,rule,ts,rnd,dalgo   mod_auth_append_nonce() with fixed random -> nonce hex
 * Output: one token per op (q: "<result>|<cache dump>").
 * Stateless probes of the building blocks:
 *   parse <hex>      mod_auth_digest_parse_authorization() -> the 11 parameters
 *   b64 <hex>        li_base64_dec(BASE64_STANDARD)        -> decoded hex | 0
 *   eqct <a> <b>     ck_memeq_const_time(), ck_memeq_const_time_fixed_len()
 *   algo <hex>       mod_auth_algorithm_parse()            -> "dalgo dlen" | 0
 */
#include "first.h"
#include "harness_common.h"

#include <unistd.h>
#include <fcntl.h>
#include <sys/stat.h>

#include "base.h"
#include "buffer.h"
#include "array.h"
#include "log.h"
#include "fdlog.h"
#include "http_header.h"
#include "http_kv.h"
#include "algo_md.h"
#include "algo_splaytree.h"
#include "plugin.h"
#include "plugin_config.h"
#include "mod_auth_api.h"
#include "sys-crypto-md.h"
#include "base64.h"
#include "rand.h"
#include "ck.h"
#include "fdevent.h"
#include "request.h"
#include "http_kv.h"

/* ---- deterministic stand-in for the pointer-derived part of the cache key ---- */
#define LTV_MAXRULES 16
static const void *ltv_req_ptr[LTV_MAXRULES];
static int ltv_req_scheme[LTV_MAXRULES];
static int ltv_nreq;
static int ltv_hsel = 'r';
static uint32_t ltv_hmod;
static int ltv_in_hash;

static uint32_t ltv_djbhash(const char *str, const uint32_t len, uint32_t hash) {
    for (int i = 0; i < ltv_nreq; ++i) {
        if (str == (const char *)ltv_req_ptr[i] && len == sizeof(intptr_t)) {
            unsigned char idx[8] = { 0, 0, 0, 0, 0, 0, 0, 0 };
            idx[0] = (unsigned char)(ltv_hsel == 'r' ? i : ltv_req_scheme[i]);
            ltv_in_hash = 1;
            return djbhash((const char *)idx, 8, hash);
        }
    }
    uint32_t h = djbhash(str, len, hash);
    if (ltv_in_hash) {
        ltv_in_hash = 0;
        if (ltv_hmod) h %= ltv_hmod;
    }
    return h;
}
#define djbhash ltv_djbhash

#include "mod_auth.c"

#undef djbhash
#define plugin_config authn_plugin_config
#define plugin_data   authn_plugin_data
#include "mod_authn_file.c"
#undef plugin_config
#undef plugin_data

/* ---- own tokenizer (scenarios have more than LTV_MAXTOK tokens) ---- */
static char **tok; static int ntok, captok;
static char *rline; static size_t rcap;
static int next_line(void) {
    ssize_t n = getline(&rline, &rcap, stdin);
    if (n <= 0) return 0;
    while (n > 0 && (rline[n-1] == '\n' || rline[n-1] == '\r')) rline[--n] = 0;
    ntok = 0;
    char *save = NULL;
    for (char *t = strtok_r(rline, " ", &save); t; t = strtok_r(NULL, " ", &save)) {
        if (ntok == captok) { captok = captok ? captok * 2 : 64; tok = realloc(tok, captok * sizeof(*tok)); }
        tok[ntok++] = t;
    }
    return 1;
}
/* split by ',' in place */
static int split(char *s, char **f, int maxf) {
    int n = 0;
    f[n++] = s;
    for (; *s; ++s) if (*s == ',' && n < maxf) { *s = 0; f[n++] = s + 1; }
    return n;
}

static char tmpdir[256];
#define LTV_MAXSCOPES 4
static char userfile[LTV_MAXSCOPES][300];
static void cleanup(void) {
    for (int i = 0; i < LTV_MAXSCOPES; ++i) if (userfile[i][0]) unlink(userfile[i]);
    if (tmpdir[0]) rmdir(tmpdir);
}
/* backend scopes: what mod_auth_patch_config() / mod_authn_file_patch_config() select per request
 * when auth.backend / auth.backend.*.userfile are set inside conditions (auth.require and
 * auth.cache stay global).  Both functions start from `defaults` for every request, so setting
 * `defaults` before a request yields the configuration a matching condition would yield. */
static const http_auth_backend_t *scope_backend[LTV_MAXSCOPES];
static char scope_kind[LTV_MAXSCOPES];
static buffer *scope_fn[LTV_MAXSCOPES];
static int nscopes;

static buffer *mkbuf(const char *hex) {
    size_t n; unsigned char *b = ltv_unhex(hex, &n);
    buffer *o = buffer_init();
    buffer_copy_string_len(o, (char *)b, n);
    free(b);
    return o;
}

static buffer *rule_bufs[LTV_MAXRULES * 3]; static int nrule_bufs;

static void dump_tree(const splay_tree *t, int *first) {
    if (!t) return;
    dump_tree(t->left, first);
    const http_auth_cache_entry *ae = t->data;
    int ri = -1;
    for (int i = 0; i < ltv_nreq; ++i) if (ltv_req_ptr[i] == ae->require) ri = i;
    if (!*first) fputc(';', stdout);
    *first = 0;
    printf("k=%d,r=%d,u=", t->key, ri);
    ltv_puthex(ae->username, ae->ulen);
    fputs(",kk=", stdout);
    if (ae->k == ae->username) fputc('=', stdout); else ltv_puthex(ae->k, ae->klen);
    printf(",a=%d,t=%lld,d=", ae->dalgo, (long long)ae->ctime);
    ltv_puthex(ae->pwdigest, ae->dlen);
    dump_tree(t->right, first);
}


/* auth.cache container: shape of the real splay tree, `(` left key `:` ctime right `)`, `.` = NULL
 * (recursive like mod_auth_tag_old_entries itself) */
static void ltv_shape(const splay_tree *t) {
    if (!t) { fputc('.', stdout); return; }
    fputc('(', stdout);
    ltv_shape(t->left);
    printf("%d:%lld", t->key, (long long)((const http_auth_cache_entry *)t->data)->ctime);
    ltv_shape(t->right);
    fputc(')', stdout);
}

/* canonical rendering of the Digest challenges in WWW-Authenticate */
static void print_digest_challenges(const buffer *vb) {
    const char *s = vb->ptr;
    int n = 0;
    while ((s = strstr(s, "Digest realm=\""))) {
        s += sizeof("Digest realm=\"") - 1;
        const char *re = strstr(s, "\", charset=\"UTF-8\", algorithm=");
        if (!re) { fputs("?realm", stdout); return; }
        const char *al = re + sizeof("\", charset=\"UTF-8\", algorithm=") - 1;
        const char *ale = strstr(al, ", nonce=\"");
        if (!ale) { fputs("?nonce", stdout); return; }
        const char *no = ale + sizeof(", nonce=\"") - 1;
        const char *noe = strchr(no, '"');
        if (!noe) { fputs("?nonce-end", stdout); return; }
        const char *next = strstr(noe, "\r\nWWW-Authenticate: ");
        size_t taillen = next ? (size_t)(next - noe) : strlen(noe);
        if (n++) fputc('+', stdout);
        ltv_puthex(s, (size_t)(re - s));
        printf("/%.*s/", (int)(ale - al), al);
        /* nonce: fields separated by ':'; print first field (timestamp), number of fields, length of last */
        int nf = 1; const char *last = no; const char *c1 = NULL;
        for (const char *c = no; c < noe; ++c) if (*c == ':') { if (!c1) c1 = c; ++nf; last = c + 1; }
        printf("%.*s/%d.%d/", c1 ? (int)(c1 - no) : 0, no, nf, (int)(noe - last));
        /* tail flags */
        char tail[128];
        if (taillen >= sizeof(tail)) taillen = sizeof(tail) - 1;
        memcpy(tail, noe, taillen); tail[taillen] = 0;
        printf("q%d", NULL != strstr(tail, "\", qop=\"auth\""));
        printf("u%d", NULL != strstr(tail, ", userhash=true"));
        printf("s%d", NULL != strstr(tail, ", stale=true"));
        s = noe;
    }
    if (0 == n) fputs("?none", stdout);
}

/* run mod_auth on the prepared request and print "<result>|<cache dump>" */
static void run_auth(request_st * const r, plugin_data * const p, http_auth_cache * const ac) {
    r->http_status = 0;
    r->keep_alive = 1;
    r->handler_module = NULL;
    handler_t rc = mod_auth_uri_handler(r, p);
    const buffer *ru = http_header_env_get(r, CONST_STR_LEN("REMOTE_USER"));
    const buffer *at = http_header_env_get(r, CONST_STR_LEN("AUTH_TYPE"));
    const buffer *wa = http_header_response_get(r, HTTP_HEADER_WWW_AUTHENTICATE, CONST_STR_LEN("WWW-Authenticate"));
    const buffer *ni = http_header_response_get(r, HTTP_HEADER_OTHER, CONST_STR_LEN("Authentication-Info"));
    if (rc == HANDLER_GO_ON && !ru) fputs("pass", stdout);
    else if (rc == HANDLER_GO_ON) {
        fputs("go:", stdout); ltv_puthex(ru->ptr, buffer_clen(ru));
        printf(":%s:ka%d", at ? at->ptr : "?", r->keep_alive);
        if (ni) {
            /* nextnonce="<ts>:..." */
            const char *s = ni->ptr;
            if (0 == strncmp(s, "nextnonce=\"", 11)) {
                const char *c1 = strchr(s + 11, ':');
                printf(":nn%.*s", c1 ? (int)(c1 - (s + 11)) : 0, s + 11);
            } else fputs(":nn?", stdout);
        }
    }
    else if (rc == HANDLER_FINISHED && r->http_status == 401) {
        if (wa && 0 == strncmp(wa->ptr, "Basic realm=\"", 13)) {
            fputs("401:B:", stdout);
            ltv_puthex(wa->ptr, buffer_clen(wa));
        } else if (wa) {
            fputs("401:D:", stdout);
            print_digest_challenges(wa);
        } else fputs("401:-", stdout);
        printf(":ka%d", r->keep_alive);
    }
    else if (rc == HANDLER_FINISHED) printf("%d", r->http_status);
    else printf("rc%d:%d", (int)rc, r->http_status);
    fputs("|[", stdout);
    int first = 1;
    if (ac) dump_tree(ac->sptree, &first);
    fputc(']', stdout);
}

int main(void) {
    const char *td = getenv("TMPDIR");
    snprintf(tmpdir, sizeof(tmpdir), "%s/ltv-auth.XXXXXX", td && *td ? td : "/tmp");
    if (!mkdtemp(tmpdir)) { perror("mkdtemp"); return 2; }
    for (int i = 0; i < LTV_MAXSCOPES; ++i) snprintf(userfile[i], sizeof(userfile[i]), "%s/users%d", tmpdir, i);
    atexit(cleanup);

    plugin_data *p = mod_auth_init();
    authn_plugin_data *pf = mod_authn_file_init();
    p->nconfig = 1;
    pf->nconfig = 1;
    for (int i = 0; i < LTV_MAXSCOPES; ++i) { scope_fn[i] = buffer_init(); buffer_copy_string(scope_fn[i], userfile[i]); }
    static config_plugin_value_t cvlist[3];
    p->cvlist = cvlist;

    request_st rq; request_st * const r = &rq;
    memset(r, 0, sizeof(*r));
    r->conf.errh = fdlog_init(NULL, -1, FDLOG_FD);
    r->conf.errh->fd = -1;
    r->tmp_buf = buffer_init();
    r->dst_addr_buf = buffer_init();
    buffer_copy_string_len(r->dst_addr_buf, CONST_STR_LEN("127.0.0.1"));

    array *auth_require = NULL;
    http_auth_cache *ac = NULL;

    while (next_line()) {
        if (ntok == 2 && 0 == strcmp(tok[0], "parse")) {
            /* mod_auth_digest_parse_authorization() on the text after "Digest " */
            static const char * const pn[] = { "username", "realm", "nonce", "uri", "algorithm", "qop",
                                               "cnonce", "nc", "response", "username*", "userhash" };
            size_t n; unsigned char *in = ltv_unhex(tok[1], &n);
            http_auth_digest_params_t dp;
            memset(&dp, 0, sizeof(dp) - sizeof(dp.rdigest));
            mod_auth_digest_parse_authorization(&dp, (char *)in);
            for (int i = 0; i < http_auth_digest_params_sz; ++i) {
                printf("%s%s=", i ? " " : "", pn[i]);
                if (dp.ptr[i]) ltv_puthex(dp.ptr[i], dp.len[i]); else fputc('~', stdout);
            }
            fputc('\n', stdout);
            free(in);
            continue;
        }
        if (ntok == 2 && 0 == strcmp(tok[0], "b64")) {
            /* li_base64_dec(BASE64_STANDARD) as mod_auth_check_basic() calls it */
            size_t n; unsigned char *in = ltv_unhex(tok[1], &n);
            unsigned char *out = malloc(n + 4);
            size_t olen = li_base64_dec(out, n + 4, (char *)in, n, BASE64_STANDARD);
            if (0 == olen) fputs("0", stdout); else ltv_puthex(out, olen);
            fputc('\n', stdout);
            free(out); free(in);
            continue;
        }
        if (ntok == 3 && 0 == strcmp(tok[0], "eqct")) {
            size_t na, nb; unsigned char *a = ltv_unhex(tok[1], &na); unsigned char *b = ltv_unhex(tok[2], &nb);
            printf("%d", ck_memeq_const_time(a, na, b, nb));
            if (na == nb) printf(" %d", ck_memeq_const_time_fixed_len(a, b, na));
            fputc('\n', stdout);
            free(a); free(b);
            continue;
        }
        if (ntok == 2 && 0 == strcmp(tok[0], "algo")) {
            size_t n; unsigned char *in = ltv_unhex(tok[1], &n);
            http_auth_info_t ai; ai.dalgo = 0; ai.dlen = 0;
            if (mod_auth_algorithm_parse(&ai, (char *)in, n)) printf("%d %u\n", ai.dalgo, ai.dlen);
            else puts("0");
            free(in);
            continue;
        }
        if (ntok >= 3 && 0 == strcmp(tok[0], "splay")) {
            /* splay <max-age> <cap(8192: keys[] in mod_auth_periodic_cleanup)> ops…:
             * the real http_auth_cache_query / http_auth_cache_insert / mod_auth_periodic_cleanup
             * (and through them algo_splaytree.c) on a tree of real http_auth_cache_entry */
            const time_t max_age = (time_t)strtoll(tok[1], NULL, 10);
            splay_tree *t = NULL;
            const unix_time64_t saved = log_monotonic_secs;
            int bad = (8192 != atoi(tok[2]));
            for (int j = 3; j < ntok && !bad; ++j) {
                const char *o = tok[j];
                if (j > 3) fputc(' ', stdout);
                if (o[0] == 'q' || o[0] == 'i' || o[0] == 'I') {
                    char *e;
                    const int k = (int)strtol(o + 1, &e, 10);
                    const http_auth_cache_entry *ae = http_auth_cache_query(&t, k);
                    if (ae) printf("%lld", (long long)ae->ctime); else fputc('-', stdout);
                    if (o[0] != 'q') {
                        if (*e != ',') { bad = 1; break; }
                        log_monotonic_secs = (unix_time64_t)strtoll(e + 1, NULL, 10);
                        http_auth_cache_entry *ne = http_auth_cache_entry_init(NULL, 0, "u", 1, "u", 1, "p", 1);
                        http_auth_cache_insert(&t, k, ne, http_auth_cache_entry_free);
                    }
                    if (o[0] != 'I') ltv_shape(t);
                }
                else if (o[0] == 'c') {
                    mod_auth_periodic_cleanup(&t, max_age, (unix_time64_t)strtoll(o + 1, NULL, 10));
                    ltv_shape(t);
                }
                else bad = 1;
            }
            if (bad) fputs(" bad-op", stdout);
            if (ntok == 3) fputc('-', stdout);
            fputc('\n', stdout);
            while (t) { http_auth_cache_entry_free(t->data); t = splaytree_delete_splayed_node(t); }
            log_monotonic_secs = saved;
            continue;
        }
        if (ntok < 9 || 0 != strcmp(tok[0], "run")) { puts("bad-op"); continue; }
        /* tear down previous scenario */
        if (auth_require) { array_free(auth_require); auth_require = NULL; }
        if (ac) { http_auth_cache_free(ac); ac = NULL; }
        for (int i = 0; i < nrule_bufs; ++i) buffer_free(rule_bufs[i]);
        nrule_bufs = 0;
        ltv_nreq = 0;

        ltv_hsel = tok[1][0];
        ltv_hmod = (uint32_t)strtoul(tok[2], NULL, 10);
        if (0 != strcmp(tok[3], "-")) {
            ac = ck_malloc(sizeof(*ac));
            ac->sptree = NULL;
            ac->max_age = (time_t)strtoll(tok[3], NULL, 10);
        }
        /* tok[4] / tok[5]: backend names / user files, one per backend scope, joined by '+' */
        nscopes = 0;
        int bad = 0;
        {
            char *sb = NULL, *sf = NULL;
            char *bt = strtok_r(tok[4], "+", &sb), *ft = strtok_r(tok[5], "+", &sf);
            for (; bt && ft && nscopes < LTV_MAXSCOPES; bt = strtok_r(NULL, "+", &sb), ft = strtok_r(NULL, "+", &sf)) {
                scope_backend[nscopes] = NULL;
                scope_kind[nscopes] = bt[0] == 'p' ? 'p' : 0 == strcmp(bt, "htdigest") ? 'd' : 0 == strcmp(bt, "htpasswd") ? 'w' : 'n';
                if (0 != strcmp(bt, "none")) {
                    buffer bn; bn.ptr = bt; bn.used = (uint32_t)strlen(bt) + 1; bn.size = 0;
                    scope_backend[nscopes] = http_auth_backend_get(&bn);
                    if (!scope_backend[nscopes]) { bad = 1; break; }
                }
                size_t n; unsigned char *fc = ltv_unhex(ft, &n);
                int fd = open(userfile[nscopes], O_WRONLY | O_CREAT | O_TRUNC, 0600);
                if (fd < 0 || (n && write(fd, fc, n) != (ssize_t)n)) { perror("userfile"); return 2; }
                close(fd);
                free(fc);
                ++nscopes;
            }
            if (bt || ft) bad = bad ? bad : 2;
        }
        if (bad || 0 == nscopes) { puts(bad == 1 ? "bad-backend" : "bad-op"); continue; }
        int cur_scope = 0;
#define SELECT_SCOPE(n) do { \
            memset(&pf->defaults, 0, sizeof(pf->defaults)); \
            if (scope_kind[n] == 'p') pf->defaults.auth_plain_userfile = scope_fn[n]; \
            else if (scope_kind[n] == 'd') pf->defaults.auth_htdigest_userfile = scope_fn[n]; \
            else if (scope_kind[n] == 'w') pf->defaults.auth_htpasswd_userfile = scope_fn[n]; \
            p->defaults.auth_backend = scope_backend[n]; \
        } while (0)
        log_monotonic_secs = (unix_time64_t)strtoll(tok[6], NULL, 10);
        log_epoch_secs = (unix_time64_t)strtoll(tok[7], NULL, 10);
        int nrules = atoi(tok[8]);
        if (nrules < 0 || nrules > LTV_MAXRULES || ntok < 9 + nrules) { puts("bad-op"); continue; }
        auth_require = array_init(4);
        int cfg_err = 0;
        for (int i = 0; i < nrules && !cfg_err; ++i) {
            char *f[8];
            if (7 != split(tok[9 + i], f, 8)) { cfg_err = 2; break; }
            buffer *key = mkbuf(f[0]);
            ltv_nreq = i + 1;
            ltv_req_ptr[i] = NULL;
            if (array_get_element_klen(auth_require, BUF_PTR_LEN(key))) {
                /* duplicate path: array_insert_unique() keeps the first rule */
                buffer_free(key);
                continue;
            }
            data_auth * const dauth = data_auth_init();
            buffer_copy_buffer(&dauth->key, key);
            buffer_free(key);
            buffer bn; bn.ptr = (f[1][0] == 'b') ? "basic" : "digest"; bn.used = (uint32_t)strlen(bn.ptr) + 1; bn.size = 0;
            dauth->require->scheme = http_auth_scheme_get(&bn);
            dauth->require->algorithm = atoi(f[3]);
            buffer *realm = rule_bufs[nrule_bufs++] = mkbuf(f[2]);
            dauth->require->realm = realm;
            if (0 != strcmp(f[4], "~")) dauth->require->nonce_secret = rule_bufs[nrule_bufs++] = mkbuf(f[4]);
            dauth->require->userhash = (uint8_t)atoi(f[5]);
            buffer *rs = rule_bufs[nrule_bufs++] = mkbuf(f[6]);
            ltv_req_ptr[i] = dauth->require;
            ltv_req_scheme[i] = (f[1][0] == 'b') ? 0 : 1;
            if (!mod_auth_require_parse(dauth->require, rs, r->conf.errh)) {
                dauth->fn->free((data_unset *)dauth);
                cfg_err = 1;
                break;
            }
            array_insert_unique(auth_require, (data_unset *)dauth);
        }
        if (cfg_err) { puts(cfg_err == 1 ? "cfg-error" : "bad-op"); continue; }

        memset(&p->defaults, 0, sizeof(p->defaults));
        p->defaults.auth_require = auth_require;
        p->defaults.auth_cache = ac;
        SELECT_SCOPE(cur_scope);
        /* config value list as mod_auth_set_defaults() leaves it: global context with auth.cache */
        memset(cvlist, 0, sizeof(cvlist));
        cvlist[0].k_id = 0; cvlist[0].v.u2[0] = 1; cvlist[0].v.u2[1] = ac ? 1 : 0;
        cvlist[1].k_id = ac ? 3 : -1; cvlist[1].vtype = T_CONFIG_LOCAL; cvlist[1].v.v = ac;
        cvlist[2].k_id = -1;

        int first_out = 1;
        for (int t = 9 + nrules; t < ntok; ++t) {
            char *f[8];
            int nf = split(tok[t], f, 8);
            if (!first_out) fputc(' ', stdout);
            first_out = 0;
            if (f[0][0] == 'q' && nf == 6) {
                http_method_t m = http_method_key_get(f[1], strlen(f[1]));
                r->http_method = m;
                buffer *b;
                b = mkbuf(f[2]); buffer_copy_buffer(&r->target_orig, b); buffer_free(b);
                b = mkbuf(f[3]); buffer_copy_buffer(&r->uri.path, b); buffer_free(b);
                array_reset_data_strings(&r->rqst_headers); r->rqst_htags = 0;
                array_reset_data_strings(&r->resp_headers); r->resp_htags = 0;
                array_reset_data_strings(&r->env);
                if (0 != strcmp(f[4], "~")) {
                    b = mkbuf(f[4]);
                    http_header_request_set(r, HTTP_HEADER_AUTHORIZATION, CONST_STR_LEN("Authorization"), BUF_PTR_LEN(b));
                    buffer_free(b);
                }
                r->h2_connect_ext = (atoi(f[5]) && m == HTTP_METHOD_CONNECT);
                run_auth(r, p, ac);
            }
            else if (f[0][0] == 'h' && nf == 3) {
                /* HTTP/2: the request is built by the real header path, as h2_parse_headers_frame() does */
                array_reset_data_strings(&r->rqst_headers); r->rqst_htags = 0;
                array_reset_data_strings(&r->resp_headers); r->resp_htags = 0;
                array_reset_data_strings(&r->env);
                r->http_host = NULL;
                buffer_clear(&r->target); buffer_clear(&r->target_orig);
                buffer_clear(&r->uri.path); buffer_clear(&r->uri.query);
                r->http_method = HTTP_METHOD_UNSET;
                r->http_version = HTTP_VERSION_2;
                r->h2_connect_ext = 0;
                r->reqbody_length = 0;
                r->http_status = 0;
                r->keep_alive = 1;
                r->conf.http_parseopts = 9561;
                r->conf.max_request_field_size = 8192;
                http_header_parse_ctx hpctx;
                memset(&hpctx, 0, sizeof(hpctx));
                hpctx.pseudo = 1;
                hpctx.max_request_field_size = r->conf.max_request_field_size;
                hpctx.http_parseopts = r->conf.http_parseopts;
                const int idmode = atoi(f[1]);
                char *save2 = NULL;
                for (char *fld = strtok_r(f[2], ";", &save2); fld; fld = strtok_r(NULL, ";", &save2)) {
                    char *colon = strchr(fld, ':');
                    if (!colon) continue;
                    *colon = 0;
                    size_t kn, vn;
                    unsigned char *k = ltv_unhex(fld, &kn), *v = ltv_unhex(colon + 1, &vn);
                    hpctx.k = (char *)k; hpctx.klen = (uint32_t)kn;
                    hpctx.v = (char *)v; hpctx.vlen = (uint32_t)vn;
                    hpctx.id = HTTP_HEADER_H2_UNKNOWN;
                    if (idmode) { /* ids the ls-hpack static table supplies (name-indexed fields) */
                        if (kn == 10 && 0 == memcmp(k, ":authority", 10)) hpctx.id = HTTP_HEADER_H2_AUTHORITY;
                        else if (kn == 7 && 0 == memcmp(k, ":method", 7)) hpctx.id = HTTP_HEADER_H2_METHOD;
                        else if (kn == 5 && 0 == memcmp(k, ":path", 5)) hpctx.id = HTTP_HEADER_H2_PATH;
                        else if (kn == 7 && 0 == memcmp(k, ":scheme", 7)) hpctx.id = HTTP_HEADER_H2_SCHEME;
                        else if (kn == 13 && 0 == memcmp(k, "authorization", 13)) hpctx.id = HTTP_HEADER_AUTHORIZATION;
                        else if (kn == 10 && 0 == memcmp(k, "user-agent", 10)) hpctx.id = HTTP_HEADER_USER_AGENT;
                    }
                    const int st = http_request_parse_header(r, &hpctx);
                    free(k); free(v);
                    if (0 != st) { r->http_status = st; break; }
                }
                if (hpctx.pseudo && 0 == r->http_status)
                    r->http_status = http_request_validate_pseudohdrs(r, hpctx.scheme, hpctx.http_parseopts);
                http_request_headers_process_h2(r, 80);
                if (0 != r->http_status) printf("h2:%d", r->http_status);
                else {
                    const buffer *mb = http_method_buf(r->http_method);
                    printf("m=%s,x=%d,t=", mb->ptr, r->h2_connect_ext);
                    ltv_puthex(r->target_orig.ptr, buffer_clen(&r->target_orig));
                    fputs(",p=", stdout);
                    ltv_puthex(r->uri.path.ptr, buffer_clen(&r->uri.path));
                    fputc('/', stdout);
                    r->keep_alive = 1;
                    run_auth(r, p, ac);
                }
            }
            else if (f[0][0] == 'a' && nf == 2) {
                /* ONE server loop iteration that finds the clock dt seconds later
                 * (server.c:server_handle_sigalrm): triggers first, on the old second, then the update */
                long dt = strtol(f[1], NULL, 10);
                if (dt > 0) {
                    mod_auth_periodic(NULL, p);
                    log_monotonic_secs += dt; log_epoch_secs += dt;
                }
                fputs("t[", stdout);
                if (ac) dump_tree(ac->sptree, &(int){1});
                fputc(']', stdout);
            }
            else if (f[0][0] == 's' && nf == 2) {
                /* n loop iterations one second apart */
                long n = strtol(f[1], NULL, 10);
                for (long i = 0; i < n; ++i) {
                    mod_auth_periodic(NULL, p);
                    ++log_monotonic_secs; ++log_epoch_secs;
                }
                fputs("t[", stdout);
                if (ac) dump_tree(ac->sptree, &(int){1});
                fputc(']', stdout);
            }
            else if (f[0][0] == 'b' && nf == 2) {
                int n = atoi(f[1]);
                if (n < 0 || n >= nscopes) { fputs("bad-op", stdout); continue; }
                cur_scope = n;
                SELECT_SCOPE(cur_scope);
                fputs("b", stdout);
            }
            else if (f[0][0] == 'e' && nf == 2) {
                log_epoch_secs += (unix_time64_t)strtoll(f[1], NULL, 10);
                fputs("e", stdout);
            }
            else if (f[0][0] == 'n' && nf == 5) {
                int ri = atoi(f[1]);
                if (ri < 0 || ri >= ltv_nreq || !ltv_req_ptr[ri]) { fputs("bad-op", stdout); continue; }
                unsigned int rnd = (unsigned int)strtoul(f[3], NULL, 10);
                buffer *b = buffer_init();
                mod_auth_append_nonce(b, (unix_time64_t)strtoll(f[2], NULL, 10),
                                      (const http_auth_require_t *)ltv_req_ptr[ri], atoi(f[4]), &rnd);
                ltv_puthex(b->ptr, buffer_clen(b));
                buffer_free(b);
            }
            else fputs("bad-op", stdout);
        }
        if (first_out) fputs("-", stdout);
        fputc('\n', stdout);
    }
    return 0;
}
