/* correspondence harness for the backend-response relay path (C10)
 *
 * real code driven (all from the current /repo/src tree, ASan+UBSan):
 *   gw_backend.c   (#included: gw_handle_subrequest, gw_process_fdevent, gw_recv_response,
 *                   gw_recv_response_error, gw_backend_error, gw_connection_close)
 *   mod_fastcgi.c  (#included: fcgi_recv_parse, fcgi_recv_parse_loop, fastcgi_get_packet)
 *   http-header-glue.c (linked: http_response_read, http_response_parse_headers,
 *                   http_response_process_headers, http_response_append_mem/_buffer,
 *                   http_response_backend_done/_error, http_response_send_1xx)
 *   http_chunk.c   (linked: http_chunk_decode_append_*, http_chunk_append_*, http_chunk_close)
 *   response.c     (linked: http_response_handler -> http_response_write_prepare,
 *                   http_response_merge_trailers, static error document)
 *   h1.c           (linked: h1_send_headers, h1_send_1xx)
 * harness-owned (trusted stub, mirrors connections.c connection_state_machine_loop /
 * connection_handle_write_state / connection_handle_response_end_state and, for "20", the
 * per-stream loop of h2.c h2_process_streams + h2_send_end_stream): the little state machine in
 * ltv_step(), the backend socketpair and the capturing client writer.
 *
 * ops (one case per line):
 *   relay <be> <ver> <stream> <meth> <end> <hex seg> [<hex seg> ...]
 *     be     proxy | cgi | scgi | fcgi      (opts.backend; fcgi feeds FastCGI records)
 *     ver    10 | 11 | 20                   (client protocol)
 *     stream 0 | 1 | 2                      (server.stream-response-body)
 *     meth   G | H
 *     end    eof | rst | err | hup | none   (what the backend does after the last segment)
 *     each segment is written to the backend socket and followed by one FDEVENT_IN event
 *   output: <ev>* end=<ka|close|pend> st=<status> fl=<started><finished><handler><error>
 *     <ev> = W:<hex>   bytes written to the client (h1: raw wire; h2: DATA payload)
 *            I:<status>:<hex header lines>   (h2 only) interim response
 *            H:<status>:<hex header lines>   (h2 only) final HEADERS
 *            T:<hex>   (h2 only) END_STREAM with trailers, E (END_STREAM), R (RST_STREAM)
 *            X         the request would be dispatched again (handler_module lost), case abandoned
 *   dechunk <max_field> <send_chunked> <hex seg> ...   http_chunk_decode_append_mem only
 *     output: ok|err out=<hex> te=<n> h=<hex> done=<n> fin=<0|1> ka=<0|1>
 *   fcgi <hex seg> ...    fastcgi_get_packet()/fcgi_recv_parse_loop() record level only, with
 *     response headers already done: output: <go|fin> out=<hex> rb=<n> rid=<n>
 */
#include "first.h"
#include "harness_common.h"
#include <sys/socket.h>
#include <fcntl.h>
#include <errno.h>
#include <unistd.h>
#include "fdevent_impl.h"
#include "gw_backend.c"
#include "mod_fastcgi.c"
#include "fdlog.h"
#include "h1.h"
#include "reqpool.h"
#include "http_chunk.h"
#include "plugins.h"

/* ------------------------------------------------------------------ environment */
static server srv;
static connection con;
static fdevents *ev;
static int cur_fds;
static gw_plugin_data pd;
static plugin fakeplugin;
static gw_host host;
static gw_proc proc;
static int stat_int[4];
static request_config defconf;
static uint16_t slots[256];
static server_socket srvsock;

static buffer *out;   /* canonical event list of the current case */
static buffer *wpend; /* client bytes not yet put into the event list (adjacent writes are merged) */

static int ltv_event_set(fdevents *e, fdnode *fdn, int events) { (void)e; fdn->fde_ndx = fdn->fd; (void)events; return 0; }
static int ltv_event_del(fdevents *e, fdnode *fdn) { (void)e; (void)fdn; return 0; }
void config_patch_config(request_st *r) { (void)r; } /*(configfile.c is not linked; never reached)*/

/* fdevent_sched_run() of fdevent_impl.c (static there): close fds scheduled for close */
static void ltv_sched_run(fdevents * const e) {
    for (fdnode *fdn = e->pendclose; fdn; ) {
        int fd = fdn->fd;
        close(fd);
        --(*e->cur_fds);
        fdnode * const t = fdn;
        fdn = (fdnode *)fdn->ctx;
        e->fdarray[fd] = NULL;
        free(t);
    }
    e->pendclose = NULL;
}

static void out_hex(const char *tag, const char *p, size_t n) {
    static const char hx[] = "0123456789abcdef";
    buffer_append_string_len(out, tag, strlen(tag));
    if (0 == n) buffer_append_string_len(out, CONST_STR_LEN("-"));
    for (size_t i = 0; i < n; ++i) {
        char c[2] = { hx[((unsigned char)p[i]) >> 4], hx[((unsigned char)p[i]) & 15] };
        buffer_append_string_len(out, c, 2);
    }
}

static void flush_w(void) {
    if (buffer_is_blank(wpend)) return;
    out_hex("W:", BUF_PTR_LEN(wpend));
    buffer_append_string_len(out, CONST_STR_LEN(" "));
    buffer_clear(wpend);
}

/* drain a chunkqueue (mem and temp-file chunks) completely into the pending client bytes */
static void drain_cq(chunkqueue *cq, const char *tag) {
    (void)tag;
    off_t len = chunkqueue_length(cq);
    if (len <= 0) return;
    char *p = buffer_string_prepare_append(wpend, (size_t)len);
    if (chunkqueue_read_data(cq, p, (uint32_t)len, srv.errh) < 0) {
        flush_w();
        buffer_append_string_len(out, CONST_STR_LEN("READERR "));
        chunkqueue_mark_written(cq, chunkqueue_length(cq));
    }
    else
        buffer_commit(wpend, (size_t)len);
}

/* trailer field lines of a completed chunked body: gw_dechunk->b without the last-chunk line
 * and without the final empty line (b is blank when the C took its no-trailer short cut) */
static const char *trailer_fields(const buffer *b, size_t *n) {
    *n = 0;
    if (buffer_is_blank(b)) return NULL;
    const char *nl = memchr(b->ptr, '\n', buffer_clen(b));
    if (NULL == nl) return NULL;
    size_t rest = buffer_clen(b) - (size_t)(nl + 1 - b->ptr);
    *n = rest >= 2 ? rest - 2 : 0;
    return nl + 1;
}

static int ltv_network_write(connection *c, chunkqueue *cq, off_t max_bytes) {
    (void)c; (void)max_bytes;
    drain_cq(cq, "W:");
    return 0;
}

/* h2: interim response (http_dispatch[HTTP_VERSION_2].send_1xx stand-in for h2_send_1xx) */
static void out_hdrs(request_st *r, const char *tag) {
    flush_w();
    buffer *tb = buffer_init();
    for (uint32_t i = 0; i < r->resp_headers.used; ++i) {
        const data_string *ds = (data_string *)r->resp_headers.data[i];
        if (buffer_is_blank(&ds->key) || buffer_is_blank(&ds->value)) continue;
        buffer_append_str2(tb, BUF_PTR_LEN(&ds->key), CONST_STR_LEN(": "));
        buffer_append_str2(tb, BUF_PTR_LEN(&ds->value), CONST_STR_LEN("\r\n"));
    }
    buffer_append_string_len(out, tag, strlen(tag));
    buffer_append_int(out, r->http_status);
    out_hex(":", BUF_PTR_LEN(tb));
    buffer_append_string_len(out, CONST_STR_LEN(" "));
    buffer_free(tb);
}
static int ltv_h2_send_1xx(request_st *r, connection *c) { (void)c; out_hdrs(r, "I:"); return 1; }

/* ------------------------------------------------------------------ state machine stub */
static int done_state;   /* 0 running, 1 response end reached */
static int redispatch;   /* request would be dispatched again (see ltv_step) */

static void ltv_step_h1(request_st * const r) {
    for (;;) {
        switch (r->state) {
          case CON_STATE_READ_POST:
          case CON_STATE_HANDLE_REQUEST:
            switch (http_response_handler(r)) {
              case HANDLER_GO_ON:
              case HANDLER_FINISHED:
                break;
              case HANDLER_WAIT_FOR_EVENT:
                return;
              default:
                r->state = CON_STATE_ERROR;
                continue;
            }
            h1_send_headers(r);
            r->state = CON_STATE_WRITE;
            /* fallthrough */
          case CON_STATE_WRITE: {
            /* connection_handle_write_state() */
            int loop_once = 0;
            do {
                if (!chunkqueue_is_empty(&r->write_queue)) {
                    ltv_network_write(&con, con.write_queue, 0);
                }
                else if (r->resp_body_finished) {
                    r->state = CON_STATE_RESPONSE_END;
                    break;
                }
                if (r->handler_module && !r->resp_body_finished) {
                    const plugin * const p = r->handler_module;
                    if (p->handle_subrequest(r, p->data) > HANDLER_WAIT_FOR_EVENT) {
                        r->state = CON_STATE_ERROR;
                        break;
                    }
                }
            } while (!chunkqueue_is_empty(&r->write_queue)
                     ? 1 == ++loop_once
                     : r->resp_body_finished);
            if (r->state == CON_STATE_WRITE) {
                if (!chunkqueue_is_empty(&r->write_queue)) continue; /*(socket always writable)*/
                return;
            }
            continue;
          }
          case CON_STATE_RESPONSE_END:
          case CON_STATE_ERROR:
            /* connection_handle_response_end_state() */
            if (r->reqbody_length != r->reqbody_queue.bytes_in || r->state == CON_STATE_ERROR)
                r->keep_alive = 0;
            done_state = 1;
            return;
          default:
            return;
        }
    }
}

static void ltv_step_h2(request_st * const r) {
    for (;;) {
        switch (r->state) {
          case CON_STATE_READ_POST:
          case CON_STATE_HANDLE_REQUEST: {
            handler_t rc = http_response_handler(r);
            if (rc == HANDLER_WAIT_FOR_EVENT) return;
            if (rc > HANDLER_WAIT_FOR_EVENT || rc == HANDLER_COMEBACK) { r->state = CON_STATE_ERROR; continue; }
            out_hdrs(r, "H:");    /* h2_send_headers() */
            r->resp_header_len = 1; /*(h2_send_headers() sets it: "response headers sent")*/
            r->state = CON_STATE_WRITE;
          }
            /* fallthrough */
          case CON_STATE_WRITE:
            if (r->handler_module && !r->resp_body_finished) {
                const plugin * const p = r->handler_module;
                if (p->handle_subrequest(r, p->data) > HANDLER_WAIT_FOR_EVENT
                    || r->state == CON_STATE_ERROR) { /*(handler flagged incomplete response)*/
                    r->state = CON_STATE_ERROR;
                    continue;
                }
            }
            if (!chunkqueue_is_empty(&r->write_queue)
                && (r->resp_body_finished
                    || (r->conf.stream_response_body
                        & (FDEVENT_STREAM_RESPONSE|FDEVENT_STREAM_RESPONSE_BUFMIN))))
                drain_cq(&r->write_queue, "W:");
            if (!chunkqueue_is_empty(&r->write_queue) || !r->resp_body_finished)
                return;
            r->state = CON_STATE_RESPONSE_END;
            continue;
          case CON_STATE_RESPONSE_END:
          case CON_STATE_ERROR:
            /* h2_send_end_stream() */
            flush_w();
            if (r->state != CON_STATE_ERROR && r->resp_body_finished) {
                size_t tn = 0;
                const char *tf = NULL;
                if (r->gw_dechunk && r->gw_dechunk->done && !buffer_is_unset(&r->gw_dechunk->b))
                    tf = trailer_fields(&r->gw_dechunk->b, &tn);
                if (tn) {
                    out_hex("T:", tf, tn);
                    buffer_append_string_len(out, CONST_STR_LEN(" "));
                }
                else
                    buffer_append_string_len(out, CONST_STR_LEN("E "));
            }
            else
                buffer_append_string_len(out, CONST_STR_LEN("R "));
            done_state = 1;
            return;
          default:
            return;
        }
    }
}

static void ltv_step(request_st * const r) {
    if (done_state || redispatch) return;
    if (NULL == r->handler_module
        && (r->state == CON_STATE_HANDLE_REQUEST || r->state == CON_STATE_READ_POST)) {
        /* http_response_handler() would now run http_response_prepare(), i.e. dispatch the request
         * again from scratch (a response head with an unusable Status field inside a 1xx block leaves
         * handler_module NULL while the backend context is still alive); not followed any further */
        flush_w();
        buffer_append_string_len(out, CONST_STR_LEN("X "));
        redispatch = 1;
        return;
    }
    if (r->http_version == HTTP_VERSION_2) ltv_step_h2(r); else ltv_step_h1(r);
    ltv_sched_run(ev);
}

/* ------------------------------------------------------------------ per-case setup */
static gw_handler_ctx *hctx;
static int peer = -1;

static void case_reset(request_st * const r) {
    /* tear down whatever the previous case left behind */
    if (r->plugin_ctx[pd.id]) {
        r->handler_module = NULL;
        gw_connection_close((gw_handler_ctx *)r->plugin_ctx[pd.id], r);
    }
    ltv_sched_run(ev);
    if (peer >= 0) { close(peer); peer = -1; }
    request_reset(r);
    chunkqueue_reset(&r->write_queue);
    chunkqueue_reset(&r->read_queue);
    r->write_queue.bytes_in = r->write_queue.bytes_out = 0;
    if (con.write_queue != &r->write_queue) {
        chunkqueue_free(con.write_queue);
        con.write_queue = &r->write_queue;
    }
    r->state = CON_STATE_HANDLE_REQUEST;
    r->resp_header_len = 0;
    con.is_writable = 1;
    con.traffic_limit_reached = 0;
    con.request_count = 1;
    done_state = 0;
    redispatch = 0;
    host.load = 0; proc.load = 0; host.hctxs = NULL;
    host.tcp_fin_propagate = 0;
}

static int case_start(request_st * const r, const char *be, int ver, int stream, int head) {
    r->http_version = ver == 10 ? HTTP_VERSION_1_0 : ver == 11 ? HTTP_VERSION_1_1 : HTTP_VERSION_2;
    r->http_method = head ? HTTP_METHOD_HEAD : HTTP_METHOD_GET;
    r->keep_alive = 1;
    r->reqbody_length = 0;
    r->conf.stream_response_body = stream == 1 ? FDEVENT_STREAM_RESPONSE
      : stream == 2 ? (FDEVENT_STREAM_RESPONSE|FDEVENT_STREAM_RESPONSE_BUFMIN) : 0;
    buffer_copy_string_len(&r->uri.path, CONST_STR_LEN("/x"));
    buffer_copy_string_len(&r->target, CONST_STR_LEN("/x"));

    int sv[2];
    if (0 != socketpair(AF_UNIX, SOCK_STREAM, 0, sv)) return -1;
    fcntl(sv[0], F_SETFL, fcntl(sv[0], F_GETFL) | O_NONBLOCK);
    fcntl(sv[0], F_SETFD, FD_CLOEXEC);
    fcntl(sv[1], F_SETFD, FD_CLOEXEC);
    fcntl(sv[1], F_SETFL, fcntl(sv[1], F_GETFL) | O_NONBLOCK);
    peer = sv[1];
    ++cur_fds;

    hctx = handler_ctx_init(0);
    hctx->ev = ev;
    hctx->r = r;
    hctx->con = &con;
    hctx->plugin_data = &pd;
    hctx->host = &host;
    hctx->proc = &proc;
    gw_host_assign(&host);
    gw_proc_load_inc(&host, &proc);
    hctx->gw_mode = GW_RESPONDER;
    hctx->conf.debug = 0;
    hctx->opts.max_per_read =
      !(r->conf.stream_response_body & (FDEVENT_STREAM_RESPONSE|FDEVENT_STREAM_RESPONSE_BUFMIN))
        ? 262144
        : (r->conf.stream_response_body & FDEVENT_STREAM_RESPONSE_BUFMIN) ? 16384 : 65536;
    hctx->opts.fdfmt = S_IFSOCK;
    hctx->opts.authorizer = 0;
    hctx->opts.local_redir = 0;
    hctx->opts.xsendfile_allow = 0;
    hctx->opts.pdata = hctx;
    if (0 == strcmp(be, "proxy")) {
        hctx->opts.backend = BACKEND_PROXY;
        hctx->response = chunk_buffer_acquire();
    }
    else if (0 == strcmp(be, "cgi")) {
        hctx->opts.backend = BACKEND_CGI;
        hctx->response = chunk_buffer_acquire();
    }
    else if (0 == strcmp(be, "scgi")) {
        hctx->opts.backend = BACKEND_SCGI;
        hctx->response = chunk_buffer_acquire();
    }
    else if (0 == strcmp(be, "fcgi")) {
        hctx->opts.backend = BACKEND_FASTCGI;
        hctx->opts.parse = fcgi_recv_parse;
        hctx->opts.headers = fcgi_response_headers;
        hctx->opts.max_per_read = sizeof(FCGI_Header)+FCGI_MAX_LENGTH+1;
        hctx->rb = chunkqueue_init(NULL);
        hctx->request_id = 1;
    }
    else return -1;
    hctx->fd = sv[0];
    hctx->fdn = fdevent_register(ev, hctx->fd, gw_handle_fdevent, hctx);
    fdevent_fdnode_event_set(ev, hctx->fdn, FDEVENT_IN | FDEVENT_RDHUP);
    gw_host_hctx_enq(hctx);
    /* the request has been sent completely; we are waiting for the response */
    hctx->state = GW_STATE_READ;
    hctx->wb.bytes_in = hctx->wb.bytes_out = 1;
    hctx->wb_reqlen = 1;
    hctx->pid = 0;
    r->plugin_ctx[pd.id] = hctx;
    r->handler_module = &fakeplugin;
    return 0;
}

static void hctx_event(request_st * const r, int revents) {
    gw_handler_ctx *h = (gw_handler_ctx *)r->plugin_ctx[pd.id];
    if (h) h->revents |= revents;
    ltv_step(r);
}

static void do_relay(request_st * const r) {
    if (ltv_ntok < 6) { puts("bad-op"); return; }
    case_reset(r);
    buffer_clear(out);
    buffer_clear(wpend);
    const int ver = atoi(ltv_tok[2]);
    if (0 != case_start(r, ltv_tok[1], ver, atoi(ltv_tok[3]), ltv_tok[4][0] == 'H')) { puts("bad-op"); return; }
    const char *end = ltv_tok[5];
    /* first pass through the state machine: nothing received yet */
    ltv_step(r);
    for (int i = 6; i < ltv_ntok; ++i) {
        size_t n; unsigned char *seg = ltv_unhex(ltv_tok[i], &n);
        size_t off = 0;
        int stuck = 0;
        while (off < n && peer >= 0 && stuck < 3) {
            ssize_t w = write(peer, seg + off, n - off);
            if (w > 0) { off += (size_t)w; stuck = 0; }
            else ++stuck;
            /* (large segments: let the server side read while we write) */
            if (off < n) hctx_event(r, FDEVENT_IN);
        }
        free(seg);
        hctx_event(r, FDEVENT_IN);
    }
    if (0 == strcmp(end, "eof")) {
        close(peer); peer = -1;
        hctx_event(r, FDEVENT_IN | FDEVENT_RDHUP | FDEVENT_HUP);
    }
    else if (0 == strcmp(end, "rst")) {
        /* unread data at close => ECONNRESET on the other side */
        gw_handler_ctx *h = (gw_handler_ctx *)r->plugin_ctx[pd.id];
        if (h && h->fd >= 0) { ssize_t w = write(h->fd, "x", 1); (void)w; }
        close(peer); peer = -1;
        hctx_event(r, FDEVENT_IN | FDEVENT_RDHUP | FDEVENT_HUP | FDEVENT_ERR);
    }
    else if (0 == strcmp(end, "err")) {
        hctx_event(r, FDEVENT_ERR);
    }
    else if (0 == strcmp(end, "hup")) {
        close(peer); peer = -1;
        hctx_event(r, FDEVENT_HUP);
    }
    flush_w();
    if (!buffer_is_blank(out)) fwrite(out->ptr, 1, buffer_clen(out), stdout);
    printf("end=%s st=%d fl=%d%d%d%d\n",
           !done_state ? "pend" : r->keep_alive > 0 ? "ka" : "close",
           r->http_status, r->resp_body_started, r->resp_body_finished,
           r->handler_module ? 1 : 0, r->state == CON_STATE_ERROR);
}

/* ------------------------------------------------------------------ dechunk only */
static void do_dechunk(request_st * const r) {
    if (ltv_ntok < 4) { puts("bad-op"); return; }
    case_reset(r);
    r->handler_module = NULL;
    r->http_version = HTTP_VERSION_1_1;
    r->http_status = 200;
    r->keep_alive = 1;
    r->conf.max_request_field_size = (unsigned int)atoi(ltv_tok[1]);
    r->resp_decode_chunked = 1;
    r->resp_send_chunked = atoi(ltv_tok[2]) ? 1 : 0;
    r->gw_dechunk = ck_calloc(1, sizeof(response_dechunk));
    int err = 0;
    for (int i = 3; i < ltv_ntok && !err; ++i) {
        size_t n; unsigned char *seg = ltv_unhex(ltv_tok[i], &n);
        if (0 != http_chunk_decode_append_mem(r, (char *)seg, n)) err = 1;
        free(seg);
    }
    buffer_clear(out);
    off_t len = chunkqueue_length(&r->write_queue);
    buffer *tb = buffer_init();
    char *p = buffer_string_prepare_append(tb, (size_t)len + 1);
    if (len && chunkqueue_read_data(&r->write_queue, p, (uint32_t)len, srv.errh) < 0) len = 0;
    out_hex("out=", p, (size_t)len);
    buffer_free(tb);
    if (err) printf("err %s\n", buffer_is_blank(out) ? "" : out->ptr);
    else {
        printf("ok %s te=%lld", out->ptr, (long long)r->gw_dechunk->gw_chunked);
        buffer_clear(out);
        if (r->gw_dechunk->done) {
            size_t tn; const char *tf = trailer_fields(&r->gw_dechunk->b, &tn);
            out_hex(" t=", tf, tn);
        }
        else
            out_hex(" h=", BUF_PTR_LEN(&r->gw_dechunk->b));
        printf("%s done=%d fin=%d ka=%d\n", out->ptr, r->gw_dechunk->done, r->resp_body_finished, r->keep_alive > 0);
    }
}

/* ------------------------------------------------------------------ FastCGI records only */
static void do_fcgi(request_st * const r) {
    if (ltv_ntok < 2) { puts("bad-op"); return; }
    case_reset(r);
    if (0 != case_start(r, "fcgi", 11, 0, 0)) { puts("bad-op"); return; }
    r->resp_body_started = 1; /* response headers already complete */
    r->http_status = 200;
    handler_t rc = HANDLER_GO_ON;
    for (int i = 1; i < ltv_ntok && rc == HANDLER_GO_ON; ++i) {
        size_t n; unsigned char *seg = ltv_unhex(ltv_tok[i], &n);
        buffer *b = chunk_buffer_acquire();
        buffer_copy_string_len(b, (char *)seg, n);
        if (n) rc = fcgi_recv_parse(r, &hctx->opts, b, n);
        chunk_buffer_release(b);
        free(seg);
    }
    buffer_clear(out);
    off_t len = chunkqueue_length(&r->write_queue);
    buffer *tb = buffer_init();
    char *p = buffer_string_prepare_append(tb, (size_t)len + 1);
    if (len && chunkqueue_read_data(&r->write_queue, p, (uint32_t)len, srv.errh) < 0) len = 0;
    out_hex("out=", p, (size_t)len);
    buffer_free(tb);
    printf("%s %s rb=%lld rid=%d\n", rc == HANDLER_GO_ON ? "go" : rc == HANDLER_FINISHED ? "fin" : "other",
           out->ptr, rc == HANDLER_GO_ON ? (long long)chunkqueue_length(hctx->rb) : 0LL, hctx->request_id);
}

int main(void) {
    signal(SIGPIPE, SIG_IGN);
    memset(&srv, 0, sizeof(srv));
    memset(&con, 0, sizeof(con));
    srv.errh = fdlog_init(NULL, open("/dev/null", O_WRONLY), FDLOG_FD);
    srv.tmp_buf = buffer_init();
    log_epoch_secs = 1000000000;
    log_monotonic_secs = 1000;
    chunkqueue_set_tempdirs_default(NULL, 0);
  #ifdef HAVE_SPLICE
    chunkqueue_internal_pipes(1); /*(as server.c does by default: enables http_response_append_splice())*/
  #endif

    ev = ck_calloc(1, sizeof(*ev));
    ev->fdarray = ck_calloc(4096, sizeof(*ev->fdarray));
    ev->maxfds = 4096;
    ev->event_set = ltv_event_set;
    ev->event_del = ltv_event_del;
    ev->errh = srv.errh;
    ev->cur_fds = &cur_fds;
    srv.ev = ev;
    srv.plugin_slots = slots;

    array *cc = array_init(1);
    srv.config_context = cc;
    array_insert_value(cc, CONST_STR_LEN("global"));  /* one context: used for cond_cache sizing */

    memset(&defconf, 0, sizeof(defconf));
    defconf.errh = srv.errh;
    defconf.max_keep_alive_requests = 100;
    defconf.max_keep_alive_idle = 5;
    defconf.max_read_idle = 60;
    defconf.max_write_idle = 360;
    defconf.max_request_field_size = 8192;
    defconf.http_parseopts = 0;
    request_config_set_defaults(&defconf);

    con.srv = &srv;
    con.plugin_slots = slots;
    con.fd = -1;
    con.network_write = ltv_network_write;
    con.srv_socket = &srvsock;
    con.is_writable = 1;
    con.request_count = 1;
    request_st * const r = &con.request;
    request_init_data(r, &con, &srv);
    con.write_queue = &r->write_queue;
    con.read_queue = &r->read_queue;
    r->state = CON_STATE_HANDLE_REQUEST;

    memset(&pd, 0, sizeof(pd));
    pd.id = 0;
    pd.self = &fakeplugin;
    fakeplugin.name = "ltv-gw";
    fakeplugin.data = &pd;
    fakeplugin.handle_subrequest = gw_handle_subrequest;

    memset(&host, 0, sizeof(host));
    memset(&proc, 0, sizeof(proc));
    host.stats_load = &stat_int[0];
    host.stats_global_active = &stat_int[1];
    host.family = AF_UNIX;
    host.first = &proc;
    host.read_timeout = 0;
    proc.stats_load = &stat_int[2];
    proc.stats_connected = &stat_int[3];
    proc.connection_name = buffer_init();
    buffer_copy_string_len(proc.connection_name, CONST_STR_LEN("unix:ltv"));
    proc.state = PROC_STATE_RUNNING;
    proc.is_local = 0;

    http_dispatch[HTTP_VERSION_1_1].send_1xx = h1_send_1xx;
    http_dispatch[HTTP_VERSION_2].send_1xx = ltv_h2_send_1xx;

    out = buffer_init();
    wpend = buffer_init();
    while (ltv_next()) {
        if (ltv_ntok < 1) { puts("bad-op"); continue; }
        if (0 == strcmp(ltv_tok[0], "relay")) do_relay(r);
        else if (0 == strcmp(ltv_tok[0], "dechunk")) do_dechunk(r);
        else if (0 == strcmp(ltv_tok[0], "fcgi")) do_fcgi(r);
        else puts("bad-op");
        fflush(stdout);
    }
    return 0;
}
