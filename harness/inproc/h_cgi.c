/* correspondence harness for C09: what the gateway backends are sent.
 * The real request parser builds the request_st from a raw request head; the real
 * gw_check_extension() (via fcgi/scgi/proxy *_check_extension) selects the backend, splits
 * path-info and applies the upgrade policy; then the real builders run:
 *   env    http_cgi_headers() with a capturing callback          -> list of (name, value)
 *   cgi    http_cgi_headers() with mod_cgi's cgi_env_add()       -> the envp block
 *   fcgi   fcgi_create_env() + fcgi_stdin_append()               -> bytes queued for the backend
 *   scgi   scgi_create_env() (LI_PROTOCOL_SCGI)  + gw_write_refill_wb()
 *   uwsgi  scgi_create_env() (LI_PROTOCOL_UWSGI) + gw_write_refill_wb()
 *   proxy  proxy_create_env() + proxy_stdin_append() / gw_write_refill_wb()
 *
 * line:  <op> <parseopts> <flags> <ext> <docroot|~> <strip|~> <basedir> <pinfoK> <srvtok>
 *        <fam.wild.colon> <sname|~> <raddr> <rport> <tag|~> <renv> <fwd.replacehost|~>
 *        <head> <body> <sched> P <parsed request ...>        (byte fields hex, "-" = empty)
 *   flags: 1 authorizer  2 break-scriptfilename-for-php  4 fix-root-scriptname  8 check-local
 *          16 https  32 error-handler status saved  64 HTTP/2  128 h2 extended CONNECT
 *          256 upgrade allowed  512 request body spooled to temp files
 *          1024 server.stream-request-body=1  2048 proxy force-http10  4096 server.stream-request-body=2
 *   body:  -  |  h<hex>  |  r<len>.<seed>  (pseudo-random block of 65521 bytes, repeated)
 *   sched: comma list; a number n = the next n body bytes arrive (the first entry is what is
 *          queued when create_env runs), then gw_write_refill_wb() runs with the write queue
 *          drained; "e" = the chunked request body is complete (gw_handle_subrequest() step);
 *          a first entry "c<n>" = n bytes arrive and reqbody_length becomes n before create_env
 *   everything after "P" is for the model only (the parsed request, obtained with op "parse")
 * output: <parsed request> | <result>
 *   parsed request:  err <status>
 *                  | m=<hex> v=<0|1> to=<hex> host=<hex|~> len=<n> hdrs=<k:v,...|->
 *   result:  nomatch | st=<status> | env <k=v,...> rc=<n> | cgi <n> <hex>
 *          | ok reqlen=<n> in=<n> pend=<n> out=<hex>
 * op "cgibody": mod_cgi's request-body path.  The body arrives by the schedule (numbers / c<n>,
 *   temp files with flag 512); cgi_write_request() writes it to the script's stdin pipe (or, not
 *   streaming and the body in one temp file, the temp file itself becomes stdin, as in
 *   cgi_create_env()); the harness reads the other end (a last schedule element "s<late>.<rd>" makes it a
 *   slow reader: the pipe fills up and write attempts meet EAGAIN).   result: cgibody eof=<0|1> pend=<n> out=<hex>
 * op "h2data <content-length|-1> <max-request-size kB> <consumer 0|1> <body> <frames> <segmentation>":
 *   HTTP/2 request body.  One open stream; the body is carried by DATA frames "len.pad.end[.x]" (pad -1 =
 *   not padded, end 1 = END_STREAM, x = Pad Length octet present but no padding octets follow); the frame
 *   byte stream is cut into read chunks of the given sizes (cycled), and h2_parse_frames() ->
 *   h2_recv_data() runs after each chunk, as after each network read.  consumer 1 = streamed request:
 *   chunks also end at every frame end and r->reqbody_queue is emptied after each (bytes_out advances).
 *   result: h2data state=<open|hcr|closed> len=<reqbody_length> rst=<RST_STREAM sent> goaway=<0|1>
 *           st=<http status> rb=<h2_recv_reqbody(): ready|more|wait|error|-> rq=<unconsumed bytes>
 *           out=<hex of everything that went through r->reqbody_queue>
 * op "parse <parseopts> <flags> <head>" prints only the parsed request.
 *
 * ops gfcgi / gscgi / guwsgi / gproxy: same line layout, but the real gw_handle_subrequest()
 * (gw_backend.c) runs the request: h1_reqbody_read() reads the client's bytes (Content-Length
 * or chunked framing, spooling to temp files as the real code decides), gw_write_request()
 * calls create_env and writes to a scripted backend socket, gw_write_refill_wb() hands the
 * body over.  The backend connection is taken as established (state GW_STATE_PREPARE_WRITE).
 *   body:  raw client bytes after the head:  - | h<hex> | r<len>.<seed> |
 *          k<len>.<seed>.<chunkseed>.<rawlen>  (body r<len>.<seed> in chunked framing)
 *   sched: c<n> = n more client bytes are readable, w<n> = the backend socket accepts n more
 *          bytes; gw_handle_subrequest() runs after each step; afterwards all remaining client
 *          bytes are delivered and the socket accepts everything, until nothing moves
 *   result: g<backend> rc=<handler_t> st=<http status>            (request answered by lighttpd)
 *         | g<backend> rc=<n> st=0 gs=<gw state> d=<wb_reqlen - wb.bytes_in> pend=<n> rq=<n> out=<hex>
 */
#include "first.h"
#include "harness_common.h"

#include <unistd.h>
#include <fcntl.h>
#include <dirent.h>
#include <sys/stat.h>

#include "base.h"
#include "buffer.h"
#include "array.h"
#include "chunk.h"
#include "log.h"
#include "fdlog.h"
#include "http_header.h"
#include "http_kv.h"
#include "http_cgi.h"
#include "plugin.h"
#include "plugin_config.h"
#include "request.h"
#include "h1.h"
#include "sock_addr.h"
#include "fdevent.h"

#include "h2.c"
#include "gw_backend.c"

#define plugin_config fcgi_plugin_config
#define plugin_data   fcgi_plugin_data
#define handler_ctx   fcgi_handler_ctx
#include "mod_fastcgi.c"
#undef plugin_config
#undef plugin_data
#undef handler_ctx

#define plugin_config scgi_plugin_config
#define plugin_data   scgi_plugin_data
#define handler_ctx   scgi_handler_ctx
#include "mod_scgi.c"
#undef plugin_config
#undef plugin_data
#undef handler_ctx

#define plugin_config proxy_plugin_config
#define plugin_data   proxy_plugin_data
#define handler_ctx   proxy_handler_ctx
#include "mod_proxy.c"
#undef plugin_config
#undef plugin_data
#undef handler_ctx

#define plugin_config cgi_plugin_config
#define plugin_data   cgi_plugin_data
#define handler_ctx   cgi_handler_ctx
#include "mod_cgi.c"
#undef plugin_config
#undef plugin_data
#undef handler_ctx

#include <sys/socket.h>
#include <signal.h>

/* watchdog: a case that does not finish (a loop that stopped making progress) is a crash result */
static void on_alarm(int sig) {
    UNUSED(sig);
    static const char msg[] = "h_cgi: case did not terminate within 120 s (livelock)\n";
    if (write(2, msg, sizeof(msg)-1) < 0) {}
    _exit(97);
}

enum { F_AUTH = 1, F_BREAKPHP = 2, F_FIXROOT = 4, F_CHECKLOCAL = 8, F_HTTPS = 16, F_ERRSAVED = 32,
       F_H2 = 64, F_H2EXT = 128, F_UPGRADE = 256, F_TEMPFILES = 512, F_STREAM = 1024, F_HTTP10 = 2048, F_STREAM2 = 4096 };

static server srv;
static connection con;
static request_st * const r = &con.request;
static server_socket srv_sock;
static log_error_st *errh;
static char tmproot[512];

static handler_t stub_request_env(request_st *rq) { UNUSED(rq); return HANDLER_GO_ON; }
/* client socket: nothing more to read right now (client bytes are put into r->read_queue by the schedule) */
static int stub_network_read(connection *c, chunkqueue *cq, off_t max_bytes) { UNUSED(c); UNUSED(cq); UNUSED(max_bytes); return 0; }
static handler_t stub_fdevent_handler(void *ctx, int revents) { UNUSED(ctx); UNUSED(revents); return HANDLER_GO_ON; }

static void rm_tmproot(void) {
    DIR *dp = opendir(tmproot);
    if (dp) {
        struct dirent *e; char p[1024];
        while ((e = readdir(dp))) {
            if (e->d_name[0] == '.') continue;
            snprintf(p, sizeof(p), "%s/%s", tmproot, e->d_name);
            unlink(p);
        }
        closedir(dp);
    }
    rmdir(tmproot);
}

static buffer *hexbuf(const char *tok) {   /* NULL for "~" */
    if (tok[0] == '~' && tok[1] == 0) return NULL;
    size_t n; unsigned char *b = ltv_unhex(tok, &n);
    buffer *o = buffer_init();
    buffer_copy_string_len(o, (char *)b, n);
    free(b);
    return o;
}

static void put_kv_list_sep(int *first) { if (!*first) fputc(',', stdout); *first = 0; }

/* ---- request parsing (as h_request.c) and canonical dump of the parsed request ---- */
static unsigned short hoff[8192];

static void request_reset_all(void) {
    r->http_method = HTTP_METHOD_UNSET;
    r->http_version = HTTP_VERSION_UNSET;
    r->http_host = NULL;
    r->rqst_htags = 0;
    r->reqbody_length = 0;
    r->keep_alive = 0;
    r->http_status = 0;
    r->h2_connect_ext = 0;
    r->handler_module = NULL;
    r->error_handler_saved_status = 0;
    r->state = CON_STATE_HANDLE_REQUEST;
    r->x.h1.te_chunked = 0;
    buffer_clear(&r->target_orig);
    buffer_clear(&r->target);
    buffer_clear(&r->uri.path);
    buffer_clear(&r->uri.query);
    buffer_clear(&r->uri.authority);
    buffer_clear(&r->uri.scheme);
    buffer_clear(&r->pathinfo);
    buffer_clear(&r->physical.path);
    buffer_clear(&r->physical.basedir);
    array_reset_data_strings(&r->rqst_headers);
    array_reset_data_strings(&r->env);
    chunkqueue_reset(&r->read_queue);
    chunkqueue_reset(&r->reqbody_queue);
    r->read_queue.bytes_in = r->read_queue.bytes_out = 0;
    r->reqbody_queue.bytes_in = r->reqbody_queue.bytes_out = 0;
    r->server_name = &r->uri.authority;
    r->conf.stream_request_body = 0;
}

/* returns 0 if a request was parsed (r->http_status == 0), else prints "err <status>" */
static int parse_head(unsigned int parseopts, int flags, const char *headhex) {
    size_t n; unsigned char *blk = ltv_unhex(headhex, &n);
    request_reset_all();
    r->conf.http_parseopts = parseopts;
    hoff[0] = 1; hoff[1] = 0;
    uint32_t hlen = http_header_parse_hoff((char *)blk, (uint32_t)n, hoff);
    if (0 == hlen || hoff[0] <= 1 || hlen > 65535) { fputs("err 0", stdout); free(blk); return -1; }
    r->rqst_header_len = hlen;
    http_request_headers_process(r, (char *)blk, hoff, (flags & F_HTTPS) ? 443 : 80);
    free(blk);
    if (0 != r->http_status) { printf("err %d", r->http_status); return -1; }
    return 0;
}

static void print_parsed(void) {
    const buffer *m = http_method_buf(r->http_method);
    fputs("m=", stdout); ltv_puthex(m->ptr, buffer_clen(m));
    printf(" v=%d to=", (int)r->http_version);
    ltv_puthex(r->target_orig.ptr, buffer_clen(&r->target_orig));
    fputs(" host=", stdout);
    if (r->http_host) ltv_puthex(r->http_host->ptr, buffer_clen(r->http_host)); else fputc('~', stdout);
    printf(" len=%lld hdrs=", (long long)r->reqbody_length);
    int first = 1;
    for (uint32_t i = 0; i < r->rqst_headers.used; ++i) {
        const data_string *ds = (const data_string *)r->rqst_headers.data[i];
        put_kv_list_sep(&first);
        ltv_puthex(ds->key.ptr, buffer_clen(&ds->key));
        fputc(':', stdout);
        ltv_puthex(ds->value.ptr, buffer_clen(&ds->value));
    }
    if (first) fputc('-', stdout);
}

/* ---- body bytes ---- */
static unsigned char *body; static size_t body_len, body_pos;

static void make_body(const char *tok) {
    free(body); body = NULL; body_len = body_pos = 0;
    if (tok[0] == '-') body = malloc(1);
    else if (tok[0] == 'h') body = ltv_unhex(tok + 1, &body_len);
    else if (tok[0] == 'r') {
        unsigned long len = 0, seed = 0;
        sscanf(tok + 1, "%lu.%lu", &len, &seed);
        /* pseudo-random block of up to 65521 bytes (LCG), repeated cyclically */
        body = malloc(len + 1);
        body_len = len;
        uint32_t x = (uint32_t)seed & 0x7fffffffu;
        const size_t blk = len < 65521 ? len : 65521;
        for (size_t i = 0; i < blk; ++i) {
            x = (x * 1103515245u + 12345u) & 0x7fffffffu;
            body[i] = (unsigned char)(x >> 16);
        }
        for (size_t i = blk; i < len; ++i) body[i] = body[i - 65521];
    }
}

/* the next n body bytes arrive in r->reqbody_queue (optionally spooled to temp files,
 * as h1_reqbody_read()/h2_recv_data() do for large bodies) */
static void body_arrive(size_t n, int tempfiles) {
    if (n > body_len - body_pos) n = body_len - body_pos;
    if (0 == n) return;
    if (!tempfiles)
        chunkqueue_append_mem(&r->reqbody_queue, (char *)body + body_pos, n);
    else {
        chunkqueue * const stage = &r->read_queue;
        chunkqueue_append_mem(stage, (char *)body + body_pos, n);
        if (0 != chunkqueue_steal_with_tempfiles(&r->reqbody_queue, stage, (off_t)n, errh)) {
            fputs("TEMPFILE-ERROR ", stdout);
        }
        chunkqueue_remove_finished_chunks(stage);
    }
    body_pos += n;
}

/* ---- backend plumbing ---- */
static gw_plugin_data    gwp_fcgi, gwp_scgi;
static proxy_plugin_data gwp_proxy;
static plugin pl_fcgi, pl_scgi, pl_proxy;
static gw_exts exts_all, exts_none;
static gw_extension the_ext;
static gw_host the_host;
static gw_host *the_hosts[1] = { &the_host };
static int stat_load, stat_active;
static void *plugin_ctx_slots[4];
static buffer *capture;
static int drain_err;

static void drain(chunkqueue *cq) {
    off_t len = chunkqueue_length(cq);
    while (len > 0) {
        uint32_t n = len > 1048576 ? 1048576 : (uint32_t)len;
        char *p = buffer_extend(capture, n);
        if (chunkqueue_read_data(cq, p, n, errh) < 0) { drain_err = 1; return; }
        len -= n;
    }
    chunkqueue_remove_finished_chunks(cq);
}

static void setup_ext(const buffer *key, const buffer *docroot, const buffer *strip, int flags) {
    memset(&the_host, 0, sizeof(the_host));
    the_host.active_procs = 1;
    the_host.stats_load = &stat_load;
    the_host.stats_global_active = &stat_active;
    the_host.docroot = docroot;
    the_host.strip_request_uri = strip;
    the_host.break_scriptfilename_for_php = !!(flags & F_BREAKPHP);
    the_host.fix_root_path_name = !!(flags & F_FIXROOT);
    the_host.check_local = !!(flags & F_CHECKLOCAL);
    the_host.upgrade = !!(flags & F_UPGRADE);
    the_host.family = AF_UNIX;
    static buffer host_id;
    host_id.ptr = "backend.example:8080"; host_id.used = sizeof("backend.example:8080"); host_id.size = 0;
    the_host.id = &host_id;
    memset(&the_ext, 0, sizeof(the_ext));
    memcpy((void *)&the_ext.key, key, sizeof(buffer));   /*(shares the string)*/
    the_ext.hosts = the_hosts;
    the_ext.used = 1;
    the_ext.size = 1;
    exts_all.exts = &the_ext; exts_all.used = 1; exts_all.size = 1;
    exts_none.exts = NULL; exts_none.used = 0; exts_none.size = 0;
}

static void conf_gw(gw_plugin_config *c, int flags) {
    memset(c, 0, sizeof(*c));
    c->exts = &exts_all;
    c->exts_auth = (flags & F_AUTH) ? &exts_all : &exts_none;
    c->exts_resp = (flags & F_AUTH) ? &exts_none : &exts_all;
}

static void release_hctx(gw_plugin_data *p) {
    gw_handler_ctx *hctx = r->plugin_ctx[p->id];
    if (hctx) {
        gw_backend_close(hctx, r);
        handler_ctx_free(hctx);
        r->plugin_ctx[p->id] = NULL;
    }
    r->handler_module = NULL;
}

/* ---- env capture ---- */
static int env_first;
static int cap_env_add(void *v, const char *k, size_t kl, const char *val, size_t vl) {
    UNUSED(v);
    if (!k || (!val && vl)) return -1;
    put_kv_list_sep(&env_first);
    ltv_puthex(k, kl); fputc('=', stdout); ltv_puthex(val, vl);
    return 0;
}

static void apply_request_flags(int flags, char **t) {
    /* t[0..] = basedir pinfoK srvtok aux sname raddr rport tag renv */
    if (flags & F_H2) r->http_version = HTTP_VERSION_2;
    if (flags & F_H2EXT) { r->http_version = HTTP_VERSION_2; r->h2_connect_ext = 1; }
    if (flags & F_ERRSAVED) r->error_handler_saved_status = 404;
    if (flags & F_STREAM) r->conf.stream_request_body = FDEVENT_STREAM_REQUEST;
    /* server.stream-request-body = 2 sets both bits (configfile.c) */
    if (flags & F_STREAM2) r->conf.stream_request_body = FDEVENT_STREAM_REQUEST | FDEVENT_STREAM_REQUEST_BUFMIN;

    buffer *basedir = hexbuf(t[0]);
    buffer_copy_buffer(&r->physical.basedir, basedir);
    buffer_copy_path_len2(&r->physical.path, BUF_PTR_LEN(basedir), BUF_PTR_LEN(&r->uri.path));
    buffer_free(basedir);

    /* path-info as found by the filesystem walk of http_response_physical_pathinfo():
     * everything from the K-th '/' from the end (not the leading one) */
    uint32_t k = 0;
    uint32_t plen = buffer_clen(&r->uri.path);
    {
        int nth = atoi(t[1]);
        for (uint32_t i = plen; nth > 0 && i > 1; --i) {
            if (r->uri.path.ptr[i-1] == '/' && 0 == --nth) k = plen - (i-1);
        }
    }
    if (k > 0 && k < plen) {
        buffer_copy_string_len(&r->pathinfo, r->uri.path.ptr + plen - k, k);
        buffer_truncate(&r->uri.path, plen - k);
        buffer_truncate(&r->physical.path, buffer_clen(&r->physical.path) - k);
    }

    /* listening socket */
    static buffer *srvtok;
    if (srvtok) buffer_free(srvtok);
    srvtok = hexbuf(t[2]);
    srv_sock.srv_token = srvtok;
    char fam = t[3][0]; int wild = 0, colon = 0;
    sscanf(t[3] + 1, ".%d.%d", &wild, &colon);
    srv_sock.srv_token_colon = (uint8_t)colon;
    srv_sock.is_ssl = !!(flags & F_HTTPS);
    memset(&srv_sock.addr, 0, sizeof(srv_sock.addr));
    if (fam == '4') sock_addr_inet_pton(&srv_sock.addr, wild ? "0.0.0.0" : "192.0.2.1", AF_INET, 80);
    else if (fam == '6') sock_addr_inet_pton(&srv_sock.addr, wild ? "::" : "2001:db8::1", AF_INET6, 80);
    else srv_sock.addr.plain.sa_family = AF_UNIX;

    static buffer *sname;
    if (sname) { buffer_free(sname); sname = NULL; }
    sname = hexbuf(t[4]);
    r->server_name = sname ? sname : &r->uri.authority;

    buffer *raddr = hexbuf(t[5]);
    buffer_copy_buffer(&con.dst_addr_buf, raddr);
    buffer_free(raddr);
    sock_addr_inet_pton(&con.dst_addr, "198.51.100.7", AF_INET, (unsigned short)atoi(t[6]));

    static buffer *tag;
    if (tag) { buffer_free(tag); tag = NULL; }
    tag = hexbuf(t[7]);
    r->conf.server_tag = tag;

    if (!(t[8][0] == '-' && t[8][1] == 0)) {
        char *save = NULL;
        for (char *e = strtok_r(t[8], ",", &save); e; e = strtok_r(NULL, ",", &save)) {
            char *c = strchr(e, ':');
            if (!c) continue;
            *c = 0;
            size_t kl, vl;
            unsigned char *k2 = ltv_unhex(e, &kl), *v2 = ltv_unhex(c + 1, &vl);
            http_header_env_set(r, (char *)k2, (uint32_t)kl, (char *)v2, (uint32_t)vl);
            free(k2); free(v2);
        }
    }
}

/* ---- gw_handle_subrequest() driving: scripted backend socket, raw client stream ---- */
static off_t wcap, wrote_iter;
static int stub_backend_write(int fd, chunkqueue *cq, off_t max_bytes, log_error_st *eh) {
    UNUSED(fd);
    off_t n = chunkqueue_length(cq);
    if (n > max_bytes) n = max_bytes;
    if (n > wcap) n = wcap;
    while (n > 0) {
        uint32_t k = n > 1048576 ? 1048576 : (uint32_t)n;
        char *p = buffer_extend(capture, k);
        if (chunkqueue_read_data(cq, p, k, eh) < 0) { drain_err = 1; return -1; }
        n -= k; wcap -= k; wrote_iter += k;
    }
    chunkqueue_remove_finished_chunks(cq);
    return 0;
}

static unsigned char *raw; static size_t raw_len, raw_pos;
static void make_raw(const char *tok) {
    free(raw); raw = NULL; raw_len = raw_pos = 0;
    if (tok[0] != 'k') {
        make_body(tok);
        raw = body; raw_len = body_len; body = NULL; body_len = 0;
        return;
    }
    unsigned long len = 0, seed = 0, cseed = 0, rawlen = 0;
    sscanf(tok + 1, "%lu.%lu.%lu.%lu", &len, &seed, &cseed, &rawlen);
    char btok[64];
    snprintf(btok, sizeof(btok), "r%lu.%lu", len, seed);
    make_body(btok);
    raw = malloc(len * 25 + 64);     /*(a chunk of >= 1 byte costs <= 20 bytes of framing)*/
    uint32_t x = (uint32_t)cseed & 0x7fffffffu;
    const unsigned long M = (cseed % 3 == 0) ? 16 : (cseed % 3 == 1) ? 1000 : 70000;
    size_t pos = 0, o = 0;
    while (pos < len) {
        x = (x * 1103515245u + 12345u) & 0x7fffffffu;
        unsigned long sz = 1 + (x >> 4) % M;
        if (sz > len - pos) sz = len - pos;
        o += (size_t)sprintf((char *)raw + o, "%lx%s\r\n", sz, (x & 3) == 0 ? ";ext=1" : "");
        memcpy(raw + o, body + pos, sz); o += sz; pos += sz;
        raw[o++] = '\r'; raw[o++] = '\n';
    }
    memcpy(raw + o, "0\r\n\r\n", 5); o += 5;
    raw_len = o;
}
static void raw_deliver(size_t n) {
    if (n > raw_len - raw_pos) n = raw_len - raw_pos;
    if (n) chunkqueue_append_mem(&r->read_queue, (char *)raw + raw_pos, n);
    raw_pos += n;
}

int main(void) {
    const char *tmp = getenv("TMPDIR");
    if (NULL == tmp || 0 == *tmp) tmp = "/tmp";
    snprintf(tmproot, sizeof(tmproot), "%s/ltvcgi.%d", tmp, (int)getpid());
    mkdir(tmproot, 0700);
    atexit(rm_tmproot);
    array *tdirs = array_init(2);
    array_insert_value(tdirs, tmproot, strlen(tmproot));
    chunkqueue_set_tempdirs_default(tdirs, 0);

    int nullfd = open("/dev/null", O_WRONLY);
    errh = fdlog_init(NULL, nullfd, FDLOG_FD);
    memset(&srv, 0, sizeof(srv));
    memset(&con, 0, sizeof(con));
    srv.errh = errh;
    srv.tmp_buf = buffer_init();
    srv.request_env = stub_request_env;
    srv.network_backend_write = stub_backend_write;
    srv.max_fds = 256;
    srv.ev = fdevent_init("poll", &srv.max_fds, &srv.cur_fds, errh);
    if (NULL == srv.ev) { puts("init-failed"); return 1; }
    static gw_proc the_proc;
    static buffer proc_name; proc_name.ptr = "backend"; proc_name.used = 8;
    the_proc.connection_name = &proc_name;
    con.srv = &srv;
    con.fd = -1;
    con.srv_socket = &srv_sock;
    con.reqbody_read = h1_reqbody_read;
    con.network_read = stub_network_read;
    r->con = &con;
    r->tmp_buf = srv.tmp_buf;
    r->conf.errh = errh;
    r->conf.max_request_field_size = 8192;
    r->plugin_ctx = plugin_ctx_slots;
    r->dst_addr = &con.dst_addr;
    r->dst_addr_buf = &con.dst_addr_buf;
    chunkqueue_init(&r->read_queue);
    chunkqueue_init(&r->reqbody_queue);
    chunkqueue_init(&r->write_queue);
    capture = buffer_init();
    /* (a never-used r->pathinfo has ptr NULL; http_cgi_headers() then hands NULL/0 to memcpy()
     *  via buffer_copy_path_len2() with break-scriptfilename-for-php: benign, outside C09) */
    buffer_string_prepare_copy(&r->pathinfo, 63);
    buffer_clear(&r->pathinfo);
    setvbuf(stdout, NULL, _IOLBF, 1 << 16);   /* a sanitizer abort must not lose finished lines */

    pl_fcgi.name = "fastcgi"; pl_scgi.name = "scgi"; pl_proxy.name = "proxy";
    gwp_fcgi.id = 0; gwp_fcgi.self = &pl_fcgi;
    gwp_scgi.id = 1; gwp_scgi.self = &pl_scgi;
    gwp_proxy.id = 2; gwp_proxy.self = &pl_proxy;

    signal(SIGALRM, on_alarm);
    while (ltv_next()) {
        alarm(120);
        if (ltv_ntok < 1) { puts("bad-op"); continue; }
        const char *op = ltv_tok[0];
        if (0 == strcmp(op, "parse") && ltv_ntok == 4) {
            if (0 == parse_head((unsigned)atoi(ltv_tok[1]), atoi(ltv_tok[2]), ltv_tok[3])) print_parsed();
            fputc('\n', stdout);
            continue;
        }
        if (0 == strcmp(op, "h2data") && ltv_ntok == 7) {
            /* a connection with one open stream (id 1), as h2_recv_headers() leaves it */
            static h2con *h2c; static request_st *sr; static chunkqueue *h2wq;
            if (!h2c) {
                h2c = ck_calloc(1, sizeof(h2con));
                sr = ck_calloc(1, sizeof(request_st));
                chunkqueue_init(&sr->reqbody_queue); chunkqueue_init(&sr->read_queue); chunkqueue_init(&sr->write_queue);
                h2wq = chunkqueue_init(NULL);
            }
            memset(h2c, 0, sizeof(*h2c));
            h2c->s_initial_window_size = 65535; h2c->s_max_frame_size = 16384;
            h2c->r[0] = sr; h2c->rused = 1; h2c->h2_cid = 1;
            con.hx = (hxcon *)h2c;
            con.read_queue = &r->read_queue;
            con.write_queue = h2wq;
            chunkqueue_reset(con.read_queue); chunkqueue_reset(h2wq);
            chunkqueue_reset(&sr->reqbody_queue);
            sr->reqbody_queue.bytes_in = sr->reqbody_queue.bytes_out = 0;
            sr->read_queue.bytes_in = sr->read_queue.bytes_out = 0;
            sr->con = &con; sr->conf = r->conf; sr->conf.max_request_size = (unsigned int)atoi(ltv_tok[2]);
            const int cons = atoi(ltv_tok[3]);
            sr->conf.stream_request_body = cons ? FDEVENT_STREAM_REQUEST : 0;
            sr->handler_module = NULL; sr->rqst_htags = 0;
            sr->tmp_buf = r->tmp_buf;
            sr->http_status = 0; sr->state = CON_STATE_READ_POST; sr->http_version = HTTP_VERSION_2;
            sr->x.h2.id = 1; sr->x.h2.state = H2_STATE_OPEN; sr->x.h2.rwin = 65536; sr->x.h2.swin = 65535;
            sr->x.h2.rwin_fudge = 0;
            r->x.h2.id = 0; r->x.h2.rwin = 262144; r->x.h2.rwin_fudge = 0;
            sr->reqbody_length = (off_t)atoll(ltv_tok[1]);
            make_body(ltv_tok[4]);
            /* build the frame byte stream; fend[] = offsets at which a frame is complete */
            buffer *fs = buffer_init();
            static size_t fend[4096]; int nf = 0;
            char *save = NULL;
            for (char *f = strtok_r(ltv_tok[5], ",", &save); f; f = strtok_r(NULL, ",", &save)) {
                long dl = 0; int pad = -1, end = 0; char x = 0;
                sscanf(f, "%ld.%d.%d.%c", &dl, &pad, &end, &x);
                if ((size_t)dl > body_len - body_pos) dl = (long)(body_len - body_pos);
                const int npad = (pad >= 0 && x != 'x') ? pad : 0;   /* 'x': Pad Length announced, padding absent */
                const uint32_t flen = (uint32_t)dl + (pad >= 0 ? 1u + (uint32_t)npad : 0u);
                unsigned char hd[10] = { (unsigned char)(flen >> 16), (unsigned char)(flen >> 8), (unsigned char)flen,
                                         H2_FTYPE_DATA, (unsigned char)((pad >= 0 ? H2_FLAG_PADDED : 0) | (end ? H2_FLAG_END_STREAM : 0)),
                                         0, 0, 0, 1, (unsigned char)pad };
                buffer_append_string_len(fs, (char *)hd, pad >= 0 ? 10 : 9);
                buffer_append_string_len(fs, (char *)body + body_pos, (size_t)dl);
                body_pos += (size_t)dl;
                for (int i = 0; i < npad; ++i) buffer_append_char(fs, (char)0xAA);
                if (nf < 4096) fend[nf++] = buffer_clen(fs);
            }
            /* feed it in read chunks; with a consumer, additionally stop at every frame end and let the
             * consumer (the backend side of a streamed request) take what is in r->reqbody_queue */
            long seg[64]; int nseg = 0;
            for (char *g = strtok_r(ltv_tok[6], ",", &save); g && nseg < 64; g = strtok_r(NULL, ",", &save)) seg[nseg++] = atol(g);
            size_t pos = 0; const size_t total = buffer_clen(fs);
            buffer_clear(capture);
            int fi = 0;
            for (int i = 0; pos < total; ++i) {
                size_t n = (nseg && seg[i % nseg] > 0) ? (size_t)seg[i % nseg] : total;
                if (n > total - pos) n = total - pos;
                if (cons) {
                    while (fi < nf && fend[fi] <= pos) ++fi;
                    if (fi < nf && pos + n > fend[fi]) n = fend[fi] - pos;
                }
                buffer *b = chunkqueue_append_buffer_open_sz(con.read_queue, n);
                buffer_copy_string_len(b, fs->ptr + pos, n);
                chunkqueue_append_buffer_commit(con.read_queue);
                pos += n;
                if (!h2_parse_frames(&con) && h2c->sent_goaway) break;
                chunkqueue_remove_finished_chunks(con.read_queue);
                if (cons) {
                    off_t bl = chunkqueue_length(&sr->reqbody_queue);
                    if (bl > 0) {
                        char *pc = buffer_extend(capture, (size_t)bl);
                        if (chunkqueue_read_data(&sr->reqbody_queue, pc, (uint32_t)bl, errh) < 0) fputs("READ-ERROR ", stdout);
                    }
                }
            }
            /* RST_STREAM frames lighttpd queued for the client */
            int nrst = 0;
            {
                buffer *w = buffer_init();
                off_t wl = chunkqueue_length(h2wq);
                if (wl) { char *pw = buffer_extend(w, (size_t)wl); if (chunkqueue_read_data(h2wq, pw, (uint32_t)wl, errh) < 0) wl = 0; }
                for (off_t o = 0; o + 9 <= wl; ) {
                    const unsigned char *u = (unsigned char *)w->ptr + o;
                    const uint32_t l = ((uint32_t)u[0] << 16) | ((uint32_t)u[1] << 8) | u[2];
                    if (u[3] == H2_FTYPE_RST_STREAM) ++nrst;
                    o += 9 + l;
                }
                buffer_free(w);
            }
            {
                off_t bl = chunkqueue_length(&sr->reqbody_queue);
                while (bl > 0) {
                    uint32_t k = bl > 1048576 ? 1048576 : (uint32_t)bl;
                    char *pc = buffer_extend(capture, k);
                    if (chunkqueue_read_data(&sr->reqbody_queue, pc, k, errh) < 0) { fputs("READ-ERROR ", stdout); break; }
                    bl -= k;
                }
            }
            /* what the backend side is told next: h2_recv_reqbody() (con->reqbody_read) */
            const char *rb = "-";
            if (!h2c->sent_goaway) {
                const handler_t hrc = h2_recv_reqbody(sr);
                rb = (sr->reqbody_queue.bytes_in == (off_t)sr->reqbody_length && hrc == HANDLER_GO_ON) ? "ready"
                   : hrc == HANDLER_GO_ON ? "more" : hrc == HANDLER_WAIT_FOR_EVENT ? "wait" : hrc == HANDLER_ERROR ? "error" : "other";
            }
            printf("h2data state=%s len=%lld rst=%d goaway=%d st=%d rb=%s rq=%lld out=",
                   sr->x.h2.state == H2_STATE_OPEN ? "open" : sr->x.h2.state == H2_STATE_HALF_CLOSED_REMOTE ? "hcr"
                   : sr->x.h2.state == H2_STATE_CLOSED ? "closed" : "other", (long long)sr->reqbody_length,
                   nrst, h2c->sent_goaway ? 1 : 0, sr->http_status, rb,
                   h2c->sent_goaway ? 0LL : (long long)chunkqueue_length(con.read_queue));
            ltv_puthex(capture->ptr, buffer_clen(capture));
            fputc('\n', stdout);
            buffer_free(fs);
            chunkqueue_reset(con.read_queue); chunkqueue_reset(&sr->reqbody_queue);
            con.hx = NULL; con.read_queue = NULL; con.write_queue = NULL;
            r->x.h1.te_chunked = 0; r->x.h1.bytes_written_ckpt = 0; r->x.h1.bytes_read_ckpt = 0;
            continue;
        }
        const int is_gw = (op[0] == 'g');
        const char * const gop = op;
        if (is_gw) ++op;
        /* "scgibuf" / "uwsgibuf": as "scgi" / "uwsgi", but the observation is taken right after
         * scgi_create_env(): offset of the first chunk of hctx->wb, the bytes of its buffer in front of that
         * offset, wb_reqlen, wb.bytes_in, wb.bytes_out, then everything a reader of the queue gets */
        const int is_buf = (0 == strcmp(op, "scgibuf") || 0 == strcmp(op, "uwsgibuf"));
        if (is_buf) op = (op[0] == 's') ? "scgi" : "uwsgi";
        const int is_cgibody = 0 == strcmp(op, "cgibody");
        const int is_env = 0 == strcmp(op, "env"), is_cgi = 0 == strcmp(op, "cgi") || is_cgibody,
                  is_fcgi = 0 == strcmp(op, "fcgi"), is_scgi = 0 == strcmp(op, "scgi"),
                  is_uwsgi = 0 == strcmp(op, "uwsgi"), is_proxy = 0 == strcmp(op, "proxy");
        if (!(is_env || is_cgi || is_fcgi || is_scgi || is_uwsgi || is_proxy) || ltv_ntok < 19
            || (is_gw && (is_env || is_cgi))) {
            puts("bad-op"); continue;
        }
        const unsigned int parseopts = (unsigned)atoi(ltv_tok[1]);
        const int flags = atoi(ltv_tok[2]);
        if (0 != parse_head(parseopts, flags, ltv_tok[16])) { fputc('\n', stdout); continue; }
        print_parsed();
        fputs(" | ", stdout);

        buffer *key = hexbuf(ltv_tok[3]);
        buffer *docroot = hexbuf(ltv_tok[4]);
        buffer *strip = hexbuf(ltv_tok[5]);
        apply_request_flags(flags, ltv_tok + 6);
        setup_ext(key, docroot, strip, flags);

        if (is_cgibody) {
            cgi_handler_ctx *ch = cgi_handler_ctx_init();
            ch->r = r; ch->con = &con; ch->ev = srv.ev;
            int pfd[2] = { -1, -1 };
            if (0 != pipe(pfd)) { puts("pipe-failed"); cgi_handler_ctx_free(ch); goto done; }
            fdevent_fcntl_set_nb(pfd[0]); fdevent_fcntl_set_nb(pfd[1]);
            make_body(ltv_tok[17]);
            buffer_clear(capture);
            int eof = 0, wfd_open = 1;
            /* optional last schedule element "s<late>.<rd>": the script is a slow reader: it does not read
             * during the first <late> rounds and then reads at most <rd> bytes per round (0: all there is),
             * and the client's data keeps arriving (one schedule step per round) whether or not it was read */
            int slow = 0; long rd_late = 0; size_t rd_max = 0;
            {
                char *sp = strrchr(ltv_tok[18], ',');
                if (sp && sp[1] == 's') {
                    slow = 1;
                    rd_late = atol(sp + 2);
                    const char *dot = strchr(sp + 2, '.');
                    rd_max = dot ? (size_t)atol(dot + 1) : 0;
                    *sp = '\0';
                }
            }
            char *save = NULL;
            char *step = strtok_r(ltv_tok[18], ",", &save);
            if (step && step[0] == 'c') {
                body_arrive((size_t)atol(step + 1), flags & F_TEMPFILES);
                r->reqbody_length = r->reqbody_queue.bytes_in;
                step = strtok_r(NULL, ",", &save);
            }
            else if (step) { body_arrive((size_t)atol(step), flags & F_TEMPFILES); step = strtok_r(NULL, ",", &save); }
            if (!(r->conf.stream_request_body & (FDEVENT_STREAM_REQUEST|FDEVENT_STREAM_REQUEST_BUFMIN))) {
                /* not streaming: mod_cgi starts the script only after the whole body was received */
                for (; step; step = strtok_r(NULL, ",", &save)) body_arrive((size_t)atol(step), flags & F_TEMPFILES);
            }
            chunkqueue * const cq = &r->reqbody_queue;
            chunk * const c0 = cq->first;
            if (0 == r->reqbody_length) {
                eof = 1;                                    /* stdin is /dev/null */
                close(pfd[1]);
            }
            else if (!(r->conf.stream_request_body & (FDEVENT_STREAM_REQUEST|FDEVENT_STREAM_REQUEST_BUFMIN))
                     && c0 && c0 == cq->last && c0->type == FILE_CHUNK && c0->file.is_temp) {
                /* cgi_create_env(): request body in a single temp file: the file is the script's stdin */
                if (-1 == c0->file.fd && 0 != chunk_open_file_chunk(c0, errh)) fputs("OPEN-ERROR ", stdout);
                else {
                    char rb[65536]; ssize_t n; off_t off = 0;
                    while ((n = pread(c0->file.fd, rb, sizeof(rb), off)) > 0) { buffer_append_string_len(capture, rb, (size_t)n); off += n; }
                    eof = 1;
                }
                chunkqueue_mark_written(cq, chunkqueue_length(cq));
                close(pfd[1]);
            }
            else {
                for (int i = 0; i < 100000; ++i) {
                    const int wfd = (-1 != ch->fdtocgi) ? ch->fdtocgi : pfd[1];
                    if (!wfd_open) break;
                    if (0 != cgi_write_request(ch, wfd)) { fputs("WRITE-ERROR ", stdout); break; }
                    if (-1 == ch->fdtocgi && r->reqbody_queue.bytes_out == (off_t)r->reqbody_length) {
                        /* body fully sent: first call -> the caller closes the pipe; later -> closed via fdevent */
                        if (0 == i) close(pfd[1]);
                        else fdevent_poll(srv.ev, 0);
                        wfd_open = 0;
                    }
                    char rb[65536]; ssize_t n = -1;
                    if (!slow)
                        while ((n = read(pfd[0], rb, sizeof(rb))) > 0) buffer_append_string_len(capture, rb, (size_t)n);
                    else if (i >= rd_late) {
                        size_t left = rd_max ? rd_max : (size_t)-1;
                        while (left && (n = read(pfd[0], rb, left < sizeof(rb) ? left : sizeof(rb))) > 0) {
                            buffer_append_string_len(capture, rb, (size_t)n);
                            left -= (size_t)n;
                        }
                    }
                    if (0 == n) eof = 1;
                    if (chunkqueue_is_empty(cq) || !wfd_open || slow) {
                        if (!step) { if (chunkqueue_is_empty(cq) || !wfd_open) break; continue; }
                        body_arrive((size_t)atol(step), flags & F_TEMPFILES);
                        step = strtok_r(NULL, ",", &save);
                    }
                }
                if (!eof) {
                    /* the script reads on: everything still in the pipe, up to the end of input if the
                     * server has closed its end (the harness's own close below is not the server's) */
                    char rb[65536]; ssize_t n;
                    while ((n = read(pfd[0], rb, sizeof(rb))) > 0) buffer_append_string_len(capture, rb, (size_t)n);
                    if (0 == n) eof = 1;
                }
                if (wfd_open) {
                    if (-1 != ch->fdtocgi) { fdevent_fdnode_event_del(srv.ev, ch->fdntocgi); fdevent_unregister(srv.ev, ch->fdntocgi); }
                    close(pfd[1]);
                }
            }
            close(pfd[0]);
            printf("cgibody eof=%d pend=%lld out=", eof, (long long)chunkqueue_length(cq));
            ltv_puthex(capture->ptr, buffer_clen(capture));
            fputc('\n', stdout);
            cgi_handler_ctx_free(ch);
            goto done;
        }

        if (is_cgi) {
            /* mod_cgi: cgi_create_env() environment block */
            cgi_plugin_data cp; memset(&cp, 0, sizeof(cp));
            env_accum * const env = &cp.env;
            env->b = chunk_buffer_acquire();
            env->boffsets = chunk_buffer_acquire();
            buffer_truncate(env->b, 0);
            http_cgi_opts opts = { 0, 0, NULL, NULL };
            env->offsets = (uintptr_t *)(void *)env->boffsets->ptr;
            env->osize = env->boffsets->size/sizeof(*env->offsets);
            env->oused = 0;
            http_cgi_headers(r, &opts, cgi_env_add, env);
            printf("cgi %u ", (unsigned)env->oused);
            ltv_puthex(env->b->ptr, buffer_clen(env->b));
            fputc('\n', stdout);
            chunk_buffer_release(env->b);
            chunk_buffer_release(env->boffsets);
            goto done;
        }

        /* backend selection through the real check_extension functions */
        gw_plugin_data *p;
        handler_t rc;
        if (is_proxy) {
            p = (gw_plugin_data *)&gwp_proxy;
            memset(&gwp_proxy.defaults, 0, sizeof(gwp_proxy.defaults));
            conf_gw(&gwp_proxy.defaults.gw, flags);
            the_host.check_local = 0;
            unsigned int fwd = 0; char *dot = strchr(ltv_tok[15], '.');
            fwd = (unsigned)atoi(ltv_tok[15]);
            static buffer *rhost;
            if (rhost) { buffer_free(rhost); rhost = NULL; }
            if (dot) rhost = hexbuf(dot + 1);
            gwp_proxy.defaults.forwarded = fwd;
            gwp_proxy.defaults.replace_http_host = (rhost != NULL);
            if (rhost) the_host.id = rhost;
            gwp_proxy.defaults.header.force_http10 = !!(flags & F_HTTP10);
            gwp_proxy.defaults.header.upgrade = !!(flags & F_UPGRADE);
            gwp_proxy.defaults.gw.upgrade = !!(flags & F_UPGRADE);
            rc = mod_proxy_check_extension(r, &gwp_proxy);
        }
        else if (is_scgi || is_uwsgi) {
            p = &gwp_scgi;
            conf_gw(&gwp_scgi.defaults, flags & ~F_AUTH);
            gwp_scgi.defaults.proto = is_scgi ? LI_PROTOCOL_SCGI : LI_PROTOCOL_UWSGI;
            rc = scgi_check_extension(r, &gwp_scgi, 1);
            if (HANDLER_GO_ON == rc && NULL == r->handler_module && 0 == r->http_status)
                rc = scgi_check_extension(r, &gwp_scgi, 0);
        }
        else {
            p = &gwp_fcgi;
            conf_gw(&gwp_fcgi.defaults, flags);
            rc = fcgi_check_extension(r, &gwp_fcgi, 1);
            if (HANDLER_GO_ON == rc && NULL == r->handler_module && 0 == r->http_status)
                rc = fcgi_check_extension(r, &gwp_fcgi, 0);
        }
        gw_handler_ctx *hctx = r->plugin_ctx[p->id];
        if (NULL == r->handler_module || NULL == hctx) {
            if (r->http_status) printf("st=%d\n", r->http_status); else puts("nomatch");
            release_hctx(p);
            goto done;
        }

        if (is_env) {
            http_cgi_opts opts = { (hctx->gw_mode == GW_AUTHORIZER), the_host.break_scriptfilename_for_php,
                                   the_host.docroot, the_host.strip_request_uri };
            fputs("env ", stdout);
            env_first = 1;
            /* (two passes are not possible: print rc after the list) */
            int erc = http_cgi_headers(r, &opts, cap_env_add, NULL);
            if (env_first) fputc('-', stdout);
            printf(" rc=%d\n", erc);
            release_hctx(p);
            goto done;
        }

        if (is_gw) {
            make_raw(ltv_tok[17]);
            buffer_clear(capture);
            drain_err = 0;
            r->state = (0 != r->reqbody_length) ? CON_STATE_READ_POST : CON_STATE_HANDLE_REQUEST;
            con.is_readable = 0;
            int sp[2] = { -1, -1 };
            if (0 != socketpair(AF_UNIX, SOCK_STREAM, 0, sp)) { puts("socketpair-failed"); release_hctx(p); goto done; }
            hctx->state = GW_STATE_PREPARE_WRITE;      /*(connection to the backend established)*/
            hctx->fd = sp[0];
            hctx->fdn = fdevent_register(srv.ev, hctx->fd, stub_fdevent_handler, hctx);
            hctx->proc = &the_proc;
            hctx->revents = 0;
            wcap = 0;
            handler_t grc = HANDLER_WAIT_FOR_EVENT;
            int stop = 0;
            char *save = NULL;
            for (char *step = strtok_r(ltv_tok[18], ",", &save); step && !stop; step = strtok_r(NULL, ",", &save)) {
                if (step[0] == 'c') raw_deliver((size_t)atol(step + 1));
                else if (step[0] == 'w') {
                    /* backend socket writable: gw_handle_fdevent() records the event and schedules the request */
                    wcap = (off_t)atoll(step + 1);
                    if (fdevent_fdnode_interest(hctx->fdn) & FDEVENT_OUT) hctx->revents |= FDEVENT_OUT;
                }
                else continue;
                grc = gw_handle_subrequest(r, p);
                if (grc != HANDLER_WAIT_FOR_EVENT && grc != HANDLER_GO_ON) stop = 1;
            }
            for (int i = 0; i < 600 && !stop; ++i) {
                raw_deliver(raw_len);
                wcap = (off_t)1 << 40;
                wrote_iter = 0;
                if (fdevent_fdnode_interest(hctx->fdn) & FDEVENT_OUT) hctx->revents |= FDEVENT_OUT;
                const off_t rq0 = chunkqueue_length(&r->read_queue), pq0 = chunkqueue_length(&r->reqbody_queue);
                grc = gw_handle_subrequest(r, p);
                if (grc != HANDLER_WAIT_FOR_EVENT && grc != HANDLER_GO_ON) break;
                hctx = r->plugin_ctx[p->id];
                if (NULL == hctx) break;
                if (0 == wrote_iter && rq0 == chunkqueue_length(&r->read_queue)
                    && pq0 == chunkqueue_length(&r->reqbody_queue) && i > 0) break;
            }
            hctx = r->plugin_ctx[p->id];
            if (0 != r->http_status || NULL == hctx)
                printf("%s rc=%d st=%d\n", gop, (int)grc, r->http_status);
            else {
                printf("%s rc=%d st=0 gs=%d d=%lld pend=%lld rq=%lld out=", gop, (int)grc, (int)hctx->state,
                       (long long)(hctx->wb_reqlen - hctx->wb.bytes_in),
                       (long long)chunkqueue_length(&r->reqbody_queue), (long long)chunkqueue_length(&r->read_queue));
                if (drain_err) fputs("DRAIN-ERROR", stdout);
                ltv_puthex(capture->ptr, buffer_clen(capture));
                fputc('\n', stdout);
            }
            if (hctx) {
                if (hctx->fdn) { fdevent_fdnode_event_del(srv.ev, hctx->fdn); fdevent_unregister(srv.ev, hctx->fdn); }
                hctx->fdn = NULL; hctx->fd = -1; hctx->proc = NULL;
                close(sp[0]);
            }
            else fdevent_poll(srv.ev, 0);   /*(lighttpd closed the backend connection itself: run the scheduled close)*/
            close(sp[1]);
            release_hctx(p);
            r->http_status = 0;
            goto done;
        }

        /* request body and schedule */
        make_body(ltv_tok[17]);
        buffer_clear(capture);
        drain_err = 0;
        char *save = NULL;
        char *step = strtok_r(ltv_tok[18], ",", &save);
        if (step && step[0] == 'c') {
            /* request body received completely before the backend is started (not streaming):
             * h1_chunked() / h2_recv_data() set reqbody_length at the end of the body */
            body_arrive((size_t)atol(step + 1), flags & F_TEMPFILES);
            r->reqbody_length = r->reqbody_queue.bytes_in;
            step = strtok_r(NULL, ",", &save);
        }
        else if (step && step[0] != 'e') { body_arrive((size_t)atol(step), flags & F_TEMPFILES); step = strtok_r(NULL, ",", &save); }
        rc = hctx->create_env(hctx);
        if (HANDLER_GO_ON != rc) {
            printf("st=%d\n", r->http_status);
            release_hctx(p);
            goto done;
        }
        if (is_buf) {
            const chunk * const c = hctx->wb.first;
            if (NULL == c || c->type != MEM_CHUNK) puts("buf no-mem-chunk");
            else {
                printf("buf off=%lld hid=", (long long)c->offset);
                ltv_puthex(c->mem->ptr, (size_t)c->offset);
                printf(" reqlen=%lld in=%lld bo=%lld pend=%lld out=", (long long)hctx->wb_reqlen,
                       (long long)hctx->wb.bytes_in, (long long)hctx->wb.bytes_out,
                       (long long)chunkqueue_length(&r->reqbody_queue));
                drain(&hctx->wb);
                if (drain_err) fputs("DRAIN-ERROR", stdout);
                ltv_puthex(capture->ptr, buffer_clen(capture));
                fputc('\n', stdout);
            }
            release_hctx(p);
            goto done;
        }
        drain(&hctx->wb);
        for (; step; step = strtok_r(NULL, ",", &save)) {
            if (step[0] == 'e') {
                /* gw_handle_subrequest(): Transfer-Encoding: chunked body now complete */
                r->reqbody_length = r->reqbody_queue.bytes_in;
                if (hctx->wb_reqlen < -1 && r->reqbody_length >= 0) {
                    hctx->wb_reqlen = -hctx->wb_reqlen;
                    if (hctx->stdin_append) hctx->stdin_append(hctx);
                    else chunkqueue_append_chunkqueue(&hctx->wb, &r->reqbody_queue);
                }
            }
            else {
                body_arrive((size_t)atol(step), flags & F_TEMPFILES);
                gw_write_refill_wb(hctx, r);
            }
            drain(&hctx->wb);
        }
        for (int i = 0; i < 64 && !chunkqueue_is_empty(&r->reqbody_queue) && hctx->gw_mode != GW_AUTHORIZER; ++i) {
            gw_write_refill_wb(hctx, r);
            drain(&hctx->wb);
        }
        printf("ok reqlen=%lld in=%lld pend=%lld out=", (long long)hctx->wb_reqlen,
               (long long)hctx->wb.bytes_in, (long long)chunkqueue_length(&r->reqbody_queue));
        if (drain_err) fputs("DRAIN-ERROR", stdout);
        ltv_puthex(capture->ptr, buffer_clen(capture));
        fputc('\n', stdout);
        release_hctx(p);
      done:
        /*(the_ext.key shares key's string)*/
        buffer_free(key);
        if (docroot) buffer_free(docroot);
        if (strip) buffer_free(strip);
        chunkqueue_reset(&r->reqbody_queue);
        chunkqueue_reset(&r->read_queue);
    }
    return 0;
}
