/* correspondence harness for conditional configuration (C14)
 *
 * One self-contained case per line:
 *   c <cfghex> <node0> ... <nodeN-1> / <op> ...
 * <cfghex> is lighttpd.conf text; it is parsed by the REAL parser (configparser.y via
 * config_read()), finished by config_insert*(), mod_setenv's set_defaults and
 * config_finalize().  The <node> tokens describe the tree the generator intended (they
 * are consumed by the Lean model only); this harness prints the tree the parser really
 * built, so parser glue (parent / prev / next / children / context_ndx / normalised
 * strings / CIDR data) is part of the comparison.
 * ops (s = request slot; 0 = con->request, 1.. = streams from h2_init_stream()):
 *   k,s,i             config_check_cond(r, i)
 *   a,s,<attr>        rewrite attribute, then config_cond_cache_reset_item(r, comp)
 *   z,s               config_cond_cache_reset(r)
 *   v,s,<comps>       r->conditional_is_valid = bits
 *   n,s,<comps>,<attr>;<attr>..   new request: set attributes, valid bits, full reset
 *   N,s,<comps>,<attr>;<attr>..   next request parsed: set attributes and valid bits only (the
 *                     reset is left to http_response_config(), op h, as in the server)
 *   s                 h2_init_stream(con->request, con): new request_st (no request attributes yet;
 *                     socket and peer address as slot 0), cache + valid bits copied by the real code
 *   p,s,012           request_config_reset + config_patch_config (server.name/tag/max-request-size)
 *   p,s,345           mod_setenv_patch_config (set-response-header/add-environment/set-environment)
 *   h,s               start of response processing for the (next) request: request_config_reset() as
 *                     at the end of request_reset(), then response.c http_response_config()
 *                     (= full cache reset + config_patch_config)
 * attr: U:hex H:hex Q:hex C:hex M:hex S:hex  I:<4|6>:<addrhex>:<strhex>  R:<namehex>:<valhex>
 * After every op the whole cond_cache of the slot is printed (result,local_result per node).
 *
 * Mini server (whole request pipeline, no sockets):
 *   srv <cfghex> <node0> ... <nodeN-1> / <req> ...
 * the REAL parser, config_set_defaults, the real set_defaults of mod_extforward / mod_rewrite /
 * mod_setenv in the order of server.modules, the real plugin dispatch and the real
 * http_response_handler() (http_response_config, uri_raw hooks: extforward rewrites remote
 * address + scheme, mod_rewrite rewrites the target and returns HANDLER_COMEBACK ->
 * http_response_comeback() restarts the request, uri_clean: mod_setenv patches its config, ...).
 * A probe plugin (last module) evaluates every block in the docroot hook.
 *   <req> = q,<peerhex>,<h1 head block hex>,<model attrs>,<model attrs>   (last two: Lean model only)
 *   -> "c<server.name>.<server.tag>.<max-request-size>,e<setenv x3>,d<config_check_cond of every
 *       block at the docroot hook>,<scheme>,<uri.path>,<uri.query>,<remote address>" at the end
 *   @DOCROOT@ in the configuration is replaced by $LTV_C14_ROOT/docroot (an empty directory
 *   prepared by the check module).
 *
 * Regex simplification (function level):
 *   x <hex>   configparser_simplify_regex(buffer) -> "<cond> <stored string hex>"
 */
#include "first.h"
#include "configfile-glue.c"
#include "configfile.c"
#include "configparser.c"
#include "mod_setenv.c"        /* plugin_data / plugin_config / handler_ctx below are mod_setenv's */
#include "response.c"          /* static http_response_config() */
#define plugin_data h2_plugin_data   /* each module TU defines local types of the same names */
#include "h2.c"
#undef plugin_data
#define plugin_config rw_plugin_config
#define plugin_data   rw_plugin_data
#include "mod_rewrite.c"
#undef plugin_config
#undef plugin_data
#define plugin_config     xf_plugin_config
#define plugin_data       xf_plugin_data
#define handler_ctx       xf_handler_ctx
#define handler_ctx_init  xf_handler_ctx_init
#define handler_ctx_free  xf_handler_ctx_free
#include "mod_extforward.c"
#undef plugin_config
#undef plugin_data
#undef handler_ctx
#undef handler_ctx_init
#undef handler_ctx_free
#include "plugins.h"
#include "stat_cache.h"
#include <stdio.h>
#include <unistd.h>
#include <sys/mman.h>       /* memfd_create */

#define MAXTOK 512
#define MAXSLOT 8
static char *line; static size_t cap;
static char *tok[MAXTOK]; static int ntok;

static int hv(int c) {
    if (c >= '0' && c <= '9') return c - '0';
    if (c >= 'a' && c <= 'f') return c - 'a' + 10;
    if (c >= 'A' && c <= 'F') return c - 'A' + 10;
    return -1;
}
static unsigned char *unhex(const char *s, size_t *len) {
    size_t n = (s[0] == '-' && s[1] == 0) ? 0 : strlen(s) / 2;
    unsigned char *b = malloc(n + 1);
    for (size_t i = 0; i < n; ++i) b[i] = (unsigned char)((hv(s[2*i]) << 4) | hv(s[2*i+1]));
    b[n] = 0; *len = n; return b;
}
static void puthex(const void *p, size_t n) {
    static const char hx[] = "0123456789abcdef";
    const unsigned char *s = p;
    if (0 == n) { fputc('-', stdout); return; }
    for (size_t i = 0; i < n; ++i) { fputc(hx[s[i] >> 4], stdout); fputc(hx[s[i] & 15], stdout); }
}
/* split s in place on sep; returns count */
static int split(char *s, char sep, char **out, int max) {
    int n = 0;
    out[n++] = s;
    for (; *s; ++s) if (*s == sep) { *s = 0; if (n < max) out[n++] = s + 1; }
    return n;
}

static int comp_of(int ch) {
    switch (ch) {
      case 'S': return COMP_SERVER_SOCKET;   case 'U': return COMP_HTTP_URL;
      case 'H': return COMP_HTTP_HOST;       case 'I': return COMP_HTTP_REMOTE_IP;
      case 'Q': return COMP_HTTP_QUERY_STRING; case 'C': return COMP_HTTP_SCHEME;
      case 'M': return COMP_HTTP_REQUEST_METHOD; case 'R': return COMP_HTTP_REQUEST_HEADER;
      default:  return -1;
    }
}
static int comp_ch(comp_key_t c) {
    switch (c) {
      case COMP_UNSET: return 'G';
      case COMP_SERVER_SOCKET: return 'S';   case COMP_HTTP_URL: return 'U';
      case COMP_HTTP_HOST: return 'H';       case COMP_HTTP_REMOTE_IP: return 'I';
      case COMP_HTTP_QUERY_STRING: return 'Q'; case COMP_HTTP_SCHEME: return 'C';
      case COMP_HTTP_REQUEST_METHOD: return 'M'; case COMP_HTTP_REQUEST_HEADER: return 'R';
      default: return '?';
    }
}
static const char *cond_nm(config_cond_t c) {
    switch (c) {
      case CONFIG_COND_UNSET: return "un";  case CONFIG_COND_EQ: return "eq";
      case CONFIG_COND_NE: return "ne";     case CONFIG_COND_MATCH: return "re";
      case CONFIG_COND_NOMATCH: return "nr"; case CONFIG_COND_PREFIX: return "pr";
      case CONFIG_COND_SUFFIX: return "su"; case CONFIG_COND_ELSE: return "el";
      default: return "??";
    }
}
static unsigned int valid_bits(const char *s) {
    unsigned int m = 0;
    if (s[0] == '-') return 0;
    for (; *s; ++s) { int c = comp_of(*s); if (c >= 0) m |= (1u << c); }
    return m;
}

/* ---- per-line world ---- */
static server *srv;
static plugin_data *setenv_p;
static connection con;
static server_socket ssock;
static h2con *h2c;
static request_st *slot[MAXSLOT];
static int nslot;
static buffer *sock_tok[MAXSLOT];
static sock_addr slot_addr[MAXSLOT];
static buffer slot_addrbuf[MAXSLOT];
static char cfgpath[64];
static int cfgfd = -1;
static const buffer default_tag = { "dflt", 5, 0 };

static void dump_cache(const request_st *r) {
    const uint32_t used = srv->config_context->used;
    if (used <= 1) { fputc('-', stdout); return; }
    for (uint32_t i = 1; i < used; ++i)
        printf("%d%d", (int)r->cond_cache[i].result, (int)r->cond_cache[i].local_result);
}

static void dump_tree(void) {
    const uint32_t used = srv->config_context->used;
    /* "W1": counterpart of the model's well-formedness flag (the parser's trees must
     * always satisfy the hypothesis of the C14 theorems) */
    printf("%u W1", used);
    for (uint32_t i = 1; i < used; ++i) {
        const data_config *dc = (const data_config *)srv->config_context->data[i];
        printf(" %d:%d:", dc->context_ndx, dc->parent ? dc->parent->context_ndx : -1);
        if (dc->prev) printf("%d:", dc->prev->context_ndx); else printf("-:");
        if (dc->next) printf("%d:", dc->next->context_ndx); else printf("-:");
        if (0 == dc->children.used) fputc('-', stdout);
        for (uint32_t j = 0; j < dc->children.used; ++j)
            printf(j ? ".%d" : "%d", dc->children.data[j]->context_ndx);
        printf(":%c:%s:", comp_ch(dc->comp), cond_nm(dc->cond));
        if (dc->cond == CONFIG_COND_ELSE) fputc('-', stdout);
        else puthex(dc->string.ptr, buffer_clen(&dc->string));
        fputc(':', stdout);
        if (dc->comp == COMP_HTTP_REQUEST_HEADER && dc->cond != CONFIG_COND_ELSE)
            puthex(dc->comp_tag.ptr, buffer_clen(&dc->comp_tag));
        else fputc('-', stdout);
        fputc(':', stdout);
        if (dc->comp == COMP_HTTP_REMOTE_IP && dc->string.ptr && dc->string.ptr[0] != '/'
            && (dc->cond == CONFIG_COND_EQ || dc->cond == CONFIG_COND_NE)) {
            /* structured data stored after the string by config_remoteip_normalize() */
            const sock_addr * const addr = (sock_addr *)
              (((uintptr_t)dc->string.ptr + dc->string.used + 1 + 7) & ~7);
            int bits = ((unsigned char *)dc->string.ptr)[dc->string.used];
            if (addr->plain.sa_family == AF_INET) {
                fputs("4.", stdout); puthex(&addr->ipv4.sin_addr, 4);
            } else if (addr->plain.sa_family == AF_INET6) {
                fputs("6.", stdout); puthex(&addr->ipv6.sin6_addr, 16);
            } else fputs("x.-", stdout);
            printf(".%d", bits);
        }
        else fputc('-', stdout);
    }
}

static void copybuf(buffer *dst, const buffer *src) {
    if (src->ptr && src->used) buffer_copy_buffer(dst, src);
    else buffer_clear(dst);
}

static void slot_bind(int s) {
    /* connection-level attributes are kept per slot by the harness */
    ssock.srv_token = sock_tok[s];
}

static int set_attr(int s, char *a) {
    request_st * const r = slot[s];
    char *f[4]; int nf = split(a, ':', f, 4);
    if (nf < 2) return -1;
    size_t n; unsigned char *v;
    switch (f[0][0]) {
      case 'U': v = unhex(f[1], &n); buffer_copy_string_len(&r->uri.path, (char *)v, n); free(v); break;
      case 'H': v = unhex(f[1], &n); buffer_copy_string_len(&r->uri.authority, (char *)v, n); free(v); break;
      case 'Q': v = unhex(f[1], &n); buffer_copy_string_len(&r->uri.query, (char *)v, n); free(v); break;
      case 'C': v = unhex(f[1], &n); buffer_copy_string_len(&r->uri.scheme, (char *)v, n); free(v); break;
      case 'S': v = unhex(f[1], &n); buffer_copy_string_len(sock_tok[s], (char *)v, n); free(v); break;
      case 'M': v = unhex(f[1], &n); r->http_method = http_method_key_get((char *)v, n); free(v); break;
      case 'I': {
        if (nf != 4) return -1;
        sock_addr *sa = &slot_addr[s];
        memset(sa, 0, sizeof(*sa));
        v = unhex(f[2], &n);
        if (f[1][0] == '4' && n == 4) { sa->ipv4.sin_family = AF_INET; memcpy(&sa->ipv4.sin_addr, v, 4); }
        else if (f[1][0] == '6' && n == 16) { sa->ipv6.sin6_family = AF_INET6; memcpy(&sa->ipv6.sin6_addr, v, 16); }
        else { free(v); return -1; }
        free(v);
        v = unhex(f[3], &n); buffer_copy_string_len(&slot_addrbuf[s], (char *)v, n); free(v);
        break;
      }
      case 'R': {
        if (nf != 3) return -1;
        size_t kn; unsigned char *k = unhex(f[1], &kn);
        v = unhex(f[2], &n);
        enum http_header_e id = http_header_hkey_get((char *)k, kn);
        if (n) http_header_request_set(r, id, (char *)k, kn, (char *)v, n);
        else   http_header_request_unset(r, id, (char *)k, kn);
        free(k); free(v);
        break;
      }
      default: return -1;
    }
    return comp_of(f[0][0]);
}

static void world_free(void) {
    for (int s = nslot - 1; s >= 0; --s) {
        request_st *r = slot[s];
        if (s) { request_free_data(r); free(r); }
        buffer_free(sock_tok[s]);
        free(slot_addrbuf[s].ptr); memset(&slot_addrbuf[s], 0, sizeof(buffer));
    }
    if (nslot) request_free_data(&con.request);
    nslot = 0;
    free(h2c); h2c = NULL;
    if (setenv_p) { free(setenv_p->cvlist); free(setenv_p); setenv_p = NULL; }
    if (srv) {
        config_free(srv);
        buffer_free(srv->tmp_buf);
        free(srv);
        srv = NULL;
    }
}

static int world_init(const unsigned char *cfg, size_t len) {
    /* the config text lives in an anonymous memory file (no temporary file on disk) */
    if (0 != ftruncate(cfgfd, 0) || (ssize_t)len != pwrite(cfgfd, cfg, len, 0)) return 0;
    srv = ck_calloc(1, sizeof(*srv));
    srv->tmp_buf = buffer_init();
    srv->errh = log_set_global_errh(NULL, 0);
    config_init(srv);
    if (0 != config_read(srv, cfgpath)) return 0;
    setenv_p = mod_setenv_init();
    if (HANDLER_GO_ON != mod_setenv_set_defaults(srv, setenv_p)) return 0;
    if (!config_finalize(srv, &default_tag)) return 0;
    memset(&con, 0, sizeof(con));
    memset(&ssock, 0, sizeof(ssock));
    con.srv = srv;
    con.config_data_base = srv->config_data_base;
    con.srv_socket = &ssock;
    h2c = ck_calloc(1, sizeof(*h2c));
    h2c->s_initial_window_size = 65535;
    con.hx = (hxcon *)h2c;
    request_init_data(&con.request, &con, srv);
    slot[0] = &con.request; nslot = 1;
    sock_tok[0] = buffer_init();
    slot[0]->dst_addr = &slot_addr[0]; memset(&slot_addr[0], 0, sizeof(sock_addr));
    slot[0]->dst_addr_buf = &slot_addrbuf[0];
    return 1;
}

static int getslot(const char *s) {
    int k = atoi(s);
    return (k >= 0 && k < nslot && s[0] >= '0' && s[0] <= '9') ? k : -1;
}

static int run_op(char *op) {
    char *f[4]; int nf = split(op, ',', f, 4);
    const uint32_t used = srv->config_context->used;
    int s = 0;
    if (f[0][0] != 's') {
        if (nf < 2 || (s = getslot(f[1])) < 0) return 0;
        slot_bind(s);
    }
    request_st *r = slot[s];
    switch (f[0][0]) {
      case 'k': {
        if (nf != 3) return 0;
        int i = atoi(f[2]);
        if (i < 1) return 0;
        if ((uint32_t)i >= used) { fputs(" k-=", stdout); break; }  /* no such block was built */
        printf(" k%d=", config_check_cond(r, i));
        break;
      }
      case 'a': {
        if (nf != 3) return 0;
        int c = set_attr(s, f[2]);
        if (c < 0) return 0;
        config_cond_cache_reset_item(r, (comp_key_t)c);
        fputs(" a=", stdout);
        break;
      }
      case 'z':
        config_cond_cache_reset(r);
        fputs(" z=", stdout);
        break;
      case 'v':
        if (nf != 3) return 0;
        r->conditional_is_valid = valid_bits(f[2]);
        fputs(" v=", stdout);
        break;
      case 'N':
      case 'n': {
        if (nf != 4) return 0;
        if (f[3][0] != '-') {
            char *as[32]; int na = split(f[3], ';', as, 32);
            for (int j = 0; j < na; ++j) if (set_attr(s, as[j]) < 0) return 0;
        }
        r->conditional_is_valid = valid_bits(f[2]);
        if (f[0][0] == 'n') config_cond_cache_reset(r);
        printf(" %c=", f[0][0]);
        break;
      }
      case 's': {
        if (nslot >= MAXSLOT) return 0;
        request_st * const h2r = slot[0];
        slot_bind(0);
        r = h2_init_stream(h2r, &con);
        s = nslot++;
        slot[s] = r;
        /* the new request_st has no request attributes of its own yet; what it reaches through
         * r->con (listening socket, peer address: kept per slot by this harness) is shared */
        sock_tok[s] = buffer_init(); copybuf(sock_tok[s], sock_tok[0]);
        slot_addr[s] = slot_addr[0];
        copybuf(&slot_addrbuf[s], &slot_addrbuf[0]);
        r->dst_addr = &slot_addr[s]; r->dst_addr_buf = &slot_addrbuf[s];
        printf(" s%d,", s);
        for (const char *c = "SUHIQCMR"; *c; ++c)
            if (r->conditional_is_valid & (1u << comp_of(*c))) fputc(*c, stdout);
        fputc('=', stdout);
        break;
      }
      case 'p': {
        if (nf != 3) return 0;
        long v[3] = {0, 0, 0};
        if (0 == strcmp(f[2], "012")) {
            request_config_reset(r);
            config_patch_config(r);
            if (r->conf.server_name) v[0] = atol(r->conf.server_name->ptr + 1);
            if (r->conf.server_tag && r->conf.server_tag != &default_tag)
                v[1] = atol(r->conf.server_tag->ptr + 1);
            v[2] = (long)r->conf.max_request_size;
        }
        else if (0 == strcmp(f[2], "345")) {
            plugin_config pc;
            mod_setenv_patch_config(r, setenv_p, &pc);
            const array *a[3] = { pc.set_response_header, pc.environment, pc.set_environment };
            for (int j = 0; j < 3; ++j)
                if (a[j] && a[j]->used)
                    v[j] = atol(((const data_string *)a[j]->data[0])->value.ptr + 1);
        }
        else return 0;
        printf(" p%ld.%ld.%ld=", v[0], v[1], v[2]);
        break;
      }
      case 'h': {
        if (nf != 2) return 0;
        request_config_reset(r);
        r->reqbody_length = 0;
        if (HANDLER_GO_ON != http_response_config(r)) return 0;
        long v0 = r->conf.server_name ? atol(r->conf.server_name->ptr + 1) : 0;
        long v1 = (r->conf.server_tag && r->conf.server_tag != &default_tag)
                ? atol(r->conf.server_tag->ptr + 1) : 0;
        printf(" h%ld.%ld.%ld=", v0, v1, (long)r->conf.max_request_size);
        break;
      }
      default: return 0;
    }
    dump_cache(r);
    return 1;
}

/* ---------------------------------------------------------------- mini server */
static char docroot[600];
static int con_up;
static char probe_bits[4096];
static buffer probe_attr[4];    /* scheme, path, query, remote address at the docroot hook */

static handler_t probe_docroot(request_st *r, void *p_d) {
    (void)p_d;
    const uint32_t used = srv->config_context->used;
    uint32_t i;
    for (i = 1; i < used && i < sizeof(probe_bits); ++i)
        probe_bits[i-1] = config_check_cond(r, (int)i) ? '1' : '0';
    probe_bits[i-1] = 0;
    copybuf(&probe_attr[0], &r->uri.scheme);
    copybuf(&probe_attr[1], &r->uri.path);
    copybuf(&probe_attr[2], &r->uri.query);
    copybuf(&probe_attr[3], r->dst_addr_buf);
    return HANDLER_GO_ON;
}
static void *probe_init(void) { return ck_calloc(1, sizeof(plugin_data_base)); }
static int probe_plugin_init(plugin *p) {
    p->version = LIGHTTPD_VERSION_ID;
    p->name = "ltvprobe";
    p->init = probe_init;
    p->handle_docroot = probe_docroot;
    return 0;
}

static const struct { const char *name; int (*init)(plugin *p); } modtab[] = {
    { "mod_extforward", mod_extforward_plugin_init },
    { "mod_rewrite",    mod_rewrite_plugin_init },
    { "mod_setenv",     mod_setenv_plugin_init },
    { NULL, NULL }
};

/* plugins_load() without dlopen(): modules compiled into this harness, in the order of
 * server.modules as finalised by configfile.c; the probe comes last */
static int mods_load(void) {
    srv->plugins.ptr = ck_calloc(srv->srvconf.modules->used + 2, sizeof(plugin *));
    for (uint32_t i = 0; i <= srv->srvconf.modules->used; ++i) {
        int (*init)(plugin *p) = probe_plugin_init;
        if (i < srv->srvconf.modules->used) {
            const buffer *m = &((data_string *)srv->srvconf.modules->data[i])->value;
            int j;
            for (j = 0; modtab[j].name; ++j)
                if (buffer_eq_slen(m, modtab[j].name, strlen(modtab[j].name))) break;
            if (NULL == modtab[j].name) {
                /* (mod_h2 is appended by configfile.c; requests enter below the framing layer) */
                if (buffer_eq_slen(m, CONST_STR_LEN("mod_h2"))) continue;
                return 0;
            }
            init = modtab[j].init;
        }
        plugin *p = ck_calloc(1, sizeof(plugin));
        if (init(p)) { free(p); return 0; }
        ((plugin **)srv->plugins.ptr)[srv->plugins.used++] = p;
    }
    return 1;
}

static void srv_free(void) {
    if (NULL == srv) return;
    if (con_up) {
        request_st * const r = &con.request;
        request_reset(r);
        plugins_call_handle_connection_close(&con);
        request_free_data(r);
        free(con.plugin_ctx);
        free(con.dst_addr_buf.ptr);
        buffer_free(ssock.srv_token);
        memset(&con, 0, sizeof(con));
        con_up = 0;
    }
    stat_cache_free();
    if (srv->plugin_slots) plugins_free(srv);
    config_free(srv);
    config_reference.data = NULL;
    config_reference.used = 0;
    buffer_free(srv->tmp_buf);
    free(srv);
    srv = NULL;
}

static int srv_init(const unsigned char *cfg, size_t len) {
    buffer *txt = buffer_init();
    for (size_t i = 0; i < len; ) {
        if (len - i >= 9 && 0 == memcmp(cfg + i, "@DOCROOT@", 9)) { buffer_append_string(txt, docroot); i += 9; }
        else { buffer_append_char(txt, (char)cfg[i]); ++i; }
    }
    int wr = (0 == ftruncate(cfgfd, 0)
              && (ssize_t)buffer_clen(txt) == pwrite(cfgfd, txt->ptr, buffer_clen(txt), 0));
    buffer_free(txt);
    if (!wr) return 0;
    srv = ck_calloc(1, sizeof(*srv));
    srv->tmp_buf = buffer_init();
    srv->errh = log_set_global_errh(NULL, 0);
    srv->plugins_request_reset = plugins_call_handle_request_reset;
    srv->request_env = plugins_call_handle_request_env;
    config_init(srv);
    if (0 != config_read(srv, cfgpath)) return 0;
    if (0 != config_set_defaults(srv)) return 0;
    if (!mods_load()) return 0;
    if (HANDLER_GO_ON != plugins_call_init(srv)) return 0;
    if (HANDLER_GO_ON != plugins_call_set_defaults(srv)) return 0;
    if (!config_finalize(srv, &default_tag)) return 0;
    if (!stat_cache_init(NULL, srv->errh)) return 0;
    memset(&con, 0, sizeof(con));
    memset(&ssock, 0, sizeof(ssock));
    ssock.srv_token = buffer_init();
    buffer_copy_string_len(ssock.srv_token, CONST_STR_LEN(":80"));
    con.srv = srv;
    con.fd = -1;
    con.config_data_base = srv->config_data_base;
    con.plugin_slots = srv->plugin_slots;
    con.srv_socket = &ssock;
    con.proto_default_port = 80;
    con.plugin_ctx = ck_calloc(srv->plugins.used + 1, sizeof(void *));
    request_init_data(&con.request, &con, srv);
    con_up = 1;
    return 1;
}

static unsigned short hoff[8192];

static void put_first_value(const array *a) {
    long v = (a && a->used) ? atol(((const data_string *)a->data[0])->value.ptr + 1) : 0;
    printf("%ld", v);
}

static int srv_req(char *req) {
    request_st * const r = &con.request;
    char *f[5]; int nf = split(req, ',', f, 5);
    if (nf < 3 || f[0][0] != 'q') return 0;
    request_reset(r);
    r->http_status = 0;
    size_t pn; unsigned char *peer = unhex(f[1], &pn);
    if (!buffer_eq_slen(&con.dst_addr_buf, (char *)peer, pn)) {
        /* another client = a new connection (connection_accepted()) */
        plugins_call_handle_connection_close(&con);
        memset(&con.dst_addr, 0, sizeof(con.dst_addr));
        if (1 != sock_addr_inet_pton(&con.dst_addr, (const char *)peer, AF_INET, 40000)
            && 1 != sock_addr_inet_pton(&con.dst_addr, (const char *)peer, AF_INET6, 40000)) {
            free(peer); return 0;
        }
        buffer_copy_string_len(&con.dst_addr_buf, (const char *)peer, pn);
        con.proto_default_port = 80;
    }
    free(peer);
    r->conditional_is_valid = (1 << COMP_SERVER_SOCKET) | (1 << COMP_HTTP_REMOTE_IP);
    config_cond_cache_reset(r);
    size_t n; unsigned char *blk = unhex(f[2], &n);
    hoff[0] = 1; hoff[1] = 0;
    uint32_t hlen = http_header_parse_hoff((char *)blk, (uint32_t)n, hoff);
    if (0 == hlen || hoff[0] <= 1 || hlen > r->conf.max_request_field_size
        || hoff[0] >= sizeof(hoff)/sizeof(hoff[0])-1) { free(blk); return 0; }
    r->rqst_header_len = hlen;
    http_request_headers_process(r, (char *)blk, hoff, con.proto_default_port);
    probe_bits[0] = '-'; probe_bits[1] = 0;
    for (int i = 0; i < 4; ++i) buffer_clear(&probe_attr[i]);
    http_response_handler(r);
    /* settings in force at the end: core (last http_response_config) and mod_setenv (uri_clean) */
    long v0 = r->conf.server_name ? atol(r->conf.server_name->ptr + 1) : 0;
    long v1 = (r->conf.server_tag && r->conf.server_tag != &default_tag)
            ? atol(r->conf.server_tag->ptr + 1) : 0;
    printf(" c%ld.%ld.%ld,e", v0, v1, (long)r->conf.max_request_size);
    const plugin_data *sp = NULL;
    for (uint32_t i = 0; i < srv->plugins.used; ++i) {
        const plugin *p = ((plugin **)srv->plugins.ptr)[i];
        if (0 == strcmp(p->name, "setenv")) sp = p->data;
    }
    const handler_ctx *hctx = sp ? r->plugin_ctx[sp->id] : NULL;
    if (hctx) {
        put_first_value(hctx->conf.set_response_header); fputc('.', stdout);
        put_first_value(hctx->conf.environment); fputc('.', stdout);
        put_first_value(hctx->conf.set_environment);
    }
    else fputc('-', stdout);
    printf(",d%s", probe_bits);
    for (int i = 0; i < 4; ++i) {
        fputc(',', stdout);
        puthex(probe_attr[i].ptr, buffer_clen(&probe_attr[i]));
    }
    free(blk);
    return 1;
}

int main(void) {
    cfgfd = memfd_create("ltv-h_cond.conf", 0);
    if (cfgfd < 0) { perror("memfd_create"); return 2; }
    snprintf(cfgpath, sizeof(cfgpath), "/proc/self/fd/%d", cfgfd);
    const char *root = getenv("LTV_C14_ROOT");
    if (root && *root) snprintf(docroot, sizeof(docroot), "%s/docroot", root);
    int nullfd = open("/dev/null", O_WRONLY);
    log_error_st *gerrh = log_set_global_errh(NULL, 0);
    if (nullfd >= 0 && !getenv("LTV_C14_DEBUG")) gerrh->fd = nullfd;  /* diagnostics are not observations */
    chunkqueue_set_tempdirs_default(NULL, 0);
    ssize_t n;
    while ((n = getline(&line, &cap, stdin)) > 0) {
        while (n > 0 && (line[n-1] == '\n' || line[n-1] == '\r')) line[--n] = 0;
        ntok = 0;
        char *save = NULL;
        for (char *t = strtok_r(line, " ", &save); t && ntok < MAXTOK; t = strtok_r(NULL, " ", &save))
            tok[ntok++] = t;
        if (ntok == 2 && 0 == strcmp(tok[0], "x")) {
            /* x <hex>: configparser.y:configparser_simplify_regex() on the string of a `=~`
             * condition -> "<cond> <stored string hex>" */
            size_t len; unsigned char *raw = unhex(tok[1], &len);
            buffer *b = buffer_init();
            buffer_copy_string_len(b, (char *)raw, len);
            config_cond_t cond = configparser_simplify_regex(b);
            fputs(cond_nm(cond), stdout); fputc(' ', stdout);
            puthex(b->ptr, buffer_clen(b));
            fputc('\n', stdout);
            buffer_free(b); free(raw);
            continue;
        }
        const int is_srv = (ntok >= 3 && 0 == strcmp(tok[0], "srv"));
        if (ntok < 3 || (0 != strcmp(tok[0], "c") && !is_srv)) { puts("bad-op"); continue; }
        int sep = -1;
        for (int i = 2; i < ntok; ++i) if (0 == strcmp(tok[i], "/")) { sep = i; break; }
        if (sep < 0) { puts("bad-op"); continue; }
        size_t len; unsigned char *cfg = unhex(tok[1], &len);
        if (is_srv ? (!docroot[0] || !srv_init(cfg, len)) : !world_init(cfg, len)) {
            puts("config-error"); free(cfg);
            if (is_srv) srv_free(); else world_free();
            continue;
        }
        free(cfg);
        /* run ops into a memory stream so that a bad op yields a single "bad-op" line */
        char *obuf = NULL; size_t olen = 0;
        FILE *real = stdout;
        FILE *mem = open_memstream(&obuf, &olen);
        stdout = mem;
        dump_tree();
        fputs(" /", stdout);
        int ok = 1;
        for (int i = sep + 1; i < ntok && ok; ++i) ok = is_srv ? srv_req(tok[i]) : run_op(tok[i]);
        fclose(mem);
        stdout = real;
        if (ok) { fwrite(obuf, 1, olen, stdout); fputc('\n', stdout); }
        else puts("bad-op");
        free(obuf);
        if (is_srv) srv_free(); else world_free();
    }
    return 0;
}
