/* correspondence harness for the chunk queue (C17): the real src/chunk.c is
 * #included so that statics are reachable and the temp-file syscalls
 * (pwritev, pwrite, mkostemp via fdevent_mkostemp) can be scripted.
 *
 * one case per line:
 *   seq <chunksz> <tmpsz> <ndirs> <wsched> <msched> <files> <op> <op> ...
 *     chunksz  chunkqueue_set_chunk_size() argument (0 = default 8192)
 *     tmpsz    upload temp file size (0 = default 1 MiB); "G/A/B": default G, then
 *              chunkqueue_set_tempdirs(q0, A), chunkqueue_set_tempdirs(q1, B) (0 = default)
 *     ndirs    number of upload dirs (0 = none configured: $TMPDIR is used)
 *     wsched   '-' or comma list consumed by successive pwritev/pwrite calls:
 *              k = ok, s<n> = short write of min(n,requested) bytes,
 *              i = EINTR, n = ENOSPC, e = EIO        (exhausted => ok)
 *     msched   '-' or string over {k,f} consumed by successive mkostemp calls
 *     files    '-' or comma list of sizes of source files 0..k-1
 *              (byte i of file f is pat(f,i))
 *   ops (fields separated by ','; q = queue 0|1; data = pat(seed,0..len-1)):
 *     am,q,seed,len   chunkqueue_append_mem
 *     an,q,seed,len   chunkqueue_append_mem_min
 *     ab,q,seed,len   chunkqueue_append_buffer
 *     bo,q,seed,len   chunkqueue_append_buffer_open + append + commit
 *     gm,q,req,seed,use  chunkqueue_get_memory(req) + chunkqueue_use_memory(min(use,avail))
 *     af,q,fid,off,len   chunkqueue_append_file        (by name)
 *     ad,q,fid,off,len   chunkqueue_append_file_fd     (open descriptor)
 *     ac,q            chunkqueue_append_chunkqueue(q, other)
 *     mt,q,seed,len   chunkqueue_append_mem_to_tempfile
 *     sp,q,seed,len   pat(seed,0..len-1) is written into a fresh pipe, then
 *                     chunkqueue_append_splice_pipe_tempfile(q, pipe, len) (the real splice();
 *                     no scripted write result is consumed by it; len <= 60000); result sp:<len>|-1
 *     st,q,n          chunkqueue_steal(q <- other, n)
 *     sw,q,n          chunkqueue_steal_with_tempfiles(q <- other, n)
 *     cr,q,s,off,len  chunkqueue_append_cq_range(dst q, src s, off, len)
 *                     (skip if s == q and the range exceeds the queue)
 *     mw,q,n          chunkqueue_mark_written  (skip if n > length)
 *     rf,q  re,q      chunkqueue_remove_finished_chunks / _remove_empty_chunks
 *     cm,q,clen       chunkqueue_compact_mem   (skip unless non-empty, all MEM)
 *     co,q            chunkqueue_compact_mem_offset (skip if empty)
 *     pk,q,n          chunkqueue_peek_data (blocking) into an n-byte buffer
 *     rd,q,n          chunkqueue_read_data
 *     sq,q            chunkqueue_read_squash
 *     rs,q            chunkqueue_reset
 *   an implicit final step "end" resets both queues.
 * output: one line; per step
 *   <result> q0:<length>,<bytes_in>,<bytes_out>,<tempdir_idx>,<readable bytes>,<crc32>,<layout> q1:... t:<temp files> fd:<open fds>
 *   steps joined by " | "; the final step also reports ws:/ms: = number of
 *   scheduled write / mkostemp results left unused.  layout = chunks joined by '.', each M|F|T (mem,
 *   file, temp file) + remaining length + '+' if the chunk holds a descriptor.
 */
#include "first.h"
#include <sys/types.h>
#include <sys/stat.h>
#include <sys/uio.h>
#include <unistd.h>
#include <fcntl.h>
#include <dirent.h>
#include <errno.h>
#include <zlib.h>
#include "harness_common.h"
#include "buffer.h"
#include "array.h"
#include "fdevent.h"
#include "log.h"
#include "chunk.h"

/* ---- scripted faults ---------------------------------------------------- */
static const char *ws_p;   /* write schedule cursor */
static const char *ms_p;   /* mkostemp schedule cursor */
static int ltv_faults_fired;

static int ws_next(long *arg) {
    *arg = 0;
    if (NULL == ws_p || *ws_p == 0 || *ws_p == '-') return 0;
    int k = *ws_p++;
    if (k == 's') *arg = strtol(ws_p, (char **)&ws_p, 10);
    if (*ws_p == ',') ++ws_p;
    return k;
}

static int ws_fail(int k) {
    switch (k) {
      case 'i': errno = EINTR;  return 1;
      case 'n': errno = ENOSPC; return 1;
      case 'e': errno = EIO;    return 1;
      default: return 0;
    }
}

static ssize_t ltv_pwritev(int fd, const struct iovec *iov, int cnt, off_t off) {
    long n; int k = ws_next(&n);
    if (ws_fail(k)) { ++ltv_faults_fired; return -1; }
    if (k == 's') {
        struct iovec v[16];
        int m = 0; size_t left = (size_t)n;
        for (int i = 0; i < cnt && i < 16 && left; ++i) {
            v[m] = iov[i];
            if (v[m].iov_len > left) v[m].iov_len = left;
            left -= v[m].iov_len;
            ++m;
        }
        ++ltv_faults_fired;
        return pwritev(fd, v, m, off);   /* (m == 0: the kernel still checks fd) */
    }
    return pwritev(fd, iov, cnt, off);
}

static ssize_t ltv_pwrite(int fd, const void *buf, size_t len, off_t off) {
    long n; int k = ws_next(&n);
    if (ws_fail(k)) { ++ltv_faults_fired; return -1; }
    if (k == 's') {
        ++ltv_faults_fired;
        if ((size_t)n < len) len = (size_t)n;
    }
    return pwrite(fd, buf, len, off);
}

#define LTV_MAXTEMP 4096
static char *temp_names[LTV_MAXTEMP];
static int temp_n;

static int ltv_mkostemp(char *path, int flags) {
    if (ms_p && *ms_p && *ms_p != '-') {
        int k = *ms_p++;
        if (k == 'f') { ++ltv_faults_fired; errno = EACCES; return -1; }
    }
    int fd = fdevent_mkostemp(path, flags);
    if (fd >= 0 && temp_n < LTV_MAXTEMP) temp_names[temp_n++] = strdup(path);
    return fd;
}

#define pwritev ltv_pwritev
#define pwrite ltv_pwrite
#define fdevent_mkostemp ltv_mkostemp
#include "chunk.c"
#undef pwritev
#undef pwrite
#undef fdevent_mkostemp

/* ---- environment -------------------------------------------------------- */
static char root[512];
static char dirs[3][600];
static char srcdir[600];
#define LTV_NSRC 4
static long src_size[LTV_NSRC] = { -1, -1, -1, -1 };
static int nsrc;          /* source files of the current case */
static log_error_st *errh;
static int fd_lo;       /* first descriptor number the queue code can obtain */
static int fd_base;     /* descriptors already open when the current case started */

static unsigned char pat(unsigned long seed, unsigned long i) {
    return (unsigned char)(seed * 37u + i * 131u + (i >> 8) * 17u + (i >> 16) * 5u);
}

static char *gen(unsigned long seed, size_t len) {
    char *p = malloc(len + 1);
    for (size_t i = 0; i < len; ++i) p[i] = (char)pat(seed, i);
    p[len] = 0;
    return p;
}

static void src_path(char *out, size_t sz, int fid) {
    snprintf(out, sz, "%s/f%d", srcdir, fid);
}

static void src_setup(int fid, long size) {
    if (fid >= LTV_NSRC || src_size[fid] == size) return;
    char p[700]; src_path(p, sizeof(p), fid);
    int fd = open(p, O_WRONLY | O_CREAT | O_TRUNC, 0600);
    char *d = gen((unsigned long)fid, (size_t)size);
    if (size) { ssize_t w = write(fd, d, (size_t)size); (void)w; }
    free(d);
    close(fd);
    src_size[fid] = size;
}

static void rm_dir_files(const char *d) {
    DIR *dp = opendir(d);
    if (!dp) return;
    struct dirent *e;
    char p[1200];
    while ((e = readdir(dp))) {
        if (e->d_name[0] == '.') continue;
        snprintf(p, sizeof(p), "%s/%s", d, e->d_name);
        unlink(p);
    }
    closedir(dp);
}

static void cleanup(void) {
    for (int i = 0; i < 3; ++i) { rm_dir_files(dirs[i]); rmdir(dirs[i]); }
    rm_dir_files(srcdir); rmdir(srcdir);
    rmdir(root);
}

static int count_fds(void) {
    /* descriptors >= fd_lo currently open in this process (kernel's view) */
    int n = 0;
    DIR *dp = opendir("/proc/self/fd");
    if (!dp) {
        for (int fd = fd_lo; fd < fd_lo + 512; ++fd)
            if (-1 != fcntl(fd, F_GETFD)) ++n;
        return n;
    }
    const int self = dirfd(dp);
    struct dirent *e;
    while ((e = readdir(dp))) {
        if (e->d_name[0] < '0' || e->d_name[0] > '9') continue;
        int fd = atoi(e->d_name);
        if (fd >= fd_lo && fd != self) ++n;
    }
    closedir(dp);
    return n;
}

static int cmp_int(const void *a, const void *b) { return *(const int *)a - *(const int *)b; }

static void dump_temps(int ndirs) {
    int ids[LTV_MAXTEMP]; int n = 0;
    int nd = ndirs ? ndirs : 1;
    for (int d = 0; d < nd; ++d) {
        DIR *dp = opendir(dirs[d]);
        if (!dp) continue;
        struct dirent *e;
        char p[1200];
        while ((e = readdir(dp))) {
            if (e->d_name[0] == '.') continue;
            snprintf(p, sizeof(p), "%s/%s", dirs[d], e->d_name);
            int id = -1;
            for (int i = 0; i < temp_n; ++i)
                if (0 == strcmp(temp_names[i], p)) { id = i; break; }
            if (n < LTV_MAXTEMP) ids[n++] = id * 4 + d;
        }
        closedir(dp);
    }
    qsort(ids, (size_t)n, sizeof(int), cmp_int);
    fputs(" t:", stdout);
    if (0 == n) fputc('-', stdout);
    for (int i = 0; i < n; ++i)
        printf("%s%d@%d", i ? "," : "", ids[i] >> 2, ids[i] & 3);
}

static void dump_cq(int qi, chunkqueue *cq) {
    uLong crc = crc32(0L, Z_NULL, 0);
    long long readable = 0;
    static char blk[65536];
    printf(" q%d:%lld,%lld,%lld,%u,", qi, (long long)chunkqueue_length(cq),
           (long long)cq->bytes_in, (long long)cq->bytes_out, cq->tempdir_idx);
    /* content first (layout printed after) */
    for (chunk *c = cq->first; c; c = c->next) {
        if (c->type == MEM_CHUNK) {
            long long rem = (long long)buffer_clen(c->mem) - (long long)c->offset;
            if (rem > 0) {
                crc = crc32(crc, (const Bytef *)c->mem->ptr + c->offset, (uInt)rem);
                readable += rem;
            }
        }
        else {
            int fd = c->file.fd, opened = 0;
            if (fd < 0) { fd = open(c->mem->ptr, O_RDONLY); opened = 1; }
            if (fd < 0) continue;
            off_t off = c->offset;
            while (off < c->file.length) {
                size_t want = (size_t)(c->file.length - off);
                if (want > sizeof(blk)) want = sizeof(blk);
                ssize_t rd = pread(fd, blk, want, off);
                if (rd <= 0) break;
                crc = crc32(crc, (const Bytef *)blk, (uInt)rd);
                readable += rd;
                off += rd;
            }
            if (opened) close(fd);
        }
    }
    printf("%lld,%08lx,", readable, (unsigned long)crc);
    chunk *lastseen = NULL;
    if (NULL == cq->first) fputc('-', stdout);
    for (chunk *c = cq->first; c; c = c->next) {
        long long rem = (c->type == MEM_CHUNK)
          ? (long long)buffer_clen(c->mem) - (long long)c->offset
          : (long long)(c->file.length - c->offset);
        printf("%s%c%lld%s", c == cq->first ? "" : ".",
               c->type == MEM_CHUNK ? 'M' : c->file.is_temp ? 'T' : 'F', rem,
               (c->type == FILE_CHUNK && c->file.fd >= 0) ? "+" : "");
        lastseen = c;
    }
    if (cq->last != lastseen) fputs("!L", stdout);
}

static void dump_state(chunkqueue **cq, int ndirs) {
    dump_cq(0, cq[0]);
    dump_cq(1, cq[1]);
    dump_temps(ndirs);
    printf(" fd:%d", count_fds() - fd_base);
}

static int split(char *s, char **f, int max) {
    int n = 0;
    char *save = NULL;
    for (char *t = strtok_r(s, ",", &save); t && n < max; t = strtok_r(NULL, ",", &save))
        f[n++] = t;
    return n;
}

static int all_mem(const chunkqueue *cq) {
    if (NULL == cq->first) return 0;
    for (const chunk *c = cq->first; c; c = c->next)
        if (c->type != MEM_CHUNK) return 0;
    return 1;
}

static void do_op(chunkqueue **cq, char *tok) {
    char *f[8];
    int nf = split(tok, f, 8);
    if (nf < 2) { fputs("bad-op", stdout); return; }
    const char *op = f[0];
    int qi = atoi(f[1]) & 1;
    chunkqueue *q = cq[qi], *o = cq[1 - qi];
    long long a[6] = {0,0,0,0,0,0};
    for (int i = 2; i < nf; ++i) a[i-2] = atoll(f[i]);
    #define IS(x) (0 == strcmp(op, x))
    if ((IS("am") || IS("an")) && nf == 4) {
        char *d = gen((unsigned long)a[0], (size_t)a[1]);
        if (IS("am")) chunkqueue_append_mem(q, d, (size_t)a[1]);
        else chunkqueue_append_mem_min(q, d, (size_t)a[1]);
        free(d);
        fputs(op, stdout);
    }
    else if (IS("ab") && nf == 4) {
        char *d = gen((unsigned long)a[0], (size_t)a[1]);
        buffer *b = buffer_init();
        buffer_copy_string_len(b, d, (size_t)a[1]);
        chunkqueue_append_buffer(q, b);
        buffer_free(b);
        free(d);
        fputs(op, stdout);
    }
    else if (IS("bo") && nf == 4) {
        char *d = gen((unsigned long)a[0], (size_t)a[1]);
        buffer *b = chunkqueue_append_buffer_open(q);
        buffer_append_string_len(b, d, (size_t)a[1]);
        chunkqueue_append_buffer_commit(q);
        free(d);
        fputs(op, stdout);
    }
    else if (IS("gm") && nf == 5) {
        chunk *ckpt = q->last;
        size_t n = (size_t)a[0];
        char *p = chunkqueue_get_memory(q, &n);
        size_t use = (size_t)a[2] < n ? (size_t)a[2] : n;
        for (size_t i = 0; i < use; ++i) p[i] = (char)pat((unsigned long)a[1], i);
        chunkqueue_use_memory(q, ckpt, use);
        printf("gm:%zu", n);
    }
    else if ((IS("af") || IS("ad")) && nf == 5 && (a[0] < 0 || a[0] >= nsrc)) fputs("bad-op", stdout);
    else if ((IS("af") || IS("ad")) && nf == 5) {
        char p[700]; src_path(p, sizeof(p), (int)a[0]);
        buffer *fn = buffer_init();
        buffer_copy_string_len(fn, p, strlen(p));
        if (IS("af")) chunkqueue_append_file(q, fn, (off_t)a[1], (off_t)a[2]);
        else {
            int fd = open(p, O_RDONLY | O_CLOEXEC);
            if (fd >= 0) chunkqueue_append_file_fd(q, fn, fd, (off_t)a[1], (off_t)a[2]);
        }
        buffer_free(fn);
        fputs(op, stdout);
    }
    else if (IS("ac") && nf == 2) { chunkqueue_append_chunkqueue(q, o); fputs(op, stdout); }
    else if (IS("mt") && nf == 4) {
        char *d = gen((unsigned long)a[0], (size_t)a[1]);
        int rc = chunkqueue_append_mem_to_tempfile(q, d, (size_t)a[1], errh);
        free(d);
        printf("mt:%d", rc);
    }
    else if (IS("sp") && nf == 4 && (a[1] < 0 || a[1] > 60000)) fputs("bad-op", stdout);
    else if (IS("sp") && nf == 4) {
      #ifdef HAVE_SPLICE
        int pfd[2];
        if (0 != pipe(pfd)) { fputs("sp:nopipe", stdout); return; }
        char *d = gen((unsigned long)a[0], (size_t)a[1]);
        ssize_t w = a[1] ? write(pfd[1], d, (size_t)a[1]) : 0;   /* (<= 60000 < pipe capacity) */
        free(d);
        close(pfd[1]);
        ssize_t rc = (w == (ssize_t)a[1])
          ? chunkqueue_append_splice_pipe_tempfile(q, pfd[0], (unsigned int)a[1], errh) : -1;
        close(pfd[0]);
        printf("sp:%lld", rc < 0 ? -1LL : (long long)rc);
      #else
        fputs("sp:nosplice", stdout);
      #endif
    }
    else if (IS("st") && nf == 3) { chunkqueue_steal(q, o, (off_t)a[0]); fputs(op, stdout); }
    else if (IS("sw") && nf == 3) {
        int rc = chunkqueue_steal_with_tempfiles(q, o, (off_t)a[0], errh);
        printf("sw:%d", rc);
    }
    else if (IS("cr") && nf == 5) {
        chunkqueue *s = cq[a[0] & 1];
        /* dst == src is permitted by chunk.c, but then the range must lie
         * inside the queue (else the copy loop would feed on its own output) */
        if (s == q && a[2] > 0 && a[1] + a[2] > chunkqueue_length(q)) fputs("cr:skip", stdout);
        else {
            chunkqueue_append_cq_range(q, s, (off_t)a[1], (off_t)a[2]);
            fputs(op, stdout);
        }
    }
    else if (IS("mw") && nf == 3) {
        /* caller obligation: never mark more than is queued */
        if (a[0] >= 0 && a[0] <= chunkqueue_length(q)) { chunkqueue_mark_written(q, (off_t)a[0]); fputs(op, stdout); }
        else fputs("mw:skip", stdout);
    }
    else if (IS("rf") && nf == 2) { chunkqueue_remove_finished_chunks(q); fputs(op, stdout); }
    else if (IS("re") && nf == 2) { chunkqueue_remove_empty_chunks(q); fputs(op, stdout); }
    else if (IS("cm") && nf == 3) {
        if (all_mem(q)) { chunkqueue_compact_mem(q, (size_t)a[0]); fputs(op, stdout); }
        else fputs("cm:skip", stdout);
    }
    else if (IS("co") && nf == 2) {
        if (q->first) { chunkqueue_compact_mem_offset(q); fputs(op, stdout); }
        else fputs("co:skip", stdout);
    }
    else if (IS("pk") && nf == 3) {
        uint32_t n = (uint32_t)a[0];
        char *buf = malloc(n ? n : 1);
        char *data = buf; uint32_t dlen = n;
        int rc = chunkqueue_peek_data(q, &data, &dlen, errh, 0);
        printf("pk:%d,%u,%08lx", rc, dlen,
               (unsigned long)crc32(crc32(0L, Z_NULL, 0), (const Bytef *)data, dlen));
        free(buf);
    }
    else if (IS("rd") && nf == 3) {
        uint32_t n = (uint32_t)a[0];
        char *buf = malloc(n ? n : 1);
        int rc = chunkqueue_read_data(q, buf, n, errh);
        if (0 == rc)
            printf("rd:0,%08lx", (unsigned long)crc32(crc32(0L, Z_NULL, 0), (const Bytef *)buf, n));
        else printf("rd:%d", rc);
        free(buf);
    }
    else if (IS("sq") && nf == 2) {
        chunk *c = chunkqueue_read_squash(q, errh);
        printf("sq:%d", c ? 1 : 0);
    }
    else if (IS("rs") && nf == 2) { chunkqueue_reset(q); fputs(op, stdout); }
    else fputs("bad-op", stdout);
    #undef IS
}

int main(void) {
    const char *tmp = getenv("TMPDIR");
    if (NULL == tmp || 0 == *tmp) tmp = "/tmp";
    snprintf(root, sizeof(root), "%s/ltvcq.%d", tmp, (int)getpid());
    mkdir(root, 0700);
    for (int i = 0; i < 3; ++i) { snprintf(dirs[i], sizeof(dirs[i]), "%s/d%d", root, i); mkdir(dirs[i], 0700); }
    snprintf(srcdir, sizeof(srcdir), "%s/src", root);
    mkdir(srcdir, 0700);
    atexit(cleanup);
    setenv("TMPDIR", dirs[0], 1);
    int nullfd = open("/dev/null", O_WRONLY);
    errh = fdlog_init(NULL, nullfd, FDLOG_FD);
    fd_lo = nullfd + 1;

    while (ltv_next()) {
        if (ltv_ntok == 7 && 0 == strcmp(ltv_tok[0], "big")) {
            /* big <filelen> <off> <len> <taillen> <peek_n> <read_n>
             * file chunk (off,len) of a SPARSE file of filelen bytes (byte i = 'A'+i%23 for off <= i < off+64 and
             * for the last 64 bytes of the range, 0 elsewhere) followed by a memory chunk of taillen bytes
             * ('a'+i%26): peek peek_n, read read_n, then report the length left.  Lengths beyond 2^32 are the
             * point: no octet of the file is written except the two marker blocks. */
            const off_t flen = (off_t)atoll(ltv_tok[1]), off = (off_t)atoll(ltv_tok[2]), len = (off_t)atoll(ltv_tok[3]);
            const size_t tl = (size_t)atol(ltv_tok[4]);
            const uint32_t pn = (uint32_t)atol(ltv_tok[5]), rn = (uint32_t)atol(ltv_tok[6]);
            if (flen < 0 || off < 0 || len < 0 || off + len > flen || tl > (1u << 20) || pn > (1u << 22) || rn > (1u << 22)) {
                puts("bad-op"); continue;
            }
            char p[700]; snprintf(p, sizeof(p), "%s/big", srcdir);
            int fd = open(p, O_WRONLY | O_CREAT | O_TRUNC, 0600);
            if (fd < 0 || 0 != ftruncate(fd, flen)) { puts("big:nofile"); if (fd >= 0) close(fd); continue; }
            char mk[64];
            for (int i = 0; i < 64; ++i) mk[i] = (char)('A' + i % 23);
            if (len >= 64) {
                ssize_t w = pwrite(fd, mk, 64, off); (void)w;
                w = pwrite(fd, mk, 64, off + len - 64); (void)w;
            }
            close(fd);
            chunkqueue_chunk_pool_clear();
            chunkqueue_set_tempdirs_default_reset();
            chunkqueue_set_chunk_size(0);
            chunkqueue *bq = chunkqueue_init(NULL);
            buffer *fn = buffer_init();
            buffer_copy_string_len(fn, p, strlen(p));
            chunkqueue_append_file(bq, fn, off, len);
            buffer_free(fn);
            char *tail = malloc(tl + 1);
            for (size_t i = 0; i < tl; ++i) tail[i] = (char)('a' + i % 26);
            if (tl) chunkqueue_append_mem(bq, tail, tl);
            free(tail);
            printf("len:%lld ", (long long)chunkqueue_length(bq));
            {
                char *buf = malloc(pn ? pn : 1);
                char *data = buf; uint32_t dlen = pn;
                int rc = chunkqueue_peek_data(bq, &data, &dlen, errh, 0);
                printf("pk:%d,%u,%08lx ", rc, dlen, (unsigned long)crc32(crc32(0L, Z_NULL, 0), (const Bytef *)data, dlen));
                free(buf);
            }
            {
                char *buf = malloc(rn ? rn : 1);
                int rc = ((off_t)rn <= chunkqueue_length(bq)) ? chunkqueue_read_data(bq, buf, rn, errh) : -2;
                if (0 == rc) printf("rd:0,%08lx ", (unsigned long)crc32(crc32(0L, Z_NULL, 0), (const Bytef *)buf, rn));
                else printf("rd:%d ", rc);
                free(buf);
            }
            printf("left:%lld out:%lld\n", (long long)chunkqueue_length(bq), (long long)bq->bytes_out);
            chunkqueue_free(bq);
            unlink(p);
            continue;
        }
        if (ltv_ntok < 7 || 0 != strcmp(ltv_tok[0], "seq")) { puts("bad-op"); continue; }
        size_t chunksz = (size_t)atol(ltv_tok[1]);
        off_t tmpsz = (off_t)atoll(ltv_tok[2]);
        off_t qtmpsz[2] = { -1, -1 };
        {
            const char *s1 = strchr(ltv_tok[2], '/');
            if (s1) {
                const char *s2 = strchr(s1 + 1, '/');
                if (!s2) { puts("bad-op"); continue; }
                qtmpsz[0] = (off_t)atoll(s1 + 1);
                qtmpsz[1] = (off_t)atoll(s2 + 1);
            }
        }
        int ndirs = atoi(ltv_tok[3]);
        if (ndirs < 0 || ndirs > 3) { puts("bad-op"); continue; }
        ws_p = ltv_tok[4];
        ms_p = ltv_tok[5];
        {
            char *f[LTV_NSRC + 1];
            int nf = (ltv_tok[6][0] == '-') ? 0 : split(ltv_tok[6], f, LTV_NSRC);
            for (int i = 0; i < nf; ++i) src_setup(i, atol(f[i]));
            nsrc = nf;
        }
        /* fresh world */
        chunkqueue_chunk_pool_clear();
        chunkqueue_set_tempdirs_default_reset();
        chunkqueue_set_chunk_size(chunksz);
        array *tdirs = NULL;
        if (ndirs) {
            tdirs = array_init(4);
            for (int i = 0; i < ndirs; ++i) array_insert_value(tdirs, dirs[i], strlen(dirs[i]));
        }
        chunkqueue_set_tempdirs_default(tdirs, tmpsz);
        for (int i = 0; i < temp_n; ++i) free(temp_names[i]);
        temp_n = 0;
        chunkqueue *cq[2] = { chunkqueue_init(NULL), chunkqueue_init(NULL) };
        for (int i = 0; i < 2; ++i)
            if (qtmpsz[i] >= 0) chunkqueue_set_tempdirs(cq[i], qtmpsz[i]);
        fd_base = count_fds();

        for (int i = 7; i < ltv_ntok; ++i) {
            do_op(cq, ltv_tok[i]);
            dump_state(cq, ndirs);
            fputs(" | ", stdout);
        }
        chunkqueue_reset(cq[0]);
        chunkqueue_reset(cq[1]);
        fputs("end", stdout);
        dump_state(cq, ndirs);
        {   /* scheduled syscall results that were never asked for */
            int wl = 0, ml = 0;
            if (ws_p && *ws_p && *ws_p != '-') { wl = 1; for (const char *p = ws_p; *p; ++p) if (*p == ',') ++wl; }
            if (ms_p && *ms_p && *ms_p != '-') ml = (int)strlen(ms_p);
            printf(" ws:%d ms:%d", wl, ml);
        }
        fputc('\n', stdout);
        fflush(stdout);   /* keeps crash attribution exact: one line out per line in */

        chunkqueue_free(cq[0]);
        chunkqueue_free(cq[1]);
        chunkqueue_set_tempdirs_default_reset();
        if (tdirs) array_free(tdirs);
        for (int i = 0; i < 3; ++i) rm_dir_files(dirs[i]);
    }
    chunkqueue_chunk_pool_free();
    return 0;
}
