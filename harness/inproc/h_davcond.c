/* correspondence harness for C18 (conditional request headers of mod_webdav):
 * the static webdav_if_match_or_unmodified_since() of mod_webdav.c, called as the request
 * handlers call it (stat handed in, or NULL = the function's own lstat() of r->physical.path),
 * and http_etag_create().
 *
 * "~" = header absent, "-" = empty value, everything else hex.
 *
 *  cond <now> <flags> <im> <inm> <ius> <lk>     -> 0 | 412
 *        now   = log_epoch_secs,  flags = r->conf.etag_flags (0..7)
 *        lk    = f:<ino>:<size>:<mtime>:<nsec>  struct stat handed in by the caller
 *              | r:<size>:<mtime>:<nsec>        st == NULL, a real file with that size / mtime
 *              | enoent | enotdir | other       st == NULL, lstat() fails (other = ENAMETOOLONG)
 *  etag <flags> <ino> <size> <mtime> <nsec>     http_etag_create -> hex
 */
#include "first.h"
#include "mod_webdav.c"
#include "harness_common.h"
#include <signal.h>

static char tmproot[256];
static char p_real[320], p_file[320], p_enoent[320], p_enotdir[320], p_long[700];

static void cleanup(void) {
    fflush(stdout);
    if (!tmproot[0]) return;
    unlink(p_real); unlink(p_file); rmdir(tmproot);
}
static void on_abort(int sig) { cleanup(); signal(sig, SIG_DFL); raise(sig); }

static int absent(const char *t) { return t[0] == '~' && t[1] == 0; }

static void set_hdr(request_st *r, int id, const char *k, const char *tok) {
    if (absent(tok)) return;
    size_t n; unsigned char *v = ltv_unhex(tok, &n);
    http_header_request_set(r, id, k, (uint32_t)strlen(k), (char *)v, (uint32_t)n);
    free(v);
}

static int split(char *s, char sep, char **out, int max) {
    int n = 0;
    out[n++] = s;
    for (; *s; ++s) if (*s == sep) { *s = 0; if (n < max) out[n++] = s + 1; }
    return n;
}

static void fill_stat(struct stat *st, char **f) {
    memset(st, 0, sizeof(*st));
    st->st_mode = S_IFREG | 0644;
    st->st_ino = (ino_t)strtoull(f[0], NULL, 10);
    st->st_size = (off_t)strtoull(f[1], NULL, 10);
    st->st_mtime = (time_t)strtoll(f[2], NULL, 10);
    st->st_mtim.tv_nsec = (long)strtoull(f[3], NULL, 10);
}

int main(void) {
    snprintf(tmproot, sizeof(tmproot), "/tmp/ltv-davcond-XXXXXX");
    if (!mkdtemp(tmproot)) { perror("mkdtemp"); return 2; }
    snprintf(p_real, sizeof(p_real), "%s/real", tmproot);
    snprintf(p_file, sizeof(p_file), "%s/file", tmproot);
    snprintf(p_enoent, sizeof(p_enoent), "%s/nope", tmproot);
    snprintf(p_enotdir, sizeof(p_enotdir), "%s/file/x", tmproot);
    {
        int n = snprintf(p_long, sizeof(p_long), "%s/", tmproot);
        memset(p_long + n, 'a', 300); p_long[n + 300] = 0;
        int fd = open(p_file, O_CREAT | O_WRONLY, 0644);
        if (fd >= 0) close(fd);
    }
    atexit(cleanup);
    signal(SIGABRT, on_abort);
    signal(SIGSEGV, on_abort);

    request_st rq; memset(&rq, 0, sizeof(rq));
    request_st * const r = &rq;
    r->tmp_buf = buffer_init();

    while (ltv_next()) {
        if (ltv_ntok == 7 && 0 == strcmp(ltv_tok[0], "cond")) {
            log_epoch_secs = (unix_time64_t)strtoll(ltv_tok[1], NULL, 10);
            r->conf.etag_flags = (unsigned)atoi(ltv_tok[2]) & 7;
            array_reset_data_strings(&r->rqst_headers); r->rqst_htags = 0;
            set_hdr(r, HTTP_HEADER_IF_MATCH, "If-Match", ltv_tok[3]);
            set_hdr(r, HTTP_HEADER_IF_NONE_MATCH, "If-None-Match", ltv_tok[4]);
            set_hdr(r, HTTP_HEADER_IF_UNMODIFIED_SINCE, "If-Unmodified-Since", ltv_tok[5]);
            char *f[6]; int nf = split(ltv_tok[6], ':', f, 6);
            struct stat st, *stp = NULL;
            const char *path = p_enoent;
            if (f[0][0] == 'f' && nf == 5) { fill_stat(&st, f + 1); stp = &st; path = p_real; }
            else if (f[0][0] == 'r' && nf == 4) {
                path = p_real;
                int fd = open(p_real, O_CREAT | O_WRONLY | O_TRUNC, 0644);
                struct timespec ts[2];
                ts[0].tv_sec = ts[1].tv_sec = (time_t)strtoll(f[2], NULL, 10);
                ts[0].tv_nsec = ts[1].tv_nsec = (long)strtoull(f[3], NULL, 10);
                if (fd < 0 || 0 != ftruncate(fd, (off_t)strtoull(f[1], NULL, 10))
                    || 0 != futimens(fd, ts)) { puts("setup-failed"); if (fd >= 0) close(fd); continue; }
                close(fd);
                /* a file system that cannot represent the requested time stamp (granularity, range):
                 * hand the requested values in instead of letting the function find other ones */
                struct stat chk;
                if (0 != lstat(p_real, &chk) || chk.st_mtime != ts[0].tv_sec
                    || chk.st_mtim.tv_nsec != ts[0].tv_nsec
                    || (unsigned long long)chk.st_size != strtoull(f[1], NULL, 10)) {
                    char *g[4] = { "0", f[1], f[2], f[3] };
                    fill_stat(&st, g); stp = &st;
                }
            }
            else if (0 == strcmp(f[0], "enoent"))  path = p_enoent;
            else if (0 == strcmp(f[0], "enotdir")) path = p_enotdir;
            else if (0 == strcmp(f[0], "other"))   path = p_long;
            else { puts("bad-op"); continue; }
            buffer_copy_string(&r->physical.path, path);
            errno = 0;
            printf("%d\n", webdav_if_match_or_unmodified_since(r, stp));
        }
        else if (ltv_ntok == 6 && 0 == strcmp(ltv_tok[0], "etag")) {
            struct stat st; fill_stat(&st, ltv_tok + 2);
            buffer * const b = r->tmp_buf;
            buffer_clear(b);
            http_etag_create(b, &st, atoi(ltv_tok[1]) & 7);
            ltv_puthex(b->ptr, buffer_clen(b));
            fputc('\n', stdout);
        }
        else puts("bad-op");
    }
    return 0;
}
