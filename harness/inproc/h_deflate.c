/* correspondence harness for C19 (mod_deflate): the real static functions of
 * src/mod_deflate.c, reached by #include, with the system calls of the cache
 * writer (write / rename / open(O_CREAT) / getpid) interposed so that failures,
 * short writes and process death can be scheduled at every point.
 *
 * "~" = absent, "-" = empty byte string, everything else hex unless noted.
 *
 * ops
 *  ae <allowed> <hdr>
 *        mod_deflate_choose_encoding() on the C string <hdr>
 *        allowed: "~" directive absent (built-in default list) | "-" empty list |
 *                 comma separated hex strings = deflate.allowed-encodings values,
 *                 turned into flags by the real mod_deflate_encodings_to_flags()
 *        -> gzip | x-gzip | deflate | none
 *  name <dir> <physical path> <identity etag> <label> <pid>
 *        a cacheable response (deflate.cache-dir = <scratch cache dir><dir>, r->physical.path = <path>)
 *        through response_start; -> <name given to rename()> <name given to open(O_CREAT)>, both without
 *        the scratch cache dir prefix (the model uses the base "/c")
 *  rs <allowed> <mimes> <min> <maxkb> <cd> <method> <ae> <inm> <status> <flags> <ctype>
 *     <etag> <vary> <cc> <bk> <gen> <len>
 *        mod_deflate_handle_response_start() on a synthetic finished response
 *        mimes: "~" (NULL) | comma separated hex strings ("-" = the string "")
 *        cd: 1 = deflate.cache-dir configured;  method: 0 GET 1 HEAD 2 QUERY 3 POST
 *        flags: 1 resp_body_finished, 2 Transfer-Encoding set, 4 Content-Encoding set,
 *               8 Content-Length set
 *        bk: body layout  m one MEM_CHUNK | 2 two MEM_CHUNKs | f whole file (FILE_CHUNK,
 *            offset 0) | p FILE_CHUNK at offset 3 | t temporary-file chunk
 *        gen: t<seed> low-entropy text | r<seed> pseudo-random bytes (same generator in
 *            tools/ltv/props/c19.py)
 *        -> <verdict> <status> <etag> <vary> <content-encoding> <has-content-length> <body>
 *           verdict: pass | nm (304) | pf (412) | enc:<label>:<cache file written 0/1>
 *                    | err (HANDLER_ERROR)
 *           body: raw:<gen>:<len>:<hex of the bytes the write queue would send>
 *  cache <op> <op> ...      one history over a fresh document root + cache directory
 *        K                            a second passes (log_monotonic_secs + 1); only K and M advance the clock,
 *                                     so stat cache entries stay trusted between ops without a K
 *        M:<file>:<v>:<content>       (a second passes, then) rewrite source file <file> in place, mtime = T0 + v s
 *        R:<file>:<label>:<pid>:<plan> GET with Accept-Encoding: <label> (ascii), served by
 *                                     the real http_response_send_file() + response_start
 *              plan = c<0|1> o<0|1> w<events> r<o|f|b|a>
 *                 c0: response carries a Vary header already (not eligible for the cache)
 *                 o0: open(O_CREAT) of the temporary file fails
 *                 events (results of successive write() calls on the temporary file):
 *                   k<n> write at most n+1 bytes | i EINTR | f ENOSPC | x process dies
 *                 rename: o ok | f fails | b process dies before | a process dies after
 *        E:F:<file>:<v>.<size>:<label>          unlink a published cache file
 *        E:T:<file>:<v>.<size>:<label>:<pid>    unlink a temporary cache file
 *        -> one token per op:  q | S:<hit>:<label>:z<hex body> | E | X
 *           then "|" and the cache directory listing:
 *           F:<file>:<v>.<size>:<label>:z<hex content>   T:<file>:<v>.<size>:<label>:<pid>:z<hex content>
 */
#include "first.h"
#include "harness_common.h"

#include <sys/types.h>
#include "sys-mmap.h"
#include "sys-setjmp.h"
#include "sys-stat.h"
#include "sys-time.h"
#include "sys-unistd.h"
#include <unistd.h>
#include <fcntl.h>
#include <stdlib.h>
#include <string.h>
#include <errno.h>
#include <setjmp.h>
#include <dirent.h>
#include <time.h>

#include "base.h"
#include "ck.h"
#include "fdevent.h"
#include "fdlog.h"
#include "log.h"
#include "buffer.h"
#include "array.h"
#include "chunk.h"
#include "http_chunk.h"
#include "http_etag.h"
#include "http_header.h"
#include "http_kv.h"
#include "request.h"
#include "response.h"
#include "stat_cache.h"
#include "plugin.h"
#include <zlib.h>

/* ---------------------------------------------------------------- interposition */
static struct {
    int open_ok;
    const char *w;        /* cursor into the write-event string */
    int ren;              /* 'o' 'f' 'b' 'a' */
    int pid;
    int tmp_fd;           /* fd of the temporary cache file, -1 if none was opened */
    int opened;           /* open(O_CREAT) was attempted */
} plan = { 1, "", 'o', 4242, -1, 0 };
static jmp_buf crash_jb;

static void crash_now(void) {
    if (plan.tmp_fd >= 0) { close(plan.tmp_fd); plan.tmp_fd = -1; }
    longjmp(crash_jb, 1);
}

static ssize_t ltv_write(int fd, const void *buf, size_t n) {
    if (fd != plan.tmp_fd || *plan.w == 0) return write(fd, buf, n);
    const char ev = *plan.w++;
    switch (ev) {
      case 'k': {
        size_t cap = (size_t)strtoul(plan.w, (char **)&plan.w, 10) + 1;
        return write(fd, buf, n < cap ? n : cap);
      }
      case 'i': errno = EINTR; return -1;
      case 'f': errno = ENOSPC; return -1;
      case 'x': crash_now();
      default:  errno = EIO; return -1;
    }
}

static char last_creat_path[8300];
static int ltv_open_cloexec(const char *path, int symlinks, int flags, mode_t mode) {
    if (flags & O_CREAT) {
        plan.opened = 1;
        snprintf(last_creat_path, sizeof(last_creat_path), "%s", path);
        if (!plan.open_ok) { errno = EACCES; return -1; }
        return (plan.tmp_fd = fdevent_open_cloexec(path, symlinks, flags, mode));
    }
    return fdevent_open_cloexec(path, symlinks, flags, mode);
}

static char last_rename_to[8300];
static int ltv_rename(const char *a, const char *b) {
    snprintf(last_rename_to, sizeof(last_rename_to), "%s", b);
    switch (plan.ren) {
      case 'f': errno = EACCES; return -1;
      case 'b': crash_now();
      case 'a': if (0 != fdevent_rename(a, b)) return -1; crash_now();
      default:  return fdevent_rename(a, b);
    }
}

static pid_t ltv_getpid(void) { return (pid_t)plan.pid; }

/* trace of the stream assembly (op zs): every deflate() call with its arguments and its answer,
 * every hand-over of the output buffer, every pread() of a file chunk (short reads scripted) */
static struct {
    int on;
    FILE *out;                 /* memstream collecting the trace */
    const char *rd;            /* cursor into the read script: comma separated k (at most k+1 bytes) */
} ztr;

static int ltv_deflate(z_streamp z, int flush) {
    const unsigned ai = z->avail_in, ao = z->avail_out;
    const int rc = deflate(z, flush);
    if (ztr.on)
        fprintf(ztr.out, " D%u:%u:%d>%u:%u:%s", ai, ao, flush == Z_FINISH ? 1 : 0, ai - z->avail_in, ao - z->avail_out,
                rc == Z_OK ? "ok" : rc == Z_STREAM_END ? "end" : "err");
    return rc;
}

static int ltv_http_chunk_append_mem(request_st * const r, const char * const mem, const size_t len) {
    if (ztr.on) fprintf(ztr.out, " A%zu", len);
    return http_chunk_append_mem(r, mem, len);
}

static ssize_t ltv_file_pread(int fd, void *buf, size_t count, off_t offset) {
    size_t lim = count;
    if (ztr.on) {
        fprintf(ztr.out, " R%zu@%lld", count, (long long)offset);
        if (ztr.rd && *ztr.rd >= '0' && *ztr.rd <= '9') {
            size_t k = (size_t)strtoul(ztr.rd, (char **)&ztr.rd, 10) + 1;
            if (*ztr.rd == ',') ++ztr.rd;
            if (k < lim) lim = k;
        }
    }
    return chunk_file_pread(fd, buf, lim, offset);
}

#define write ltv_write
#define getpid ltv_getpid
#define fdevent_rename ltv_rename
#define fdevent_open_cloexec ltv_open_cloexec
#define deflate ltv_deflate
#define http_chunk_append_mem ltv_http_chunk_append_mem
#define chunk_file_pread ltv_file_pread
#include "mod_deflate.c"
#undef deflate
#undef http_chunk_append_mem
#undef chunk_file_pread
#undef write
#undef getpid
#undef fdevent_rename
#undef fdevent_open_cloexec

/* ---------------------------------------------------------------- helpers */
static char scratch[4000];
static char docdir[4100], cachedir[4100];
static fdlog_st *errh;
static plugin_data *P;
static request_st rq;
static connection con0;
static server srv0;
static array *mimes_by_ext;

static int absent(const char *t) { return t[0] == '~' && t[1] == 0; }

static void put_hdr(const buffer *b) {
    if (!b) fputc('~', stdout); else ltv_puthex(b->ptr, buffer_clen(b));
}

static void set_req(request_st *r, enum http_header_e id, const char *k, const char *tok) {
    if (absent(tok)) return;
    size_t n; unsigned char *v = ltv_unhex(tok, &n);
    http_header_request_set(r, id, k, (uint32_t)strlen(k), (char *)v, (uint32_t)n);
    free(v);
}

static void set_resp(request_st *r, enum http_header_e id, const char *k, const char *tok) {
    if (absent(tok)) return;
    size_t n; unsigned char *v = ltv_unhex(tok, &n);
    http_header_response_set(r, id, k, (uint32_t)strlen(k), (char *)v, (uint32_t)n);
    free(v);
}

static void req_reset(request_st *r) {
    chunkqueue_reset(&r->write_queue);
    r->rqst_htags = 0;
    r->resp_htags = 0;
    array_reset_data_strings(&r->rqst_headers);
    array_reset_data_strings(&r->resp_headers);
    array_reset_data_strings(&r->env);
    r->http_status = 0;
    r->resp_body_finished = 0;
    r->resp_body_started = 0;
    r->resp_send_chunked = 0;
    r->handler_module = NULL;
    r->plugin_ctx[0] = NULL;
    buffer_clear(&r->physical.path);
}

/* comma separated hex strings -> array of data_string values; "-" = "" */
static array *list_from_tok(const char *tok) {
    array *a = array_init(4);
    char *dup = strdup(tok), *save = NULL;
    for (char *t = strtok_r(dup, ",", &save); t; t = strtok_r(NULL, ",", &save)) {
        size_t n; unsigned char *v = ltv_unhex(t, &n);
        array_insert_value(a, (char *)v, (uint32_t)n);
        free(v);
    }
    free(dup);
    return a;
}

static uint16_t default_encodings[] = {   /* available_encodings[] of mod_deflate_set_defaults() */
    HTTP_ACCEPT_ENCODING_GZIP, HTTP_ACCEPT_ENCODING_X_GZIP, HTTP_ACCEPT_ENCODING_DEFLATE, 0 };

/* returns malloc'd flags (or NULL for the built-in default, *isdef = 1) */
static uint16_t *allowed_from_tok(const char *tok, int *isdef) {
    *isdef = 0;
    if (absent(tok)) { *isdef = 1; return default_encodings; }
    array *a = (tok[0] == '-' && tok[1] == 0) ? array_init(1) : list_from_tok(tok);
    uint16_t *x = mod_deflate_encodings_to_flags(a);
    array_free(a);
    return x;
}

static void gen_body(unsigned char *out, char kind, unsigned long seed, size_t n) {
    uint32_t x = (uint32_t)seed;
    if (kind == 'c') { memset(out, 'a' + (int)(seed % 26), n); return; }   /* constant: compresses to almost nothing */
    for (size_t i = 0; i < n; ++i) {
        x = (x * 1103515245u + 12345u) & 0x7fffffffu;
        out[i] = (kind == 't') ? (unsigned char)(97 + ((x >> 16) & 3)) : (unsigned char)((x >> 16) & 0xff);
    }
}

/* print the bytes the queue would send; returns their number or -1 */
static off_t dump_cq(const chunkqueue *cq) {
    off_t total = 0;
    int any = 0;
    for (const chunk *c = cq->first; c; c = c->next) {
        if (c->type == MEM_CHUNK) {
            off_t len = (off_t)buffer_clen(c->mem) - c->offset;
            if (len < 0) return -1;
            if (len) { ltv_puthex(c->mem->ptr + c->offset, (size_t)len); any = 1; }
            total += len;
        }
        else {
            off_t len = c->file.length - c->offset;
            if (len < 0) return -1;
            int fd = c->file.fd, opened = 0;
            if (fd < 0) { fd = open(c->mem->ptr, O_RDONLY); opened = 1; }
            if (fd < 0) return -1;
            char *buf = malloc((size_t)len + 1);
            ssize_t rd = len ? pread(fd, buf, (size_t)len, c->offset) : 0;
            if (opened) close(fd);
            if (rd != (ssize_t)len) { free(buf); fputs("SHORT", stdout); return -1; }
            if (len) { ltv_puthex(buf, (size_t)len); any = 1; }
            free(buf);
            total += len;
        }
    }
    if (!any) fputc('-', stdout);
    return total;
}

static int write_file(const char *path, const unsigned char *p, size_t n, int trunc) {
    int fd = open(path, O_WRONLY | O_CREAT | (trunc ? O_TRUNC : 0), 0644);
    if (fd < 0) return -1;
    size_t off = 0;
    while (off < n) {
        ssize_t w = write(fd, p + off, n - off);
        if (w <= 0) { close(fd); return -1; }
        off += (size_t)w;
    }
    return close(fd);
}

/* remove everything below dir (keeps dir); returns number of regular files seen */
static int wipe_dir(const char *dir) {
    int nfiles = 0;
    DIR *d = opendir(dir);
    if (!d) return 0;
    struct dirent *e;
    char p[8300];
    while ((e = readdir(d))) {
        if (0 == strcmp(e->d_name, ".") || 0 == strcmp(e->d_name, "..")) continue;
        snprintf(p, sizeof(p), "%s/%s", dir, e->d_name);
        struct stat st;
        if (0 != lstat(p, &st)) continue;
        if (S_ISDIR(st.st_mode)) { nfiles += wipe_dir(p); rmdir(p); }
        else { ++nfiles; unlink(p); }
    }
    closedir(d);
    return nfiles;
}

static void cleanup_all(void) {
    if (scratch[0]) { wipe_dir(scratch); rmdir(scratch); }
}

static void tick(void) { ++log_monotonic_secs; ++log_epoch_secs; }

/* ---------------------------------------------------------------- op: ae */
static void op_ae(void) {
    int isdef;
    uint16_t *x = allowed_from_tok(ltv_tok[1], &isdef);
    size_t n; unsigned char *h = ltv_unhex(ltv_tok[2], &n);
    P->conf.allowed_encodings = x;
    const char *label = NULL;
    int ct = mod_deflate_choose_encoding((const char *)h, P, &label);
    if (!ct) puts("none");
    else puts(label ? label : "NULL-label");
    free(h);
    if (!isdef) free(x);
}

/* ---------------------------------------------------------------- op: sc */
/* the accept_encoding bit set of the scan loop, observed through three single-entry allowed lists */
static void op_sc(void) {
    static const uint16_t bits[3] = { HTTP_ACCEPT_ENCODING_GZIP, HTTP_ACCEPT_ENCODING_X_GZIP,
                                      HTTP_ACCEPT_ENCODING_DEFLATE };
    static const char * const want[3] = { "gzip", "x-gzip", "deflate" };
    size_t n; unsigned char *h = ltv_unhex(ltv_tok[1], &n);
    char out[4] = "000";
    for (int i = 0; i < 3; ++i) {
        uint16_t x[2] = { bits[i], 0 };
        P->conf.allowed_encodings = x;
        const char *label = NULL;
        int ct = mod_deflate_choose_encoding((const char *)h, P, &label);
        if (ct) out[i] = (label && 0 == strcmp(label, want[i])) ? '1' : '?';
    }
    P->conf.allowed_encodings = NULL;
    puts(out);
    free(h);
}

/* ---------------------------------------------------------------- op: name */
/* black box: a cacheable response goes through response_start; the names are those handed to
 * open(O_CREAT) and rename() (no static helper of mod_deflate.c is called directly) */
static void op_name(void) {
    request_st * const r = &rq;
    req_reset(r);
    size_t nd, np, ne;
    unsigned char *d = ltv_unhex(ltv_tok[1], &nd);
    unsigned char *pa = ltv_unhex(ltv_tok[2], &np);
    unsigned char *e = ltv_unhex(ltv_tok[3], &ne);
    const char *lab = ltv_tok[4];
    memset(&P->defaults, 0, sizeof(P->defaults));
    array *mimes = array_init(1);
    array_insert_value(mimes, CONST_STR_LEN("text/"));
    buffer *cdir = buffer_init();
    buffer_copy_string(cdir, cachedir);
    buffer_append_string_len(cdir, (char *)d, nd);
    P->defaults.mimetypes = mimes;
    P->defaults.allowed_encodings = default_encodings;
    P->defaults.compression_level = -1;
    P->defaults.cache_dir = cdir;
    char fpath[4200];
    snprintf(fpath, sizeof(fpath), "%s/body.txt", docdir);
    buffer *fn = buffer_init();
    buffer_copy_string(fn, fpath);
    int fd = (0 == write_file(fpath, (const unsigned char *)"name name name name", 19, 1)) ? open(fpath, O_RDONLY | O_CLOEXEC) : -1;
    if (fd < 0 || ne < 3) { puts("bad-op"); goto done; }
    chunkqueue_append_file_fd(&r->write_queue, fn, fd, 0, 19);
    r->http_method = HTTP_METHOD_GET;
    r->http_version = HTTP_VERSION_1_1;
    r->http_status = 200;
    r->resp_body_finished = 1;
    http_header_request_set(r, HTTP_HEADER_ACCEPT_ENCODING, CONST_STR_LEN("Accept-Encoding"), lab, (uint32_t)strlen(lab));
    http_header_response_set(r, HTTP_HEADER_CONTENT_TYPE, CONST_STR_LEN("Content-Type"), CONST_STR_LEN("text/plain"));
    http_header_response_set(r, HTTP_HEADER_ETAG, CONST_STR_LEN("ETag"), (char *)e, (uint32_t)ne);
    buffer_copy_string_len(&r->physical.path, (char *)pa, np);
    tick();
    plan.open_ok = 1; plan.w = ""; plan.ren = 'o'; plan.pid = atoi(ltv_tok[5]); plan.tmp_fd = -1; plan.opened = 0;
    last_creat_path[0] = 0; last_rename_to[0] = 0;
    handler_t rc = mod_deflate_handle_response_start(r, P);
    const size_t cl = strlen(cachedir);
    if (rc != HANDLER_GO_ON || strlen(last_rename_to) < cl || strlen(last_creat_path) < cl) puts("no-cache-file");
    else {
        ltv_puthex(last_rename_to + cl, strlen(last_rename_to + cl));
        fputc(' ', stdout);
        ltv_puthex(last_creat_path + cl, strlen(last_creat_path + cl));
        fputc('\n', stdout);
    }
done:
    if (r->plugin_ctx[0]) { mod_deflate_cleanup(r, P); }
    chunkqueue_reset(&r->write_queue);
    wipe_dir(cachedir);
    unlink(fpath);
    buffer_free(fn); buffer_free(cdir);
    array_free(mimes);
    free(d); free(pa); free(e);
    P->defaults.mimetypes = NULL;
    P->defaults.cache_dir = NULL;
}

/* ---------------------------------------------------------------- op: rs */
static void op_rs(void) {
    request_st * const r = &rq;
    req_reset(r);
    int isdef;
    uint16_t *x = allowed_from_tok(ltv_tok[1], &isdef);
    array *mimes = absent(ltv_tok[2]) ? NULL : list_from_tok(ltv_tok[2]);
    memset(&P->defaults, 0, sizeof(P->defaults));
    P->defaults.allowed_encodings = x;
    P->defaults.mimetypes = (mimes && mimes->used) ? mimes : NULL;
    P->defaults.min_compress_size = (unsigned short)atoi(ltv_tok[3]);
    P->defaults.max_compress_size = (unsigned int)strtoul(ltv_tok[4], NULL, 10);
    P->defaults.compression_level = -1;
    P->defaults.work_block_size = 2048;
    buffer *cdir = buffer_init();
    buffer_copy_string(cdir, cachedir);
    const int cd = atoi(ltv_tok[5]);
    P->defaults.cache_dir = cd ? cdir : NULL;
    static const http_method_t meth[] = { HTTP_METHOD_GET, HTTP_METHOD_HEAD, HTTP_METHOD_QUERY, HTTP_METHOD_POST };
    r->http_method = meth[atoi(ltv_tok[6]) & 3];
    r->http_version = HTTP_VERSION_1_1;
    set_req(r, HTTP_HEADER_ACCEPT_ENCODING, "Accept-Encoding", ltv_tok[7]);
    set_req(r, HTTP_HEADER_IF_NONE_MATCH, "If-None-Match", ltv_tok[8]);
    const int status0 = atoi(ltv_tok[9]);
    r->http_status = status0;
    const int flags = atoi(ltv_tok[10]);
    set_resp(r, HTTP_HEADER_CONTENT_TYPE, "Content-Type", ltv_tok[11]);
    set_resp(r, HTTP_HEADER_ETAG, "ETag", ltv_tok[12]);
    set_resp(r, HTTP_HEADER_VARY, "Vary", ltv_tok[13]);
    set_resp(r, HTTP_HEADER_CACHE_CONTROL, "Cache-Control", ltv_tok[14]);
    const char bk = ltv_tok[15][0];
    const char gk = ltv_tok[16][0];
    const unsigned long seed = strtoul(ltv_tok[16] + 1, NULL, 10);
    const size_t len = (size_t)strtoul(ltv_tok[17], NULL, 10);
    unsigned char *body = malloc(len + 4);
    gen_body(body, gk, seed, len);

    char fpath[4200];
    snprintf(fpath, sizeof(fpath), "%s/body.txt", docdir);
    buffer *fn = buffer_init();
    buffer_copy_string(fn, fpath);
    chunkqueue * const cq = &r->write_queue;
    int bad = 0;
    if (len) switch (bk) {
      case 'm':
        chunkqueue_append_mem(cq, (char *)body, len);
        break;
      case '2': {
        size_t h = len / 2;
        buffer *b = chunkqueue_append_buffer_open_sz(cq, h + 1);
        buffer_copy_string_len(b, (char *)body, h);
        chunkqueue_append_buffer_commit(cq);
        b = chunkqueue_append_buffer_open_sz(cq, len - h + 1);
        buffer_copy_string_len(b, (char *)body + h, len - h);
        chunkqueue_append_buffer_commit(cq);
        break; }
      case 'f': case 't': {
        if (0 != write_file(fpath, body, len, 1)) { bad = 1; break; }
        int fd = open(fpath, O_RDONLY | O_CLOEXEC);
        if (fd < 0) { bad = 1; break; }
        chunkqueue_append_file_fd(cq, fn, fd, 0, (off_t)len);
        if (bk == 't') cq->last->file.is_temp = 1;
        break; }
      case 'P': {   /* FILE_CHUNK over a proper prefix of a longer file (100 more bytes follow) */
        unsigned char *tmp = malloc(len + 100);
        memcpy(tmp, body, len); memset(tmp + len, 'T', 100);
        int rc = write_file(fpath, tmp, len + 100, 1);
        free(tmp);
        if (0 != rc) { bad = 1; break; }
        int fd = open(fpath, O_RDONLY | O_CLOEXEC);
        if (fd < 0) { bad = 1; break; }
        chunkqueue_append_file_fd(cq, fn, fd, 0, (off_t)len);
        break; }
      case 'p': {
        unsigned char *tmp = malloc(len + 3);
        memcpy(tmp, "JNK", 3); memcpy(tmp + 3, body, len);
        int rc = write_file(fpath, tmp, len + 3, 1);
        free(tmp);
        if (0 != rc) { bad = 1; break; }
        int fd = open(fpath, O_RDONLY | O_CLOEXEC);
        if (fd < 0) { bad = 1; break; }
        chunkqueue_append_file_fd(cq, fn, fd, 3, (off_t)len);
        break; }
      default: bad = 1; break;
    }
    if (bad) { puts("bad-op"); goto done; }
    buffer_copy_string(&r->physical.path, fpath);
    r->resp_body_finished = (flags & 1) ? 1 : 0;
    if (flags & 2)
        http_header_response_set(r, HTTP_HEADER_TRANSFER_ENCODING,
                                 CONST_STR_LEN("Transfer-Encoding"), CONST_STR_LEN("chunked"));
    if (flags & 4)
        http_header_response_set(r, HTTP_HEADER_CONTENT_ENCODING,
                                 CONST_STR_LEN("Content-Encoding"), CONST_STR_LEN("br"));
    if (flags & 8)
        buffer_append_int(http_header_response_set_ptr(r, HTTP_HEADER_CONTENT_LENGTH,
                                                       CONST_STR_LEN("Content-Length")), (intmax_t)len);
    tick();
    plan.open_ok = 1; plan.w = ""; plan.ren = 'o'; plan.pid = 4242; plan.tmp_fd = -1; plan.opened = 0;

    handler_t rc = mod_deflate_handle_response_start(r, P);

    const buffer *ce = (flags & 4) ? NULL
      : http_header_response_get(r, HTTP_HEADER_CONTENT_ENCODING, CONST_STR_LEN("Content-Encoding"));
    if (rc != HANDLER_GO_ON) fputs("err", stdout);
    else if (ce) {
        fputs("enc:", stdout);
        fwrite(ce->ptr, 1, buffer_clen(ce), stdout);
        /* was a cache file published? (counted after the queue has been dumped) */
    }
    else if (r->http_status != status0 && r->http_status == 304) fputs("nm", stdout);
    else if (r->http_status != status0 && r->http_status == 412) fputs("pf", stdout);
    else if (r->http_status != status0) printf("status-changed-to-%d", r->http_status);
    else fputs("pass", stdout);
    /* body first into a memory stream so the cache-file count can precede it */
    {
        char *mem = NULL; size_t memsz = 0;
        FILE *real = stdout;
        FILE *ms = open_memstream(&mem, &memsz);
        stdout = ms;
        off_t total = dump_cq(cq);
        fflush(ms);
        stdout = real;
        fclose(ms);
        chunkqueue_reset(cq);                       /* releases (and unlinks) temp files */
        int ncache = cd ? wipe_dir(cachedir) : 0;
        if (rc == HANDLER_GO_ON && ce) printf(":%d", ncache ? 1 : 0);
        printf(" %d ", r->http_status);
        put_hdr(http_header_response_get(r, HTTP_HEADER_ETAG, CONST_STR_LEN("ETag")));
        fputc(' ', stdout);
        put_hdr(http_header_response_get(r, HTTP_HEADER_VARY, CONST_STR_LEN("Vary")));
        fputc(' ', stdout);
        put_hdr(ce);
        printf(" %d ", light_btst(r->resp_htags, HTTP_HEADER_CONTENT_LENGTH) ? 1 : 0);
        printf("raw:%s:%zu:", ltv_tok[16], len);
        fwrite(mem, 1, memsz, stdout);
        if (total < 0) fputs(":BADQUEUE", stdout);
        fputc('\n', stdout);
        free(mem);
    }
done:
    if (r->plugin_ctx[0]) { r->plugin_ctx[0] = NULL; }
    chunkqueue_reset(cq);
    unlink(fpath);
    buffer_free(fn);
    buffer_free(cdir);
    free(body);
    if (mimes) array_free(mimes);
    if (!isdef) free(x);
    P->defaults.mimetypes = NULL;
    P->defaults.cache_dir = NULL;
}

/* ---------------------------------------------------------------- op: zs */
/* zs <label> <cap> <layout> <gen> <readscript> <zscript>
 *   layout: comma separated chunks  m<n> MEM_CHUNK | f<n> whole file | p<n> file chunk at offset 3 of a file
 *           ending with the chunk | P<n> file chunk over the first n bytes of a longer file | o<n> chunk at offset 3
 *           of a longer file;  cap = hctx->output->size for this run; readscript "-" or k,k,..
 *   zscript is not read here (the real zlib answers); it is "?" in the first pass and the recorded answers
 *   (consumed:produced:rc,...) in the second pass, where the Lean model replays them
 *   -> <ok|err> <trace: D<avail_in>:<avail_out>:<finish>><consumed>:<produced>:<rc>  A<len>  R<count>@<offset> ...>
 *      zraw:<label>:<gen>:<total>:<hex of the queue> */
static void op_zs(void) {
    request_st * const r = &rq;
    req_reset(r);
    memset(&P->defaults, 0, sizeof(P->defaults));
    array *mimes = array_init(1);
    array_insert_value(mimes, CONST_STR_LEN("text/"));
    P->defaults.mimetypes = mimes;
    P->defaults.allowed_encodings = default_encodings;
    P->defaults.compression_level = -1;
    const char *lab = ltv_tok[1];
    const uint32_t cap = (uint32_t)strtoul(ltv_tok[2], NULL, 10);
    const char gk = ltv_tok[4][0];
    const unsigned long seed = strtoul(ltv_tok[4] + 1, NULL, 10);
    /* total size */
    size_t total = 0;
    for (const char *q = ltv_tok[3]; *q; ) { char *e; total += strtoul(q + 1, &e, 10); q = (*e == ',') ? e + 1 : e; }
    unsigned char *body = malloc(total + 4);
    gen_body(body, gk, seed, total);
    chunkqueue * const cq = &r->write_queue;
    char fpaths[64][4200]; int nfiles = 0;
    size_t pos = 0; int bad = 0;
    for (const char *q = ltv_tok[3]; *q && !bad; ) {
        const char kind = *q; char *e;
        size_t n = strtoul(q + 1, &e, 10);
        q = (*e == ',') ? e + 1 : e;
        if (0 == n || nfiles >= 64) { bad = 1; break; }
        if (kind == 'm') {
            buffer *b = chunkqueue_append_buffer_open_sz(cq, n + 1);
            buffer_copy_string_len(b, (char *)body + pos, n);
            chunkqueue_append_buffer_commit(cq);
        }
        else {
            const size_t pre = (kind == 'p' || kind == 'o') ? 3 : 0;
            const size_t post = (kind == 'P' || kind == 'o') ? 100 : 0;
            unsigned char *tmp = malloc(pre + n + post + 1);
            memcpy(tmp, "JNK", pre); memcpy(tmp + pre, body + pos, n); memset(tmp + pre + n, 'T', post);
            snprintf(fpaths[nfiles], sizeof(fpaths[0]), "%s/z%d.txt", docdir, nfiles);
            int rc = write_file(fpaths[nfiles], tmp, pre + n + post, 1);
            free(tmp);
            int fd = rc ? -1 : open(fpaths[nfiles], O_RDONLY | O_CLOEXEC);
            if (fd < 0) { bad = 1; break; }
            buffer *fn = buffer_init();
            buffer_copy_string(fn, fpaths[nfiles]);
            chunkqueue_append_file_fd(cq, fn, fd, (off_t)pre, (off_t)n);
            buffer_free(fn);
            ++nfiles;
        }
        pos += n;
    }
    if (bad || 0 == total || cap < 1 || cap > 131072) { puts("bad-op"); goto done; }
    r->http_method = HTTP_METHOD_GET;
    r->http_version = HTTP_VERSION_1_1;
    r->http_status = 200;
    r->resp_body_finished = 1;
    http_header_request_set(r, HTTP_HEADER_ACCEPT_ENCODING, CONST_STR_LEN("Accept-Encoding"), lab, (uint32_t)strlen(lab));
    http_header_response_set(r, HTTP_HEADER_CONTENT_TYPE, CONST_STR_LEN("Content-Type"), CONST_STR_LEN("text/plain"));
    buffer_copy_string(&r->physical.path, "/nowhere");
    tick();
    plan.open_ok = 1; plan.w = ""; plan.ren = 'o'; plan.pid = 4242; plan.tmp_fd = -1; plan.opened = 0;
    {
        char *mem = NULL; size_t memsz = 0;
        ztr.out = open_memstream(&mem, &memsz);
        ztr.rd = (ltv_tok[5][0] == '-') ? NULL : ltv_tok[5];
        ztr.on = 1;
        const uint32_t realsz = P->tmp_buf.size;
        P->tmp_buf.size = cap;                      /* hctx->output->size */
        handler_t rc = mod_deflate_handle_response_start(r, P);
        P->tmp_buf.size = realsz;
        ztr.on = 0;
        fclose(ztr.out);
        fputs(rc == HANDLER_GO_ON ? "ok" : "err", stdout);
        fwrite(mem, 1, memsz, stdout);
        free(mem);
        printf(" zraw:%s:%s:%zu:", lab, ltv_tok[4], total);
        if (rc == HANDLER_GO_ON) { if (dump_cq(cq) < 0) fputs(":BADQUEUE", stdout); } else fputc('-', stdout);
        fputc('\n', stdout);
    }
done:
    if (r->plugin_ctx[0]) { mod_deflate_cleanup(r, P); }
    chunkqueue_reset(cq);
    for (int i = 0; i < nfiles; ++i) unlink(fpaths[i]);
    free(body);
    array_free(mimes);
    P->defaults.mimetypes = NULL;
}

/* ---------------------------------------------------------------- op: cache */
#define MAXVER 256
static struct { int file; char vtok[32]; char etag[32]; } vers[MAXVER];
static int nvers, collision;

static void note_version(int file, const char *vtok, const char *etag) {
    for (int i = 0; i < nvers; ++i)
        if (vers[i].file == file && 0 == strcmp(vers[i].etag, etag)) {
            if (0 != strcmp(vers[i].vtok, vtok)) collision = 1;
            return;
        }
    if (nvers < MAXVER) {
        vers[nvers].file = file;
        snprintf(vers[nvers].vtok, sizeof(vers[nvers].vtok), "%s", vtok);
        snprintf(vers[nvers].etag, sizeof(vers[nvers].etag), "%s", etag);
        ++nvers;
    }
}

static const char *vtok_of(int file, const char *etag) {
    for (int i = 0; i < nvers; ++i)
        if (vers[i].file == file && 0 == strcmp(vers[i].etag, etag)) return vers[i].vtok;
    return NULL;
}

static const char *etag_of(int file, const char *vtok) {
    for (int i = 0; i < nvers; ++i)
        if (vers[i].file == file && 0 == strcmp(vers[i].vtok, vtok)) return vers[i].etag;
    return NULL;
}

static char **listing; static int nlisting, caplisting;

static void list_add(char *s) {
    if (nlisting == caplisting) { caplisting = caplisting ? caplisting * 2 : 16; listing = realloc(listing, sizeof(char *) * (size_t)caplisting); }
    listing[nlisting++] = s;
}

static void list_cache(const char *dir) {
    DIR *d = opendir(dir);
    if (!d) return;
    struct dirent *e;
    char p[8300];
    while ((e = readdir(d))) {
        if (0 == strcmp(e->d_name, ".") || 0 == strcmp(e->d_name, "..")) continue;
        snprintf(p, sizeof(p), "%s/%s", dir, e->d_name);
        struct stat st;
        if (0 != lstat(p, &st)) continue;
        if (S_ISDIR(st.st_mode)) { list_cache(p); continue; }
        /* expected: <cachedir><docdir>/f<i>.txt-<digits>-<label>[.<pid>] */
        char pre[8300];
        snprintf(pre, sizeof(pre), "%s%s/f", cachedir, docdir);
        size_t prelen = strlen(pre);
        char *out = NULL; size_t outsz = 0;
        FILE *ms = open_memstream(&out, &outsz);
        int ok = 0;
        if (0 == strncmp(p, pre, prelen)) {
            const char *s = p + prelen;
            char *end;
            long file = strtol(s, &end, 10);
            if (end != s && 0 == strncmp(end, ".txt-", 5)) {
                s = end + 5;
                const char *dash = strchr(s, '-');
                if (dash && dash - s < 30) {
                    char etag[32]; memcpy(etag, s, (size_t)(dash - s)); etag[dash - s] = 0;
                    const char *lab = dash + 1;
                    const char *labels[] = { "x-gzip", "gzip", "deflate" };
                    for (int i = 0; i < 3 && !ok; ++i) {
                        size_t ll = strlen(labels[i]);
                        if (0 != strncmp(lab, labels[i], ll)) continue;
                        const char *rest = lab + ll;
                        const char *vt = vtok_of((int)file, etag);
                        if (!vt) vt = "?";
                        if (*rest == 0) {
                            unsigned char *buf = malloc((size_t)st.st_size + 1);
                            int fd = open(p, O_RDONLY);
                            ssize_t rd = fd >= 0 ? read(fd, buf, (size_t)st.st_size) : -1;
                            if (fd >= 0) close(fd);
                            fprintf(ms, "F:%ld:%s:%s:z", file, vt, labels[i]);
                            FILE *real = stdout; stdout = ms;
                            ltv_puthex(buf, rd > 0 ? (size_t)rd : 0);
                            fflush(ms); stdout = real;
                            free(buf);
                            ok = 1;
                        }
                        else if (*rest == '.' && rest[1] >= '0' && rest[1] <= '9') {
                            unsigned char *buf = malloc((size_t)st.st_size + 1);
                            int fd = open(p, O_RDONLY);
                            ssize_t rd = fd >= 0 ? read(fd, buf, (size_t)st.st_size) : -1;
                            if (fd >= 0) close(fd);
                            fprintf(ms, "T:%ld:%s:%s:%s:z", file, vt, labels[i], rest + 1);
                            FILE *real = stdout; stdout = ms;
                            ltv_puthex(buf, rd > 0 ? (size_t)rd : 0);
                            fflush(ms); stdout = real;
                            free(buf);
                            ok = 1;
                        }
                    }
                }
            }
        }
        if (!ok) fprintf(ms, "?:%s", p + strlen(cachedir));
        fclose(ms);
        list_add(out);
    }
    closedir(d);
}

static int cmpstr(const void *a, const void *b) { return strcmp(*(char * const *)a, *(char * const *)b); }

static void op_cache(void) {
    request_st * const r = &rq;
    wipe_dir(docdir); wipe_dir(cachedir);
    stat_cache_free();
    nvers = 0; collision = 0;
    memset(&P->defaults, 0, sizeof(P->defaults));
    array *mimes = array_init(1);
    array_insert_value(mimes, CONST_STR_LEN("text/"));
    buffer *cdir = buffer_init();
    buffer_copy_string(cdir, cachedir);
    P->defaults.mimetypes = mimes;
    P->defaults.allowed_encodings = default_encodings;
    P->defaults.min_compress_size = 0;
    P->defaults.max_compress_size = 0;
    P->defaults.compression_level = -1;
    P->defaults.cache_dir = cdir;
    int first = 1;
    long cur_pid = -1;
    for (int t = 1; t < ltv_ntok; ++t) {
        char *op = ltv_tok[t];
        if (!first) fputc(' ', stdout);
        first = 0;
        if (op[0] == 'K' && op[1] == 0) {       /* a second passes: stat cache entries are re-validated */
            tick();
            fputc('q', stdout);
        }
        else if (op[0] == 'M' && op[1] == ':') {
            tick();
            char *s = op + 2, *end;
            long file = strtol(s, &end, 10); s = end + 1;
            long v = strtol(s, &end, 10); s = end + 1;
            size_t n; unsigned char *c = ltv_unhex(s, &n);
            char fpath[4200];
            snprintf(fpath, sizeof(fpath), "%s/f%ld.txt", docdir, file);
            /* in place (same inode) */
            if (0 != write_file(fpath, c, n, 1)) { fputs("IOERR", stdout); free(c); continue; }
            struct timespec ts[2] = { { 1700000000 + v, 0 }, { 1700000000 + v, 0 } };
            utimensat(AT_FDCWD, fpath, ts, 0);
            struct stat st;
            stat(fpath, &st);
            buffer *eb = buffer_init();
            http_etag_create(eb, &st, ETAG_USE_INODE | ETAG_USE_SIZE | ETAG_USE_MTIME);
            char vt[32], et[32];
            snprintf(vt, sizeof(vt), "%ld.%zu", v, n);
            size_t el = buffer_clen(eb);
            snprintf(et, sizeof(et), "%.*s", el >= 2 ? (int)(el - 2) : 0, eb->ptr + 1);
            note_version((int)file, vt, et);
            buffer_free(eb);
            free(c);
            fputc('q', stdout);
        }
        else if (op[0] == 'R' && op[1] == ':') {
            char *s = op + 2, *end;
            long file = strtol(s, &end, 10); s = end + 1;
            char *lab = s; s = strchr(s, ':'); if (!s) { fputs("bad", stdout); continue; } *s++ = 0;
            long pid = strtol(s, &end, 10); s = end + 1;
            /* plan: c<d>o<d>w<events>r<c> */
            int cacheable = 1;
            plan.open_ok = 1; plan.w = ""; plan.ren = 'o'; plan.pid = (int)pid; plan.tmp_fd = -1; plan.opened = 0;
            if (pid != cur_pid) { stat_cache_free(); cur_pid = pid; }   /* another process: its own stat cache */
            if (s[0] == 'c') { cacheable = s[1] == '1'; s += 2; }
            if (s[0] == 'o') { plan.open_ok = s[1] == '1'; s += 2; }
            char *rpos = strrchr(s, 'r');
            if (s[0] != 'w' || !rpos) { fputs("bad", stdout); continue; }
            plan.ren = rpos[1];
            *rpos = 0;
            plan.w = s + 1;
            char fpath[4200];
            snprintf(fpath, sizeof(fpath), "%s/f%ld.txt", docdir, file);
            req_reset(r);
            r->http_method = HTTP_METHOD_GET;
            r->http_version = HTTP_VERSION_1_1;
            http_header_request_set(r, HTTP_HEADER_ACCEPT_ENCODING, CONST_STR_LEN("Accept-Encoding"), lab, (uint32_t)strlen(lab));
            if (!cacheable)
                http_header_response_set(r, HTTP_HEADER_VARY, CONST_STR_LEN("Vary"), CONST_STR_LEN("X-Other"));
            buffer_copy_string(&r->physical.path, fpath);
            buffer_copy_string(&r->uri.path, "/f.txt");
            http_response_send_file(r, &r->physical.path, NULL);
            if (r->http_status != 200 || !r->resp_body_finished) { fputc('q', stdout); continue; }
            handler_t rc;
            if (0 == setjmp(crash_jb)) {
                rc = mod_deflate_handle_response_start(r, P);
            }
            else {
                /* the process died inside the cache writer: nothing is sent; memory and
                 * descriptors of the dead process are gone (here: leaked / closed) */
                r->plugin_ctx[0] = NULL;
                stat_cache_free();
                fputc('X', stdout);
                continue;
            }
            const buffer *ce = http_header_response_get(r, HTTP_HEADER_CONTENT_ENCODING, CONST_STR_LEN("Content-Encoding"));
            if (rc != HANDLER_GO_ON) { fputc('E', stdout); }
            else if (!ce) { fputs("ID:", stdout); dump_cq(&r->write_queue); }
            else {
                const chunk *c0 = r->write_queue.first;
                int hit = !plan.opened && c0 && c0->type == FILE_CHUNK
                       && 0 == strncmp(c0->mem->ptr, cachedir, strlen(cachedir));
                printf("S:%d:", hit);
                fwrite(ce->ptr, 1, buffer_clen(ce), stdout);
                fputs(":z", stdout);
                if (dump_cq(&r->write_queue) != chunkqueue_length(&r->write_queue)) fputs(":BADQUEUE", stdout);
            }
            if (r->plugin_ctx[0]) { mod_deflate_cleanup(r, P); }
        }
        else if (op[0] == 'E' && op[1] == ':') {
            /* E:F:<file>:<vtok>:<label>  |  E:T:<file>:<vtok>:<label>:<pid> */
            char kind = op[2];
            char *s = op + 4, *end;
            long file = strtol(s, &end, 10); s = end + 1;
            char *vt = s; s = strchr(s, ':'); if (!s) { fputs("bad", stdout); continue; } *s++ = 0;
            char *lab = s; char *pidtok = NULL;
            if (kind == 'T') { s = strchr(s, ':'); if (!s) { fputs("bad", stdout); continue; } *s++ = 0; pidtok = s; }
            const char *et = etag_of((int)file, vt);
            if (et) {
                char p[8300];
                if (kind == 'T') snprintf(p, sizeof(p), "%s%s/f%ld.txt-%s-%s.%s", cachedir, docdir, file, et, lab, pidtok);
                else snprintf(p, sizeof(p), "%s%s/f%ld.txt-%s-%s", cachedir, docdir, file, et, lab);
                unlink(p);
            }
            fputc('q', stdout);
        }
        else fputs("bad", stdout);
    }
    req_reset(r);
    fputs(" |", stdout);
    nlisting = 0;
    list_cache(cachedir);
    if (nlisting) qsort(listing, (size_t)nlisting, sizeof(char *), cmpstr);
    for (int i = 0; i < nlisting; ++i) { fputc(' ', stdout); fputs(listing[i], stdout); free(listing[i]); }
    if (collision) fputs(" etag-collision", stdout);
    fputc('\n', stdout);
    stat_cache_free();
    array_free(mimes);
    buffer_free(cdir);
    P->defaults.mimetypes = NULL;
    P->defaults.cache_dir = NULL;
}

int main(void) {
    const char *td = getenv("TMPDIR");
    snprintf(scratch, sizeof(scratch), "%s/ltv-deflate-XXXXXX", (td && *td) ? td : "/tmp");
    if (!mkdtemp(scratch)) { perror("mkdtemp"); return 2; }
    atexit(cleanup_all);
    snprintf(docdir, sizeof(docdir), "%s/d", scratch);
    snprintf(cachedir, sizeof(cachedir), "%s/c", scratch);
    mkdir(docdir, 0700);
    mkdir(cachedir, 0700);
    {   /* compressed output beyond 64 KB goes to chunk-queue temporary files */
        static char tdir[4100];
        snprintf(tdir, sizeof(tdir), "%s/t", scratch);
        mkdir(tdir, 0700);
        array *tds = array_init(1);
        array_insert_value(tds, tdir, (uint32_t)strlen(tdir));
        chunkqueue_set_tempdirs_default_reset();
        chunkqueue_set_tempdirs_default(tds, 0);
    }

    int devnull = open("/dev/null", O_WRONLY);
    errh = fdlog_init(NULL, devnull, FDLOG_FD);
    log_set_global_errh(errh, 0);
    log_epoch_secs = 1700000000;
    log_monotonic_secs = 1000;
    strftime_cache_reset();

    memset(&srv0, 0, sizeof(srv0));
    memset(&con0, 0, sizeof(con0));
    srv0.errh = errh;
    con0.srv = &srv0;
    request_st * const r = &rq;
    memset(r, 0, sizeof(*r));
    r->con = &con0;
    r->tmp_buf = buffer_init();
    r->conf.errh = errh;
    r->conf.follow_symlink = 1;
    r->conf.etag_flags = ETAG_USE_INODE | ETAG_USE_SIZE | ETAG_USE_MTIME;
    mimes_by_ext = array_init(2);
    array_set_key_value(mimes_by_ext, CONST_STR_LEN(".txt"), CONST_STR_LEN("text/plain"));
    r->conf.mimetypes = mimes_by_ext;
    r->plugin_ctx = calloc(4, sizeof(void *));
    chunkqueue_init(&r->write_queue);
    chunkqueue_init(&r->reqbody_queue);
    chunkqueue_init(&r->read_queue);

    P = mod_deflate_init();
    P->id = 0;
    P->nconfig = 0;

    while (ltv_next()) {
        if (ltv_ntok < 1) { puts("bad-op"); continue; }
        const char *op = ltv_tok[0];
        if (0 == strcmp(op, "ae") && ltv_ntok == 3) op_ae();
        else if (0 == strcmp(op, "sc") && ltv_ntok == 2) op_sc();
        else if (0 == strcmp(op, "rs") && ltv_ntok == 18) op_rs();
        else if (0 == strcmp(op, "name") && ltv_ntok == 6) op_name();
        else if (0 == strcmp(op, "zs") && ltv_ntok == 7) op_zs();
        else if (0 == strcmp(op, "cache") && ltv_ntok >= 1) op_cache();
        else puts("bad-op");
        fflush(stdout);
    }
    return 0;
}
