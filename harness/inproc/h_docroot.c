/* correspondence harness for C02 (extension): URL path / host -> filesystem path
 * ops (all byte strings hex, "-" = empty, "~" = absent):
 *   hostpol <strict> <host>                                  http_request_host_policy (no normalize)
 *   phys <lc> <docroot> <uripath>                            rel_path + buffer_copy_path_len2 as in http_response_prepare
 *   alias <lc> <basedir> <path> <k> <v> ...                  mod_alias_remap
 *   svhost <strict> <isdir-mode> <sroot> <defhost> <droot> <authority>   mod_simple_vhost_docroot
 *   evhost <strict> <isdir-mode> <pattern> <authority>       mod_evhost_parse_pattern + mod_evhost_uri_handler
 *   evpath <pattern> <authority>                             mod_evhost_build_doc_root_path
 *   userdir <lc> <letterhomes> <basepath> <path> <uripath>   mod_userdir_docroot_handler (basepath variant)
 *   xsf <lc> <value> <xdocroot> ...                          http_response_xsendfile
 *   xsf2 <lc> <value> <xdocroot> ...                         http_response_xsendfile2
 *   xsfs / xsfs2 <lc> <status> <value> <xdocroot> ...        the same with the backend's own response status preset
 *   davdst <lc> <scheme> <authority> <docroot> <rel_path> <path> <destination>   mod_webdav_copymove_b
 *   symwalk <name> <path:kind> ...                           stat_cache_path_contains_symlink (real filesystem)
 *   idxfile <docroot> <phys> <k> <names...> <m> <existing...> mod_indexfile_tryfiles (real filesystem; the list of
 *                                                            existing candidates is for the model only)
 * The filesystem is replaced by deterministic stand-ins (macros below) except for symwalk. */
#include "first.h"
#include "harness_common.h"
#include <sys/types.h>
#include <sys/stat.h>
#include <errno.h>
#include <fcntl.h>
#include <unistd.h>
#include <dirent.h>
#include "base.h"
#include "array.h"
#include "buffer.h"
#include "burl.h"
#include "chunk.h"
#include "fdlog.h"
#include "http_header.h"
#include "http_kv.h"
#include "log.h"
#include "plugin.h"
#include "request.h"
#include "response.h"
#include "stat_cache.h"

/* ---- filesystem stand-ins ------------------------------------------------ */
static int ltv_isdir_mode;
static int ltv_isdir_hit;      /* the stand-in answered "is a directory" at least once */
static int ltv_isdir(const buffer *b) {
    const uint32_t n = buffer_clen(b);
    int rc;
    switch (ltv_isdir_mode) {
      case 0: rc = 0; break;
      case 1: rc = 1; break;
      case 2: rc = (n % 2) == 0; break;
      default: rc = (n % 3) == 0; break;
    }
    if (rc) ltv_isdir_hit = 1;
    return rc;
}
static buffer ltv_opened;
static int ltv_open_called;
static stat_cache_entry *ltv_sce_open(const buffer *name, int symlinks) {
    (void)symlinks;
    ltv_open_called = 1;
    buffer_copy_buffer(&ltv_opened, name);
    errno = ENOENT;
    return NULL;
}
static int ltv_lstat_called;
static int ltv_lstat(const char *path, struct stat *st) {
    (void)path; (void)st;
    ltv_lstat_called = 1;
    errno = ENOENT;
    return -1;
}

#define stat_cache_path_isdir ltv_isdir

#define plugin_config alias_plugin_config
#define plugin_data alias_plugin_data
#include "mod_alias.c"
#undef plugin_config
#undef plugin_data

#define plugin_config svhost_plugin_config
#define plugin_data svhost_plugin_data
#include "mod_simple_vhost.c"
#undef plugin_config
#undef plugin_data

#define plugin_config evhost_plugin_config
#define plugin_data evhost_plugin_data
#include "mod_evhost.c"
#undef plugin_config
#undef plugin_data

#define plugin_config userdir_plugin_config
#define plugin_data userdir_plugin_data
#include "mod_userdir.c"
#undef plugin_config
#undef plugin_data

#undef stat_cache_path_isdir

#define plugin_config indexfile_plugin_config
#define plugin_data indexfile_plugin_data
#include "mod_indexfile.c"
#undef plugin_config
#undef plugin_data

#define stat_cache_get_entry_open ltv_sce_open
#include "http-header-glue.c"
#undef stat_cache_get_entry_open

#define lstat(p, st) ltv_lstat((p), (st))
#define plugin_config webdav_plugin_config
#define plugin_data webdav_plugin_data
#include "mod_webdav.c"
#undef plugin_config
#undef plugin_data
#undef lstat

/* ---- helpers ------------------------------------------------------------- */
static void set_buf(buffer *b, const char *tok) {
    size_t n; unsigned char *in = ltv_unhex(tok, &n);
    buffer_copy_string_len(b, (char *)in, n);
    free(in);
}
/* "~" -> NULL, else fill b and return it */
static buffer *opt_buf(buffer *b, const char *tok) {
    if (tok[0] == '~' && tok[1] == 0) return NULL;
    set_buf(b, tok);
    return b;
}
static void put_buf(const buffer *b) { ltv_puthex(b->ptr, buffer_clen(b)); }

int main(void) {
    static request_st rq;
    static connection con;
    static server srv;
    request_st * const r = &rq;
    r->con = &con;
    con.srv = &srv;
    r->tmp_buf = buffer_init();
    buffer_string_prepare_copy(r->tmp_buf, 255); /* (the server's tmp_buf is allocated at startup) */
    int devnull = open("/dev/null", O_WRONLY);
    r->conf.errh = fdlog_init(NULL, devnull, FDLOG_FD);
    srv.errh = r->conf.errh;
    log_set_global_errh(r->conf.errh, 0);
    stat_cache_init(NULL, r->conf.errh);
    buffer *b1 = buffer_init(), *b2 = buffer_init(), *b3 = buffer_init(), *b4 = buffer_init();
    array *arr = array_init(4);

    while (ltv_next()) {
        if (ltv_ntok < 1) { puts("bad-op"); continue; }
        const char *op = ltv_tok[0];
        r->http_status = 0;
        r->handler_module = NULL;
        r->resp_htags = 0;
        array_reset_data_strings(&r->resp_headers);
        r->rqst_htags = 0;
        array_reset_data_strings(&r->rqst_headers);
        array_reset_data_strings(arr);

        if (0 == strcmp(op, "hostpol") && ltv_ntok == 3) {
            set_buf(b1, ltv_tok[2]);
            int rc = http_request_host_policy(b1, atoi(ltv_tok[1]) ? HTTP_PARSEOPT_HOST_STRICT : 0, 80);
            if (rc) puts("rej");
            else { fputs("ok ", stdout); put_buf(b1); fputc('\n', stdout); }
        }
        else if (0 == strcmp(op, "phys") && ltv_ntok == 4) {
            const int lc = atoi(ltv_tok[1]);
            set_buf(&r->physical.doc_root, ltv_tok[2]);
            set_buf(&r->uri.path, ltv_tok[3]);
            /* the three statements of http_response_prepare() */
            !lc
              ? buffer_copy_buffer(&r->physical.rel_path, &r->uri.path)
              : buffer_copy_string_len_lc(&r->physical.rel_path, BUF_PTR_LEN(&r->uri.path));
            buffer_copy_buffer(&r->physical.basedir, &r->physical.doc_root);
            buffer_copy_path_len2(&r->physical.path,
                                  BUF_PTR_LEN(&r->physical.doc_root),
                                  BUF_PTR_LEN(&r->physical.rel_path));
            put_buf(&r->physical.path); fputc('\n', stdout);
        }
        else if (0 == strcmp(op, "alias") && ltv_ntok >= 4 && (ltv_ntok % 2) == 0) {
            r->conf.force_lowercase_filenames = atoi(ltv_tok[1]);
            set_buf(&r->physical.basedir, ltv_tok[2]);
            set_buf(&r->physical.path, ltv_tok[3]);
            for (int i = 4; i + 1 < ltv_ntok; i += 2) {
                set_buf(b1, ltv_tok[i]); set_buf(b2, ltv_tok[i+1]);
                array_set_key_value(arr, BUF_PTR_LEN(b1), BUF_PTR_LEN(b2));
            }
            handler_t rc = mod_alias_remap(r, arr);
            if (rc == HANDLER_FINISHED) printf("%d\n", r->http_status);
            else {
                fputs("go ", stdout); put_buf(&r->physical.path);
                fputc(' ', stdout); put_buf(&r->physical.basedir); fputc('\n', stdout);
            }
        }
        else if (0 == strcmp(op, "svhost") && ltv_ntok == 7) {
            static svhost_plugin_data p;
            r->conf.http_parseopts = atoi(ltv_tok[1]) ? HTTP_PARSEOPT_HOST_STRICT : 0;
            ltv_isdir_mode = atoi(ltv_tok[2]);
            p.defaults.server_root = opt_buf(b1, ltv_tok[3]);
            p.defaults.default_host = opt_buf(b2, ltv_tok[4]);
            p.defaults.document_root = opt_buf(b3, ltv_tok[5]);
            p.nconfig = 0;
            buffer_clear(&p.last_root);
            set_buf(&r->uri.authority, ltv_tok[6]);
            buffer_clear(&r->physical.doc_root);
            r->server_name = NULL;
            mod_simple_vhost_docroot(r, &p);
            if (buffer_is_blank(&r->physical.doc_root)) puts("none");
            else {
                fputs("ok ", stdout); put_buf(&r->physical.doc_root); fputc(' ', stdout);
                if (r->server_name == &r->server_name_buf) put_buf(&r->server_name_buf);
                else fputc('~', stdout);
                fputc('\n', stdout);
            }
        }
        else if ((0 == strcmp(op, "evhost") && ltv_ntok == 5) || (0 == strcmp(op, "evpath") && ltv_ntok == 3)) {
            static evhost_plugin_data p;
            const int direct = (op[2] == 'p');
            if (!direct) {
                r->conf.http_parseopts = atoi(ltv_tok[1]) ? HTTP_PARSEOPT_HOST_STRICT : 0;
                ltv_isdir_mode = atoi(ltv_tok[2]);
            }
            set_buf(b1, ltv_tok[direct ? 1 : 3]);
            set_buf(&r->uri.authority, ltv_tok[direct ? 2 : 4]);
            buffer *pieces = mod_evhost_parse_pattern(b1->ptr);
            if (NULL == pieces) { puts("badpat"); continue; }
            if (direct) {
                mod_evhost_build_doc_root_path(r->tmp_buf, &p.split_vals, &r->uri.authority, pieces);
                put_buf(r->tmp_buf); fputc('\n', stdout);
            }
            else {
                p.defaults.path_pieces = pieces;
                p.nconfig = 0;
                buffer_clear(&r->physical.doc_root);
                ltv_isdir_hit = 0;
                mod_evhost_uri_handler(r, &p);
                if (!ltv_isdir_hit) puts("none");
                else { fputs("ok ", stdout); put_buf(&r->physical.doc_root); fputc('\n', stdout); }
            }
            mod_evhost_free_path_pieces(pieces);
        }
        else if (0 == strcmp(op, "userdir") && ltv_ntok == 6) {
            static userdir_plugin_data p;
            const int lc = atoi(ltv_tok[1]);
            r->conf.force_lowercase_filenames = lc;
            p.defaults.letterhomes = (unsigned short)atoi(ltv_tok[2]);
            p.defaults.active = 1;
            set_buf(b1, ltv_tok[3]); p.defaults.basepath = b1;
            set_buf(b2, ltv_tok[4]); p.defaults.path = b2;
            p.nconfig = 0;
            set_buf(&r->uri.path, ltv_tok[5]);
            buffer_clear(&r->uri.query);
            !lc
              ? buffer_copy_buffer(&r->physical.rel_path, &r->uri.path)
              : buffer_copy_string_len_lc(&r->physical.rel_path, BUF_PTR_LEN(&r->uri.path));
            buffer_copy_string_len(&r->physical.path, CONST_STR_LEN("/unchanged"));
            buffer_copy_string_len(&r->physical.basedir, CONST_STR_LEN("/unchanged"));
            handler_t rc = mod_userdir_docroot_handler(r, &p);
            if (rc == HANDLER_FINISHED) printf("%d\n", r->http_status);
            else if (buffer_eq_slen(&r->physical.path, CONST_STR_LEN("/unchanged"))) puts("pass");
            else {
                fputs("go ", stdout); put_buf(&r->physical.path);
                fputc(' ', stdout); put_buf(&r->physical.basedir); fputc('\n', stdout);
            }
        }
        else if ((0 == strcmp(op, "xsf") || 0 == strcmp(op, "xsf2")) && ltv_ntok >= 3) {
            r->conf.force_lowercase_filenames = atoi(ltv_tok[1]);
            r->conf.follow_symlink = 1;
            set_buf(b1, ltv_tok[2]);
            for (int i = 3; i < ltv_ntok; ++i) {
                set_buf(b2, ltv_tok[i]);
                array_insert_value(arr, BUF_PTR_LEN(b2));
            }
            buffer_copy_string_len(&r->uri.path, CONST_STR_LEN("/x"));
            ltv_open_called = 0;
            if (op[3] == '2') http_response_xsendfile2(r, b1, ltv_ntok > 3 ? arr : NULL);
            else              http_response_xsendfile(r, b1, ltv_ntok > 3 ? arr : NULL);
            if (ltv_open_called) { fputs("send ", stdout); put_buf(&ltv_opened); fputc('\n', stdout); }
            else printf("st %d\n", r->http_status);
        }
        else if ((0 == strcmp(op, "xsfs") || 0 == strcmp(op, "xsfs2")) && ltv_ntok >= 4) {
            /* as xsf / xsf2, with the status the backend response carries when the header is processed
             * (Status: 403 / 502 / ... from the CGI): xsfs <lc> <status> <value> <xdocroot> ... */
            r->conf.force_lowercase_filenames = atoi(ltv_tok[1]);
            r->conf.follow_symlink = 1;
            r->http_status = atoi(ltv_tok[2]);
            set_buf(b1, ltv_tok[3]);
            for (int i = 4; i < ltv_ntok; ++i) {
                set_buf(b2, ltv_tok[i]);
                array_insert_value(arr, BUF_PTR_LEN(b2));
            }
            buffer_copy_string_len(&r->uri.path, CONST_STR_LEN("/x"));
            ltv_open_called = 0;
            if (op[4] == '2') http_response_xsendfile2(r, b1, ltv_ntok > 4 ? arr : NULL);
            else              http_response_xsendfile(r, b1, ltv_ntok > 4 ? arr : NULL);
            if (ltv_open_called) { fputs("send ", stdout); put_buf(&ltv_opened); fputc('\n', stdout); }
            else printf("st %d\n", r->http_status);
        }
        else if (0 == strcmp(op, "davdst") && ltv_ntok == 8) {
            static webdav_plugin_config pconf;
            static physical_st dst;
            r->conf.force_lowercase_filenames = atoi(ltv_tok[1]);
            r->http_method = HTTP_METHOD_COPY;
            set_buf(&r->uri.scheme, ltv_tok[2]);
            set_buf(&r->uri.authority, ltv_tok[3]);
            set_buf(&r->physical.doc_root, ltv_tok[4]);
            set_buf(&r->physical.rel_path, ltv_tok[5]);
            set_buf(&r->physical.path, ltv_tok[6]);
            set_buf(b1, ltv_tok[7]);
            http_header_request_set(r, HTTP_HEADER_OTHER, CONST_STR_LEN("Destination"), BUF_PTR_LEN(b1));
            ltv_lstat_called = 0;
            mod_webdav_copymove_b(r, &pconf, &dst);
            if (ltv_lstat_called && 404 == r->http_status) {
                fputs("ok ", stdout); put_buf(&dst.rel_path);
                fputc(' ', stdout); put_buf(&dst.path); fputc('\n', stdout);
            }
            else printf("st %d\n", r->http_status);
        }
        else if (0 == strcmp(op, "idxfile") && ltv_ntok >= 5) {
            set_buf(&r->physical.doc_root, ltv_tok[1]);
            set_buf(&r->physical.path, ltv_tok[2]);
            buffer_copy_string_len(&r->uri.path, CONST_STR_LEN("/"));
            const int k = atoi(ltv_tok[3]);
            if (k < 0 || 4 + k > ltv_ntok) { puts("bad-op"); continue; }
            for (int i = 0; i < k; ++i) {
                set_buf(b1, ltv_tok[4 + i]);
                array_insert_value(arr, BUF_PTR_LEN(b1));
            }
            array_reset_data_strings(&r->env);
            handler_t rc = mod_indexfile_tryfiles(r, arr);
            if (rc == HANDLER_FINISHED) printf("%d\n", r->http_status);
            else { fputs("go ", stdout); put_buf(&r->physical.path); fputc('\n', stdout); }
        }
        else if (0 == strcmp(op, "symwalk") && ltv_ntok >= 2) {
            set_buf(b1, ltv_tok[1]);
            printf("%d\n", stat_cache_path_contains_symlink(b1, r->conf.errh));
        }
        else puts("bad-op");
    }
    return 0;
}
