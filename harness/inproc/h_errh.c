/* C08 extension: error-handler bookkeeping of response.c on a real request_st.
 *   eh <eh> <eh404> <intercept> <status> <method> <version> <saved> <savedMethod> <hm> <rbl> <bodyin>
 *      <ka> <upgrade> <h2ce> <phys> <www> <other> <bodylen> <rbf> [<st>,<hm> ...]
 * without pass tokens: one call of the static http_response_has_error_handler() (which calls
 * http_response_call_error_handler() -> plugins_call_handle_request_reset(), http_response_errdoc_init());
 * with pass tokens: the do/while of http_response_handler() with the work of pass k scripted
 * (http_status := st, handler_module := hm) -- the switch is repeated here (5 lines), the two static
 * functions are the real ones.
 * output: st me ve saved sm hm rbl bodyin ka target redirect resetcalls upgrade h2ce phys www other bodylen rbf | rc-or-pass */
#include "first.h"
#include "harness_common.h"
#include "response.c"
#include "reqpool.h"
#include "http_header.h"
#include "plugins.h"

void config_patch_config(request_st * const r) { (void)r; }   /* stub: configfile.c is not linked (not reached) */

typedef struct { PLUGIN_DATA; } fake_pd;
static int fake_reset_calls;
static void *fake_init(void) { return calloc(1, sizeof(fake_pd)); }
static handler_t fake_request_reset(request_st *r, void *p_d) { (void)r; (void)p_d; ++fake_reset_calls; return HANDLER_GO_ON; }
static plugin fake_plugin;
static plugin *fake_plugin_ptrs[1];
static server srv_s;
static request_config defaults;
static buffer defaults_docroot, defaults_tag, eh_buf, eh404_buf;

static void skeleton_init(void) {
    server * const srv = &srv_s;
    memset(srv, 0, sizeof(*srv));
    srv->tmp_buf = buffer_init();
    buffer_string_prepare_append(srv->tmp_buf, 65536);
    srv->config_context = array_init(2);
    for (int i = 0; i < 2; ++i) array_insert_value(srv->config_context, "x", 1);
    plugin *p = &fake_plugin;
    memset(p, 0, sizeof(*p));
    p->version = LIGHTTPD_VERSION_ID;
    p->name = "fake0";
    p->init = fake_init;
    p->handle_request_reset = fake_request_reset;
    fake_plugin_ptrs[0] = p;
    srv->plugins.ptr = fake_plugin_ptrs;
    srv->plugins.used = 1;
    if (HANDLER_GO_ON != plugins_call_init(srv)) { fputs("plugins_call_init failed\n", stderr); exit(2); }
    memset(&defaults, 0, sizeof(defaults));
    buffer_copy_string_len(&defaults_docroot, CONST_STR_LEN("/docroot"));
    buffer_copy_string_len(&defaults_tag, CONST_STR_LEN("ltv"));
    buffer_copy_string_len(&eh_buf, CONST_STR_LEN("/eh"));
    buffer_copy_string_len(&eh404_buf, CONST_STR_LEN("/eh404"));
    defaults.document_root = &defaults_docroot;
    defaults.server_tag = &defaults_tag;
    defaults.max_request_field_size = 8192;
    defaults.http_parseopts = 9567;
    defaults.allow_http11 = 1;
    request_config_set_defaults(&defaults);
}

static void dump(const request_st *r, int tail) {
    const buffer *rs = http_header_env_get(r, CONST_STR_LEN("REDIRECT_STATUS"));
    int target = buffer_eq_slen(&r->target, CONST_STR_LEN("/orig")) ? 0
               : buffer_eq_slen(&r->target, CONST_STR_LEN("/eh")) ? 1
               : buffer_eq_slen(&r->target, CONST_STR_LEN("/eh404")) ? 2 : 9;
    int www = 0, other = 0;
    for (uint32_t i = 0; i < r->resp_headers.used; ++i) {
        const data_string *ds = (const data_string *)r->resp_headers.data[i];
        if (buffer_is_blank(&ds->value)) continue;
        if (ds->ext == HTTP_HEADER_WWW_AUTHENTICATE) www = 1; else other = 1;
    }
    const int uph = NULL != http_header_request_get(r, HTTP_HEADER_UPGRADE, CONST_STR_LEN("Upgrade"));
    printf("%d %d %d %d %d %d %lld %lld %d %d %s %d %d%d %d %d %d%d %d %lld %d | %d\n",
           r->http_status, (int)r->http_method, (int)r->http_version, r->error_handler_saved_status,
           (r->error_handler_saved_status > 0 && r->error_handler_saved_status < 65535) ? (int)r->error_handler_saved_method : -9, /*(valid only then)*/
           r->handler_module != NULL, (long long)r->reqbody_length, (long long)r->reqbody_queue.bytes_in,
           (int)r->keep_alive, target, rs ? rs->ptr : "U", fake_reset_calls,
           0 != light_btst(r->rqst_htags, HTTP_HEADER_UPGRADE), uph, (int)r->h2_connect_ext,
           !buffer_is_blank(&r->physical.path),
           www, 0 != light_btst(r->resp_htags, HTTP_HEADER_WWW_AUTHENTICATE),
           other,
           (long long)chunkqueue_length(&r->write_queue), (int)r->resp_body_finished, tail);
}

int main(void) {
    skeleton_init();
    while (ltv_next()) {
        if (ltv_ntok < 20 || 0 != strcmp(ltv_tok[0], "eh")) { puts("bad-op"); continue; }
        connection * const c = ck_calloc(1, sizeof(*c));
        c->srv = &srv_s;
        c->plugin_slots = srv_s.plugin_slots;
        c->config_data_base = srv_s.config_data_base;
        c->proto_default_port = 80;
        c->fd = -1;
        request_st * const r = &c->request;
        request_init_data(r, c, &srv_s);
        c->write_queue = &r->write_queue;
        c->read_queue = &r->read_queue;
        request_reset(r);
        fake_reset_calls = 0;
        char **t = ltv_tok + 1;
        r->conf.error_handler = atoi(t[0]) ? &eh_buf : NULL;
        r->conf.error_handler_404 = atoi(t[1]) ? &eh404_buf : NULL;
        r->conf.error_intercept = atoi(t[2]) ? 1 : 0;
        r->http_status = atoi(t[3]);
        r->http_method = (http_method_t)atoi(t[4]);
        r->http_version = (http_version_t)atoi(t[5]);
        r->error_handler_saved_status = atoi(t[6]);
        r->error_handler_saved_method = (http_method_t)atoi(t[7]);
        r->handler_module = atoi(t[8]) ? &fake_plugin : NULL;
        r->reqbody_length = atoll(t[9]);
        r->reqbody_queue.bytes_in = atoll(t[10]);
        r->reqbody_queue.bytes_out = r->reqbody_queue.bytes_in; /*(nothing queued: chunkqueue_length 0)*/
        r->keep_alive = (int8_t)atoi(t[11]);
        if (atoi(t[12])) http_header_request_set(r, HTTP_HEADER_UPGRADE, CONST_STR_LEN("Upgrade"), CONST_STR_LEN("x"));
        r->h2_connect_ext = atoi(t[13]) ? 1 : 0;
        buffer_copy_string_len(&r->target, CONST_STR_LEN("/orig"));
        if (atoi(t[14])) buffer_copy_string_len(&r->physical.path, CONST_STR_LEN("/docroot/p"));
        if (atoi(t[15])) http_header_response_set(r, HTTP_HEADER_WWW_AUTHENTICATE, CONST_STR_LEN("WWW-Authenticate"), CONST_STR_LEN("Basic"));
        if (atoi(t[16])) http_header_response_set(r, HTTP_HEADER_OTHER, CONST_STR_LEN("X-Other"), CONST_STR_LEN("1"));
        for (int n = atoi(t[17]); n > 0; --n) chunkqueue_append_mem(&r->write_queue, CONST_STR_LEN("b"));
        r->resp_body_finished = atoi(t[18]) ? 1 : 0;
        if (ltv_ntok == 20) {
            int rc = http_response_has_error_handler(r);
            dump(r, rc);
        }
        else {
            int k = 0, done = 0;
            for (int i = 20; i < ltv_ntok && !done; ++i, ++k) {
                int st = 0, hm = 0;
                sscanf(ltv_tok[i], "%d,%d", &st, &hm);
                r->http_status = st;
                r->handler_module = hm ? &fake_plugin : NULL;
                /* http_response_handler(): case HANDLER_GO_ON / HANDLER_FINISHED */
                if (r->http_status == 0) r->http_status = 200;
                if ((r->http_status < 400 && 0 == r->error_handler_saved_status)
                    || !http_response_has_error_handler(r))
                    done = 1;
            }
            if (done) dump(r, k - 1); else puts("fuel");
        }
        r->handler_module = NULL;
        request_free_data(r);
        free(c);
    }
    return 0;
}
