/* correspondence harness for the gateway backend pool (C11).
 *
 * The real src/gw_backend.c is #included, so every static is reachable, and it
 * is driven through its real entry points, in the order the server calls them:
 *   gw_set_defaults_backend()   builds exts/hosts/procs from a config array
 *   gw_check_extension()        request arrives (host choice, gw_host_assign)
 *   gw_handle_subrequest()      http_response_handler() loop (COMEBACK = retry)
 *   fdn->handler (gw_handle_fdevent) + job queue    backend socket events
 *   gw_handle_trigger()         1 Hz trigger: timeouts, re-enable
 *   gw_handle_request_reset()   request done / client abort
 *   fdevent_poll()              runs fdevent_sched_run(): deferred close()
 * Only the kernel and the response reader are scripted (macros below):
 *   connect(), socket creation, SO_ERROR query, waitpid/kill, the
 *   network_backend_write callback, hctx->create_env, http_response_read().
 * Sockets are real (unconnected) descriptors, so a leaked fd is a real leak.
 *
 * one case per line:
 *   gw <balance 0..3> <flags> <nslots> <hosts> <op> <op> ...
 *   flags bit 0 = worker process of server.max-worker > 0; bit 1 = hosts written as an
 *           anonymous list (( ... ),( ... )): no labels, so every statistics key is the same
 *   hosts = host specs joined by '/':  nprocs.disable.ctmo.rtmo.wtmo.kind
 *           kind r = remote tcp, u = remote unix socket, l = local (bin-path,
 *           procs is_local with a pid; the children never exit here)
 *   ops:  a<slot>.<key>[.<script>]    request arrives in slot (hash key <key>)
 *         e<slot>.<mask>[.<script>]   fd event 1=IN 2=OUT 4=HUP 8=RDHUP 16=ERR
 *         s<slot>[.<script>]          spurious wake-up of the request
 *         c<slot>                     client abort (connection reset)
 *         t<dt>[.<script>]            clock += dt, then the trigger
 *   script = groups joined by ',':  c=<connect> k=<socket> s=<so_error>
 *            w=<write> r=<read> v=<create_env>, one letter per call; on arrivals also u=c (HTTP/2
 *            extended CONNECT: refused 405 by gw_upgrade_policy() after host choice, result AR) or
 *            u=h (HTTP/1.1 Upgrade header: stripped, the request goes on):
 *     connect k ok | p EINPROGRESS | i EINTR | a EAGAIN | r ECONNREFUSED | n ENOENT
 *     socket  y ok | n EMFILE          so_error y 0 | r ECONNREFUSED | t ETIMEDOUT
 *     write   a all | o one byte | n nothing | e EPIPE
 *     read    g nothing (GO_ON) | d headers (status 200) + data (GO_ON) | f EOF (FINISHED) | x error
 *             D like d, and the response head has been sent on to the client (streaming)
 *             l like d, and the backend announced more body bytes than it has sent
 *     env     y ok | E 400+HANDLER_ERROR | F 400+HANDLER_FINISHED
 *     exhausted: connect p, socket y, so_error y, write a, read f, env y
 * results: A<host>|A- (arrival choice), D<h>.<p> (connect() dialled), <slot>=wait, <slot>=fin<status>[s][t][h]
 *   (s response begun, t truncated, h ended hostless: gw_reconnect() found no host), E<mask>, T, W, C
 * output: per op  <results>#<state dump>, ops joined by " | ", then the final
 *   leak check " | end:<open fds>,<cur_fds>".
 */
#include "first.h"
#include <sys/types.h>
#include <sys/stat.h>
#include <errno.h>
#include <stdarg.h>
#include <fcntl.h>
#include <unistd.h>
#include "sys-socket.h"
#include "sys-wait.h"
#include "harness_common.h"
#include "base.h"
#include "array.h"
#include "buffer.h"
#include "chunk.h"
#include "fdevent.h"
#include "fdevent_impl.h"
#include "fdlog.h"
#include "log.h"
#include "plugin.h"
#include "plugin_config.h"
#include "request.h"
#include "response.h"
#include "sock_addr.h"
#include "gw_backend.h"

/* ---- scripted environment ------------------------------------------------ */
static const char *q_conn, *q_sock, *q_stat, *q_wr, *q_rd, *q_env, *q_upg;

static int q_pop(const char **q, int dflt) {
    if (NULL == *q || 0 == **q) return dflt;
    return *(*q)++;
}

static char res[65536];
static size_t reslen;
static void res_add(const char *fmt, ...) {
    va_list ap;
    va_start(ap, fmt);
    int n = vsnprintf(res + reslen, sizeof(res) - reslen, fmt, ap);
    va_end(ap);
    if (n > 0 && (size_t)n < sizeof(res) - reslen) reslen += (size_t)n;
}

#define LTV_MAXFD 65536
static int fds_made[LTV_MAXFD];
static int fds_n;

static gw_exts *cur_exts; /* exts_resp of the current case */

static int ltv_socket_nb(int domain, int type, int protocol) {
    if ('n' == q_pop(&q_sock, 'y')) { errno = EMFILE; return -1; }
    int fd = fdevent_socket_nb_cloexec(domain, type, protocol);
    if (fd >= 0 && fds_n < LTV_MAXFD) fds_made[fds_n++] = fd;
    return fd;
}

static int cur_slot = -1;      /* request being run (run_con) */
static int ndial[16];          /* connect() calls made for the request in each slot */

static int ltv_connect(int fd, const struct sockaddr *sa, socklen_t len) {
    UNUSED(fd); UNUSED(len);
    if (cur_slot >= 0 && cur_slot < 16) ++ndial[cur_slot];
    /* which backend is being dialled? (identify by the proc's own sockaddr) */
    int hi = -1, pi = -1;
    if (cur_exts && cur_exts->used) {
        gw_extension *ex = cur_exts->exts;
        for (uint32_t h = 0; h < ex->used && hi < 0; ++h) {
            int k = 0;
            for (gw_proc *pr = ex->hosts[h]->first; pr; pr = pr->next, ++k)
                if ((const struct sockaddr *)pr->saddr == sa) { hi = (int)h; pi = k; break; }
        }
    }
    res_add("D%d.%d,", hi, pi);
    switch (q_pop(&q_conn, 'p')) {
      case 'k': return 0;
      case 'i': errno = EINTR; return -1;
      case 'a': errno = EAGAIN; return -1;
      case 'r': errno = ECONNREFUSED; return -1;
      case 'n': errno = ENOENT; return -1;
      default:  errno = EINPROGRESS; return -1;
    }
}

static int ltv_connect_status(int fd) {
    UNUSED(fd);
    switch (q_pop(&q_stat, 'y')) {
      case 'r': return ECONNREFUSED;
      case 't': return ETIMEDOUT;
      default:  return 0;
    }
}

static pid_t ltv_waitpid(pid_t pid, int *status, int nb) {
    UNUSED(pid); UNUSED(nb);
    if (status) *status = 0;
    return 0; /* child still running */
}

static int ltv_kill(pid_t pid, int sig) { UNUSED(pid); UNUSED(sig); return 0; }

static handler_t ltv_http_response_read(request_st *r, http_response_opts *opts, buffer *b, fdnode *fdn) {
    UNUSED(opts); UNUSED(b); UNUSED(fdn);
    switch (q_pop(&q_rd, 'f')) {
      case 'g': return HANDLER_GO_ON;
      case 'D': /* ... and the response head has gone out to the client (streaming) */
        r->resp_header_len = 1;
        goto headers;
      case 'l': /* ... and the backend announced more body bytes than it has sent so far */
        r->resp_body_scratchpad = 1;
        __attribute_fallthrough__
      case 'd': /* response headers complete (status line parsed), some body data */
      headers:
        if (!r->resp_body_started) r->http_status = 200;
        r->resp_body_started = 1; r->write_queue.bytes_in += 1; return HANDLER_GO_ON;
      case 'x': return HANDLER_ERROR;
      default:  return HANDLER_FINISHED;
    }
}

static int ltv_backend_write(int fd, chunkqueue *cq, off_t max_bytes, log_error_st *errh) {
    UNUSED(fd); UNUSED(max_bytes); UNUSED(errh);
    switch (q_pop(&q_wr, 'a')) {
      case 'e': errno = EPIPE; return -1;
      case 'n': return 0;
      case 'o': chunkqueue_mark_written(cq, 1); return 0;
      default:  chunkqueue_mark_written(cq, chunkqueue_length(cq)); return 0;
    }
}

#define connect                   ltv_connect
#define fdevent_connect_status    ltv_connect_status
#define fdevent_waitpid           ltv_waitpid
#define fdevent_kill              ltv_kill
#define http_response_read        ltv_http_response_read
#define fdevent_socket_nb_cloexec ltv_socket_nb_hook
static int ltv_socket_nb_hook(int domain, int type, int protocol);
#include "gw_backend.c"
#undef connect
#undef fdevent_connect_status
#undef fdevent_waitpid
#undef fdevent_kill
#undef http_response_read
#undef fdevent_socket_nb_cloexec
static int ltv_socket_nb_hook(int domain, int type, int protocol) {
    return ltv_socket_nb(domain, type, protocol);
}

static handler_t ltv_create_env(gw_handler_ctx *hctx) {
    switch (q_pop(&q_env, 'y')) {
      case 'E': hctx->r->http_status = 400; return HANDLER_ERROR;
      case 'F': hctx->r->http_status = 400; return HANDLER_FINISHED;
      default: break;
    }
    chunkqueue_append_mem(&hctx->wb, CONST_STR_LEN("ABCD"));
    hctx->wb_reqlen = 4;
    return HANDLER_GO_ON;
}

static handler_t ltv_reqbody_read(request_st *r) { UNUSED(r); return HANDLER_GO_ON; }

/* fdevents backend without a kernel: interest is only recorded */
static int ltv_ev_set(struct fdevents *ev, fdnode *fdn, int events) {
    UNUSED(ev); UNUSED(events); fdn->fde_ndx = fdn->fd; return 0;
}
static int ltv_ev_del(struct fdevents *ev, fdnode *fdn) { UNUSED(ev); UNUSED(fdn); return 0; }
static int ltv_ev_poll(struct fdevents *ev, int timeout_ms) { UNUSED(ev); UNUSED(timeout_ms); return 0; }

/* ---- world ---------------------------------------------------------------- */
#define MAXSLOT 16
#define T0 1000
static server srv;
static fdevents evs;
static plugin plg;
static gw_plugin_data pd;
static config_plugin_value_t cvl[4];
static request_st rq[MAXSLOT];
static connection cons[MAXSLOT];
static int active[MAXSLOT];
static void *pctx[MAXSLOT][1];
static int nslots;
static gw_plugin_config *gwconf;
static connection *sentinel;

static void script_set(char *s) {
    q_conn = q_sock = q_stat = q_wr = q_rd = q_env = q_upg = NULL;
    if (NULL == s) return;
    char *save = NULL;
    for (char *g = strtok_r(s, ",", &save); g; g = strtok_r(NULL, ",", &save)) {
        if (g[0] == 0 || g[1] != '=') continue;
        switch (g[0]) {
          case 'c': q_conn = g + 2; break;
          case 'k': q_sock = g + 2; break;
          case 's': q_stat = g + 2; break;
          case 'w': q_wr   = g + 2; break;
          case 'r': q_rd   = g + 2; break;
          case 'v': q_env  = g + 2; break;
          case 'u': q_upg  = g + 2; break;
          default: break;
        }
    }
}

static int anon_hosts; /* hosts written as an anonymous list (( ... ),( ... )): no labels */

static array *mk_config(int nh, char **spec) {
    /* xxx.server = ( "/" => ( "h0" => ( "host" => ..., ... ), "h1" => ... ) ) */
    array *a = array_init(2);
    data_array *da_ext = array_data_array_init();
    buffer_copy_string_len(&da_ext->key, CONST_STR_LEN("/"));
    for (int i = 0; i < nh; ++i) {
        int np, dis, ct, rt, wt; char kind;
        if (6 != sscanf(spec[i], "%d.%d.%d.%d.%d.%c", &np, &dis, &ct, &rt, &wt, &kind)) return NULL;
        data_array *dh = array_data_array_init();
        char b[64]; int n;
        n = snprintf(b, sizeof(b), "h%d", i);
        if (!anon_hosts) buffer_copy_string_len(&dh->key, b, (size_t)n);
        /* else: key left unset, as configparser does for list elements without "label" => */
        array *v = &dh->value;
        if (kind == 'u') {
            n = snprintf(b, sizeof(b), "/nonexistent/ltv-gw-%d.sock", i);
            array_set_key_value(v, CONST_STR_LEN("socket"), b, (uint32_t)n);
        } else {
            n = snprintf(b, sizeof(b), "127.0.0.%d", i + 1);
            array_set_key_value(v, CONST_STR_LEN("host"), b, (uint32_t)n);
            n = snprintf(b, sizeof(b), "%d", 9000 + 37 * i); /* (spread: host hashes must differ) */
            array_set_key_value(v, CONST_STR_LEN("port"), b, (uint32_t)n);
        }
        array_set_key_value(v, CONST_STR_LEN("check-local"), CONST_STR_LEN("disable"));
        n = snprintf(b, sizeof(b), "%d", dis);
        array_set_key_value(v, CONST_STR_LEN("disable-time"), b, (uint32_t)n);
        n = snprintf(b, sizeof(b), "%d", ct);
        array_set_key_value(v, CONST_STR_LEN("connect-timeout"), b, (uint32_t)n);
        n = snprintf(b, sizeof(b), "%d", rt);
        array_set_key_value(v, CONST_STR_LEN("read-timeout"), b, (uint32_t)n);
        n = snprintf(b, sizeof(b), "%d", wt);
        array_set_key_value(v, CONST_STR_LEN("write-timeout"), b, (uint32_t)n);
        array_insert_unique(&da_ext->value, (data_unset *)dh);
    }
    array_insert_unique(a, (data_unset *)da_ext);
    return a;
}

/* extra procs / local procs: what the spawning loop of gw_set_defaults_backend
 * does for bin-path hosts, minus fork/exec */
static buffer binpath_buf;
static void host_shape(gw_host *host, int np, char kind, int hidx) {
    for (int k = 1; k < np; ++k) {
        gw_proc *proc = gw_proc_init(host);
        if (0 != gw_proc_sockaddr_init(host, proc, srv.errh)) { gw_proc_free(proc); return; }
        proc->next = host->first;
        if (host->first) host->first->prev = proc;
        host->first = proc;
        ++host->num_procs;
        gw_proc_set_state(host, proc, PROC_STATE_RUNNING);
    }
    host->min_procs = host->max_procs = (unsigned short)np;
    if (kind == 'l') {
        host->bin_path = &binpath_buf;
        int k = 0;
        for (gw_proc *proc = host->first; proc; proc = proc->next, ++k) {
            proc->is_local = 1;
            proc->pid = 5000 + 10 * hidx + k;
        }
    }
}

static const char pstc[] = "ROWDK";

static void dump(void) {
    gw_extension *ex = cur_exts->exts;
    char key[64];
    for (uint32_t h = 0; h < ex->used; ++h) {
        gw_host *host = ex->hosts[h];
        /* the figures mod_status prints: looked up by name, the name built from the config label */
        int n = snprintf(key, sizeof(key), "gw.backend.%.*s.load", (int)buffer_clen(host->id),
                         host->id->ptr ? host->id->ptr : "");
        res_add("H%d,%d,%u,Q", (int)host->load, *array_get_int_ptr(&plugin_stats, key, (uint32_t)n),
                host->active_procs);
        if (!host->hctxs) res_add("-");
        for (gw_handler_ctx *c = host->hctxs; c; c = c->next)
            res_add("%d%s", (int)(c->r - rq), c->next ? "-" : "");
        for (gw_proc *pr = host->first; pr; pr = pr->next) {
            n = snprintf(key, sizeof(key), "gw.backend.%.*s.%u.load", (int)buffer_clen(host->id),
                         host->id->ptr ? host->id->ptr : "", pr->id);
            res_add(",P%c%u,%d,%lld", pstc[pr->state], pr->load,
                    *array_get_int_ptr(&plugin_stats, key, (uint32_t)n),
                    (long long)pr->disabled_until);
        }
        res_add(";");
    }
    for (int s = 0; s < nslots; ++s) {
        gw_handler_ctx *c = active[s] ? rq[s].plugin_ctx[0] : NULL;
        if (!c) { res_add("S%s;", active[s] ? "!" : "-"); continue; }
        int hi = -1, pi = -1;
        for (uint32_t h = 0; h < ex->used; ++h) if (ex->hosts[h] == c->host) hi = (int)h;
        if (c->host && c->proc) {
            int k = 0;
            for (gw_proc *pr = c->host->first; pr; pr = pr->next, ++k) if (pr == c->proc) pi = k;
        }
        int evn = c->fdn ? c->fdn->events : 0;
        res_add("S%d.%d.%d.%d.%d.%d.%d.%lld.%lld.%lld.%lld.%d.%d;", hi, pi, (int)c->state, c->reconnects,
                c->fd >= 0, (evn & FDEVENT_IN ? 1 : 0) | (evn & FDEVENT_OUT ? 2 : 0)
                          | (evn & FDEVENT_RDHUP ? 8 : 0),
                (int)rq[s].resp_body_started, (long long)chunkqueue_length(&c->wb),
                (long long)c->wb.bytes_out, (long long)c->read_ts, (long long)c->write_ts, ndial[s],
                (rq[s].resp_header_len ? 1 : 0) | (rq[s].resp_body_scratchpad > 0 ? 2 : 0));
    }
    res_add("G%d,F%d,L%d,N%d,T%lld",
            *array_get_int_ptr(&plugin_stats, CONST_STR_LEN("gw.active-requests")),
            srv.cur_fds, ex->last_used_ndx, ex->note_is_sent, (long long)log_monotonic_secs);
}

static void slot_init(int s, int key) {
    request_st * const r = &rq[s];
    connection * const con = &cons[s];
    buffer *tb = r->tmp_buf, *ab = (buffer *)r->dst_addr_buf;
    buffer path = r->uri.path, auth = r->uri.authority;
    memset(r, 0, sizeof(*r));
    memset(con, 0, sizeof(*con));
    r->tmp_buf = tb ? tb : buffer_init();
    r->uri.path = path; r->uri.authority = auth;
    r->con = con;
    con->srv = &srv;
    con->reqbody_read = ltv_reqbody_read;
    con->fd = -1;
    r->conf.errh = srv.errh;
    r->plugin_ctx = pctx[s];
    pctx[s][0] = NULL;
    ndial[s] = 0;
    r->state = CON_STATE_HANDLE_REQUEST;
    r->http_version = HTTP_VERSION_1_0;
    r->http_method = HTTP_METHOD_GET;
    chunkqueue_init(&r->write_queue);
    chunkqueue_init(&r->reqbody_queue);
    char b[32]; int n;
    n = snprintf(b, sizeof(b), "/k%d", key);
    buffer_copy_string_len(&r->uri.path, b, (size_t)n);
    n = snprintf(b, sizeof(b), "h%d", key);
    buffer_copy_string_len(&r->uri.authority, b, (size_t)n);
    if (!ab) ab = buffer_init();
    n = snprintf(b, sizeof(b), "10.0.0.%d", key);
    buffer_copy_string_len(ab, b, (size_t)n);
    r->dst_addr_buf = ab;
}

/* request is over: response written (or connection reset); request_reset() */
static void finish(int s, int aborted) {
    request_st * const r = &rq[s];
    if (!aborted) {
        int st = r->http_status ? r->http_status : 200;
        /* 'h' = the context is still there but holds no host: gw_reconnect() asked
         * gw_host_get() for another backend and got none ("all handlers down") */
        const gw_handler_ctx * const hc = r->plugin_ctx[0];
        res_add("%d=fin%d%s%s%s,", s, st, r->resp_body_started ? "s" : "",
                (r->resp_body_started && NULL == r->handler_module) ? "t" : "",
                (hc && NULL == hc->host) ? "h" : "");
    }
    r->state = aborted ? CON_STATE_ERROR : CON_STATE_RESPONSE_END;
    gw_handle_request_reset(r, &pd);
    chunkqueue_reset(&r->write_queue);
    r->handler_module = NULL;
    active[s] = 0;
}

/* what connection_state_machine()/http_response_handler() do with a request
 * whose handler is this module */
static void run_con(int s) {
    request_st * const r = &rq[s];
    if (!active[s]) return;
    cur_slot = s;
    for (;;) {
        if (NULL == r->handler_module) { finish(s, 0); return; }
        handler_t rc = gw_handle_subrequest(r, &pd);
        switch (rc) {
          case HANDLER_WAIT_FOR_EVENT:
            if (!r->resp_body_finished) { res_add("%d=wait,", s); return; }
            finish(s, 0); return;
          case HANDLER_GO_ON:
          case HANDLER_FINISHED:
            finish(s, 0); return;
          case HANDLER_COMEBACK:
            continue;
          default:
            res_add("%d=err,", s);
            finish(s, 1); return;
        }
    }
}

static void run_jobs(void) {
    while (log_con_jqueue != sentinel) {
        connection *list = log_con_jqueue;
        log_con_jqueue = sentinel;
        for (connection *con = list, *next; con != sentinel; con = next) {
            next = con->jqnext;
            con->jqnext = NULL;
            run_con((int)(con - cons));
        }
    }
}

static void world_free(void) {
    for (int s = 0; s < nslots; ++s) if (active[s]) finish(s, 1);
    run_jobs();
    fdevent_poll(&evs, 0);
    if (gwconf) { gw_plugin_config_free(gwconf); gwconf = NULL; }
    cur_exts = NULL;
}

/* "gwk <id hex> <proc: - | n> <tag hex> <id hex> <proc> <tag hex>": call the real
 * gw_status_get_counter() for two (host id, proc, tag) triples; print the key of the
 * plugin_stats entry each returned int* lives in, and whether it is one and the same int */
static const buffer *ltv_stat_key_of(const int *p) {
    for (uint32_t i = 0; i < plugin_stats.used; ++i) {
        data_integer *di = (data_integer *)plugin_stats.data[i];
        if (&di->value == p) return &di->key;
    }
    return NULL;
}

static int *ltv_stat_counter(const char *idhex, const char *pr, const char *taghex) {
    size_t ilen, tlen;
    unsigned char *id = ltv_unhex(idhex, &ilen);
    unsigned char *tag = ltv_unhex(taghex, &tlen);
    buffer idb; memset(&idb, 0, sizeof(idb));
    buffer_copy_string_len(&idb, (char *)id, ilen);
    gw_host host; memset(&host, 0, sizeof(host));
    host.id = &idb;
    gw_proc proc; memset(&proc, 0, sizeof(proc));
    int has_proc = !(pr[0] == '-' && pr[1] == 0);
    if (has_proc) proc.id = (uint32_t)strtoul(pr, NULL, 10);
    int *c = gw_status_get_counter(&host, has_proc ? &proc : NULL, (char *)tag, tlen);
    free(idb.ptr); free(id); free(tag);
    return c;
}

static void run_gwk(void) {
    if (ltv_ntok != 7) { puts("bad-op"); return; }
    for (int k = 0; k < 2; ++k) {
        const char *pr = ltv_tok[2+3*k];
        if (!(pr[0] == '-' && pr[1] == 0)) {
            char *e; unsigned long long v = strtoull(pr, &e, 10);
            if (*e || e == pr || v > 4294967295ULL) { puts("bad-op"); return; }
        }
        for (int j = 1; j <= 3; j += 2) {
            const char *h = ltv_tok[j+3*k];
            if (h[0] == '-' && h[1] == 0) continue;
            size_t n = strlen(h);
            if (n % 2 || n > 128) { puts("bad-op"); return; }
            for (size_t i = 0; i < n; ++i) if (ltv_hv(h[i]) < 0) { puts("bad-op"); return; }
        }
    }
    int *a = ltv_stat_counter(ltv_tok[1], ltv_tok[2], ltv_tok[3]);
    int *b = ltv_stat_counter(ltv_tok[4], ltv_tok[5], ltv_tok[6]);
    const buffer *ka = ltv_stat_key_of(a), *kb = ltv_stat_key_of(b);
    if (!ka || !kb) { puts("no-key"); return; }
    /* the entry keeps the spelling of whoever created it: print it case-folded (A-Z only, as
     * array_caseless_compare folds), which is what identifies the entry */
    for (int k = 0; k < 2; ++k) {
        const buffer *kk = k ? kb : ka;
        uint32_t n = buffer_clen(kk);
        char *lc = malloc(n + 1);
        for (uint32_t i = 0; i < n; ++i) { char ch = kk->ptr[i]; lc[i] = (ch >= 'A' && ch <= 'Z') ? (char)(ch | 0x20) : ch; }
        ltv_puthex(lc, n); free(lc);
        if (!k) fputc(' ', stdout);
    }
    printf(" %d\n", a == b);
}

int main(void) {
    srv.errh = fdlog_init(NULL, -1, FDLOG_FD);
    srv.errh->fd = -1;
    srv.pid = 4242;
    srv.max_fds = 4096;
    srv.network_backend_write = ltv_backend_write;
    memset(&evs, 0, sizeof(evs));
    evs.fdarray = calloc(LTV_MAXFD, sizeof(*evs.fdarray));
    evs.maxfds = LTV_MAXFD;
    evs.errh = srv.errh;
    evs.cur_fds = &srv.cur_fds;
    evs.event_set = ltv_ev_set;
    evs.event_del = ltv_ev_del;
    evs.poll = ltv_ev_poll;
    srv.ev = &evs;
    sentinel = (connection *)(uintptr_t)&log_con_jqueue;
    log_con_jqueue = sentinel;
    plg.name = "ltvgw";
    plg.data = &pd;
    pd.id = 0;
    pd.self = &plg;
    binpath_buf.ptr = (char *)"/bin/true"; binpath_buf.used = sizeof("/bin/true"); binpath_buf.size = 0;

    while (ltv_next()) {
        if (ltv_ntok >= 1 && 0 == strcmp(ltv_tok[0], "gwk")) { run_gwk(); continue; }
        if (ltv_ntok < 5 || 0 != strcmp(ltv_tok[0], "gw")) { puts("bad-op"); continue; }
        int balance = atoi(ltv_tok[1]);
        int wkr = atoi(ltv_tok[2]) & 1;       /* bit 0: worker of server.max-worker > 0 */
        anon_hosts = (atoi(ltv_tok[2]) >> 1) & 1; /* bit 1: unlabeled hosts */
        nslots = atoi(ltv_tok[3]);
        if (nslots < 1 || nslots > MAXSLOT || balance < 0 || balance > 3) { puts("bad-op"); continue; }
        char *hs[16]; int nh = 0;
        { char *save = NULL;
          for (char *t = strtok_r(ltv_tok[4], "/", &save); t && nh < 16; t = strtok_r(NULL, "/", &save)) hs[nh++] = t; }
        int np[16]; char kind[16]; int bad = 0;
        for (int i = 0; i < nh; ++i) {
            int a1, a2, a3, a4;
            if (6 != sscanf(hs[i], "%d.%d.%d.%d.%d.%c", &np[i], &a1, &a2, &a3, &a4, &kind[i])
                || np[i] < 1 || np[i] > 8 || !strchr("rul", kind[i])) bad = 1;
        }
        if (bad || nh < 1) { puts("bad-op"); continue; }

        log_monotonic_secs = T0;
        log_epoch_secs = T0;
        srv.cur_fds = 0;
        srv.srvconf.max_worker = wkr ? 2 : 0;
        fds_n = 0;
        array *a = mk_config(nh, hs);
        gwconf = calloc(1, sizeof(*gwconf));
        pd.srv_pid = 0;
        if (NULL == a || !gw_set_defaults_backend(&srv, &pd, a, gwconf, 0, "ltvgw.server")) {
            puts("config-error"); if (a) array_free(a); free(gwconf); gwconf = NULL; continue;
        }
        pd.srv_pid = wkr ? srv.pid + 1 : srv.pid;
        gwconf->balance = balance;
        cur_exts = gwconf->exts_resp;
        for (int i = 0; i < nh; ++i) host_shape(cur_exts->exts->hosts[i], np[i], kind[i], i);
        pd.conf = *gwconf;
        /* plugin config list as config_plugin_values_init() leaves it:
         * one (global) context holding xxx.server */
        memset(cvl, 0, sizeof(cvl));
        cvl[0].k_id = 0; cvl[0].vtype = T_CONFIG_LOCAL; cvl[0].v.u2[0] = 1; cvl[0].v.u2[1] = 1;
        cvl[1].k_id = 0; cvl[1].vtype = T_CONFIG_LOCAL; cvl[1].v.v = gwconf;
        cvl[2].k_id = -1; cvl[2].vtype = T_CONFIG_UNSET;
        pd.cvlist = cvl;
        pd.nconfig = 1;
        memset(active, 0, sizeof(active));

        int first = 1;
        for (int t = 5; t < ltv_ntok; ++t) {
            char *op = ltv_tok[t];
            char *f[4] = { NULL, NULL, NULL, NULL }; int nf = 0;
            { char *save = NULL;
              for (char *x = strtok_r(op + 1, ".", &save); x && nf < 4; x = strtok_r(NULL, ".", &save)) f[nf++] = x; }
            reslen = 0; res[0] = 0;
            switch (op[0]) {
              case 'a': {
                int s = f[0] ? atoi(f[0]) : -1, key = f[1] ? atoi(f[1]) : 0;
                script_set(f[2]);
                if (s < 0 || s >= nslots || nf < 2) { res_add("bad"); break; }
                if (active[s]) { res_add("busy"); break; }
                slot_init(s, key);
                request_st * const r = &rq[s];
                /* what the request asks of gw_upgrade_policy() (no host here enables upgrade) */
                if (q_upg && *q_upg == 'c') r->h2_connect_ext = 1;      /* HTTP/2 extended CONNECT */
                else if (q_upg && *q_upg == 'h') {                      /* HTTP/1.1 Upgrade header */
                    r->http_version = HTTP_VERSION_1_1;
                    light_bset(r->rqst_htags, HTTP_HEADER_UPGRADE);
                }
                handler_t rc = gw_check_extension(r, &pd, 1, 0);
                array_free_data(&r->rqst_headers);
                memset(&r->rqst_headers, 0, sizeof(r->rqst_headers));
                r->h2_connect_ext = 0;
                if (NULL == r->handler_module) {
                    /* AR = refused by the upgrade policy after a host had been chosen */
                    res_add("%s,%d=fin%d,", 405 == r->http_status ? "AR" : "A-", s, r->http_status);
                    (void)rc;
                    break;
                }
                gw_handler_ctx *hctx = r->plugin_ctx[0];
                hctx->opts.backend = BACKEND_SCGI;
                hctx->create_env = ltv_create_env;
                active[s] = 1;
                int hi = -1;
                for (uint32_t h = 0; h < cur_exts->exts->used; ++h)
                    if (cur_exts->exts->hosts[h] == hctx->host) hi = (int)h;
                res_add("A%d,", hi);
                run_con(s);
                break;
              }
              case 'e': {
                int s = f[0] ? atoi(f[0]) : -1, m = f[1] ? atoi(f[1]) : 0;
                script_set(f[2]);
                if (s < 0 || s >= nslots || nf < 2) { res_add("bad"); break; }
                gw_handler_ctx *hctx = active[s] ? rq[s].plugin_ctx[0] : NULL;
                if (!hctx || !hctx->fdn) { res_add("noev"); break; }
                int evn = hctx->fdn->events, rev = 0;
                if ((m & 1) && (evn & FDEVENT_IN)) rev |= FDEVENT_IN;
                if ((m & 2) && (evn & FDEVENT_OUT)) rev |= FDEVENT_OUT;
                if ((m & 8) && (evn & FDEVENT_RDHUP)) rev |= FDEVENT_RDHUP;
                if (m & 4) rev |= FDEVENT_HUP;
                if (m & 16) rev |= FDEVENT_ERR;
                if (0 == rev) { res_add("noev"); break; }
                res_add("E%d,", (rev & FDEVENT_IN ? 1 : 0) | (rev & FDEVENT_OUT ? 2 : 0) | (rev & FDEVENT_HUP ? 4 : 0)
                               | (rev & FDEVENT_RDHUP ? 8 : 0) | (rev & FDEVENT_ERR ? 16 : 0));
                (*hctx->fdn->handler)(hctx->fdn->ctx, rev);
                run_jobs();
                break;
              }
              case 's': {
                int s = f[0] ? atoi(f[0]) : -1;
                script_set(f[1]);
                if (s < 0 || s >= nslots || nf < 1) { res_add("bad"); break; }
                if (!active[s]) { res_add("idle"); break; }
                res_add("W,");
                run_con(s);
                break;
              }
              case 'c': {
                int s = f[0] ? atoi(f[0]) : -1;
                script_set(NULL);
                if (s < 0 || s >= nslots || nf < 1) { res_add("bad"); break; }
                if (!active[s]) { res_add("idle"); break; }
                res_add("C,");
                finish(s, 1);
                break;
              }
              case 't': {
                int dt = f[0] ? atoi(f[0]) : 0;
                script_set(f[1]);
                if (dt < 0 || dt > 100000 || nf < 1) { res_add("bad"); break; }
                log_monotonic_secs += dt;
                log_epoch_secs += dt;
                res_add("T,");
                gw_handle_trigger(&srv, &pd);
                run_jobs();
                break;
              }
              default:
                res_add("bad");
                break;
            }
            fdevent_poll(&evs, 0); /* fdevent_sched_run(): deferred close() */
            res_add("#");
            dump();
            if (!first) fputs(" | ", stdout);
            first = 0;
            fputs(res, stdout);
        }
        world_free();
        int open_fds = 0;
        for (int i = 0; i < fds_n; ++i) if (-1 != fcntl(fds_made[i], F_GETFD)) ++open_fds;
        printf("%send:%d,%d\n", first ? "" : " | ", open_fds, srv.cur_fds);
        array_free(a);
    }
    return 0;
}
