/* correspondence harness for the HTTP/1.1 chunked request-body decoder (C01, C09, C12)
 * op: chunked <max_request_size_kB> <max_field_size> <hex seg> [<hex seg> ...]
 *   feeds the segments one by one into the read queue, calling h1_chunked() after each
 *   (as h1_reqbody_read() does); chunkqueue_append_mem() extends the last read buffer while it has
 *   room (what connection_read_cq() does with small reads), so the segments share a buffer.
 * op: chunkedb ... same, but every segment becomes a chunkqueue chunk (read buffer) of its own, as
 *   happens on a real connection when a read does not fit the previous buffer (a burst longer than
 *   8191 bytes, or a segment arriving when less than half a buffer is free): every cut is a buffer
 *   boundary.
 *   prints after the last segment:
 *     more te=<n> out=<hex> rest=<n> ka=<0|1>
 *     done out=<hex> rest=<n> ka=<0|1>
 *     err <status>
 */
#include "first.h"
#include "harness_common.h"
#include "h1.c"
#include "fdlog.h"
#include <fcntl.h>

int main(void) {
    request_st rq; memset(&rq, 0, sizeof(rq));
    request_st * const r = &rq;
    connection con; memset(&con, 0, sizeof(con));
    r->con = &con;
    r->tmp_buf = buffer_init();
    r->conf.errh = fdlog_init(NULL, open("/dev/null", O_WRONLY), FDLOG_FD);
    chunkqueue_set_tempdirs_default(NULL, 0);
    while (ltv_next()) {
        if (ltv_ntok < 4 || (0 != strcmp(ltv_tok[0], "chunked") && 0 != strcmp(ltv_tok[0], "chunkedb"))) { puts("bad-op"); continue; }
        const int sepbuf = (0 == strcmp(ltv_tok[0], "chunkedb"));
        r->conf.max_request_size = (unsigned int)atoi(ltv_tok[1]);
        r->conf.max_request_field_size = (unsigned int)atoi(ltv_tok[2]);
        r->x.h1.te_chunked = 0;
        r->reqbody_length = -1;
        r->keep_alive = 1;
        r->http_status = 0;
        r->resp_header_len = 0;
        chunkqueue_reset(&r->read_queue);
        chunkqueue_reset(&r->reqbody_queue);
        r->read_queue.bytes_in = r->read_queue.bytes_out = 0;
        r->reqbody_queue.bytes_in = r->reqbody_queue.bytes_out = 0;
        chunkqueue * const cq = &r->read_queue;
        chunkqueue * const dst = &r->reqbody_queue;
        int err = 0, done = 0;
        for (int i = 3; i < ltv_ntok && !err; ++i) {
            size_t n; unsigned char *seg = ltv_unhex(ltv_tok[i], &n);
            if (n && sepbuf) {
                chunkqueue tmp; memset(&tmp, 0, sizeof(tmp));
                chunkqueue_append_mem_min(&tmp, (char *)seg, n);   /* empty queue: always a new chunk */
                chunkqueue_append_chunkqueue(cq, &tmp);            /* links the chunk behind the others */
            }
            else if (n) chunkqueue_append_mem(cq, (char *)seg, n);
            free(seg);
            if (done) continue;
            chunkqueue_remove_finished_chunks(cq);
            handler_t rc = h1_chunked(r, cq, dst);
            if (rc != HANDLER_GO_ON) { err = r->http_status ? r->http_status : 599; break; }
            chunkqueue_remove_finished_chunks(cq);
            if (r->reqbody_length >= 0) done = 1;
        }
        if (err) { printf("err %d%s\n", err, r->keep_alive ? " NOT-CLOSED" : ""); continue; }
        buffer *o = buffer_init();
        off_t blen = chunkqueue_length(dst);
        if (blen) {
            char *p = buffer_string_prepare_append(o, (size_t)blen);
            uint32_t l = (uint32_t)blen;
            if (chunkqueue_peek_data(dst, &p, &l, r->conf.errh, 0) < 0) l = 0;
            if (p != o->ptr) memcpy(o->ptr, p, l);
            buffer_commit(o, l);
        }
        if (done) fputs("done out=", stdout);
        else printf("more te=%lld out=", (long long)r->x.h1.te_chunked);
        ltv_puthex(o->ptr, buffer_clen(o));
        printf(" rest=%lld ka=%d\n", (long long)chunkqueue_length(cq), r->keep_alive ? 1 : 0);
        buffer_free(o);
    }
    return 0;
}
