/* correspondence harness for the end of a response on an HTTP/1.x connection (C04)
 *
 * The real src/connections.c is #included, so that the statics connection_handle_response_end_state(),
 * connection_handle_shutdown(), connection_close(), connection_reset() are reachable; everything
 * else is the sanitized library of the current tree.  Real sockets: the connection owns one end of
 * an AF_UNIX stream socketpair and the harness plays the client on the other end (end-of-stream
 * is what the CLIENT observes, not a flag of the server).
 *
 * one case per line:
 *  rend <h2> <status> <reqbody_length> <reqbody_bytes_in> <is_error> <keep_alive> <sep_wq> <mode> <pending>
 *      connection_handle_response_end_state() on a connection built as connection_init() does;
 *      mode: 0 connected socketpair, 1 unconnected socket (shutdown(SHUT_WR) fails: ENOTCONN),
 *            2 connected socketpair with con->fd negated (con->fd < 0), 3 unconnected socket, is_ssl_sock
 *      sep_wq: con->write_queue is a separate queue (leftover of a partially written 1xx)
 *      pending: bytes in con->read_queue
 *   -> <rs|cl|co> ka=<r->keep_alive> done=<handle_request_done calls> sep=<0|1> fin=<0|1> closed=<0|1>
 *      pend=<bytes in con->read_queue> eof=<client saw end-of-stream>
 *      (fin: CON_STATE_CLOSE and, with a peer, the peer read EOF - 9 if it did not;
 *       closed: con->fd == -1 and the descriptor is really closed - 9 if it is still open)
 *  pipe <mode 0|2> <len>,<ka>,<wrote|-1>,<reqbody_length>,<bytes_in>,<status> ...
 *      a pipeline: for every request in order the harness does what the write state leaves behind
 *      (min(len, wrote) bytes of pattern <index> written to the real socket, r->keep_alive, r->state =
 *      CON_STATE_ERROR if wrote >= 0 else CON_STATE_RESPONSE_END, request-body accounting, one byte per
 *      queued request in con->read_queue), calls connection_handle_response_end_state(), and goes on
 *      only if r->state == CON_STATE_REQUEST_START (connection_state_machine_loop()); the client then
 *      reads everything there is
 *   -> n=<requests answered> wire=<len>:<adler32 of what the client read> (open | <as rend>)
 */
#include "first.h"
#include "harness_common.h"
#include "connections.c"
#include "fdevent_impl.h"
#include "plugin.h"
#include "plugins.h"
#include <sys/socket.h>
#include <netinet/in.h>
#include <fcntl.h>
#include <unistd.h>

void config_patch_config(request_st * const r) { (void)r; }   /* stub: configfile.c is not linked */

typedef struct { PLUGIN_DATA; } fake_pd;
static int n_done, n_shut, n_close;
static void *fake_init(void) { return calloc(1, sizeof(fake_pd)); }
static handler_t fake_done(request_st *r, void *p_d) { (void)r; (void)p_d; ++n_done; return HANDLER_GO_ON; }
static handler_t fake_shut(connection *c, void *p_d) { (void)c; (void)p_d; ++n_shut; return HANDLER_GO_ON; }
static handler_t fake_close(connection *c, void *p_d) { (void)c; (void)p_d; ++n_close; return HANDLER_GO_ON; }
static plugin fake_plugin;
static plugin *fake_plugin_ptrs[1];

static server srv_s;
static fdevents ev_s;
static fdnode *fdarray_s[4096];
static request_config defaults;
static buffer defaults_docroot, defaults_tag;

static void skeleton_init(void) {
    server * const srv = &srv_s;
    memset(srv, 0, sizeof(*srv));
    srv->tmp_buf = buffer_init();
    buffer_string_prepare_append(srv->tmp_buf, 65536);
    srv->config_context = array_init(1);
    array_insert_value(srv->config_context, "x", 1);
    plugin *p = &fake_plugin;
    memset(p, 0, sizeof(*p));
    p->version = LIGHTTPD_VERSION_ID;
    p->name = "fake";
    p->init = fake_init;
    p->handle_request_done = fake_done;
    p->handle_connection_shut_wr = fake_shut;
    p->handle_connection_close = fake_close;
    fake_plugin_ptrs[0] = p;
    srv->plugins.ptr = fake_plugin_ptrs;
    srv->plugins.used = 1;
    if (HANDLER_GO_ON != plugins_call_init(srv)) { fputs("plugins_call_init failed\n", stderr); exit(2); }
    memset(&ev_s, 0, sizeof(ev_s));
    ev_s.fdarray = fdarray_s;
    ev_s.maxfds = 4096;
    ev_s.cur_fds = &srv->cur_fds;
    srv->ev = &ev_s;
    memset(&defaults, 0, sizeof(defaults));
    buffer_copy_string_len(&defaults_docroot, CONST_STR_LEN("/docroot"));
    buffer_copy_string_len(&defaults_tag, CONST_STR_LEN("ltv"));
    defaults.document_root = &defaults_docroot;
    defaults.server_tag = &defaults_tag;
    defaults.max_request_field_size = 8192;
    defaults.http_parseopts = 9567;
    defaults.max_keep_alive_requests = 100;
    defaults.max_keep_alive_idle = 5;
    defaults.allow_http11 = 1;
    request_config_set_defaults(&defaults);
    log_monotonic_secs = 1000;
}

static connection *con_new(void) {
    /* as connection_init() + connection_reset() (connections.c) */
    server * const srv = &srv_s;
    connection * const c = ck_calloc(1, sizeof(*c));
    c->srv = srv;
    c->plugin_slots = srv->plugin_slots;
    c->config_data_base = srv->config_data_base;
    request_st * const r = &c->request;
    request_init_data(r, c, srv);
    c->write_queue = &r->write_queue;
    c->read_queue = &r->read_queue;
    c->plugin_ctx = ck_calloc(srv->plugins.used + 1, sizeof(void *));
    c->proto_default_port = 80;
    c->fd = -1;
    buffer_copy_string_len(&c->dst_addr_buf, CONST_STR_LEN("127.0.0.1"));
    connection_reset(c);
    return c;
}

static void con_free(connection *c) {
    request_st * const r = &c->request;
    if (c->write_queue != &r->write_queue) chunkqueue_free(c->write_queue);
    request_free_data(r);
    free(c->plugin_ctx);
    free(c->dst_addr_buf.ptr);
    free(c);
}

static unsigned char pat(unsigned long seed, unsigned long i) {
    return (unsigned char)((seed * 131 + i * 7 + i / 251) % 256);
}
static uint32_t adler32_(const unsigned char *p, size_t n) {
    uint32_t a = 1, b = 0;
    for (size_t i = 0; i < n; ++i) { a = (a + p[i]) % 65521; b = (b + a) % 65521; }
    return (b << 16) | a;
}

/* the client side */
static int cfd = -1, peer = -1, realfd = -1;
static unsigned char *got; static size_t got_len, got_cap; static int got_eof;
static void peer_drain(void) {
    if (peer < 0 || got_eof) return;
    for (;;) {
        if (got_cap - got_len < 65536) { got_cap = got_cap ? got_cap * 2 : 1 << 17; got = realloc(got, got_cap); }
        ssize_t n = read(peer, got + got_len, got_cap - got_len);
        if (n > 0) { got_len += (size_t)n; continue; }
        if (n == 0) { got_eof = 1; return; }
        if (errno == EINTR) continue;
        return;   /* EAGAIN: nothing more for now */
    }
}

static connection *open_con(int mode) {
    connection *c = con_new();
    int sv[2] = { -1, -1 };
    peer = -1; got_len = 0; got_eof = 0;
    if (mode == 0 || mode == 2) {
        if (0 != socketpair(AF_UNIX, SOCK_STREAM, 0, sv)) { perror("socketpair"); exit(2); }
        realfd = sv[0]; peer = sv[1];
        fcntl(peer, F_SETFL, fcntl(peer, F_GETFL) | O_NONBLOCK);
        fcntl(realfd, F_SETFL, fcntl(realfd, F_GETFL) | O_NONBLOCK);
    } else {
        realfd = socket(AF_INET, SOCK_STREAM, 0);   /* unconnected TCP socket: shutdown() -> ENOTCONN */
        if (realfd < 0) { perror("socket"); exit(2); }
    }
    if (realfd >= 4096) { fputs("descriptor too large\n", stderr); exit(2); }
    c->fd = (mode == 2) ? -realfd : realfd;
    c->is_ssl_sock = (mode == 3);
    c->fdn = fdevent_register(srv_s.ev, realfd, NULL, c);
    srv_s.cur_fds = 1;
    srv_s.conns = c;
    srv_s.conns_pool = NULL;
    c->prev = c->next = NULL;
    n_done = n_shut = n_close = 0;
    return c;
}

static void print_end(connection *c) {
    request_st * const r = &c->request;
    peer_drain();
    const char *st = r->state == CON_STATE_REQUEST_START ? "rs" : r->state == CON_STATE_CLOSE ? "cl"
                   : r->state == CON_STATE_CONNECT ? "co" : "??";
    int fin = 0, closed = 0;
    if (r->state == CON_STATE_CLOSE) fin = (peer < 0 || got_eof) ? 1 : 9;
    if (c->fd == -1 && NULL == c->fdn) {
        int still_open = (-1 != fcntl(realfd, F_GETFD));
        closed = (!still_open && (peer < 0 || got_eof)) ? 1 : 9;
    }
    printf("%s ka=%d done=%d sep=%d fin=%d closed=%d pend=%lld eof=%d\n", st, (int)r->keep_alive, n_done,
           c->write_queue != &r->write_queue, fin, closed, (long long)chunkqueue_length(c->read_queue),
           (peer >= 0 && got_eof) ? 1 : 0);
}

static void close_con(connection *c) {
    if (c->fdn) { fdevent_unregister(srv_s.ev, c->fdn); c->fdn = NULL; }
    if (c->fd != -1 || -1 != fcntl(realfd, F_GETFD)) close(realfd);
    if (peer >= 0) close(peer);
    peer = -1;
    srv_s.conns = NULL;
    srv_s.conns_pool = NULL;
    chunkqueue_reset(c->read_queue);
    con_free(c);
}

static void fill_read_queue(connection *c, long n) {
    char buf[256];
    while (n > 0) {
        size_t k = n > (long)sizeof(buf) ? sizeof(buf) : (size_t)n;
        memset(buf, 'G', k);
        chunkqueue_append_mem(c->read_queue, buf, k);
        n -= (long)k;
    }
}

static void op_rend(void) {
    if (ltv_ntok != 10) { puts("bad-op"); return; }
    const int h2 = atoi(ltv_tok[1]), status = atoi(ltv_tok[2]);
    const long long rl = atoll(ltv_tok[3]), ri = atoll(ltv_tok[4]);
    const int is_err = atoi(ltv_tok[5]), ka = atoi(ltv_tok[6]), sep = atoi(ltv_tok[7]), mode = atoi(ltv_tok[8]);
    const long pending = atol(ltv_tok[9]);
    if (mode < 0 || mode > 3 || pending < 0 || pending > 100000) { puts("bad-op"); return; }
    connection *c = open_con(mode);
    request_st * const r = &c->request;
    r->http_version = h2 ? HTTP_VERSION_2 : HTTP_VERSION_1_1;
    r->http_status = status;
    r->reqbody_length = (off_t)rl;
    r->reqbody_queue.bytes_in = (off_t)ri;
    r->state = is_err ? CON_STATE_ERROR : CON_STATE_RESPONSE_END;
    r->keep_alive = (int8_t)ka;
    if (sep) {
        c->write_queue = chunkqueue_init(NULL);
        chunkqueue_append_mem(c->write_queue, CONST_STR_LEN("HTTP/1.1 100 Continue\r\n"));
    }
    fill_read_queue(c, pending);
    connection_handle_response_end_state(r, c);
    print_end(c);
    close_con(c);
}

static void op_pipe(void) {
    if (ltv_ntok < 3) { puts("bad-op"); return; }
    const int mode = atoi(ltv_tok[1]);
    if (mode != 0 && mode != 2) { puts("bad-op"); return; }
    const int nreq = ltv_ntok - 2;
    connection *c = open_con(mode);
    request_st * const r = &c->request;
    fill_read_queue(c, nreq);
    int answered = 0;
    r->state = CON_STATE_REQUEST_START;
    for (int i = 0; i < nreq && r->state == CON_STATE_REQUEST_START; ++i) {
        long len, wrote; int ka, status; long long rl, ri;
        if (6 != sscanf(ltv_tok[2 + i], "%ld,%d,%ld,%lld,%lld,%d", &len, &ka, &wrote, &rl, &ri, &status)
            || len < 0 || len > 1000000) { puts("bad-op"); close_con(c); return; }
        /* the request has been read and parsed, the response written (or not completely) */
        chunkqueue_mark_written(c->read_queue, 1);
        ++answered;
        r->http_version = HTTP_VERSION_1_1;
        r->http_status = status;
        r->reqbody_length = (off_t)rl;
        r->reqbody_queue.bytes_in = (off_t)ri;
        r->keep_alive = (int8_t)ka;
        r->state = wrote >= 0 ? CON_STATE_ERROR : CON_STATE_RESPONSE_END;
        long n = (wrote >= 0 && wrote < len) ? wrote : len;
        for (long off = 0; off < n; ) {
            unsigned char buf[4096];
            long k = n - off > (long)sizeof(buf) ? (long)sizeof(buf) : n - off;
            for (long j = 0; j < k; ++j) buf[j] = pat((unsigned long)i, (unsigned long)(off + j));
            for (long w = 0; w < k; ) {
                ssize_t x = write(realfd, buf + w, (size_t)(k - w));
                if (x > 0) { w += x; continue; }
                if (x < 0 && errno == EINTR) continue;
                if (x < 0 && errno == EAGAIN) { peer_drain(); continue; }
                perror("write"); exit(2);
            }
            off += k;
            peer_drain();
        }
        n_done = 0;
        connection_handle_response_end_state(r, c);
    }
    peer_drain();
    printf("n=%d wire=%zu:%08x ", answered, got_len, adler32_(got, got_len));
    if (r->state == CON_STATE_REQUEST_START) puts("open");
    else print_end(c);
    close_con(c);
}

int main(void) {
    skeleton_init();
    while (ltv_next()) {
        if (ltv_ntok < 1) { puts("bad-op"); continue; }
        const char *op = ltv_tok[0];
        if (0 == strcmp(op, "rend")) op_rend();
        else if (0 == strcmp(op, "pipe")) op_pipe();
        else puts("bad-op");
        fflush(stdout);
    }
    return 0;
}
