/* correspondence harness for the HTTP/1.x response path (C04)
 *
 * The real src/network_write.c and src/response.c are #included so that their statics
 * (network_write_chunkqueue_writev/_sendfile, http_response_write_prepare) are reachable;
 * write()/writev()/sendfile() inside network_write.c are replaced by scripted versions
 * that consume a fault schedule taken from the case line and capture the accepted bytes.
 * Everything else (chunk.c, h1.c, http_chunk.c, buffer.c, http-header-glue.c ...) is the
 * sanitized library of the current tree.
 *
 * one case per line:
 *
 *  nw <backend> <max_bytes> <sched> <chunk> [<chunk> ...]
 *     backend   w = network_write_chunkqueue_writev, s = network_write_chunkqueue_sendfile
 *     max_bytes budget handed to every backend call (connection_write_chunkqueue passes 262144)
 *     sched     '-' or comma list consumed by successive write/writev/sendfile calls:
 *               <n> = the kernel accepts min(n, requested) bytes, A = EAGAIN, I = EINTR,
 *               P = EPIPE, R = ECONNRESET, N = ENOTCONN, V = EINVAL, X = EIO     (exhausted => EAGAIN)
 *     chunk     m<seed>.<len>.<off>          MEM_CHUNK, data pat(seed,0..len-1), c->offset = off
 *               f<seed>.<flen>.<off>.<end>   FILE_CHUNK (open descriptor) on a file with content
 *               F<seed>.<flen>.<off>.<end>   FILE_CHUNK (by name, opened lazily)
 *                                            pat(seed,0..flen-1); c->offset = off, c->file.length = end
 *     the backend is called repeatedly (as connection_handle_write does on every writable event)
 *     until the queue is empty, it reports an error, or the schedule is used up.
 *   -> rc=<last rc> calls=<n> out=<bytes_out> acc=<len>:<adler32> ff=<faults fired> q=<layout> sys=<trace>
 *     layout: remaining chunks 'M<remaining>' / 'F<remaining>' joined by '.', '-' if empty
 *     trace : syscalls in order  v<iovcnt>:<total> | w<len> | s<count>@<offset>
 *
 *  prep <status> <method> <ver> <fin> <ka> <flags> <hdrs> <qbody> [<piece> ...]
 *     response descriptor as a handler leaves it before CON_STATE_RESPONSE_START:
 *     method G|H|P|C, ver 0|1 (HTTP/1.0|1.1), fin = r->resp_body_finished, ka = r->keep_alive,
 *     flags: 1 handler_module set, 2 error_intercept, 4 request_count > max_keep_alive_requests,
 *            8 max_keep_alive_idle == 0, 16 request body not completely read, 32 server.tag set,
 *            64 handler finishes the streamed body normally (http_chunk_close + resp_body_finished),
 *            128 error_handler_saved_status = 65535 (error handler succeeded), 256 error_handler_saved_status = 404
 *     hdrs  '-' or comma list  s:<hexname>:<hexvalue> (http_header_response_set) |
 *                              i:<hexname>:<hexvalue> (http_header_response_insert)
 *     qbody hex of the bytes in r->write_queue; pieces are appended afterwards with
 *           http_chunk_append_mem() while the response is not finished
 *   runs http_response_write_prepare(), h1_send_headers(), the pieces, http_chunk_close()
 *   -> ka=<0|1> fin=<0|1> ch=<0|1> hlen=<resp_header_len> wire=<hex of everything queued>
 *
 *  enc <0..3> <hex>     buffer_append_string_encoded(ENCODING_REL_URI, _REL_URI_PART, _HTML, _MINIMAL_XML)
 *  redir <abs> <status> <hexscheme> <hexauthority> <hexpath> <hexquery>
 *                       http_response_redirect_to_directory() -> <http_status> <hex Location|Content-Location>
 *  s1xx <status> <hdrs> interim response of h1_send_1xx() (hdrs as for prep) -> hex of what is queued on the connection
 *  cfile <api> <chunked> <seed> <flen> <off> <len>
 *                       response body taken from a file (content pat(seed,0..flen-1)) with resp_send_chunked = <chunked>:
 *                       d http_chunk_append_file_fd (whole file), D http_chunk_append_file_fd_range(off,len),
 *                       r http_chunk_append_file_ref (whole file), R http_chunk_append_file_ref_range(off,len)
 *                       -> <rc> <hex of everything queued>   (small files are read into memory when chunked)
 *  cshort <api> <seed> <flen> <claimed>
 *                       chunked response, file of <claimed> bytes that shrinks to <flen> bytes after it was stat()ed / sized:
 *                       d http_chunk_append_file_fd(claimed), r http_chunk_append_file_ref (stat cache entry taken before
 *                       the truncation)  -> <rc> <hex queued>   (claimed <= 32768: the read-into-memory path, short read)
 *  clen <n>             chunk framing of http_chunk_append_file_fd_range(): <hex size line><file><hex CRLF>
 */
#include "first.h"
#include <sys/types.h>
#include <sys/stat.h>
#include <sys/uio.h>
#include <sys/sendfile.h>
#include <unistd.h>
#include <fcntl.h>
#include <errno.h>
#include "harness_common.h"
#include "base.h"
#include "buffer.h"
#include "array.h"
#include "chunk.h"
#include "ck.h"
#include "log.h"
#include "fdlog.h"
#include "h1.h"
#include "http_chunk.h"
#include "http_header.h"
#include "http_kv.h"
#include "plugin.h"
#include "request.h"
#include "response.h"
#include "stat_cache.h"

/* ---- scripted socket ------------------------------------------------------ */
static const char *ws_p;           /* schedule cursor */
static int ltv_faults;             /* results other than "everything accepted" */
static unsigned char *acc; static size_t acc_len, acc_cap;
static char trace[65536]; static size_t trace_len;

static void acc_add(const void *p, size_t n) {
    if (acc_len + n > acc_cap) { acc_cap = (acc_len + n) * 2 + 4096; acc = realloc(acc, acc_cap); }
    memcpy(acc + acc_len, p, n); acc_len += n;
}
static void trace_add(const char *fmt, long a, long b) {
    if (trace_len + 64 > sizeof(trace)) return;
    if (trace_len) trace[trace_len++] = ',';
    trace_len += (size_t)snprintf(trace + trace_len, sizeof(trace) - trace_len, fmt, a, b);
}
static int ws_done(void) { return NULL == ws_p || *ws_p == 0 || *ws_p == '-'; }
/* returns 'n' with *arg = byte count, or a fault letter; exhausted => 'A' */
static int ws_next(long *arg) {
    *arg = 0;
    if (ws_done()) return 'A';
    int k = *ws_p;
    if (k >= '0' && k <= '9') { *arg = strtol(ws_p, (char **)&ws_p, 10); k = 'n'; }
    else ++ws_p;
    if (*ws_p == ',') ++ws_p;
    return k;
}
static int ws_errno(int k) {
    switch (k) {
      case 'A': return EAGAIN;
      case 'I': return EINTR;
      case 'P': return EPIPE;
      case 'R': return ECONNRESET;
      case 'N': return ENOTCONN;
      case 'V': return EINVAL;
      default:  return EIO;
    }
}

static ssize_t ltv_writev(int fd, const struct iovec *iov, int cnt) {
    (void)fd;
    size_t total = 0;
    for (int i = 0; i < cnt; ++i) total += iov[i].iov_len;
    trace_add("v%ld:%ld", cnt, (long)total);
    long n; int k = ws_next(&n);
    if (k != 'n') { ++ltv_faults; errno = ws_errno(k); return -1; }
    size_t take = (size_t)n < total ? (size_t)n : total;
    if (take != total) ++ltv_faults;
    size_t left = take;
    for (int i = 0; i < cnt && left; ++i) {
        size_t l = iov[i].iov_len < left ? iov[i].iov_len : left;
        acc_add(iov[i].iov_base, l);
        left -= l;
    }
    return (ssize_t)take;
}

static ssize_t ltv_write(int fd, const void *buf, size_t len) {
    (void)fd;
    trace_add("w%ld", (long)len, 0);
    long n; int k = ws_next(&n);
    if (k != 'n') { ++ltv_faults; errno = ws_errno(k); return -1; }
    size_t take = (size_t)n < len ? (size_t)n : len;
    if (take != len) ++ltv_faults;
    acc_add(buf, take);
    return (ssize_t)take;
}

static ssize_t ltv_sendfile(int out_fd, int in_fd, off_t *offset, size_t count) {
    (void)out_fd;
    trace_add("s%ld@%ld", (long)count, (long)*offset);
    long n; int k = ws_next(&n);
    if (k != 'n') { ++ltv_faults; errno = ws_errno(k); return -1; }
    size_t take = (size_t)n < count ? (size_t)n : count;
    if (take != count) ++ltv_faults;
    size_t done = 0;
    char buf[65536];
    while (done < take) {
        size_t l = take - done < sizeof(buf) ? take - done : sizeof(buf);
        ssize_t rd = pread(in_fd, buf, l, *offset + (off_t)done);
        if (rd <= 0) break;               /* EOF: the file is shorter than requested */
        acc_add(buf, (size_t)rd);
        done += (size_t)rd;
    }
    *offset += (off_t)done;
    return (ssize_t)done;
}

#define write ltv_write
#define writev ltv_writev
#define sendfile ltv_sendfile
#include "network_write.c"
#undef write
#undef writev
#undef sendfile

#include "response.c"

/* configfile.c is not part of the harness library; http_response_config() is never reached here */
void config_patch_config(request_st * const r) { (void)r; }

/* ---- data patterns / files ----------------------------------------------- */
static unsigned char pat(unsigned long seed, unsigned long i) {
    return (unsigned char)((seed * 131u + i * 7u + i / 251u) & 0xff);
}
static char root[256];
static const char *src_file(unsigned long seed, unsigned long flen) {
    static char path[512];
    snprintf(path, sizeof(path), "%s/f%lu_%lu", root, seed, flen);
    struct stat st;
    if (0 == stat(path, &st) && (unsigned long)st.st_size == flen) return path;
    FILE *f = fopen(path, "wb");
    if (!f) { perror(path); exit(3); }
    unsigned char buf[8192];
    for (unsigned long i = 0; i < flen; ) {
        unsigned long n = 0;
        for (; n < sizeof(buf) && i < flen; ++n, ++i) buf[n] = pat(seed, i);
        fwrite(buf, 1, n, f);
    }
    fclose(f);
    return path;
}
static void cleanup(void) {
    if (root[0]) { char cmd[300]; snprintf(cmd, sizeof(cmd), "rm -rf '%s'", root); if (system(cmd)) {} }
}

static uint32_t adler32_(const unsigned char *p, size_t n) {
    uint32_t a = 1, b = 0;
    for (size_t i = 0; i < n; ++i) { a = (a + p[i]) % 65521u; b = (b + a) % 65521u; }
    return (b << 16) | a;
}

static fdlog_st *errh;

/* ---- nw -------------------------------------------------------------------- */
static void op_nw(void) {
    if (ltv_ntok < 5) { puts("bad-op"); return; }
    const int backend = ltv_tok[1][0];
    const off_t max_bytes = (off_t)atoll(ltv_tok[2]);
    chunkqueue cq; memset(&cq, 0, sizeof(cq));
    chunkqueue_init(&cq);
    for (int i = 4; i < ltv_ntok; ++i) {
        const char *t = ltv_tok[i];
        unsigned long a = 0, b = 0, c = 0, d = 0;
        if (t[0] == 'm' && 3 == sscanf(t + 1, "%lu.%lu.%lu", &a, &b, &c)) {
            buffer * const m = chunkqueue_append_buffer_open_sz(&cq, b + 1);
            char *p = buffer_extend(m, b);
            for (unsigned long j = 0; j < b; ++j) p[j] = (char)pat(a, j);
            chunkqueue_append_buffer_commit(&cq);
            cq.last->offset = (off_t)c;
            cq.bytes_in -= (off_t)c;
        }
        else if ((t[0] == 'f' || t[0] == 'F') && 4 == sscanf(t + 1, "%lu.%lu.%lu.%lu", &a, &b, &c, &d)) {
            const char *path = src_file(a, b);
            buffer fn; memset(&fn, 0, sizeof(fn));
            buffer_copy_string(&fn, path);
            /* chunkqueue_append_file*() ignore empty ranges; keep them in the layout */
            if (t[0] == 'f') {
                int fd = open(path, O_RDONLY);
                chunkqueue_append_file_fd(&cq, &fn, fd, (off_t)c, d > c ? (off_t)(d - c) : 1);
            }
            else
                chunkqueue_append_file(&cq, &fn, (off_t)c, d > c ? (off_t)(d - c) : 1);
            if (d <= c) { cq.last->file.length = (off_t)c; cq.bytes_in -= 1; }
            free(fn.ptr);
        }
        else { puts("bad-op"); chunkqueue_reset(&cq); return; }
    }
    ws_p = ltv_tok[3];
    ltv_faults = 0; acc_len = 0; trace_len = 0; trace[0] = 0;
    cq.bytes_out = 0;
    int rc = 0, calls = 0;
    while (cq.first && !ws_done() && calls < 100000) {
        rc = (backend == 's')
          ? network_write_chunkqueue_sendfile(-1, &cq, max_bytes, errh)
          : network_write_chunkqueue_writev(-1, &cq, max_bytes, errh);
        ++calls;
        if (rc < 0) break;
    }
    printf("rc=%d calls=%d out=%lld acc=%zu:%08x ff=%d q=", rc, calls, (long long)cq.bytes_out,
           acc_len, adler32_(acc, acc_len), ltv_faults);
    if (!cq.first) fputc('-', stdout);
    for (const chunk *c = cq.first; c; c = c->next)
        printf("%s%c%lld", c == cq.first ? "" : ".", c->type == MEM_CHUNK ? 'M' : 'F',
               (long long)(c->type == MEM_CHUNK ? (off_t)buffer_clen(c->mem) - c->offset
                                                : c->file.length - c->offset));
    printf(" sys=%s\n", trace_len ? trace : "-");
    chunkqueue_reset(&cq);
}

/* ---- prep ------------------------------------------------------------------ */
static server srv;
static connection con;
static plugin dummy_plugin;
static uint16_t slots[256];
static buffer server_tag;

static void set_hdrs(request_st * const r, char *spec);

static void cq_dump_hex(chunkqueue * const cq) {
    int any = 0;
    for (const chunk *c = cq->first; c; c = c->next) {
        if (c->type != MEM_CHUNK) { fputs("<file>", stdout); any = 1; continue; }
        const uint32_t n = buffer_clen(c->mem) - (uint32_t)c->offset;
        if (n) { ltv_puthex(c->mem->ptr + c->offset, n); any = 1; }
    }
    if (!any) fputc('-', stdout);
}

/* every byte queued, whether it sits in memory chunks or in temporary files */
static void cq_dump_all(chunkqueue * const cq) {
    const off_t len = chunkqueue_length(cq);
    if (len <= 0) { fputc('-', stdout); return; }
    char * const buf = malloc((size_t)len);
    char *p = buf;
    uint32_t l = (uint32_t)len;
    if (chunkqueue_peek_data(cq, &p, &l, errh, 0) < 0 || (off_t)l != len) fputs("<peek-failed>", stdout);
    else ltv_puthex(p, l);
    free(buf);
}

static void op_prep(void) {
    if (ltv_ntok < 9) { puts("bad-op"); return; }
    request_st * const r = &con.request;
    const int flags = atoi(ltv_tok[6]);
    r->http_status = atoi(ltv_tok[1]);
    switch (ltv_tok[2][0]) {
      case 'H': r->http_method = HTTP_METHOD_HEAD; break;
      case 'P': r->http_method = HTTP_METHOD_POST; break;
      case 'C': r->http_method = HTTP_METHOD_CONNECT; break;
      default:  r->http_method = HTTP_METHOD_GET; break;
    }
    r->http_version = atoi(ltv_tok[3]) ? HTTP_VERSION_1_1 : HTTP_VERSION_1_0;
    r->resp_body_finished = (char)atoi(ltv_tok[4]);
    r->resp_body_started = 1;
    r->keep_alive = (int8_t)atoi(ltv_tok[5]);
    r->handler_module = (flags & 1) ? &dummy_plugin : NULL;
    r->conf.error_intercept = (flags & 2) ? 1 : 0;
    r->conf.max_keep_alive_requests = 100;
    con.request_count = (flags & 4) ? 101 : 1;
    r->conf.max_keep_alive_idle = (flags & 8) ? 0 : 5;
    r->reqbody_length = (flags & 16) ? 10 : 0;
    r->reqbody_queue.bytes_in = 0;
    r->conf.stream_request_body = 0;
    r->conf.server_tag = (flags & 32) ? &server_tag : NULL;
    r->conf.range_requests = 0;
    r->conf.errorfile_prefix = NULL;
    r->error_handler_saved_status = (flags & 128) ? 65535 : (flags & 256) ? 404 : 0;
    r->resp_send_chunked = 0;
    r->resp_decode_chunked = 0;
    r->resp_header_len = 0;
    set_hdrs(r, ltv_tok[7]);
    { size_t n; unsigned char *b = ltv_unhex(ltv_tok[8], &n);
      if (n) chunkqueue_append_mem(&r->write_queue, (char *)b, n);
      free(b); }

    handler_t rc = http_response_write_prepare(r);
    if (rc != HANDLER_GO_ON) { printf("prepare-rc %d\n", (int)rc); goto done; }
    h1_send_headers(r);
    for (int i = 9; i < ltv_ntok && !r->resp_body_finished; ++i) {
        size_t n; unsigned char *b = ltv_unhex(ltv_tok[i], &n);
        http_chunk_append_mem(r, (char *)b, n);
        free(b);
    }
    if (!r->resp_body_finished && (flags & 64)) {
        http_chunk_close(r);
        r->resp_body_finished = 1;
    }
    printf("ka=%d fin=%d ch=%d hlen=%u wire=", r->keep_alive > 0 ? 1 : 0, r->resp_body_finished ? 1 : 0,
           r->resp_send_chunked ? 1 : 0, r->resp_header_len);
    cq_dump_all(&r->write_queue);
    fputc('\n', stdout);
  done:
    r->resp_htags = 0;
    array_reset_data_strings(&r->resp_headers);
    chunkqueue_reset(&r->write_queue);
    buffer_clear(&r->physical.path);
}

/* ---- enc / redir / clen ------------------------------------------------------ */
static void op_enc(void) {
    if (ltv_ntok != 3) { puts("bad-op"); return; }
    const int e = atoi(ltv_tok[1]);
    if (e < 0 || e > 3) { puts("bad-op"); return; }
    size_t n; unsigned char *in = ltv_unhex(ltv_tok[2], &n);
    buffer * const b = buffer_init();
    buffer_append_string_encoded(b, (char *)in, n, (buffer_encoding_t)e);
    ltv_puthex(b->ptr, buffer_clen(b));
    fputc('\n', stdout);
    buffer_free(b);
    free(in);
}

static void op_redir(void) {
    if (ltv_ntok != 7) { puts("bad-op"); return; }
    request_st * const r = &con.request;
    srv.srvconf.absolute_dir_redirect = (unsigned char)atoi(ltv_tok[1]);
    const int status = atoi(ltv_tok[2]);
    size_t n; unsigned char *s;
    s = ltv_unhex(ltv_tok[3], &n); buffer_copy_string_len(&r->uri.scheme, (char *)s, n); free(s);
    s = ltv_unhex(ltv_tok[4], &n); buffer_copy_string_len(&r->uri.authority, (char *)s, n); free(s);
    s = ltv_unhex(ltv_tok[5], &n); buffer_copy_string_len(&r->uri.path, (char *)s, n); free(s);
    s = ltv_unhex(ltv_tok[6], &n); buffer_copy_string_len(&r->uri.query, (char *)s, n); free(s);
    r->http_status = 0;
    if (0 != http_response_redirect_to_directory(r, status)) { puts("err"); }
    else {
        const buffer *vb = (status >= 300)
          ? http_header_response_get(r, HTTP_HEADER_LOCATION, CONST_STR_LEN("Location"))
          : http_header_response_get(r, HTTP_HEADER_CONTENT_LOCATION, CONST_STR_LEN("Content-Location"));
        printf("%d ", r->http_status);
        if (vb) ltv_puthex(vb->ptr, buffer_clen(vb)); else fputs("none", stdout);
        fputc('\n', stdout);
    }
    r->resp_htags = 0;
    r->resp_body_finished = 0;
    array_reset_data_strings(&r->resp_headers);
}

static void set_hdrs(request_st * const r, char *spec) {
    if (0 == strcmp(spec, "-")) return;
    char *save = NULL;
    for (char *h = strtok_r(spec, ",", &save); h; h = strtok_r(NULL, ",", &save)) {
        char *c1 = strchr(h, ':'); if (!c1) continue;
        char *c2 = strchr(c1 + 1, ':'); if (!c2) continue;
        *c1 = 0; *c2 = 0;
        size_t kl, vl;
        unsigned char *k = ltv_unhex(c1 + 1, &kl), *v = ltv_unhex(c2 + 1, &vl);
        const enum http_header_e id = http_header_hkey_get((char *)k, kl);
        if (h[0] == 'i') http_header_response_insert(r, id, (char *)k, kl, (char *)v, vl);
        else             http_header_response_set(r, id, (char *)k, kl, (char *)v, vl);
        free(k); free(v);
    }
}

static void op_s1xx(void) {
    if (ltv_ntok != 3) { puts("bad-op"); return; }
    request_st * const r = &con.request;
    r->http_status = atoi(ltv_tok[1]);
    r->http_version = HTTP_VERSION_1_1;
    set_hdrs(r, ltv_tok[2]);
    chunkqueue_reset(&r->write_queue);
    con.traffic_limit_reached = 1;      /*(queued, to be sent with the next write: nothing is written here)*/
    int rc = h1_send_1xx(r, &con);
    con.traffic_limit_reached = 0;
    printf("%d ", rc);
    cq_dump_all(con.write_queue);
    fputc('\n', stdout);
    r->resp_htags = 0;
    array_reset_data_strings(&r->resp_headers);
    chunkqueue_reset(&r->write_queue);
}

static void op_cfile(void) {
    if (ltv_ntok != 7) { puts("bad-op"); return; }
    request_st * const r = &con.request;
    const int api = ltv_tok[1][0];
    const unsigned long seed = strtoul(ltv_tok[3], NULL, 10), flen = strtoul(ltv_tok[4], NULL, 10);
    const off_t off = (off_t)atoll(ltv_tok[5]), len = (off_t)atoll(ltv_tok[6]);
    chunkqueue_reset(&r->write_queue);
    r->resp_send_chunked = (char)atoi(ltv_tok[2]);
    const char *path = src_file(seed, flen);
    buffer fn; memset(&fn, 0, sizeof(fn));
    buffer_copy_string(&fn, path);
    int rc = 0;
    if (api == 'd')      rc = http_chunk_append_file_fd(r, &fn, open(path, O_RDONLY), (off_t)flen);
    else if (api == 'D') http_chunk_append_file_fd_range(r, &fn, open(path, O_RDONLY), off, len);
    else {
        stat_cache_entry * const sce = stat_cache_get_entry_open(&fn, 1);
        if (NULL == sce) { puts("no-sce"); free(fn.ptr); return; }
        if (api == 'r') rc = http_chunk_append_file_ref(r, sce);
        else            http_chunk_append_file_ref_range(r, sce, off, len);
    }
    printf("%d ", rc);
    cq_dump_all(&r->write_queue);
    fputc('\n', stdout);
    free(fn.ptr);
    r->resp_send_chunked = 0;
    chunkqueue_reset(&r->write_queue);
}

static void op_cshort(void) {
    if (ltv_ntok != 5) { puts("bad-op"); return; }
    request_st * const r = &con.request;
    const int api = ltv_tok[1][0];
    const unsigned long seed = strtoul(ltv_tok[2], NULL, 10), flen = strtoul(ltv_tok[3], NULL, 10),
                        claimed = strtoul(ltv_tok[4], NULL, 10);
    if (claimed > 32768 || flen > claimed) { puts("bad-op"); return; }
    char path[512];
    snprintf(path, sizeof(path), "%s/short_%lu_%lu", root, seed, claimed);
    { FILE *f = fopen(path, "wb"); if (!f) { puts("bad-op"); return; }
      for (unsigned long i = 0; i < claimed; ++i) fputc(pat(seed, i), f);
      fclose(f); }
    buffer fn; memset(&fn, 0, sizeof(fn));
    buffer_copy_string(&fn, path);
    chunkqueue_reset(&r->write_queue);
    r->resp_send_chunked = 1;
    int rc;
    if (api == 'r') {
        stat_cache_entry * const sce = stat_cache_get_entry_open(&fn, 1);   /* size as stat()ed: <claimed> */
        if (NULL == sce || (unsigned long)sce->st.st_size != claimed) { puts("no-sce"); free(fn.ptr); return; }
        if (0 != truncate(path, (off_t)flen)) { puts("bad-op"); free(fn.ptr); return; }
        rc = http_chunk_append_file_ref(r, sce);
    }
    else {
        if (0 != truncate(path, (off_t)flen)) { puts("bad-op"); free(fn.ptr); return; }
        rc = http_chunk_append_file_fd(r, &fn, open(path, O_RDONLY), (off_t)claimed);
    }
    printf("%d ", rc);
    cq_dump_all(&r->write_queue);
    fputc('\n', stdout);
    free(fn.ptr);
    r->resp_send_chunked = 0;
    chunkqueue_reset(&r->write_queue);
}

static void op_clen(void) {
    if (ltv_ntok != 2) { puts("bad-op"); return; }
    request_st * const r = &con.request;
    chunkqueue_reset(&r->write_queue);
    r->resp_send_chunked = 1;
    /* http_chunk_len_append() is static in http_chunk.c: observe it through the public
     * http_chunk_append_file_fd_range() (chunk-size line, <file>, CRLF) */
    buffer fn; memset(&fn, 0, sizeof(fn));
    buffer_copy_string(&fn, "/dev/null");
    http_chunk_append_file_fd_range(r, &fn, open("/dev/null", O_RDONLY), 0, (off_t)atoll(ltv_tok[1]));
    free(fn.ptr);
    cq_dump_hex(&r->write_queue);
    fputc('\n', stdout);
    r->resp_send_chunked = 0;
    chunkqueue_reset(&r->write_queue);
}

int main(void) {
    snprintf(root, sizeof(root), "%s/ltv-h1resp.XXXXXX", getenv("TMPDIR") ? getenv("TMPDIR") : "/tmp");
    if (!mkdtemp(root)) { perror("mkdtemp"); return 3; }
    atexit(cleanup);
    errh = fdlog_init(NULL, open("/dev/null", O_WRONLY), FDLOG_FD);
    chunkqueue_set_tempdirs_default_reset();
    chunkqueue_set_tempdirs_default(NULL, 0);
    log_epoch_secs = 784111777;   /* Sun, 06 Nov 1994 08:49:37 GMT */
    log_monotonic_secs = 1000;
    memset(&srv, 0, sizeof(srv));
    memset(&con, 0, sizeof(con));
    srv.errh = errh;
    srv.tmp_buf = buffer_init();
    buffer_string_prepare_copy(srv.tmp_buf, 4095);   /*(the server allocates it at startup)*/
    srv.plugin_slots = slots;
    con.srv = &srv;
    con.plugin_slots = slots;
    con.fd = -1;
    request_st * const r = &con.request;
    r->con = &con;
    r->tmp_buf = srv.tmp_buf;
    r->conf.errh = errh;
    con.write_queue = &r->write_queue;
    con.read_queue = &r->read_queue;
    chunkqueue_init(&r->write_queue);
    chunkqueue_init(&r->read_queue);
    chunkqueue_init(&r->reqbody_queue);
    buffer_copy_string(&server_tag, "lighttpd/ltv");
    while (ltv_next()) {
        if (ltv_ntok < 1) { puts("bad-op"); continue; }
        const char *op = ltv_tok[0];
        if (0 == strcmp(op, "nw")) op_nw();
        else if (0 == strcmp(op, "prep")) op_prep();
        else if (0 == strcmp(op, "enc")) op_enc();
        else if (0 == strcmp(op, "redir")) op_redir();
        else if (0 == strcmp(op, "clen")) op_clen();
        else if (0 == strcmp(op, "cfile")) op_cfile();
        else if (0 == strcmp(op, "s1xx")) op_s1xx();
        else if (0 == strcmp(op, "cshort")) op_cshort();
        else puts("bad-op");
        fflush(stdout);
    }
    return 0;
}
