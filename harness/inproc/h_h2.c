/* correspondence harness for C05 (in-process, byte level): the real h2.c on one HTTP/2
 * connection whose client byte stream arrives in EXACTLY the read segments the line gives.
 *
 * line:  h2b <table> <seg> <seg> ... q <seg> ... q  (seg = hex octets, "q" ends a step; <table> is
 *        the header-block look-up of the Lean model and is ignored here: lighttpd decodes HPACK --
 *        except for a leading entry "hello=<n0>.<n1>...": the client's hello (connection preface,
 *        SETTINGS, SETTINGS ack = 42 octets) arrives in reads of these sizes, see con_begin())
 *
 *   Before the line's first segment the connection is set up as the e2e client of c05.py
 *   leaves it: h2_init_con() with the client preface, an empty client SETTINGS and the
 *   client's SETTINGS ack already received (their replies are dropped).
 *
 *   Every segment becomes ONE new chunk of con->read_queue (never merged into the previous
 *   chunk), i.e. read boundaries are chunk boundaries, the worst case for the frame reader.
 *   The calls mirror connections.c:connection_state_machine() -> h2.c:h2_process_streams():
 *     - a segment that is not the last one of its step: the read part of h2_process_streams()
 *       (copied below: parse what is left in the read queue, "read", h2_parse_frames()); when
 *       h2_parse_frames() returns 0 (it wants the streams processed before it goes on) one
 *       stream pass of the real h2_process_streams() follows;
 *     - the last segment of a step is delivered by the scripted con->network_read inside the
 *       real h2_process_streams(), which is then called again (as the job queue would) until
 *       nothing more is emitted.
 *   Streams are answered by a scripted response producer (the http_response_loop argument of
 *   h2_process_streams): request path "/r/<status>/<bodylen>" -> that status and a static
 *   in-memory body of that length, at once; a request the parser rejected (r->http_status set)
 *   keeps its status and gets a body of ERRBODY octets.  con->network_write / the
 *   connection_handle_write argument capture what is queued for the client.
 *
 * output: per step the emitted frames in order, steps separated by " / ", then " | fin" or
 *   " | open" (h2_retire_con() ran or not):
 *     SA | PA<8 octets hex> | G<last>,<code> | R<sid>,<code> | W<sid>,<inc> | H<sid>,<status>,<es>:<len>+<len>..
 *     (payload sizes of the HEADERS/CONTINUATION frames) | D<sid>,<len>,<es> (one DATA frame each)
 *     | F<type>.<flags>.<sid>.<len>  (anything else / malformed: the monitor in c05.py rejects it)
 *   "-" = nothing emitted in the step.
 */
#include "first.h"
#include "harness_common.h"
#include <fcntl.h>
#include <unistd.h>
#include <signal.h>
#include "h2.c"                    /* statics: h2_parse_frames, h2_process_streams, ... */
#include "fdlog.h"
#include "reqpool.h"
#include "plugin.h"
#include "http_kv.h"
#include "burl.h"
#include "ls-hpack/lshpack.h"

#define ERRBODY 345

static server g_srv;
static connection g_con;
static request_config g_defconf;
static buffer *g_cap;              /* bytes lighttpd wrote in the current step */
static const unsigned char *g_seg; /* segment the scripted network_read delivers next */
static size_t g_seglen;
static int g_seg_pending;
static char *g_body;               /* static body octets */
static size_t g_bodycap;
static struct lshpack_dec g_peer;  /* the client's HPACK decoder (for :status) */
static int g_peer_ready;
static int g_undelivered;
static int g_body_corrupt;         /* a request body octet that is not a DATA payload octet ('d') */
static buffer *blk; static uint32_t blk_sid; static int blk_es, blk_open; static char blk_sizes[160];

/* own tokenizer: an octet-wise segmentation has far more than LTV_MAXTOK tokens */
static char *hl_line; static size_t hl_cap;
static char **hl_tok; static int hl_ntok, hl_tokcap;

static int hl_next(void) {
    ssize_t n = getline(&hl_line, &hl_cap, stdin);
    if (n <= 0) return 0;
    while (n > 0 && (hl_line[n-1] == '\n' || hl_line[n-1] == '\r')) hl_line[--n] = 0;
    hl_ntok = 0;
    char *save = NULL;
    for (char *t = strtok_r(hl_line, " ", &save); t; t = strtok_r(NULL, " ", &save)) {
        if (hl_ntok == hl_tokcap) {
            hl_tokcap = hl_tokcap ? hl_tokcap * 2 : 256;
            hl_tok = realloc(hl_tok, sizeof(char *) * hl_tokcap);
        }
        hl_tok[hl_ntok++] = t;
    }
    return 1;
}

static void on_alarm(int sig) {
    UNUSED(sig);
    static const char msg[] = "h_h2: case did not terminate within 60 s (no progress)\n";
    if (write(2, msg, sizeof(msg)-1) < 0) {}
    _exit(97);
}

/* one read segment = one new chunk */
static void deliver(chunkqueue *cq, const unsigned char *p, size_t n) {
    buffer *b = chunkqueue_append_buffer_open_sz(cq, n);
    buffer_copy_string_len(b, (const char *)p, n);
    chunkqueue_append_buffer_commit(cq);
}

static int nr_script(connection *con, chunkqueue *cq, off_t max_bytes) {
    UNUSED(max_bytes);
    if (g_seg_pending) {
        if (g_seglen) deliver(cq, g_seg, g_seglen);
        g_seg_pending = 0;
    }
    con->is_readable = 0;          /*(short read: wait for the next event)*/
    return 0;
}

static void capture_cq(chunkqueue *cq) {
    for (const chunk *c = cq->first; c; c = c->next) {
        if (c->type != MEM_CHUNK) continue;
        const size_t n = buffer_clen(c->mem) - (size_t)c->offset;
        buffer_append_string_len(g_cap, c->mem->ptr + c->offset, n);
    }
    chunkqueue_mark_written(cq, chunkqueue_length(cq));
}

static int nw_capture(connection *con, chunkqueue *cq, off_t max_bytes) {
    UNUSED(con); UNUSED(max_bytes);
    capture_cq(cq);
    return 0;
}

/* the connection_handle_write argument of h2_process_streams() */
static int hw_capture(request_st *r, connection *con) {
    UNUSED(r);
    con->write_request_ts = log_monotonic_secs;
    capture_cq(con->write_queue);
    return CON_STATE_WRITE;
}

static const char *g_bodyfile;
static void rm_bodyfile(void) { if (g_bodyfile) unlink(g_bodyfile); }

/* the http_response_loop argument of h2_process_streams() */
static handler_t producer(request_st *r) {
    size_t body = ERRBODY;
    /* what h2_recv_data() put into the request body so far: the generator's DATA octets are all
     * 'd' (Pad Length octets, padding and frame headers are not) */
    for (const chunk *c = r->reqbody_queue.first; c; c = c->next) {
        if (c->type != MEM_CHUNK) continue;
        const char *p = c->mem->ptr + c->offset;
        for (size_t i = 0, n = buffer_clen(c->mem) - (size_t)c->offset; i < n; ++i)
            if (p[i] != 'd') g_body_corrupt = 1;
    }
    int file = 0;
    if (0 == r->http_status) {
        /* "/r/<status>/<bodylen>[/<n>]": body in memory; "/f/...": body is a FILE_CHUNK;
         * a third number n adds a response field "x-pad" of n octets (large header block) */
        int status = 500; unsigned long bl = 0, hl = 0;
        const char *t = r->target.ptr;
        if (t && (0 == strncmp(t, "/r/", 3) || 0 == strncmp(t, "/f/", 3))) {
            char *e = NULL;
            file = (t[1] == 'f');
            status = (int)strtol(t + 3, &e, 10);
            if (e && *e == '/') bl = strtoul(e + 1, &e, 10);
            if (e && *e == '/') hl = strtoul(e + 1, NULL, 10);
        }
        r->http_status = status;
        body = (size_t)bl;
        if (hl) {
            buffer * const v = buffer_init();
            memset(buffer_extend(v, hl), 'a', hl);
            http_header_response_set(r, HTTP_HEADER_OTHER, CONST_STR_LEN("x-pad"), BUF_PTR_LEN(v));
            buffer_free(v);
        }
    }
    if (body > g_bodycap) {
        g_body = realloc(g_body, body);
        memset(g_body + g_bodycap, 'x', body - g_bodycap);
        g_bodycap = body;
    }
    if (body && file) {
        /* a temporary file of 'x' octets, grown on demand; every response gets its own descriptor */
        static char fn[512]; static size_t fsz;
        if (!fn[0]) {
            const char *tmp = getenv("TMPDIR");
            snprintf(fn, sizeof(fn), "%s/ltvh2body.%d", (tmp && *tmp) ? tmp : "/tmp", (int)getpid());
            atexit(rm_bodyfile);
            g_bodyfile = fn;
        }
        if (fsz < body) {
            int wfd = open(fn, O_WRONLY|O_CREAT|O_APPEND, 0600);
            if (wfd >= 0) { if (write(wfd, g_body + fsz, body - fsz) < 0) {} close(wfd); fsz = body; }
        }
        int fd = open(fn, O_RDONLY);
        static buffer fnb;
        fnb.ptr = fn; fnb.used = (uint32_t)strlen(fn) + 1; fnb.size = sizeof(fn);
        if (fd >= 0) chunkqueue_append_file_fd(&r->write_queue, &fnb, fd, 0, (off_t)body);
        else chunkqueue_append_mem(&r->write_queue, g_body, body);
    }
    else if (body) chunkqueue_append_mem(&r->write_queue, g_body, body);
    r->resp_body_finished = 1;
    r->handler_module = NULL;
    return HANDLER_GO_ON;
}

static void glue_init(void) {
    int devnull = open("/dev/null", O_WRONLY);
    memset(&g_srv, 0, sizeof(g_srv));
    g_srv.config_context = array_init(1);
    g_srv.tmp_buf = buffer_init();
    g_srv.errh = fdlog_init(NULL, devnull, FDLOG_FD);
    log_set_global_errh(g_srv.errh, 0);
    memset(&g_defconf, 0, sizeof(g_defconf));
    g_defconf.errh = g_srv.errh;
    g_defconf.max_request_field_size = 8192;
    g_defconf.http_parseopts = HTTP_PARSEOPT_HEADER_STRICT | HTTP_PARSEOPT_HOST_STRICT
                             | HTTP_PARSEOPT_HOST_NORMALIZE | HTTP_PARSEOPT_URL_NORMALIZE
                             | HTTP_PARSEOPT_URL_NORMALIZE_UNRESERVED
                             | HTTP_PARSEOPT_URL_NORMALIZE_CTRLS_REJECT
                             | HTTP_PARSEOPT_URL_NORMALIZE_PATH_2F_DECODE
                             | HTTP_PARSEOPT_URL_NORMALIZE_PATH_DOTSEG_REMOVE;
    g_defconf.h2proto = 2;
    g_defconf.max_keep_alive_idle = 30;
    g_defconf.max_read_idle = 30;
    g_defconf.max_write_idle = 30;
    request_config_set_defaults(&g_defconf);
    chunkqueue_set_tempdirs_default(NULL, 0);
    memset(&g_con, 0, sizeof(g_con));
    g_con.srv = &g_srv;
    g_con.plugin_slots = calloc(256, sizeof(uint16_t));
    g_con.plugin_ctx = calloc(8, sizeof(void *));
    g_con.fd = -1;
    g_con.proto_default_port = 80;
    buffer_copy_string_len(&g_con.dst_addr_buf, CONST_STR_LEN("127.0.0.1"));
    request_init_data(&g_con.request, &g_con, &g_srv);
    g_con.read_queue = &g_con.request.read_queue;
    g_con.write_queue = &g_con.request.write_queue;
    log_epoch_secs = 1700000000;
    log_monotonic_secs = 100000;
    log_con_jqueue = (connection *)(uintptr_t)&log_con_jqueue;   /*(sentinel, as server.c sets it)*/
    g_cap = buffer_init();
}

static int call_process(void);
static int scheduled(int input_waiting);
static int g_stall;
static int g_hello_goaway;         /* error code of a GOAWAY sent while the client's hello was read, -1 = ended */

/* hello = "n0.n1.n2..." (or NULL): sizes of the reads in which the client connection preface, the
 * client's SETTINGS and its SETTINGS ack arrive */
static int g_noack;               /* the client has not (yet) acknowledged the server's SETTINGS */

static void con_begin(const char *hello) {
    request_st * const h2r = &g_con.request;
    memcpy(&h2r->conf, &g_defconf, sizeof(request_config));
    chunkqueue_reset(g_con.read_queue);
    chunkqueue_reset(g_con.write_queue);
    g_con.read_queue->bytes_in = g_con.read_queue->bytes_out = 0;
    g_con.write_queue->bytes_in = g_con.write_queue->bytes_out = 0;
    g_con.request_count = 0;
    g_con.is_readable = 0;
    g_con.is_writable = 1;
    g_con.traffic_limit_reached = 0;
    g_con.network_read = nr_script;
    g_con.network_write = nw_capture;
    g_con.plugin_ctx[0] = NULL;
    h2r->state = CON_STATE_WRITE;              /*(connection_transition_h2())*/
    h2r->http_version = HTTP_VERSION_2;
    h2r->keep_alive = 0;
    /* client connection preface + empty SETTINGS + ack of the server's SETTINGS */
    static const unsigned char hello_octets[] =
      "PRI * HTTP/2.0\r\n\r\nSM\r\n\r\n"
      "\x00\x00\x00\x04\x00\x00\x00\x00\x00"
      "\x00\x00\x00\x04\x01\x00\x00\x00\x00";
    const size_t hlen = sizeof(hello_octets)-1 - (g_noack ? 9 : 0);
    g_hello_goaway = 0;
    if (NULL == hello) {
        chunkqueue_append_mem(g_con.read_queue, (const char *)hello_octets, hlen);
        h2_init_con(h2r, &g_con);
        h2_process_streams(&g_con, producer, hw_capture);
    }
    else {
        /* cleartext prior knowledge: h1_recv_headers() hands the connection over once the first
         * 18 octets ("PRI * HTTP/2.0" CRLF CRLF) are in the read queue (it makes them one chunk);
         * connection_transition_h2() -> h2_init_con(), then connection_state_machine();
         * every later read goes through con->network_read (the preface filter h2_init_con()
         * installs while fewer than 24 octets are there) inside h2_process_streams() */
        size_t pos = 0, n = 0;
        const char *p = hello;
        while (pos + n < 18 && *p >= '0' && *p <= '9') { n += (size_t)strtoul(p, (char **)&p, 10); if (*p == '.') ++p; }
        if (pos + n < 18 || pos + n > hlen) n = hlen;
        deliver(g_con.read_queue, hello_octets, n);
        pos = n;
        h2_init_con(h2r, &g_con);
        g_con.is_readable = 0;
        call_process();
        while (pos < hlen && g_con.hx) {
            n = (*p >= '0' && *p <= '9') ? (size_t)strtoul(p, (char **)&p, 10) : hlen - pos;
            if (*p == '.') ++p;
            if (0 == n || n > hlen - pos) n = hlen - pos;
            g_seg = hello_octets + pos; g_seglen = n; g_seg_pending = 1;
            for (int tries = 0; tries < 64 && g_con.hx && g_seg_pending; ++tries) {
                if (!scheduled(1)) break;
                call_process();
            }
            g_seg_pending = 0;
            pos += n;
        }
        g_con.is_readable = 0;
        for (int i = 0; i < 64 && scheduled(0); ++i)
            if (call_process()) break;
        if (NULL == g_con.hx) g_hello_goaway = -1;
        else if (((h2con *)g_con.hx)->sent_goaway) g_hello_goaway = ((h2con *)g_con.hx)->sent_goaway;
        else if ((!g_noack && ((h2con *)g_con.hx)->sent_settings) || !chunkqueue_is_empty(g_con.read_queue)) g_hello_goaway = -2;
    }
    buffer_clear(g_cap);                       /* drop server preface, SETTINGS ack */
    if (g_peer_ready) lshpack_dec_cleanup(&g_peer);
    lshpack_dec_init(&g_peer);
    g_peer_ready = 1;
    g_undelivered = 0;
    g_stall = 0;
    g_body_corrupt = 0;
    blk_open = 0;
}

static void con_end(void) {
    request_st * const h2r = &g_con.request;
    if (g_con.hx) {
        h2con * const h2c = (h2con *)g_con.hx;
        for (uint32_t i = 0; i < h2c->rused; ++i) h2c->r[i]->http_status = 0;
        h2r->state = CON_STATE_ERROR;
        h2_retire_con(h2r, &g_con);
    }
    chunkqueue_reset(g_con.read_queue);
    chunkqueue_reset(g_con.write_queue);
}

/* one call of h2_process_streams() as connection_state_machine() makes it; 1 = connection retired */
static int call_process(void) {
    if (NULL == g_con.hx) return 1;
    return h2_process_streams(&g_con, producer, hw_capture);
}

/* the part of h2_process_streams() after its read: streams, write, retire (the frames still
 * in the read queue are kept away from the parse at the start of h2_process_streams()) */
static int pass_now(void) {
    if (NULL == g_con.hx) return 1;
    chunkqueue * const cq = g_con.read_queue;
    chunkqueue saved = *cq;
    cq->first = cq->last = NULL;
    cq->bytes_out = cq->bytes_in;
    const int readable = g_con.is_readable;
    g_con.is_readable = 0;
    const int rc = h2_process_streams(&g_con, producer, hw_capture);
    g_con.is_readable = readable;
    /*(nothing touches an empty read queue in between)*/
    *cq = saved;
    return rc;
}

/* a segment followed by more segments of the same step: the read part of h2_process_streams() */
static void read_part(const unsigned char *p, size_t n) {
    for (int tries = 0; tries < 16 && g_con.hx; ++tries) {
        h2con * const h2c = (h2con *)g_con.hx;
        if (h2c->sent_goaway > 0) {            /*(nothing is read after a connection error)*/
            pass_now();
            return;
        }
        if (chunkqueue_is_empty(g_con.read_queue) || h2_parse_frames(&g_con)) {
            chunkqueue * const cq = g_con.read_queue;
            chunkqueue_remove_finished_chunks(cq);
            if (n) deliver(cq, p, n);
            if (n && !h2_parse_frames(&g_con))
                pass_now();
            return;
        }
        pass_now();                            /*(parse returned 0: streams first)*/
    }
    if (g_con.hx) g_undelivered = 1;
}

/* The event loop of server.c, as far as one connection sees it: connection_state_machine() runs
 * when the connection is in the job queue (joblist_append(): con->jqnext set) or when the socket
 * is readable AND read interest is on (connection_set_fdevent_interest(): FDEVENT_IN iff
 * FDEVENT_STREAM_REQUEST_POLLIN, which h2_process_streams() sets from h2_want_read());
 * connection_handle_fdevent() then sets con->is_readable.  The client always reads at once, so
 * there are no write events.  Input that is there while neither holds is never read: the
 * connection has stopped making progress (until a timeout) -- reported as STALL. */
static int scheduled(int input_waiting) {
    if (NULL == g_con.hx) return 0;
    int run = (NULL != g_con.jqnext);
    if (input_waiting && (g_con.request.conf.stream_request_body & FDEVENT_STREAM_REQUEST_POLLIN)) {
        g_con.is_readable = 1;
        run = 1;
    }
    g_con.jqnext = NULL;
    return run;
}

/* the last segment of a step: delivered by con->network_read inside h2_process_streams() */
static void read_last(const unsigned char *p, size_t n) {
    g_seg = p; g_seglen = n; g_seg_pending = 1;
    for (int tries = 0; tries < 64 && g_con.hx && g_seg_pending; ++tries) {
        if (!scheduled(1)) { g_stall = 1; break; }
        call_process();
    }
    if (g_seg_pending && g_con.hx && !g_stall) g_undelivered = 1;
    g_seg_pending = 0;
    g_con.is_readable = 0;
}

static void quiesce(void) {
    for (int i = 0; i < 4096 && scheduled(0); ++i)
        if (call_process()) break;
}

/* :status of a response header block, decoded as the client would */
static int block_status(const unsigned char *p, const unsigned char *end) {
    static char out[65535];
    int status = -1;
    while (p < end) {
        lsxpack_header_t lsx;
        memset(&lsx, 0, sizeof(lsx));
        lsx.buf = out;
        lsx.val_len = sizeof(out);
        if (lshpack_dec_decode(&g_peer, &p, end, &lsx) != LSHPACK_OK) return -2;
        if (lsx.name_len == 7 && 0 == memcmp(out + lsx.name_offset, ":status", 7)) {
            status = 0;
            for (unsigned i = 0; i < lsx.val_len; ++i) status = status * 10 + (out[lsx.val_offset + i] - '0');
        }
    }
    return status;
}

static void print_step(int first) {
    if (!first) fputs(" / ", stdout);
    const unsigned char *u = (const unsigned char *)g_cap->ptr;
    const size_t tot = buffer_clen(g_cap);
    size_t o = 0; int n = 0;
    if (!blk) blk = buffer_init();
    while (o + 9 <= tot) {
        const uint32_t l = ((uint32_t)u[o] << 16) | ((uint32_t)u[o+1] << 8) | u[o+2];
        const unsigned t = u[o+3], fl = u[o+4];
        const uint32_t sid = (((uint32_t)u[o+5] << 24) | ((uint32_t)u[o+6] << 16) | ((uint32_t)u[o+7] << 8) | u[o+8]);
        if (o + 9 + l > tot) break;
        const unsigned char *pl = u + o + 9;
        #define U32(p) (((uint32_t)(p)[0] << 24) | ((uint32_t)(p)[1] << 16) | ((uint32_t)(p)[2] << 8) | (p)[3])
        char tok[288]; tok[0] = 0;
        if (sid & 0x80000000u) snprintf(tok, sizeof(tok), "F%u.%u.R%u.%u", t, fl, sid & 0x7fffffffu, l);
        else if (blk_open && t != H2_FTYPE_CONTINUATION) snprintf(tok, sizeof(tok), "F%u.%u.%u.%u.in-header-block", t, fl, sid, l);
        else if (t == H2_FTYPE_SETTINGS && (fl & H2_FLAG_ACK) && 0 == l && 0 == sid) snprintf(tok, sizeof(tok), "SA");
        else if (t == H2_FTYPE_PING && (fl & H2_FLAG_ACK) && 8 == l && 0 == sid)
            snprintf(tok, sizeof(tok), "PA%02x%02x%02x%02x%02x%02x%02x%02x", pl[0], pl[1], pl[2], pl[3], pl[4], pl[5], pl[6], pl[7]);
        else if (t == H2_FTYPE_GOAWAY && l >= 8 && 0 == sid) snprintf(tok, sizeof(tok), "G%u,%u", U32(pl) & 0x7fffffffu, U32(pl+4));
        else if (t == H2_FTYPE_RST_STREAM && 4 == l && sid) snprintf(tok, sizeof(tok), "R%u,%u", sid, U32(pl));
        else if (t == H2_FTYPE_WINDOW_UPDATE && 4 == l && (U32(pl) & 0x7fffffffu)) snprintf(tok, sizeof(tok), "W%u,%u", sid, U32(pl) & 0x7fffffffu);
        else if (t == H2_FTYPE_DATA && sid && !(fl & ~(unsigned)H2_FLAG_END_STREAM)) snprintf(tok, sizeof(tok), "D%u,%u,%d", sid, l, (fl & H2_FLAG_END_STREAM) ? 1 : 0);
        else if (t == H2_FTYPE_HEADERS && sid && !(fl & ~(unsigned)(H2_FLAG_END_STREAM|H2_FLAG_END_HEADERS))) {
            buffer_copy_string_len(blk, (const char *)pl, l);
            blk_sid = sid; blk_es = (fl & H2_FLAG_END_STREAM) ? 1 : 0; blk_open = !(fl & H2_FLAG_END_HEADERS);
            snprintf(blk_sizes, sizeof(blk_sizes), "%u", l);
            /*(payload sizes of the HEADERS / CONTINUATION frames of the block behind ':')*/
            if (!blk_open) snprintf(tok, sizeof(tok), "H%u,%d,%d:%s", sid,
                                    block_status((unsigned char *)blk->ptr, (unsigned char *)blk->ptr + buffer_clen(blk)), blk_es, blk_sizes);
        }
        else if (t == H2_FTYPE_CONTINUATION && blk_open && sid == blk_sid && !(fl & ~(unsigned)H2_FLAG_END_HEADERS)) {
            buffer_append_string_len(blk, (const char *)pl, l);
            blk_open = !(fl & H2_FLAG_END_HEADERS);
            { const size_t k = strlen(blk_sizes); if (k + 12 < sizeof(blk_sizes)) snprintf(blk_sizes + k, sizeof(blk_sizes) - k, "+%u", l); }
            if (!blk_open) snprintf(tok, sizeof(tok), "H%u,%d,%d:%s", sid,
                                    block_status((unsigned char *)blk->ptr, (unsigned char *)blk->ptr + buffer_clen(blk)), blk_es, blk_sizes);
        }
        else snprintf(tok, sizeof(tok), "F%u.%u.%u.%u", t, fl, sid, l);
        if (tok[0]) { if (n++) fputc(' ', stdout); fputs(tok, stdout); }
        o += 9 + l;
    }
    if (o != tot) { if (n++) fputc(' ', stdout); printf("F-trailing-garbage.%zu", tot - o); }
    if (0 == n) fputc('-', stdout);
    buffer_clear(g_cap);
}

int main(void) {
    glue_init();
    setvbuf(stdout, NULL, _IOLBF, 1 << 16);    /* a sanitizer abort must not lose finished lines */
    signal(SIGALRM, on_alarm);
    while (hl_next()) {
        alarm(60);
        if (hl_ntok < 2 || 0 != strcmp(hl_tok[0], "h2b")) { puts("bad-op"); continue; }
        /* table entries read here: "noack" (first) = no SETTINGS ack in the hello; "hello=<sizes>" */
        const char *opt = hl_tok[1];
        g_noack = 0;
        if (0 == strncmp(opt, "noack", 5)) { g_noack = 1; opt += 5; if (*opt == ';') ++opt; }
        con_begin(0 == strncmp(opt, "hello=", 6) ? opt + 6 : NULL);
        int first = 1;
        for (int k = 2; k < hl_ntok; ) {
            /* one step: tokens up to the next "q" */
            int e = k;
            while (e < hl_ntok && 0 != strcmp(hl_tok[e], "q")) ++e;
            for (int j = k; j < e; ++j) {
                size_t n = 0;
                unsigned char *p = ltv_unhex(hl_tok[j], &n);
                if (j + 1 < e) read_part(p, n);
                else           read_last(p, n);
                free(p);
            }
            quiesce();
            print_step(first); first = 0;
            k = e + 1;
        }
        if (g_hello_goaway) printf(" HELLO-FAILED%d", g_hello_goaway);
        if (g_stall) fputs(" STALL", stdout);
        if (g_undelivered) fputs(" UNDELIVERED", stdout);
        if (g_body_corrupt) fputs(" BODY-CORRUPT", stdout);
        fputs(g_con.hx ? " | open" : " | fin", stdout);
        fputc('\n', stdout);
        con_end();
    }
    alarm(0);
    return 0;
}
