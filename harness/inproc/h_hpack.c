/* correspondence harness for HPACK (C07): src/ls-hpack/lshpack.c is #included so
 * that its static functions are reachable; libnghttp2 is linked as an
 * independent second HPACK peer.
 *
 * ops compared with the Lean model (same output on both sides):
 *   int <pbits> <hex>        lshpack_dec_dec_int     -> "ok <val> <consumed>" | "err"
 *   encint <pbits> <n>       lshpack_enc_enc_int     -> hex
 *   huffenc <hex>            lshpack_enc_huff_encode -> hex
 *   huffdec <cap> <hex>      lshpack_dec_huff_decode -> "ok <hex> ng=<b>" | "err <code> ng=<b>"
 *                            (ng: nghttp2's inflater gives the same verdict/value)
 *   huffrt <hex>             encode, decode back, and decode by nghttp2 -> "<hex> ng=<b> rt=<b>"
 *   str <cap> <hex>          hdec_dec_str            -> "ok <hex> <consumed>" | "err <code>"
 *   encstr <hex>             lshpack_enc_enc_str     -> hex
 *   conn <cap> <op>...       decoder history of one connection (lshpack_dec_decode loops
 *                            as in h2_parse_headers_frame / h2_discard_headers_frame):
 *                            B<hex> served block, D<hex> discarded block ("d" | "d!<rc> dead"),
 *                            S<n> set_max_capacity
 *   connv / connx            same, plus nghttp2's inflater on the same blocks: trailing "x=ok" |
 *                            "x=BAD@<op>" (connv: both must accept and agree; connx: if both
 *                            accept they must agree)
 *                            (lshpack's encoder never emits dynamic table size updates; at this
 *                            lshpack-only level the harness supplies them to nghttp2 after S<n>/C<n>,
 *                            as h2.c does for real connections -- the resp op below injects nothing)
 * tool ops (producers of header blocks; output consumed by the check, not by the model):
 *   lsenc <op>...            real lshpack encoder (history on, as h2_init_con does):
 *                            block "name:value:flags,..." -> hex, "C<n>" set_max_capacity;
 *                            every block is also decoded by nghttp2's inflater: trailing "ng=ok|ng=FAIL.."
 *   ngenc <op>...            nghttp2 deflater: same syntax, "C<n>" change_table_size
 *   ngdec <op>...            nghttp2 inflater: "B<hex>" -> "ok:<fields>" | "e", "C<n>" change_table_size
 * glue ops (real h2.c on an in-process connection, compared with the Lean model):
 *   resp <srvtag 0|1> <item>...   responses of one connection through h2_send_headers() /
 *                            h2_send_hpack(); the emitted HEADERS(+CONTINUATION) frames are
 *                            checked for framing, the block is decoded by nghttp2's inflater:
 *        R<status>/<es>/<op><name>:<value>,...  (op: s=set i=insert a=append; hex) ->
 *                            "ok:<es>:<table size updates leading the block, n+m or ->:<fields>" | "rst" | "BADFRAMES.."
 *        I<status>/0/<ops>   interim response through h2_send_1xx() / h2_send_headers_block()
 *        T0/1/<ops>          response trailers through h2_send_end_stream_trailers() -> "ok:1:<fields>" | "data"
 *        C<n>  peer SETTINGS_HEADER_TABLE_SIZE (h2_parse_frame_settings)   -> "c"
 *        F<n>  peer SETTINGS_MAX_FRAME_SIZE                                 -> "f"
 *   req <maxfield> <item>...   request direction through h2_parse_frames() / h2_recv_continuation() /
 *                            h2_recv_headers() (served, trailers, refused, discarded, after GOAWAY):
 *        H<id>/<es>/<pad|->/<dep|->/<frag>+<frag>../<keep>   HEADERS (+CONTINUATION per extra fragment),
 *              pad = padding octets (PADDED), dep = stream dependency (PRIORITY); lower-case h = every
 *              frame in its own read-queue chunk
 *              -> "new:<id>;v=<view>" | "trl:<id>" | "disc:<id>:<rst code|->" | "defer" | "none", plus
 *                 "!<code>" once an error GOAWAY was sent (ends the line), "~" after a graceful one
 *        A  SETTINGS ack from the peer -> "a";  G  graceful GOAWAY -> "g";  X<id>  stream finished -> "x"
 *        S<id>/<status>  response of tracked stream <id> has begun (r->http_status = status) -> "s"
 *        last tokens: decoder table "T..", "cid=<n>", "nd=<n>" (discarded), "nr=<n>" (refused)
 */
#include "first.h"
#include "harness_common.h"
#include <fcntl.h>
#include <unistd.h>
#include "h2.c"                    /* static glue: h2_send_headers, h2_parse_frames, ... */
#include "fdlog.h"
#include "reqpool.h"
#include "plugin.h"
#include "burl.h"
#include "http_date.h"
#include "http_kv.h"
#include "ls-hpack/lshpack.c"      /* static lshpack internals */
#include <nghttp2/nghttp2.h>

/* own tokenizer: connection histories have far more than LTV_MAXTOK tokens */
static char *hl_line; static size_t hl_cap;
static char **hl_tok; static int hl_ntok, hl_tokcap;

static int hl_next(void) {
    ssize_t n = getline(&hl_line, &hl_cap, stdin);
    if (n <= 0) return 0;
    while (n > 0 && (hl_line[n-1] == '\n' || hl_line[n-1] == '\r')) hl_line[--n] = 0;
    hl_ntok = 0;
    char *save = NULL;
    for (char *t = strtok_r(hl_line, " ", &save); t; t = strtok_r(NULL, " ", &save)) {
        if (hl_ntok == hl_tokcap) {
            hl_tokcap = hl_tokcap ? hl_tokcap * 2 : 256;
            hl_tok = realloc(hl_tok, sizeof(char *) * hl_tokcap);
        }
        hl_tok[hl_ntok++] = t;
    }
    return 1;
}

static void put_field(const char *n, size_t nl, const char *v, size_t vl) {
    ltv_puthex(n, nl); fputc(':', stdout); ltv_puthex(v, vl);
}

/* ------------------------------------------------------------------ conn */

static void dump_table(struct lshpack_dec *dec) {
    printf("T%u/%u/%u:", dec->hpd_max_capacity, dec->hpd_cur_max_capacity, dec->hpd_cur_capacity);
    unsigned n = lshpack_arr_count(&dec->hpd_dyn_table);
    if (0 == n) fputc('-', stdout);
    for (unsigned i = 0; i < n; ++i) {
        struct dec_table_entry *e =
          (struct dec_table_entry *)dec->hpd_dyn_table.els[dec->hpd_dyn_table.off + (n - 1 - i)];
        if (i) fputc(',', stdout);
        put_field(DTE_NAME(e), e->dte_name_len, DTE_VALUE(e), e->dte_val_len);
        printf(":%u", (unsigned)e->dte_name_idx);
    }
}

struct fld { char *n, *v; size_t nl, vl; };
struct fldlist { struct fld *f; int n, cap; };

static void fl_add(struct fldlist *l, const char *n, size_t nl, const char *v, size_t vl) {
    if (l->n == l->cap) { l->cap = l->cap ? l->cap * 2 : 16; l->f = realloc(l->f, sizeof(*l->f) * l->cap); }
    struct fld *x = &l->f[l->n++];
    x->n = malloc(nl + 1); memcpy(x->n, n, nl); x->nl = nl;
    x->v = malloc(vl + 1); memcpy(x->v, v, vl); x->vl = vl;
}

static void fl_free(struct fldlist *l) {
    for (int i = 0; i < l->n; ++i) { free(l->f[i].n); free(l->f[i].v); }
    free(l->f); l->f = NULL; l->n = l->cap = 0;
}

static int c_isspace(int c) { return c == ' ' || (c >= 9 && c <= 13); }

/* same list? (trim: compare names modulo trailing isspace() octets of b's names) */
static int fl_same(const struct fldlist *a, const struct fldlist *b, int trim) {
    if (a->n != b->n) return 0;
    for (int i = 0; i < a->n; ++i) {
        size_t bl = b->f[i].nl;
        if (trim) while (bl > 0 && c_isspace((unsigned char)b->f[i].n[bl-1])) --bl;
        if (a->f[i].nl != bl || memcmp(a->f[i].n, b->f[i].n, bl)) return 0;
        if (a->f[i].vl != b->f[i].vl || memcmp(a->f[i].v, b->f[i].v, a->f[i].vl)) return 0;
    }
    return 1;
}

/* decode one whole block with nghttp2's inflater: 0 ok, -1 error */
static int ng_block(nghttp2_hd_inflater *inf, const unsigned char *in, size_t inlen, struct fldlist *out) {
    if (0 == inlen) return 0;
    for (;;) {
        nghttp2_nv nv; int fl = 0;
        ssize_t rv = nghttp2_hd_inflate_hd2(inf, &nv, &fl, in, inlen, 1);
        if (rv < 0) return -1;
        in += rv; inlen -= (size_t)rv;
        if (fl & NGHTTP2_HD_INFLATE_EMIT)
            fl_add(out, (char *)nv.name, nv.namelen, (char *)nv.value, nv.valuelen);
        if (fl & NGHTTP2_HD_INFLATE_FINAL) { nghttp2_hd_inflate_end_headers(inf); return 0; }
        if (!(fl & NGHTTP2_HD_INFLATE_EMIT) && 0 == inlen) return -1;
    }
}

/* dynamic table size updates a conformant encoder owes its peer after SETTINGS changes
 * (RFC 7541 4.2: the smallest size since the last block, then the final one) */
struct pendupd { int have; uint32_t min, last; };
static void pend_add(struct pendupd *p, uint32_t v) {
    if (!p->have) { p->have = 1; p->min = p->last = v; }
    else { if (v < p->min) p->min = v; p->last = v; }
}
static size_t put_int5(unsigned char *dst, uint32_t v);
static size_t pend_emit(struct pendupd *p, unsigned char *dst) {
    size_t n = 0;
    if (p->have) {
        n += put_int5(dst + n, p->min);
        if (p->last != p->min) n += put_int5(dst + n, p->last);
        p->have = 0;
    }
    return n;
}

static size_t put_int5(unsigned char *dst, uint32_t v) {  /* dynamic table size update, RFC 7541 6.3 */
    unsigned char *p = dst;
    if (v < 31) { *p++ = (unsigned char)(0x20 | v); return 1; }
    *p++ = 0x3f; v -= 31;
    while (v >= 128) { *p++ = (unsigned char)(0x80 | (v & 0x7f)); v >>= 7; }
    *p++ = (unsigned char)v;
    return (size_t)(p - dst);
}

/* mode 0: conn (lshpack only); 1: connv (valid history: nghttp2 must accept and agree);
 * 2: connx (arbitrary blocks: when both decoders accept, the lists must be the same) */
static void op_conn(int mode) {
    struct lshpack_dec dec;
    lshpack_dec_init(&dec);
    nghttp2_hd_inflater *inf = NULL;
    if (mode) nghttp2_hd_inflate_new(&inf);
    int ngdone = 0, xbad = 0;           /* ngdone: stop comparing (diverged / inflater failed) */
    struct pendupd pu = {0};
    unsigned cap = (unsigned)atoi(hl_tok[1]);
    if (cap > 65535) cap = 65535;
    char *buf = malloc(cap ? cap : 1);     /* exact size: ASan sees any overrun */
    int dead = 0;
    for (int k = 2; k < hl_ntok && !dead; ++k) {
        const char *op = hl_tok[k];
        if (op[0] == 'S') {
            unsigned c = (unsigned)strtoul(op+1, NULL, 10);
            lshpack_dec_set_max_capacity(&dec, c);
            if (mode && !ngdone) {
                /* the peer changed its table size: a conformant encoder announces it at the
                 * start of the next block (lshpack's encoder never does: injected for nghttp2) */
                nghttp2_hd_inflate_change_table_size(inf, c);
                pend_add(&pu, c);
            }
            fputs("s ", stdout);
            continue;
        }
        if (op[0] != 'B' && op[0] != 'D') { fputs("bad-op ", stdout); break; }
        size_t n; unsigned char *in = ltv_unhex(op+1, &n);
        unsigned char *blk = malloc(n ? n : 1);   /* exact size, no NUL */
        memcpy(blk, in, n);
        const unsigned char *p = blk, *end = blk + n;
        lsxpack_header_t lsx;
        struct fldlist lsf = {0}, ngf = {0};
        int rc = 0, nf = 0;
        char *mem = NULL; size_t memlen = 0;
        FILE *ms = open_memstream(&mem, &memlen);
        /* decode loop of h2_parse_headers_frame() / h2_discard_headers_frame() */
        while (p < end) {
            memset(&lsx, 0, sizeof(lsx));
            lsx.buf = buf;
            lsx.val_len = (lsxpack_strlen_t)cap;
            rc = lshpack_dec_decode(&dec, &p, end, &lsx);
            if (rc != LSHPACK_OK) break;
            if (nf++) fputc(',', ms);
            FILE *saved = stdout; stdout = ms;
            put_field(lsx.buf + lsx.name_offset, lsx.name_len, lsx.buf + lsx.val_offset, lsx.val_len);
            printf(":%u:%d", (unsigned)lsx.hpack_index, (lsx.flags & LSXPACK_NEVER_INDEX) ? 1 : 0);
            stdout = saved;
            if (mode) fl_add(&lsf, lsx.buf + lsx.name_offset, lsx.name_len, lsx.buf + lsx.val_offset, lsx.val_len);
        }
        fclose(ms);
        if (op[0] == 'D') {
            /* a decoding error in a discarded block is a connection error as well */
            if (rc == LSHPACK_OK) fputs("d ", stdout);
            else { printf("d!%d dead ", rc); dead = 1; }
        }
        else if (rc == LSHPACK_OK) printf("ok:%s ", nf ? mem : "-");
        else { printf("e%d:%s dead ", rc, nf ? mem : "-"); dead = 1; }
        free(mem);
        if (mode && !ngdone) {
            unsigned char *nb = malloc(n + 16);
            size_t npend = n ? pend_emit(&pu, nb) : 0;
            memcpy(nb + npend, blk, n);
            int nrc = ng_block(inf, nb, n + npend, &ngf);
            free(nb);
            if (mode == 1) {
                if (nrc != 0 || rc != LSHPACK_OK || !fl_same(&lsf, &ngf, 0)) { xbad = k; ngdone = 1; }
            }
            else {
                if (nrc != 0 || rc != LSHPACK_OK) ngdone = 1;      /* leniency differs: stop comparing */
                else if (!fl_same(&lsf, &ngf, 0)) { xbad = k; ngdone = 1; }
            }
        }
        fl_free(&lsf); fl_free(&ngf);
        free(blk);
        free(in);
    }
    dump_table(&dec);
    if (mode) { if (xbad) printf(" x=BAD@%d", xbad - 2); else fputs(" x=ok", stdout); }
    fputc('\n', stdout);
    free(buf);
    if (inf) nghttp2_hd_inflate_del(inf);
    lshpack_dec_cleanup(&dec);
}

/* Huffman-coded value through nghttp2: literal field "a: <huff>"; 1 = accepted, value in out */
static int ng_huff(const unsigned char *h, size_t hl, struct fldlist *out) {
    nghttp2_hd_inflater *inf; nghttp2_hd_inflate_new(&inf);
    unsigned char *b = malloc(hl + 16), *p = b;
    *p++ = 0x00; *p++ = 0x01; *p++ = 'a';
    if (hl < 127) *p++ = (unsigned char)(0x80 | hl);
    else { uint32_t v = (uint32_t)hl - 127; *p++ = 0xff;
           while (v >= 128) { *p++ = (unsigned char)(0x80 | (v & 0x7f)); v >>= 7; } *p++ = (unsigned char)v; }
    memcpy(p, h, hl); p += hl;
    int rc = ng_block(inf, b, (size_t)(p - b), out);
    free(b);
    nghttp2_hd_inflate_del(inf);
    return rc == 0 && out->n == 1;
}

/* ------------------------------------------------------------- producers */

struct hfield { unsigned char *n, *v; size_t nl, vl; int flags; };

/* "name:value:flags,name:value:flags" ("-" = empty block) */
static int parse_block(char *s, struct hfield **out) {
    int n = 0, capf = 0; struct hfield *f = NULL;
    if (s[0] == '-' && s[1] == 0) { *out = NULL; return 0; }
    char *save = NULL;
    for (char *t = strtok_r(s, ",", &save); t; t = strtok_r(NULL, ",", &save)) {
        char *c1 = strchr(t, ':'); if (!c1) break; *c1++ = 0;
        char *c2 = strchr(c1, ':'); if (!c2) break; *c2++ = 0;
        if (n == capf) { capf = capf ? capf * 2 : 16; f = realloc(f, sizeof(*f) * capf); }
        f[n].n = ltv_unhex(t, &f[n].nl);
        f[n].v = ltv_unhex(c1, &f[n].vl);
        f[n].flags = atoi(c2);
        ++n;
    }
    *out = f;
    return n;
}

static void free_block(struct hfield *f, int n) {
    for (int i = 0; i < n; ++i) { free(f[i].n); free(f[i].v); }
    free(f);
}

/* decode one block with nghttp2's inflater; returns 0 and prints nothing,
 * comparing against the expected fields */
static int ng_check(nghttp2_hd_inflater *inf, const unsigned char *in, size_t inlen,
                    const struct hfield *f, int nf) {
    int k = 0;
    for (;;) {
        nghttp2_nv nv; int fl = 0;
        ssize_t rv = nghttp2_hd_inflate_hd2(inf, &nv, &fl, in, inlen, 1);
        if (rv < 0) return -1;
        in += rv; inlen -= (size_t)rv;
        if (fl & NGHTTP2_HD_INFLATE_EMIT) {
            if (k >= nf) return -2;
            if (nv.namelen != f[k].nl || memcmp(nv.name, f[k].n, nv.namelen)) return -3;
            if (nv.valuelen != f[k].vl || memcmp(nv.value, f[k].v, nv.valuelen)) return -4;
            ++k;
        }
        if (fl & NGHTTP2_HD_INFLATE_FINAL) { nghttp2_hd_inflate_end_headers(inf); break; }
        if (!(fl & NGHTTP2_HD_INFLATE_EMIT) && 0 == inlen) return -5;
    }
    return (k == nf) ? 0 : -6;
}

static void op_lsenc(void) {
    struct lshpack_enc enc;
    lshpack_enc_init(&enc);
    lshpack_enc_use_hist(&enc, 1);
    nghttp2_hd_inflater *inf; nghttp2_hd_inflate_new(&inf);
    unsigned char *dst = malloc(1 << 20);
    char *hb = malloc(1 << 18);
    int ngbad = 0, ngwhere = -1;
    struct pendupd pu = {0};
    for (int k = 1; k < hl_ntok; ++k) {
        if (hl_tok[k][0] == 'C') {
            unsigned c = (unsigned)strtoul(hl_tok[k]+1, NULL, 10);
            lshpack_enc_set_max_capacity(&enc, c);
            /* the decoding peer lowered its table size; lshpack's encoder never emits the
             * dynamic table size update RFC 7541 4.2 asks for: injected for nghttp2 only */
            nghttp2_hd_inflate_change_table_size(inf, c);
            pend_add(&pu, c);
            fputs("c ", stdout);
            continue;
        }
        struct hfield *f; int nf = parse_block(hl_tok[k], &f);
        unsigned char *p = dst, *end = dst + (1 << 20);
        int fail = 0;
        for (int i = 0; i < nf; ++i) {
            /* as h2_send_headers(): value first, '\0', then name, in one buffer */
            memcpy(hb, f[i].v, f[i].vl); hb[f[i].vl] = 0;
            memcpy(hb + f[i].vl + 1, f[i].n, f[i].nl);
            lsxpack_header_t lsx; memset(&lsx, 0, sizeof(lsx));
            lsx.buf = hb;
            lsx.name_offset = (lsxpack_offset_t)(f[i].vl + 1);
            lsx.name_len = (lsxpack_strlen_t)f[i].nl;
            lsx.val_offset = 0;
            lsx.val_len = (lsxpack_strlen_t)f[i].vl;
            if (f[i].flags & 1) lsx.flags = LSXPACK_NEVER_INDEX;
            if (f[i].flags & 2) lsx.indexed_type = 1;
            unsigned char *q = lshpack_enc_encode(&enc, p, end, &lsx);
            if (q == p) { fail = 1; break; }
            p = q;
        }
        if (fail) fputs("FAIL ", stdout);
        else {
            ltv_puthex(dst, (size_t)(p - dst)); fputc(' ', stdout);
            if (!ngbad && nf) {
                unsigned char pb[16];
                size_t npend = pend_emit(&pu, pb);
                memmove(dst + npend, dst, (size_t)(p - dst));
                memcpy(dst, pb, npend);
                p += npend;
                int rc = ng_check(inf, dst, (size_t)(p - dst), f, nf);
                if (rc) { ngbad = rc; ngwhere = k; }
            }
        }
        free_block(f, nf);
    }
    if (ngbad) printf("ng=FAIL%d@%d\n", ngbad, ngwhere); else puts("ng=ok");
    free(dst); free(hb);
    nghttp2_hd_inflate_del(inf);
    lshpack_enc_cleanup(&enc);
}

static void op_ngenc(void) {
    nghttp2_hd_deflater *def; nghttp2_hd_deflate_new(&def, 4096);
    unsigned char *dst = malloc(1 << 20);
    for (int k = 1; k < hl_ntok; ++k) {
        if (hl_tok[k][0] == 'C') {
            nghttp2_hd_deflate_change_table_size(def, strtoul(hl_tok[k]+1, NULL, 10));
            fputs("c ", stdout);
            continue;
        }
        struct hfield *f; int nf = parse_block(hl_tok[k], &f);
        nghttp2_nv *nva = calloc(nf ? nf : 1, sizeof(*nva));
        for (int i = 0; i < nf; ++i) {
            nva[i].name = f[i].n; nva[i].namelen = f[i].nl;
            nva[i].value = f[i].v; nva[i].valuelen = f[i].vl;
            nva[i].flags = (f[i].flags & 1) ? NGHTTP2_NV_FLAG_NO_INDEX : NGHTTP2_NV_FLAG_NONE;
        }
        ssize_t rv = nghttp2_hd_deflate_hd(def, dst, 1 << 20, nva, (size_t)nf);
        if (rv < 0) fputs("FAIL ", stdout);
        else { ltv_puthex(dst, (size_t)rv); fputc(' ', stdout); }
        free(nva);
        free_block(f, nf);
    }
    fputc('\n', stdout);
    free(dst);
    nghttp2_hd_deflate_del(def);
}

static void op_ngdec(void) {
    nghttp2_hd_inflater *inf; nghttp2_hd_inflate_new(&inf);
    for (int k = 1; k < hl_ntok; ++k) {
        if (hl_tok[k][0] == 'C') {
            nghttp2_hd_inflate_change_table_size(inf, strtoul(hl_tok[k]+1, NULL, 10));
            fputs("c ", stdout);
            continue;
        }
        size_t n; unsigned char *in0 = ltv_unhex(hl_tok[k]+1, &n);
        const unsigned char *in = in0; size_t inlen = n;
        char *mem = NULL; size_t memlen = 0;
        FILE *ms = open_memstream(&mem, &memlen);
        int nf = 0, bad = 0;
        for (;;) {
            nghttp2_nv nv; int fl = 0;
            ssize_t rv = nghttp2_hd_inflate_hd2(inf, &nv, &fl, in, inlen, 1);
            if (rv < 0) { bad = 1; break; }
            in += rv; inlen -= (size_t)rv;
            if (fl & NGHTTP2_HD_INFLATE_EMIT) {
                FILE *saved = stdout; stdout = ms;
                if (nf++) fputc(',', stdout);
                put_field((char *)nv.name, nv.namelen, (char *)nv.value, nv.valuelen);
                stdout = saved;
            }
            if (fl & NGHTTP2_HD_INFLATE_FINAL) { nghttp2_hd_inflate_end_headers(inf); break; }
            if (!(fl & NGHTTP2_HD_INFLATE_EMIT) && 0 == inlen) { bad = 1; break; }
        }
        fclose(ms);
        if (bad) { fputs("e ", stdout); free(mem); free(in0); break; }
        printf("ok:%s ", nf ? mem : "-");
        free(mem); free(in0);
    }
    fputc('\n', stdout);
    nghttp2_hd_inflate_del(inf);
}


/* ------------------------------------------------------------ h2.c glue */

static server g_srv;
static connection g_con;
static request_config g_defconf;
static buffer g_server_tag;
static int g_ready;

static int g_nr(connection *c, chunkqueue *cq, off_t max) { (void)c; (void)cq; (void)max; return 0; }
static int g_nw(connection *c, chunkqueue *cq, off_t max) { (void)c; (void)cq; (void)max; return 0; }

static void glue_init(void) {
    if (g_ready) return;
    g_ready = 1;
    int devnull = open("/dev/null", O_WRONLY);
    memset(&g_srv, 0, sizeof(g_srv));
    g_srv.config_context = array_init(1);
    g_srv.tmp_buf = buffer_init();
    g_srv.errh = fdlog_init(NULL, devnull, FDLOG_FD);
    log_set_global_errh(g_srv.errh, 0);
    memset(&g_defconf, 0, sizeof(g_defconf));
    g_defconf.errh = g_srv.errh;
    g_defconf.max_request_field_size = 8192;
    g_defconf.http_parseopts = HTTP_PARSEOPT_HEADER_STRICT | HTTP_PARSEOPT_HOST_STRICT
                             | HTTP_PARSEOPT_HOST_NORMALIZE | HTTP_PARSEOPT_URL_NORMALIZE
                             | HTTP_PARSEOPT_URL_NORMALIZE_UNRESERVED
                             | HTTP_PARSEOPT_URL_NORMALIZE_CTRLS_REJECT
                             | HTTP_PARSEOPT_URL_NORMALIZE_PATH_2F_DECODE
                             | HTTP_PARSEOPT_URL_NORMALIZE_PATH_DOTSEG_REMOVE;
    g_defconf.h2proto = 2;
    g_defconf.max_keep_alive_idle = 5;
    request_config_set_defaults(&g_defconf);
    chunkqueue_set_tempdirs_default(NULL, 0);
    memset(&g_con, 0, sizeof(g_con));
    g_con.srv = &g_srv;
    g_con.plugin_slots = calloc(256, sizeof(uint16_t));
    g_con.plugin_ctx = calloc(8, sizeof(void *));
    g_con.fd = -1;
    g_con.proto_default_port = 80;
    buffer_copy_string_len(&g_con.dst_addr_buf, CONST_STR_LEN("127.0.0.1"));
    request_init_data(&g_con.request, &g_con, &g_srv);
    g_con.read_queue = &g_con.request.read_queue;
    g_con.write_queue = &g_con.request.write_queue;
    g_con.network_read = g_nr;
    g_con.network_write = g_nw;
    log_epoch_secs = 1700000000;
    log_monotonic_secs = 1000;
    /* server.tag as configfile.c prepares it: "tag" '\0' "server" */
    memset(&g_server_tag, 0, sizeof(g_server_tag));
    buffer_copy_string_len(&g_server_tag, CONST_STR_LEN("ltv/1.0"));
    buffer_string_prepare_append(&g_server_tag, 6);
    memcpy(g_server_tag.ptr + buffer_clen(&g_server_tag) + 1, "server", 6);
}

static void con_begin(uint32_t maxfield) {
    glue_init();
    request_st * const h2r = &g_con.request;
    g_defconf.max_request_field_size = maxfield;
    h2r->conf.max_request_field_size = maxfield;
    chunkqueue_reset(g_con.read_queue);
    chunkqueue_reset(g_con.write_queue);
    g_con.read_queue->bytes_in = g_con.read_queue->bytes_out = 0;
    g_con.write_queue->bytes_in = g_con.write_queue->bytes_out = 0;
    g_con.request_count = 0;
    h2r->state = CON_STATE_READ;
    h2r->http_version = HTTP_VERSION_2;
    chunkqueue_append_mem(g_con.read_queue, CONST_STR_LEN("PRI * HTTP/2.0\r\n\r\nSM\r\n\r\n"));
    h2_init_con(h2r, &g_con);
    chunkqueue_reset(g_con.write_queue);   /* drop the server preface */
    g_con.write_queue->bytes_in = g_con.write_queue->bytes_out = 0;
}

static void con_end(void) {
    request_st * const h2r = &g_con.request;
    if (g_con.hx) {
        h2con * const h2c = (h2con *)g_con.hx;
        for (uint32_t i = 0; i < h2c->rused; ++i) h2c->r[i]->http_status = 0; /*(no request_done hooks)*/
        h2r->state = CON_STATE_ERROR;
        h2_retire_con(h2r, &g_con);
    }
    chunkqueue_reset(g_con.read_queue);
    chunkqueue_reset(g_con.write_queue);
}

/* take everything lighttpd queued for the peer */
static unsigned char *wq_take(size_t *len) {
    chunkqueue * const cq = g_con.write_queue;
    size_t tot = 0;
    for (const chunk *c = cq->first; c; c = c->next)
        if (c->type == MEM_CHUNK) tot += buffer_clen(c->mem) - (size_t)c->offset;
    unsigned char *b = malloc(tot + 1), *p = b;
    for (const chunk *c = cq->first; c; c = c->next) {
        if (c->type != MEM_CHUNK) continue;
        size_t n = buffer_clen(c->mem) - (size_t)c->offset;
        memcpy(p, c->mem->ptr + c->offset, n); p += n;
    }
    chunkqueue_reset(cq);
    *len = tot;
    return b;
}

static void apply_hdr_ops(request_st *r, char *ops) {
    if (ops[0] == '-' && ops[1] == 0) return;
    char *save = NULL;
    for (char *t = strtok_r(ops, ",", &save); t; t = strtok_r(NULL, ",", &save)) {
        const char op = t[0];
        char *c1 = strchr(t + 1, ':'); if (!c1) continue; *c1++ = 0;
        size_t kl, vl;
        unsigned char *k = ltv_unhex(t + 1, &kl), *v = ltv_unhex(c1, &vl);
        const enum http_header_e id = http_header_hkey_get((char *)k, kl);
        if (op == 's') http_header_response_set(r, id, (char *)k, (uint32_t)kl, (char *)v, (uint32_t)vl);
        else if (op == 'i') http_header_response_insert(r, id, (char *)k, (uint32_t)kl, (char *)v, (uint32_t)vl);
        else if (op == 'a') http_header_response_append(r, id, (char *)k, (uint32_t)kl, (char *)v, (uint32_t)vl);
        free(k); free(v);
    }
}

#define SEP() do { if (ntokout++) fputc(' ', stdout); } while (0)
static void op_resp(void) {
    int ntokout = 0;
    con_begin(8192);
    h2con * const h2c = (h2con *)g_con.hx;
    const int srvtag = atoi(hl_tok[1]);
    nghttp2_hd_inflater *inf; nghttp2_hd_inflate_new(&inf);
    uint32_t sid = 1;
    char date[40]; memset(date, 0, sizeof(date));
    http_date_time_to_str(date, sizeof(date), log_epoch_secs);
    for (int k = 2; k < hl_ntok; ++k) {
        char *it = hl_tok[k];
        if (it[0] == 'C' || it[0] == 'F') {
            const uint32_t v = (uint32_t)strtoul(it + 1, NULL, 10);
            uint8_t pl[6] = { 0x00, (uint8_t)(it[0] == 'C' ? 0x01 : 0x05),
                              (uint8_t)(v >> 24), (uint8_t)(v >> 16), (uint8_t)(v >> 8), (uint8_t)v };
            h2_parse_frame_settings(&g_con, pl, 6);
            if (it[0] == 'C') {
                /* the peer's decoder takes its new limit; the dynamic table size update RFC 7541
                 * 4.2 asks for must come from lighttpd at the start of the next header block */
                nghttp2_hd_inflate_change_table_size(inf, v);
                SEP(); fputs("c", stdout);
            }
            else { SEP(); fputs("f", stdout); }
            if (h2c->sent_goaway) { SEP(); fputs("goaway", stdout); break; }
            continue;
        }
        if (it[0] != 'R' && it[0] != 'I' && it[0] != 'T') { SEP(); fputs("bad-op", stdout); break; }
        char *p1 = strchr(it, '/'); if (!p1) { SEP(); fputs("bad-op", stdout); break; } *p1++ = 0;
        char *p2 = strchr(p1, '/'); if (!p2) { SEP(); fputs("bad-op", stdout); break; } *p2++ = 0;
        const int status = atoi(it + 1), es = atoi(p1);
        request_st * const r = h2_init_stream(&g_con.request, &g_con);
        r->x.h2.id = sid;
        r->x.h2.state = H2_STATE_HALF_CLOSED_REMOTE;
        r->state = CON_STATE_WRITE;
        r->conf.server_tag = srvtag ? &g_server_tag : NULL;
        if (it[0] == 'T') {
            /* response trailers "Name: value\r\n...\r\n" through h2_send_end_stream_trailers() */
            buffer * const tb = buffer_init();
            if (!(p2[0] == '-' && p2[1] == 0)) {
                char *sv = NULL;
                for (char *t = strtok_r(p2, ",", &sv); t; t = strtok_r(NULL, ",", &sv)) {
                    char *c1 = strchr(t + 1, ':'); if (!c1) continue; *c1++ = 0;
                    size_t kl, vl; unsigned char *kk = ltv_unhex(t + 1, &kl), *vv = ltv_unhex(c1, &vl);
                    buffer_append_str2(tb, (char *)kk, kl, CONST_STR_LEN(": "));
                    buffer_append_str2(tb, (char *)vv, vl, CONST_STR_LEN("\r\n"));
                    free(kk); free(vv);
                }
            }
            buffer_append_string_len(tb, CONST_STR_LEN("\r\n"));
            r->http_status = 200;
            h2_send_end_stream_trailers(r, &g_con, tb);
            buffer_free(tb);
        }
        else {
            apply_hdr_ops(r, p2);
            r->http_status = status;
            r->resp_body_finished = es ? 1 : 0;
            if (it[0] == 'I') h2_send_1xx(r, &g_con);
            else h2_send_headers(r, &g_con);
        }
        size_t wl; unsigned char *w = wq_take(&wl);
        /* frames: HEADERS CONTINUATION* for this stream, END_HEADERS on the last only,
         * END_STREAM only on HEADERS, every frame within the peer's SETTINGS_MAX_FRAME_SIZE */
        unsigned char *blk = malloc(wl + 1); size_t bl = 0;
        int bad = 0, nfr = 0, done = 0, fes = 0, rst = 0;
        for (size_t o = 0; o < wl && !bad; ) {
            if (wl - o < 9) { bad = 1; break; }
            const uint32_t fl = ((uint32_t)w[o] << 16) | ((uint32_t)w[o+1] << 8) | w[o+2];
            const int ty = w[o+3], fg = w[o+4];
            const uint32_t fid = (((uint32_t)w[o+5] << 24) | ((uint32_t)w[o+6] << 16) | ((uint32_t)w[o+7] << 8) | w[o+8]);
            if (wl - o - 9 < fl) { bad = 2; break; }
            if (ty == H2_FTYPE_RST_STREAM && 0 == nfr) { rst = 1; o += 9 + fl; continue; }
            if (ty == H2_FTYPE_DATA && 0 == nfr && 0 == fl && fg == H2_FLAG_END_STREAM && fid == sid) { rst = 2; o += 9; continue; }
            if (done || fid != sid || fl > h2c->s_max_frame_size) { bad = 3; break; }
            if (0 == nfr) { if (ty != H2_FTYPE_HEADERS || (fg & ~(H2_FLAG_END_STREAM|H2_FLAG_END_HEADERS))) { bad = 4; break; }
                            fes = (fg & H2_FLAG_END_STREAM) ? 1 : 0; }
            else if (ty != H2_FTYPE_CONTINUATION || (fg & ~H2_FLAG_END_HEADERS)) { bad = 5; break; }
            memcpy(blk + bl, w + o + 9, fl); bl += fl;
            if (fg & H2_FLAG_END_HEADERS) done = 1;
            ++nfr;
            o += 9 + fl;
        }
        if (!bad && !rst && !done) bad = 6;
        if (bad) { SEP(); printf("BADFRAMES%d", bad); }
        else if (rst) { SEP(); fputs(rst == 2 ? "data" : "rst", stdout); }
        else {
            struct fldlist ngf = {0};
            if (0 != ng_block(inf, blk, bl, &ngf)) { SEP(); fputs("NGFAIL", stdout); }
            else {
                SEP(); printf("ok:%d:", fes);
                /* dynamic table size updates at the start of the block */
                int nu = 0;
                for (size_t o = 0; o < bl && (blk[o] & 0xe0) == 0x20; ++nu) {
                    uint32_t v = blk[o++] & 0x1f;
                    if (v == 31) { unsigned sh = 0; uint32_t b;
                        do { b = o < bl ? blk[o++] : 0; v += (b & 0x7f) << sh; sh += 7; } while ((b & 0x80) && sh < 28); }
                    printf("%s%u", nu ? "+" : "", v);
                }
                if (0 == nu) fputc('-', stdout);
                fputc(':', stdout);
                if (0 == ngf.n) fputc('-', stdout);
                for (int i = 0; i < ngf.n; ++i) {
                    if (i) fputc(',', stdout);
                    if (ngf.f[i].nl == 4 && 0 == memcmp(ngf.f[i].n, "date", 4)
                        && ngf.f[i].vl == strlen(date) && 0 == memcmp(ngf.f[i].v, date, ngf.f[i].vl)
                        && !light_btst(r->resp_htags, HTTP_HEADER_DATE))
                        put_field("date", 4, "AUTO", 4);
                    else
                        put_field(ngf.f[i].n, ngf.f[i].nl, ngf.f[i].v, ngf.f[i].vl);
                }
            }
            fl_free(&ngf);
        }
        free(blk); free(w);
        r->http_status = 0;
        h2_retire_stream(r, &g_con);
        sid += 2;
    }
    fputc('\n', stdout);
    nghttp2_hd_inflate_del(inf);
    con_end();
}


/* ------------------------------------------------ request direction glue */

static request_st *find_stream(h2con *h2c, uint32_t id) {
    for (uint32_t i = 0; i < h2c->rused; ++i)
        if (h2c->r[i]->x.h2.id == id) return h2c->r[i];
    return NULL;
}

static void put_frame_hdr(unsigned char *p, uint32_t len, int type, int flags, uint32_t id) {
    p[0] = (unsigned char)(len >> 16); p[1] = (unsigned char)(len >> 8); p[2] = (unsigned char)len;
    p[3] = (unsigned char)type; p[4] = (unsigned char)flags;
    p[5] = (unsigned char)(id >> 24); p[6] = (unsigned char)(id >> 16); p[7] = (unsigned char)(id >> 8); p[8] = (unsigned char)id;
}

static void put_view(const request_st *r) {
    printf(";v=%d|", r->http_status);
    if (r->http_method > HTTP_METHOD_UNSET) { const buffer *mb = http_method_buf(r->http_method); ltv_puthex(mb->ptr, buffer_clen(mb)); }
    else fputc('_', stdout);
    fputc('|', stdout);
    ltv_puthex(r->target.ptr, buffer_clen(&r->target)); fputc('|', stdout);
    if (r->http_host) ltv_puthex(r->http_host->ptr, buffer_clen(r->http_host)); else fputc('_', stdout);
    printf("|%lld|", (long long)r->reqbody_length);
    if (0 == r->rqst_headers.used) fputc('-', stdout);
    for (uint32_t i = 0; i < r->rqst_headers.used; ++i) {
        const data_string * const ds = (data_string *)r->rqst_headers.data[i];
        if (i) fputc(',', stdout);
        /* the id a header is filed under must be the id of its name (handlers look it up by id) */
        if (ds->ext != (int)http_header_hkey_get(ds->key.ptr, buffer_clen(&ds->key))) fputs("IDBAD", stdout);
        printf("%d.", ds->ext);
        ltv_puthex(ds->key.ptr, buffer_clen(&ds->key)); fputc('=', stdout);
        ltv_puthex(ds->value.ptr, buffer_clen(&ds->value));
    }
}

static void op_req(void) {
    con_begin((uint32_t)strtoul(hl_tok[1], NULL, 10));
    h2con * const h2c = (h2con *)g_con.hx;
    int ntokout = 0;
    for (int k = 2; k < hl_ntok; ++k) {
        char *it = hl_tok[k];
        if (it[0] == 'A') {
            static const unsigned char ack[9] = { 0, 0, 0, H2_FTYPE_SETTINGS, H2_FLAG_ACK, 0, 0, 0, 0 };
            chunkqueue_append_mem(g_con.read_queue, (const char *)ack, 9);
            h2_parse_frames(&g_con);
            SEP(); fputs("a", stdout);
        }
        else if (it[0] == 'G') {
            h2_send_goaway(&g_con, H2_E_NO_ERROR);
            SEP(); fputs("g", stdout);
        }
        else if (it[0] == 'X') {
            request_st *r = find_stream(h2c, (uint32_t)strtoul(it + 1, NULL, 10));
            if (r) { r->http_status = 0; h2_retire_stream(r, &g_con); }
            SEP(); fputs("x", stdout);
        }
        else if (it[0] == 'S') {
            /* S<id>/<status>: the response of a tracked stream has begun (a backend answered while the
             * request body is still streamed): r->http_status != 0 when the trailers arrive */
            char *sl = strchr(it, '/');
            request_st *r = find_stream(h2c, (uint32_t)strtoul(it + 1, NULL, 10));
            if (r && sl) r->http_status = atoi(sl + 1);
            SEP(); fputs("s", stdout);
        }
        else if (it[0] == 'H' || it[0] == 'h') {
            /* H<id>/<es>/<pad>/<dep>/<frags>/<keep> */
            /* (an optional 7th field tells the model at which field the request parser gives up) */
            char *f[7]; int nf = 0; char *save = NULL;
            for (char *t = strtok_r(it + 1, "/", &save); t && nf < 7; t = strtok_r(NULL, "/", &save)) f[nf++] = t;
            if (nf < 6) { SEP(); fputs("bad-op", stdout); break; }
            const uint32_t id = (uint32_t)strtoul(f[0], NULL, 10);
            const int es = atoi(f[1]);
            const int padded = f[2][0] != '-', prio = f[3][0] != '-';
            const uint32_t pad = padded ? (uint32_t)atoi(f[2]) : 0;
            const uint32_t dep = prio ? (uint32_t)strtoul(f[3], NULL, 10) : 0;
            const int keep = atoi(f[5]);
            /* fragments */
            unsigned char *frag[64]; size_t fragl[64]; int nfrag = 0; char *s2 = NULL;
            for (char *t = strtok_r(f[4], "+", &s2); t && nfrag < 64; t = strtok_r(NULL, "+", &s2))
                frag[nfrag++] = ltv_unhex(t, &fragl[nfrag]);
            if (0 == nfrag) { SEP(); fputs("bad-op", stdout); break; }
            const int had = NULL != find_stream(h2c, id);
            const uint32_t nd0 = h2c->n_discarded_headers;
            const int ga0 = h2c->sent_goaway;
            for (int j = 0; j < nfrag; ++j) {
                size_t pl = fragl[j] + (j == 0 ? (padded ? 1 + pad : 0) + (prio ? 5 : 0) : 0);
                unsigned char *fr = calloc(1, 9 + pl + 1), *p = fr + 9;
                int fl = (j == nfrag - 1) ? H2_FLAG_END_HEADERS : 0;
                if (j == 0) {
                    fl |= (es ? H2_FLAG_END_STREAM : 0) | (padded ? H2_FLAG_PADDED : 0) | (prio ? H2_FLAG_PRIORITY : 0);
                    if (padded) *p++ = (unsigned char)pad;
                    if (prio) { p[0] = (unsigned char)(dep >> 24); p[1] = (unsigned char)(dep >> 16);
                                p[2] = (unsigned char)(dep >> 8); p[3] = (unsigned char)dep; p[4] = 15; p += 5; }
                }
                memcpy(p, frag[j], fragl[j]);
                put_frame_hdr(fr, (uint32_t)pl, j == 0 ? H2_FTYPE_HEADERS : H2_FTYPE_CONTINUATION, fl, id);
                if (it[0] == 'h' || j == 0) chunkqueue_append_mem_min(g_con.read_queue, (char *)fr, 9 + pl);
                else chunkqueue_append_mem(g_con.read_queue, (char *)fr, 9 + pl);
                free(fr);
                free(frag[j]);
            }
            h2_parse_frames(&g_con);
            const int deferred = chunkqueue_length(g_con.read_queue) >= 9;
            if (deferred) chunkqueue_reset(g_con.read_queue);
            /* RST_STREAM frames lighttpd queued */
            size_t wl; unsigned char *w = wq_take(&wl);
            int rstcode = -1;
            for (size_t o = 0; o + 9 <= wl; ) {
                const uint32_t fl = ((uint32_t)w[o] << 16) | ((uint32_t)w[o+1] << 8) | w[o+2];
                const uint32_t fid = ((uint32_t)w[o+5] << 24) | ((uint32_t)w[o+6] << 16) | ((uint32_t)w[o+7] << 8) | w[o+8];
                if (w[o+3] == H2_FTYPE_RST_STREAM && fl == 4 && o + 13 <= wl && rstcode < 0 && fid == id)
                    rstcode = (int)(((uint32_t)w[o+9] << 24) | ((uint32_t)w[o+10] << 16) | ((uint32_t)w[o+11] << 8) | w[o+12]);
                o += 9 + fl;
            }
            free(w);
            request_st *r = find_stream(h2c, id);
            SEP();
            if (deferred && h2c->sent_goaway <= 0) fputs("defer", stdout);
            else if (r && !had) printf("new:%u", id);
            else if (h2c->n_discarded_headers != nd0) {
                if (rstcode >= 0) printf("disc:%u:%d", id, rstcode); else printf("disc:%u:-", id);
            }
            else if (had) printf("trl:%u", id);      /* trailers decoded (with or without HPACK error) */
            else fputs("none", stdout);
            if (h2c->sent_goaway > 0) printf("!%d", h2c->sent_goaway);
            else if (h2c->sent_goaway < 0 && 0 == ga0) fputc('~', stdout);
            if (r && !had && !deferred) {          /* (the view comes last in the token) */
                put_view(r);
                if (!keep) { r->http_status = 0; h2_retire_stream(r, &g_con); }
            }
            if (h2c->sent_goaway > 0) break;
        }
        else { SEP(); fputs("bad-op", stdout); break; }
    }
    SEP();
    dump_table(&h2c->decoder);
    if (h2c->sent_goaway > 0) fputs(" cid=-", stdout);      /* (last-stream-id of a dead connection: not compared) */
    else printf(" cid=%u", h2c->h2_cid);
    printf(" nd=%u nr=%u\n", (unsigned)h2c->n_discarded_headers, (unsigned)h2c->n_refused_stream);
    con_end();
}

/* ------------------------------------------------------------------ main */

int main(void) {
    while (hl_next()) {
        if (hl_ntok < 1) { puts("bad-op"); continue; }
        const char *op = hl_tok[0];
        if (0 == strcmp(op, "int") && hl_ntok == 3) {
            size_t n; unsigned char *in = ltv_unhex(hl_tok[2], &n);
            unsigned char *blk = malloc(n ? n : 1); memcpy(blk, in, n);
            if (0 == n) puts("err");
            else {
                const unsigned char *p = blk; uint32_t v = 0;
                int rc = lshpack_dec_dec_int(&p, blk + n, (unsigned)atoi(hl_tok[1]), &v);
                if (rc) puts("err"); else printf("ok %u %d\n", v, (int)(p - blk));
            }
            free(blk); free(in);
        }
        else if (0 == strcmp(op, "encint") && hl_ntok == 3) {
            unsigned char b[16]; memset(b, 0, sizeof(b));
            unsigned char *e = lshpack_enc_enc_int(b, b + sizeof(b), (uint32_t)strtoul(hl_tok[2], NULL, 10),
                                                   (uint8_t)atoi(hl_tok[1]));
            ltv_puthex(b, (size_t)(e - b)); fputc('\n', stdout);
        }
        else if (0 == strcmp(op, "huffenc") && hl_ntok == 2) {
            size_t n; unsigned char *in = ltv_unhex(hl_tok[1], &n);
            unsigned char *out = malloc(n * 4 + 16);
            int rc = lshpack_enc_huff_encode(in, in + n, out, (int)(n * 4 + 16));
            if (rc < 0) puts("err"); else { ltv_puthex(out, (size_t)rc); fputc('\n', stdout); }
            free(out); free(in);
        }
        else if (0 == strcmp(op, "huffdec") && hl_ntok == 3) {
            size_t n; unsigned char *in = ltv_unhex(hl_tok[2], &n);
            unsigned char *blk = malloc(n ? n : 1); memcpy(blk, in, n);
            int cap = atoi(hl_tok[1]);
            unsigned char *out = malloc(cap ? cap : 1);
            int rc = lshpack_dec_huff_decode(blk, (int)n, out, cap);
            int ng = 1;
            if (cap >= 64 && n <= 12) {       /* output space cannot be the reason: compare verdicts */
                struct fldlist ngf = {0};
                int acc = ng_huff(blk, n, &ngf);
                if (rc < 0) ng = !acc;
                else ng = acc && ngf.f[0].vl == (size_t)rc && 0 == memcmp(ngf.f[0].v, out, (size_t)rc);
                fl_free(&ngf);
            }
            if (rc < 0) printf("err %d ng=%d\n", rc <= LSHPACK_ERR_MORE_BUF ? LSHPACK_ERR_MORE_BUF : rc, ng);
            else { fputs("ok ", stdout); ltv_puthex(out, (size_t)rc); printf(" ng=%d\n", ng); }
            free(out); free(blk); free(in);
        }
        else if (0 == strcmp(op, "str") && hl_ntok == 3) {
            size_t n; unsigned char *in = ltv_unhex(hl_tok[2], &n);
            unsigned char *blk = malloc(n ? n : 1); memcpy(blk, in, n);
            int cap = atoi(hl_tok[1]);
            unsigned char *out = malloc(cap ? cap : 1);
            const unsigned char *p = blk;
            int rc = hdec_dec_str(out, (size_t)cap, &p, blk + n);
            if (rc < 0) printf("err %d\n", rc <= LSHPACK_ERR_MORE_BUF ? LSHPACK_ERR_MORE_BUF : rc);
            else { fputs("ok ", stdout); ltv_puthex(out, (size_t)rc); printf(" %d\n", (int)(p - blk)); }
            free(out); free(blk); free(in);
        }
        else if (0 == strcmp(op, "encstr") && hl_ntok == 2) {
            size_t n; unsigned char *in = ltv_unhex(hl_tok[1], &n);
            unsigned char *out = malloc(n * 4 + 16);
            int rc = lshpack_enc_enc_str(out, n * 4 + 16, in, (unsigned)n);
            if (rc < 0) puts("err"); else { ltv_puthex(out, (size_t)rc); fputc('\n', stdout); }
            free(out); free(in);
        }
        else if (0 == strcmp(op, "conn") && hl_ntok >= 2) op_conn(0);
        else if (0 == strcmp(op, "connv") && hl_ntok >= 2) op_conn(1);
        else if (0 == strcmp(op, "connx") && hl_ntok >= 2) op_conn(2);
        else if (0 == strcmp(op, "huffrt") && hl_ntok == 2) {
            size_t n; unsigned char *in = ltv_unhex(hl_tok[1], &n);
            unsigned char *enc = malloc(n * 4 + 16), *back = malloc(n + 16);
            int el = lshpack_enc_huff_encode(in, in + n, enc, (int)(n * 4 + 16));
            if (el < 0) puts("err");
            else {
                int dl = lshpack_dec_huff_decode(enc, el, back, (int)(n + 16));
                struct fldlist ngf = {0};
                int ng = ng_huff(enc, (size_t)el, &ngf) && ngf.f[0].vl == n && 0 == memcmp(ngf.f[0].v, in, n);
                ltv_puthex(enc, (size_t)el);
                printf(" ng=%d rt=%d\n", ng, dl == (int)n && 0 == memcmp(back, in, n));
                fl_free(&ngf);
            }
            free(enc); free(back); free(in);
        }
        else if (0 == strcmp(op, "resp") && hl_ntok >= 2) op_resp();
        else if (0 == strcmp(op, "req") && hl_ntok >= 2) op_req();
        else if (0 == strcmp(op, "lsenc")) op_lsenc();
        else if (0 == strcmp(op, "ngenc")) op_ngenc();
        else if (0 == strcmp(op, "ngdec")) op_ngdec();
        else puts("bad-op");
        fflush(stdout);
    }
    return 0;
}
