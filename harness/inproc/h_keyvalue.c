/* correspondence harness for C20: keyvalue.c (real PCRE2), burl_append, mod_rewrite,
 * mod_redirect, mod_alias, mod_simple_vhost, mod_evhost.
 *
 * One case per line; fields are hex ("-" = empty, "~" = NULL/unset where allowed).
 *   caps  = <subject>@<ovec>     ovec = "-" | pair,pair,..   pair = "u" | <start>.<end>
 *   cond  = "~" | caps           (enclosing condition's match: comp_value @ captures)
 *   url   = <scheme>,<authority>,<port>,<path>,<query>
 *   rules = "." | <pattern>:<template>;...
 *   trace = "." | res/res/..     res = "N" (no match) | "E" (PCRE2 error) | <ovec>
 *           (one entry per rule: result of pcre2_match of that rule on the subject);
 *           "?" asks the harness to print the trace instead of running the case.
 *   table = "." | <target>=<trace>|...   (same, for every request-target reached)
 *
 *   app <flags> <s> <look>            burl_append(s, flags) with `look` following s in memory
 *   nkey <k> | nval <v>               pcre_keyvalue_burl_normalize_key / _value
 *   subst <tmpl> <caps> <cond> <url>  pcre_keyvalue_buffer_subst with the given captures
 *   proc <rules> <subject> <cond> <url> <trace>
 *                                     pcre_keyvalue_buffer_process -> go -|go m|err|fin m <hex>
 *   redir <code> <get-or-head> <http10> <rules> <cond> <url> <trace>
 *                                     mod_redirect_uri_handler -> none|err|<status> <location>
 *   rw <repeat_idx> <rules> <target> <cond> <scheme> <authority> <server-name> <port> <parseopts> <table>
 *                                     http_request_parse_target + mod_rewrite_uri_handler, re-dispatched
 *                                     on HANDLER_COMEBACK like http_response_handler does
 *                                     -> served <target> <n>|status <code> <n>|failed <n>
 *                                     (authority "~" = no Host header: uri.authority is blank and
 *                                     ${url.authority} is r->server_name = <server-name>)
 *   nf <kind> <handler> <repeat_idx> <rules> <target> <cond> <scheme> <authority> <server-name> <port> <trace>
 *                                     mod_rewrite_physical (url.rewrite[-repeat]-if-not-file) with
 *                                     r->physical.path naming an object of the given kind in a scratch
 *                                     tree (reg dir dirslash missing missingslash lnreg lndir lndirslash
 *                                     lndangling below regslash fifo) -> go|comeback <target>|failed|status <c>
 *   alias <nocase> <k:v;..> <basedir> <path>   mod_alias_remap -> 403|<path> <basedir>
 *   svhost <sroot> <host|~> <droot|~>          build_doc_root_path (mod_simple_vhost)
 *   evhost <pattern> <authority>               mod_evhost_parse_pattern + _build_doc_root_path
 * A supplied trace/table is verified against the real PCRE2 ("trace-bad" if it differs).
 */
#include "first.h"
#include "harness_common.h"
#include <fcntl.h>
#include <unistd.h>
#include <sys/stat.h>
#include <sys/types.h>
#include "base.h"
#include "buffer.h"
#include "burl.h"
#include "fdlog.h"
#include "http_header.h"
#include "plugin_config.h"
#include "request.h"
#include "sock_addr.h"

#include "keyvalue.c"

#define plugin_config rw_plugin_config
#define plugin_data   rw_plugin_data
#include "mod_rewrite.c"
#undef plugin_config
#undef plugin_data
#define plugin_config rd_plugin_config
#define plugin_data   rd_plugin_data
#include "mod_redirect.c"
#undef plugin_config
#undef plugin_data
#define plugin_config al_plugin_config
#define plugin_data   al_plugin_data
#include "mod_alias.c"
#undef plugin_config
#undef plugin_data
#define plugin_config sv_plugin_config
#define plugin_data   sv_plugin_data
#include "mod_simple_vhost.c"
#undef plugin_config
#undef plugin_data
#define plugin_config ev_plugin_config
#define plugin_data   ev_plugin_data
#include "mod_evhost.c"
#undef plugin_config
#undef plugin_data

/* ------------------------------------------------------------------ parsing */

static int is_tilde(const char *s) { return s[0] == '~' && s[1] == 0; }

/* split s in place on character c; returns count */
static int split(char *s, char c, char **out, int max) {
    int n = 0;
    out[n++] = s;
    for (; *s; ++s)
        if (*s == c) { *s = 0; if (n < max) out[n++] = s + 1; }
    return n;
}

static void buf_set_hex(buffer *b, const char *hex) {
    size_t n; unsigned char *in = ltv_unhex(hex, &n);
    buffer_copy_string_len(b, (char *)in, n);
    free(in);
}

/* fresh, exactly-sized heap string (so ASan sees over-reads) */
static buffer *buf_new_hex(const char *hex) {
    buffer *b = ck_calloc(1, sizeof(*b));
    size_t n; unsigned char *in = ltv_unhex(hex, &n);
    b->ptr = (char *)in; b->used = (uint32_t)n + 1; b->size = (uint32_t)n + 1;
    return b;
}
static void buf_del(buffer *b) { if (b) { free(b->ptr); free(b); } }

#define MAXPAIR 64
typedef struct { int n; PCRE2_SIZE v[2*MAXPAIR]; } ovec_t;

static int parse_ovec(char *s, ovec_t *o) {
    o->n = 0;
    if (s[0] == '-' && s[1] == 0) return 1;
    char *p[MAXPAIR];
    int n = split(s, ',', p, MAXPAIR);
    for (int i = 0; i < n; ++i) {
        if (p[i][0] == 'u') { o->v[2*i] = o->v[2*i+1] = PCRE2_UNSET; }
        else {
            char *dot = strchr(p[i], '.');
            if (!dot) return 0;
            o->v[2*i] = strtoul(p[i], NULL, 10);
            o->v[2*i+1] = strtoul(dot + 1, NULL, 10);
        }
    }
    o->n = n;
    return 1;
}

typedef struct { buffer *subject; ovec_t ov; } caps_t;

static int parse_caps(char *s, caps_t *c) {
    char *at = strchr(s, '@');
    if (!at) return 0;
    *at = 0;
    c->subject = buf_new_hex(s);
    return parse_ovec(at + 1, &c->ov);
}

typedef struct {
    int present;
    caps_t caps;
    cond_match_t cache;
} cond_t;

static int parse_cond(char *s, cond_t *c) {
    memset(c, 0, sizeof(*c));
    if (is_tilde(s)) return 1;
    c->present = 1;
    if (!parse_caps(s, &c->caps)) return 0;
    c->cache.comp_value = c->caps.subject;
    c->cache.captures = c->caps.ov.n;
    c->cache.matches = c->caps.ov.v;
    return 1;
}
static void cond_free(cond_t *c) { if (c->present) buf_del(c->caps.subject); }

typedef struct {
    struct burl_parts_t burl;
    buffer *scheme, *authority, *path, *query;
} url_t;

static int parse_url(char *s, url_t *u) {
    char *f[5];
    memset(u, 0, sizeof(*u));
    if (split(s, ',', f, 5) != 5) return 0;
    u->scheme    = is_tilde(f[0]) ? NULL : buf_new_hex(f[0]);
    u->authority = is_tilde(f[1]) ? NULL : buf_new_hex(f[1]);
    u->path      = buf_new_hex(f[3]);
    u->query     = buf_new_hex(is_tilde(f[4]) ? "-" : f[4]);
    if (is_tilde(f[4])) u->query->used = 0; /* unset (as after buffer_clear()) */
    u->burl.scheme = u->scheme;
    u->burl.authority = u->authority;
    u->burl.port = (unsigned short)atoi(f[2]);
    u->burl.path = u->path;
    u->burl.query = u->query;
    return 1;
}
static void url_free(url_t *u) {
    buf_del(u->scheme); buf_del(u->authority); buf_del(u->path); buf_del(u->query);
}

#define MAXRULES 32
typedef struct {
    int n;
    buffer *key[MAXRULES], *val[MAXRULES];
    pcre_keyvalue_buffer *kvb;
} rules_t;

static fdlog_st *errh;

static int parse_rules(char *s, rules_t *R) {
    memset(R, 0, sizeof(*R));
    R->kvb = pcre_keyvalue_buffer_init();
    if (s[0] == '.' && s[1] == 0) return 1;
    char *kv[MAXRULES];
    int n = split(s, ';', kv, MAXRULES);
    for (int i = 0; i < n; ++i) {
        char *c = strchr(kv[i], ':');
        if (!c) return 0;
        *c = 0;
        R->key[i] = buf_new_hex(kv[i]);
        R->val[i] = buf_new_hex(c + 1);
        if (buffer_clen(R->val[i]) == 0) R->val[i]->used = 1;
        R->n = i + 1;
        if (!pcre_keyvalue_buffer_append(errh, R->kvb, R->key[i], R->val[i], 1)) return -1;
    }
    return 1;
}
static void rules_free(rules_t *R) {
    if (R->kvb) pcre_keyvalue_buffer_free(R->kvb);
    for (int i = 0; i < R->n; ++i) { buf_del(R->key[i]); buf_del(R->val[i]); }
}

/* result of matching every rule on subj, in trace syntax, appended to out */
static void trace_of(const rules_t *R, const buffer *subj, buffer *out) {
    if (0 == R->n) { buffer_append_char(out, '.'); return; }
    for (int i = 0; i < R->n; ++i) {
        const pcre_keyvalue *kv = R->kvb->kv + i;
        if (i) buffer_append_char(out, '/');
        int n = pcre2_match(kv->code, (PCRE2_SPTR)BUF_PTR_LEN(subj), 0, 0, kv->match_data, NULL);
        if (n == PCRE2_ERROR_NOMATCH) buffer_append_char(out, 'N');
        else if (n <= 0) buffer_append_char(out, 'E');
        else {
            const PCRE2_SIZE *ov = pcre2_get_ovector_pointer(kv->match_data);
            for (int k = 0; k < n; ++k) {
                if (k) buffer_append_char(out, ',');
                if (ov[2*k] == PCRE2_UNSET) buffer_append_char(out, 'u');
                else {
                    buffer_append_int(out, (intmax_t)ov[2*k]);
                    buffer_append_char(out, '.');
                    buffer_append_int(out, (intmax_t)ov[2*k+1]);
                }
            }
        }
    }
}

static void append_hex(buffer *out, const buffer *b) {
    static const char hx[] = "0123456789abcdef";
    const uint32_t n = buffer_clen(b);
    if (0 == n) buffer_append_char(out, '-');
    for (uint32_t i = 0; i < n; ++i) {
        buffer_append_char(out, hx[((unsigned char)b->ptr[i]) >> 4]);
        buffer_append_char(out, hx[((unsigned char)b->ptr[i]) & 15]);
    }
}

static void put_hex_buf(const buffer *b) { ltv_puthex(b->ptr ? b->ptr : "", buffer_clen(b)); }

/* ------------------------------------------------------------------ request fixture */

static server srv;
static connection con;
static server_socket srv_sock;
static request_st *r;
static buffer *host_buf, *srvname_buf;

static void fixture_init(void) {
    memset(&srv, 0, sizeof(srv));
    memset(&con, 0, sizeof(con));
    memset(&srv_sock, 0, sizeof(srv_sock));
    srv.tmp_buf = buffer_init();
    srv.errh = errh;
    r = &con.request;
    r->con = &con;
    con.srv = &srv;
    con.srv_socket = &srv_sock;
    con.plugin_ctx = ck_calloc(16, sizeof(void *));
    r->plugin_ctx = ck_calloc(16, sizeof(void *));
    r->cond_match = ck_calloc(4, sizeof(cond_match_t *));
    r->tmp_buf = srv.tmp_buf;
    r->conf.errh = errh;
    host_buf = buffer_init();
    srvname_buf = buffer_init();
    buffer_copy_string_len(srvname_buf, CONST_STR_LEN("server.name"));
}

static void fixture_request(const char *scheme_hex, const char *auth_hex, int port, unsigned int opts) {
    (void)scheme_hex;
    srv_sock.addr.ipv4.sin_family = AF_INET;
    srv_sock.addr.ipv4.sin_port = htons((unsigned short)port);
    r->conf.http_parseopts = opts;
    r->http_method = HTTP_METHOD_GET;
    r->http_version = HTTP_VERSION_1_1;
    r->h2_connect_ext = 0;
    r->http_status = 0;
    r->handler_module = NULL;
    r->server_name = srvname_buf;
    if (is_tilde(auth_hex)) { r->http_host = NULL; buffer_copy_string_len(&r->uri.authority, "", 0); }
    else { buf_set_hex(host_buf, auth_hex); r->http_host = host_buf;
           buffer_copy_string_len_lc(&r->uri.authority, BUF_PTR_LEN(host_buf)); }
}

static int scheme_port_of(const char *scheme_hex) {
    /* http_request_parse_target() derives uri.scheme from the port: 443 -> https */
    return 0 == strcmp(scheme_hex, "6874747073") ? 443 : 80;
}

/* ------------------------------------------------------------------ ops */

static void op_app(void) {
    size_t n, ln;
    unsigned char *s = ltv_unhex(ltv_tok[2], &n);
    unsigned char *l = ltv_unhex(ltv_tok[3], &ln);
    char *mem = malloc(n + ln + 1);
    memcpy(mem, s, n); memcpy(mem + n, l, ln); mem[n + ln] = 0;
    buffer *b = buffer_init();
    buffer_copy_string_len(b, "", 0);
    burl_append(b, mem, n, atoi(ltv_tok[1]));
    put_hex_buf(b); fputc('\n', stdout);
    buffer_free(b); free(mem); free(s); free(l);
}

static void op_norm(int key) {
    buffer *b = buffer_init(), *t = buffer_init();
    buf_set_hex(b, ltv_tok[1]);
    if (key) pcre_keyvalue_burl_normalize_key(b, t);
    else pcre_keyvalue_burl_normalize_value(b, t);
    put_hex_buf(b); fputc('\n', stdout);
    buffer_free(b); buffer_free(t);
}

static void op_subst(void) {
    caps_t caps; cond_t cond; url_t url;
    memset(&caps, 0, sizeof(caps)); memset(&cond, 0, sizeof(cond)); memset(&url, 0, sizeof(url));
    buffer *tmpl = buf_new_hex(ltv_tok[1]);
    if (!parse_caps(ltv_tok[2], &caps) || !parse_cond(ltv_tok[3], &cond)
        || !parse_url(ltv_tok[4], &url) || caps.ov.n < 1) { puts("bad-op"); goto out; }
    pcre_keyvalue_ctx ctx; memset(&ctx, 0, sizeof(ctx));
    ctx.cache = cond.present ? &cond.cache : NULL;
    ctx.burl = &url.burl;
    ctx.n = caps.ov.n;
    ctx.ovec = caps.ov.v;
    ctx.subject = caps.subject->ptr;
    buffer *b = buffer_init();
    pcre_keyvalue_buffer_subst(b, tmpl, &ctx);
    put_hex_buf(b); fputc('\n', stdout);
    buffer_free(b);
out:
    buf_del(tmpl); buf_del(caps.subject); cond_free(&cond); url_free(&url);
}

/* returns 1 if the caller should go on with the case, 0 if a line has been printed */
static int check_trace(const rules_t *R, const buffer *subj, const char *given) {
    buffer *tr = buffer_init();
    trace_of(R, subj, tr);
    int rc = 1;
    if (given[0] == '?' && given[1] == 0) { printf("trace %s\n", tr->ptr); rc = 0; }
    else if (0 != strcmp(tr->ptr, given)) { puts("trace-bad"); rc = 0; }
    buffer_free(tr);
    return rc;
}

static void op_proc(void) {
    rules_t R; cond_t cond; url_t url;
    memset(&cond, 0, sizeof(cond)); memset(&url, 0, sizeof(url));
    buffer *subj = buf_new_hex(ltv_tok[2]);
    int pr = parse_rules(ltv_tok[1], &R);
    if (pr < 0) { puts("badpat"); goto out; }
    if (!pr || !parse_cond(ltv_tok[3], &cond) || !parse_url(ltv_tok[4], &url)) { puts("bad-op"); goto out; }
    if (!check_trace(&R, subj, ltv_tok[5])) goto out;
    pcre_keyvalue_ctx ctx; memset(&ctx, 0, sizeof(ctx));
    ctx.cache = cond.present ? &cond.cache : NULL;
    ctx.burl = &url.burl;
    ctx.m = -1;
    buffer *b = buffer_init();
    handler_t rc = pcre_keyvalue_buffer_process(R.kvb, &ctx, subj, b);
    if (rc == HANDLER_GO_ON) { if (ctx.m < 0) puts("go -"); else printf("go %d\n", ctx.m); }
    else if (rc == HANDLER_FINISHED) { printf("fin %d ", ctx.m); put_hex_buf(b); fputc('\n', stdout); }
    else puts("err");
    buffer_free(b);
out:
    rules_free(&R); buf_del(subj); cond_free(&cond); url_free(&url);
}

static void op_redir(void) {
    /* redir <code> <goh> <h10> <rules> <cond> <url> <trace> */
    rules_t R; cond_t cond; url_t url;
    memset(&cond, 0, sizeof(cond)); memset(&url, 0, sizeof(url));
    int pr = parse_rules(ltv_tok[4], &R);
    if (pr < 0) { puts("badpat"); goto out; }
    if (!pr || !parse_cond(ltv_tok[5], &cond) || !parse_url(ltv_tok[6], &url)) { puts("bad-op"); goto out; }
    if (!check_trace(&R, url.path, ltv_tok[7])) goto out;
    {
        rd_plugin_data p; memset(&p, 0, sizeof(p));
        p.id = 2;
        p.defaults.redirect = R.kvb;
        p.defaults.redirect_code = (unsigned short)atoi(ltv_tok[1]);
        R.kvb->x0 = 1;
        r->cond_match[0] = cond.present ? &cond.cache : NULL;
        fixture_request("-", "~", url.burl.port, 0);
        r->http_method = atoi(ltv_tok[2]) ? HTTP_METHOD_GET : HTTP_METHOD_POST;
        r->http_version = atoi(ltv_tok[3]) ? HTTP_VERSION_1_0 : HTTP_VERSION_1_1;
        buffer_copy_string_len(&r->uri.scheme, url.scheme ? url.scheme->ptr : "", url.scheme ? buffer_clen(url.scheme) : 0);
        buffer_copy_string_len(&r->uri.authority, url.authority ? url.authority->ptr : "", url.authority ? buffer_clen(url.authority) : 0);
        r->server_name = &r->uri.authority; /* only consulted when uri.authority is blank */
        buffer_copy_string_len(&r->target, BUF_PTR_LEN(url.path));
        if (url.query->used) buffer_copy_string_len(&r->uri.query, BUF_PTR_LEN(url.query));
        else buffer_clear(&r->uri.query);
        handler_t rc = mod_redirect_uri_handler(r, &p);
        if (rc == HANDLER_GO_ON) puts("none");
        else if (rc == HANDLER_FINISHED) {
            const buffer *loc = http_header_response_get(r, HTTP_HEADER_LOCATION, CONST_STR_LEN("Location"));
            printf("%d ", r->http_status);
            if (loc) put_hex_buf(loc); else fputs("~", stdout);
            fputc('\n', stdout);
        }
        else puts("err");
        http_header_response_unset(r, HTTP_HEADER_LOCATION, CONST_STR_LEN("Location"));
        r->http_status = 0;
    }
out:
    rules_free(&R); cond_free(&cond); url_free(&url);
}

static void op_rw(void) {
    /* rw <ridx> <rules> <target> <cond> <scheme> <authority> <srvname> <port> <opts> <table> */
    rules_t R; cond_t cond;
    memset(&cond, 0, sizeof(cond));
    int pr = parse_rules(ltv_tok[2], &R);
    if (pr < 0) { puts("badpat"); goto out; }
    if (!pr || !parse_cond(ltv_tok[4], &cond)) { puts("bad-op"); goto out; }
    const int want_trace = (ltv_tok[10][0] == '?' && ltv_tok[10][1] == 0);
    if (!want_trace && !(ltv_tok[10][0] == '.' && ltv_tok[10][1] == 0)) {
        /* verify every table entry against PCRE2 */
        char *copy = strdup(ltv_tok[10]);
        char *ent[256];
        int n = split(copy, '|', ent, 256), ok = 1;
        for (int i = 0; i < n && ok; ++i) {
            char *eq = strchr(ent[i], '=');
            if (!eq) { ok = 0; break; }
            *eq = 0;
            buffer *t = buf_new_hex(ent[i]);
            buffer *tr = buffer_init();
            trace_of(&R, t, tr);
            if (0 != strcmp(tr->ptr, eq + 1)) ok = 0;
            buffer_free(tr); buf_del(t);
        }
        free(copy);
        if (!ok) { puts("trace-bad"); goto out; }
    }
    {
        rw_plugin_data p; memset(&p, 0, sizeof(p));
        p.id = 1;
        p.defaults.rewrite = R.kvb;
        R.kvb->x0 = 1;
        R.kvb->x1 = atoi(ltv_tok[1]);
        r->cond_match[0] = cond.present ? &cond.cache : NULL;
        r->plugin_ctx[p.id] = NULL;
        const int sport = scheme_port_of(ltv_tok[5]);
        fixture_request(ltv_tok[5], ltv_tok[6], atoi(ltv_tok[8]), (unsigned int)atoi(ltv_tok[9]));
        buf_set_hex(srvname_buf, ltv_tok[7]);
        buf_set_hex(&r->target, ltv_tok[3]);
        buffer_clear(&r->physical.path);
        buffer *table = buffer_init();
        int nrew = 0;
        int status = http_request_parse_target(r, sport);
        if (status) { if (want_trace) puts("trace ."); else printf("status %d 0\n", status); buffer_free(table); goto out; }
        int toolong = 0;
        for (int iter = 0; iter < 400; ++iter) {
            if (want_trace && buffer_clen(&r->target) > 4096) {
                /* exponentially growing rewrite (e.g. "$0$0"): the generator drops such cases */
                toolong = 1;
                break;
            }
            if (want_trace && R.n) {
                if (buffer_clen(table)) buffer_append_char(table, '|');
                append_hex(table, &r->target);
                buffer_append_char(table, '=');
                trace_of(&R, &r->target, table);
            }
            handler_t rc = mod_rewrite_uri_handler(r, &p);
            if (rc == HANDLER_COMEBACK) {
                ++nrew;
                /* http_response_comeback() */
                if (r->http_host) buffer_copy_string_len_lc(&r->uri.authority, BUF_PTR_LEN(r->http_host));
                else buffer_copy_string_len(&r->uri.authority, "", 0);
                status = http_request_parse_target(r, sport);
                if (status) { if (!want_trace) printf("status %d %d\n", status, nrew); break; }
                continue;
            }
            if (want_trace) break;
            if (rc == HANDLER_GO_ON) { fputs("served ", stdout); put_hex_buf(&r->target); printf(" %d\n", nrew); }
            else printf("failed %d\n", nrew);
            break;
        }
        if (toolong) puts("toolong");
        else if (want_trace) printf("trace %s\n", buffer_clen(table) ? table->ptr : ".");
        buffer_free(table);
        r->plugin_ctx[p.id] = NULL;
    }
out:
    rules_free(&R); cond_free(&cond);
}

/* scratch tree for the filesystem kinds mod_rewrite_physical distinguishes */
static char fs_root[256];
static void fs_cleanup(void) {
    if (!fs_root[0]) return;
    static const char *names[] = {"dir/inner", "reg", "lnreg", "lndir", "lndangling", "fifo", "dir", NULL};
    char p[512];
    for (int i = 0; names[i]; ++i) {
        snprintf(p, sizeof(p), "%s/%s", fs_root, names[i]);
        if (0 != unlink(p)) rmdir(p);
    }
    rmdir(fs_root);
}
static int fs_setup(void) {
    if (fs_root[0]) return 1;
    const char *tmp = getenv("TMPDIR");
    snprintf(fs_root, sizeof(fs_root), "%s/ltverif.kvfs.XXXXXX", (tmp && *tmp) ? tmp : "/tmp");
    if (NULL == mkdtemp(fs_root)) { fs_root[0] = 0; return 0; }
    atexit(fs_cleanup);
    char p[512], q[512];
    snprintf(p, sizeof(p), "%s/reg", fs_root);
    FILE *f = fopen(p, "w"); if (!f) return 0; fputs("x", f); fclose(f);
    snprintf(p, sizeof(p), "%s/dir", fs_root); if (mkdir(p, 0700)) return 0;
    snprintf(p, sizeof(p), "%s/dir/inner", fs_root); f = fopen(p, "w"); if (f) fclose(f);
    snprintf(q, sizeof(q), "%s/lnreg", fs_root); if (symlink("reg", q)) return 0;
    snprintf(q, sizeof(q), "%s/lndir", fs_root); if (symlink("dir", q)) return 0;
    snprintf(q, sizeof(q), "%s/lndangling", fs_root); if (symlink("nowhere", q)) return 0;
    snprintf(q, sizeof(q), "%s/fifo", fs_root); if (mkfifo(q, 0600)) return 0;
    return 1;
}
static int fs_path(const char *kind, buffer *out) {
    static const char *map[][2] = {{"reg", "/reg"}, {"dir", "/dir"}, {"dirslash", "/dir/"}, {"missing", "/none"},
      {"missingslash", "/none/"}, {"lnreg", "/lnreg"}, {"lndir", "/lndir"}, {"lndirslash", "/lndir/"},
      {"lndangling", "/lndangling"}, {"below", "/reg/extra"}, {"regslash", "/reg/"}, {"fifo", "/fifo"}, {NULL, NULL}};
    for (int i = 0; map[i][0]; ++i)
        if (0 == strcmp(kind, map[i][0])) {
            buffer_copy_string(out, fs_root);
            buffer_append_string(out, map[i][1]);
            return 1;
        }
    return 0;
}

static void op_nf(void) {
    /* nf <kind> <handler> <ridx> <rules> <target> <cond> <scheme> <authority> <srvname> <port> <trace> */
    rules_t R; cond_t cond;
    memset(&cond, 0, sizeof(cond));
    int pr = parse_rules(ltv_tok[4], &R);
    if (pr < 0) { puts("badpat"); goto out; }
    if (!pr || !parse_cond(ltv_tok[6], &cond) || !fs_setup()) { puts("bad-op"); goto out; }
    {
        rw_plugin_data p; memset(&p, 0, sizeof(p));
        p.id = 1;
        p.defaults.rewrite_NF = R.kvb;
        R.kvb->x0 = 1;
        R.kvb->x1 = atoi(ltv_tok[3]);
        r->cond_match[0] = cond.present ? &cond.cache : NULL;
        r->plugin_ctx[p.id] = NULL;
        const int sport = scheme_port_of(ltv_tok[7]);
        fixture_request(ltv_tok[7], ltv_tok[8], atoi(ltv_tok[10]), 0);
        buf_set_hex(srvname_buf, ltv_tok[9]);
        buf_set_hex(&r->target, ltv_tok[5]);
        int status = http_request_parse_target(r, sport);
        if (status) {
            if (ltv_tok[11][0] == '?' && ltv_tok[11][1] == 0) puts("trace ."); else printf("status %d\n", status);
            goto out;
        }
        if (!check_trace(&R, &r->target, ltv_tok[11])) goto out;
        if (!fs_path(ltv_tok[1], &r->physical.path)) { puts("bad-op"); goto out; }
        static plugin dummy_handler;
        r->handler_module = (ltv_tok[2][0] == '1') ? &dummy_handler : NULL;
        handler_t rc = mod_rewrite_physical(r, &p);
        r->handler_module = NULL;
        if (rc == HANDLER_GO_ON) puts("go");
        else if (rc == HANDLER_COMEBACK) { fputs("comeback ", stdout); put_hex_buf(&r->target); fputc('\n', stdout); }
        else puts("failed");
        r->plugin_ctx[p.id] = NULL;
        buffer_clear(&r->physical.path);
    }
out:
    rules_free(&R); cond_free(&cond);
}

static void op_alias(void) {
    /* alias <nocase> <k:v;..> <basedir> <path> */
    array *a = array_init(4);
    if (!(ltv_tok[2][0] == '.' && ltv_tok[2][1] == 0)) {
        char *kv[64];
        int n = split(ltv_tok[2], ';', kv, 64);
        for (int i = 0; i < n; ++i) {
            char *c = strchr(kv[i], ':');
            if (!c) { puts("bad-op"); array_free(a); return; }
            *c = 0;
            size_t kn, vn;
            unsigned char *k = ltv_unhex(kv[i], &kn), *v = ltv_unhex(c + 1, &vn);
            /* insertion order is the match order (array_match_key_prefix_klen walks a->data) */
            array_set_key_value(a, (char *)k, kn, (char *)v, vn);
            free(k); free(v);
        }
    }
    r->conf.force_lowercase_filenames = (ltv_tok[1][0] == '1');
    buf_set_hex(&r->physical.basedir, ltv_tok[3]);
    buf_set_hex(&r->physical.path, ltv_tok[4]);
    r->http_status = 0;
    handler_t rc = mod_alias_remap(r, a);
    if (rc == HANDLER_FINISHED) printf("%d\n", r->http_status);
    else {
        put_hex_buf(&r->physical.path); fputc(' ', stdout);
        put_hex_buf(&r->physical.basedir); fputc('\n', stdout);
    }
    r->http_status = 0;
    r->conf.force_lowercase_filenames = 0;
    buffer_clear(&r->physical.path);
    array_free(a);
}

static void op_svhost(void) {
    buffer *out = buffer_init();
    buffer *sroot = buf_new_hex(ltv_tok[1]);
    buffer *host = is_tilde(ltv_tok[2]) ? NULL : buf_new_hex(ltv_tok[2]);
    buffer *droot = is_tilde(ltv_tok[3]) ? NULL : buf_new_hex(ltv_tok[3]);
    build_doc_root_path(out, sroot, host, droot);
    put_hex_buf(out); fputc('\n', stdout);
    buffer_free(out); buf_del(sroot); buf_del(host); buf_del(droot);
}

static void op_evhost(void) {
    buffer *pat = buf_new_hex(ltv_tok[1]);
    buffer *auth = buf_new_hex(ltv_tok[2]);
    buffer *pieces = mod_evhost_parse_pattern(pat->ptr);
    if (NULL == pieces) puts("badpat");
    else {
        buffer *b = buffer_init();
        /* like plugin_data.split_vals: one array reused for every request of the process, so that
         * state leaking from one host to the next shows up as a disagreement */
        static array *split_vals;
        if (NULL == split_vals) split_vals = array_init(8);
        mod_evhost_build_doc_root_path(b, split_vals, auth, pieces);
        put_hex_buf(b); fputc('\n', stdout);
        buffer_free(b);
        mod_evhost_free_path_pieces(pieces);
    }
    buf_del(pat); buf_del(auth);
}

int main(void) {
    int devnull = open("/dev/null", O_WRONLY);
    errh = fdlog_init(NULL, devnull, FDLOG_FD);
    fixture_init();
    while (ltv_next()) {
        if (ltv_ntok < 1) { puts("bad-op"); continue; }
        const char *op = ltv_tok[0];
        if (0 == strcmp(op, "app") && ltv_ntok == 4) op_app();
        else if (0 == strcmp(op, "nkey") && ltv_ntok == 2) op_norm(1);
        else if (0 == strcmp(op, "nval") && ltv_ntok == 2) op_norm(0);
        else if (0 == strcmp(op, "subst") && ltv_ntok == 5) op_subst();
        else if (0 == strcmp(op, "proc") && ltv_ntok == 6) op_proc();
        else if (0 == strcmp(op, "redir") && ltv_ntok == 8) op_redir();
        else if (0 == strcmp(op, "rw") && ltv_ntok == 11) op_rw();
        else if (0 == strcmp(op, "nf") && ltv_ntok == 12) op_nf();
        else if (0 == strcmp(op, "alias") && ltv_ntok == 5) op_alias();
        else if (0 == strcmp(op, "svhost") && ltv_ntok == 4) op_svhost();
        else if (0 == strcmp(op, "evhost") && ltv_ntok == 3) op_evhost();
        else puts("bad-op");
        fflush(stdout);
    }
    return 0;
}
