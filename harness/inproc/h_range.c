/* correspondence harness for C15: Range (http_range.c over real chunk queues),
 * conditional GET (http_response_handle_cachable, http_etag_matches,
 * http_date_if_modified_since) and HTTP-date formatting/parsing (http_date.c),
 * plus libc gmtime_r/timegm probes used to validate the civil-date model.
 *
 * "~" = header absent, "-" = empty byte string, everything else hex.
 *
 * ops
 *  rng <method> <ver> <allow10> <status> <flags> <layout> <rep> <range> <ifrange>
 *      <etag> <lmod> <ctype> <acceptranges>
 *        flags: 1 resp_body_finished, 2 Transfer-Encoding set, 4 Content-Encoding set
 *        layout: comma list of chunk kinds+sizes covering rep: m<n> mem chunk appended with
 *                chunkqueue_append_mem, M<n> forced separate mem chunk, f<n> file chunk with
 *                open fd, n<n> file chunk by name only;  "-" = empty queue
 *        -> <status> <content-range> <content-type> <content-length> <accept-ranges> <body> <lenok>
 *  parse <len> <hdr>          http_range_parse (text after "bytes=") -> <npairs> a-b a-b ...
 *  etag <weak_ok> <etag> <hdr>  http_etag_matches -> 0|1
 *  cond <now> <method> <hasrange> <inm> <ims> <etag> <lmodparam> <lmod> <lmtime>
 *        http_response_handle_cachable -> go | 304 | 412
 *  ims <now> <lmtime> <hdr>   http_date_if_modified_since -> 0|1
 *  dparse <now> <hdr>         http_date_str_to_tm + timegm -> null | <t>
 *  dfmt <t>                   http_date_time_to_str (30-byte buffer) -> hex | -
 *  gmt <t>                    libc gmtime_r -> Y M D h m s wday | null
 *  tgm <Y> <M> <D> <h> <m> <s>   libc timegm (tm_mon = M-1, fields not normalised by us) -> <t>
 */
#include "first.h"
#include "harness_common.h"
#include <unistd.h>
#include <fcntl.h>
#include <errno.h>
#include <time.h>
#include <signal.h>
#ifdef __SANITIZE_ADDRESS__
#include <sanitizer/common_interface_defs.h>
#endif

#include "buffer.h"
#include "chunk.h"
#include "log.h"
#include "request.h"
#include "response.h"
#include "http_header.h"
#include "http_etag.h"
#include "http_kv.h"

#include "http_date.c"
#include "http_range.c"

static char tmpname[4096];
static int tmpfd = -1;
#define FILE_BASE 7   /* representation bytes start at this file offset */

/* keep the output of the cases before a sanitizer report / abort, so that the first
 * line without output is the failing one */
static void on_death(void) { fflush(stdout); }
static void on_abort(int sig) { on_death(); signal(sig, SIG_DFL); raise(sig); }

static int absent(const char *t) { return t[0] == '~' && t[1] == 0; }

static void put_hdr(const buffer *b) {
    if (!b) fputc('~', stdout); else ltv_puthex(b->ptr, buffer_clen(b));
}

static void set_req(request_st *r, enum http_header_e id, const char *k, const char *tok) {
    if (absent(tok)) return;
    size_t n; unsigned char *v = ltv_unhex(tok, &n);
    http_header_request_set(r, id, k, (uint32_t)strlen(k), (char *)v, (uint32_t)n);
    free(v);
}

static void set_resp(request_st *r, enum http_header_e id, const char *k, const char *tok) {
    if (absent(tok)) return;
    size_t n; unsigned char *v = ltv_unhex(tok, &n);
    http_header_response_set(r, id, k, (uint32_t)strlen(k), (char *)v, (uint32_t)n);
    free(v);
}

static void req_reset(request_st *r) {
    chunkqueue_reset(&r->write_queue);
    r->rqst_htags = 0;
    r->resp_htags = 0;
    array_reset_data_strings(&r->rqst_headers);
    array_reset_data_strings(&r->resp_headers);
    r->http_status = 0;
    r->resp_body_finished = 0;
    r->handler_module = NULL;
}

/* build r->write_queue from rep according to layout; returns 0 on success */
static int build_cq(request_st *r, const char *layout, const unsigned char *rep, size_t n) {
    chunkqueue * const cq = &r->write_queue;
    if (layout[0] == '-' && layout[1] == 0) return n == 0 ? 0 : -1;
    int need_file = (NULL != strpbrk(layout, "fn"));
    if (need_file) {
        if (ftruncate(tmpfd, 0) != 0) return -1;
        if (pwrite(tmpfd, "JUNKJUN", FILE_BASE, 0) != FILE_BASE) return -1;
        if (n && pwrite(tmpfd, rep, n, FILE_BASE) != (ssize_t)n) return -1;
        if (pwrite(tmpfd, "TAIL", 4, FILE_BASE + (off_t)n) != 4) return -1;
    }
    buffer *fn = buffer_init();
    buffer_copy_string(fn, tmpname);
    size_t pos = 0;
    const char *p = layout;
    int rc = 0;
    while (*p) {
        char kind = *p++;
        char *end;
        unsigned long sz = strtoul(p, &end, 10);
        if (end == p || pos + sz > n) { rc = -1; break; }
        p = end;
        if (*p == ',') ++p;
        switch (kind) {
          case 'm':
            chunkqueue_append_mem(cq, (const char *)rep + pos, sz);
            break;
          case 'M': {
            buffer *b = chunkqueue_append_buffer_open_sz(cq, sz + 1);
            buffer_copy_string_len(b, (const char *)rep + pos, sz);
            chunkqueue_append_buffer_commit(cq);
            break; }
          case 'f': {
            int fd = fcntl(tmpfd, F_DUPFD_CLOEXEC, 3);
            if (fd < 0) { rc = -1; break; }
            chunkqueue_append_file_fd(cq, fn, fd, FILE_BASE + (off_t)pos, (off_t)sz);
            break; }
          case 'n':
            chunkqueue_append_file(cq, fn, FILE_BASE + (off_t)pos, (off_t)sz);
            break;
          default:
            rc = -1; break;
        }
        if (rc) break;
        pos += sz;
    }
    buffer_free(fn);
    if (0 == rc && pos != n) rc = -1;
    return rc;
}

/* print the bytes the queue would send; returns their number or -1 */
static off_t dump_cq(const chunkqueue *cq) {
    off_t total = 0;
    int any = 0;
    for (const chunk *c = cq->first; c; c = c->next) {
        if (c->type == MEM_CHUNK) {
            off_t len = (off_t)buffer_clen(c->mem) - c->offset;
            if (len < 0) return -1;
            if (len) { ltv_puthex(c->mem->ptr + c->offset, (size_t)len); any = 1; }
            total += len;
        }
        else {
            off_t len = c->file.length - c->offset;
            if (len < 0) return -1;
            int fd = c->file.fd, opened = 0;
            if (fd < 0) { fd = open(c->mem->ptr, O_RDONLY); opened = 1; }
            if (fd < 0) return -1;
            char *buf = malloc((size_t)len + 1);
            ssize_t rd = len ? pread(fd, buf, (size_t)len, c->offset) : 0;
            if (opened) close(fd);
            if (rd != (ssize_t)len) { free(buf); return -1; }
            if (len) { ltv_puthex(buf, (size_t)len); any = 1; }
            free(buf);
            total += len;
        }
    }
    if (!any) fputc('-', stdout);
    return total;
}

static long long tok_ll(const char *s) { return strtoll(s, NULL, 10); }

int main(void) {
    const char *td = getenv("TMPDIR");
    snprintf(tmpname, sizeof(tmpname), "%s/ltv-range-XXXXXX", (td && *td) ? td : "/tmp");
    tmpfd = mkstemp(tmpname);
    if (tmpfd < 0) { perror("mkstemp"); return 2; }
    /* the file is unlinked at once (nothing is left behind whatever happens);
     * file chunks "by name" refer to it through /proc/self/fd */
    unlink(tmpname);
    snprintf(tmpname, sizeof(tmpname), "/proc/self/fd/%d", tmpfd);
  #ifdef __SANITIZE_ADDRESS__
    __sanitizer_set_death_callback(on_death);
  #endif
    signal(SIGABRT, on_abort);
    setvbuf(stdout, NULL, _IOLBF, 0);  /* (UBSan's own runtime does not run the callback) */

    request_st rq; memset(&rq, 0, sizeof(rq));
    request_st * const r = &rq;
    r->tmp_buf = buffer_init();
    chunkqueue_init(&r->write_queue);
    chunkqueue_init(&r->reqbody_queue);
    chunkqueue_init(&r->read_queue);
    buffer *eb = buffer_init();
    buffer *lb = buffer_init();

    while (ltv_next()) {
        if (ltv_ntok < 1) { puts("bad-op"); continue; }
        const char *op = ltv_tok[0];
        if (0 == strcmp(op, "rng") && ltv_ntok == 14) {
            req_reset(r);
            r->http_method = (http_method_t)atoi(ltv_tok[1]);
            r->http_version = (http_version_t)atoi(ltv_tok[2]);
            http_range_config_allow_http10(atoi(ltv_tok[3]));
            r->http_status = atoi(ltv_tok[4]);
            int flags = atoi(ltv_tok[5]);
            size_t n; unsigned char *rep = ltv_unhex(ltv_tok[7], &n);
            if (0 != build_cq(r, ltv_tok[6], rep, n)) { puts("bad-op"); free(rep); continue; }
            free(rep);
            r->resp_body_finished = (flags & 1) ? 1 : 0;
            if (flags & 2)
                http_header_response_set(r, HTTP_HEADER_TRANSFER_ENCODING,
                                         CONST_STR_LEN("Transfer-Encoding"), CONST_STR_LEN("chunked"));
            if (flags & 4)
                http_header_response_set(r, HTTP_HEADER_CONTENT_ENCODING,
                                         CONST_STR_LEN("Content-Encoding"), CONST_STR_LEN("gzip"));
            set_req(r, HTTP_HEADER_RANGE, "Range", ltv_tok[8]);
            set_req(r, HTTP_HEADER_IF_RANGE, "If-Range", ltv_tok[9]);
            set_resp(r, HTTP_HEADER_ETAG, "ETag", ltv_tok[10]);
            set_resp(r, HTTP_HEADER_LAST_MODIFIED, "Last-Modified", ltv_tok[11]);
            set_resp(r, HTTP_HEADER_CONTENT_TYPE, "Content-Type", ltv_tok[12]);
            set_resp(r, HTTP_HEADER_ACCEPT_RANGES, "Accept-Ranges", ltv_tok[13]);
            int rc = http_range_rfc7233(r);
            printf("%d", rc == r->http_status ? rc : -rc);
            fputc(' ', stdout);
            put_hdr(http_header_response_get(r, HTTP_HEADER_CONTENT_RANGE, CONST_STR_LEN("Content-Range")));
            fputc(' ', stdout);
            put_hdr(http_header_response_get(r, HTTP_HEADER_CONTENT_TYPE, CONST_STR_LEN("Content-Type")));
            fputc(' ', stdout);
            put_hdr(http_header_response_get(r, HTTP_HEADER_CONTENT_LENGTH, CONST_STR_LEN("Content-Length")));
            fputc(' ', stdout);
            put_hdr(http_header_response_get(r, HTTP_HEADER_ACCEPT_RANGES, CONST_STR_LEN("Accept-Ranges")));
            fputc(' ', stdout);
            off_t total = dump_cq(&r->write_queue);
            printf(" %d\n", total == chunkqueue_length(&r->write_queue) ? 1 : 0);
        }
        else if (0 == strcmp(op, "parse") && ltv_ntok == 3) {
            off_t ranges[RMAX*2];
            size_t n; unsigned char *h = ltv_unhex(ltv_tok[2], &n);
            long long len = tok_ll(ltv_tok[1]);
            if (len <= 0) { puts("bad-op"); free(h); continue; }
            int np = http_range_parse((const char *)h, (off_t)len, ranges);
            printf("%d", np / 2);
            for (int i = 0; i + 1 < np; i += 2)
                printf(" %lld-%lld", (long long)ranges[i], (long long)ranges[i+1]);
            fputc('\n', stdout);
            free(h);
        }
        else if (0 == strcmp(op, "walk") && ltv_ntok == 3) {
            /* http_range_parse() on an exact-size NUL-terminated heap copy (ASan sees any
             * step of the pointer walk past the NUL); compared with the pointer-walk model */
            off_t ranges[RMAX*2];
            size_t n; unsigned char *h = ltv_unhex(ltv_tok[2], &n);
            long long len = tok_ll(ltv_tok[1]);
            if (len <= 0) { puts("bad-op"); free(h); continue; }
            int np = http_range_parse((const char *)h, (off_t)len, ranges);
            printf("%d", np / 2);
            for (int i = 0; i + 1 < np; i += 2)
                printf(" %lld-%lld", (long long)ranges[i], (long long)ranges[i+1]);
            fputc('\n', stdout);
            free(h);
        }
        else if (0 == strcmp(op, "pnext") && ltv_ntok == 3) {
            /* http_range_parse_next(): the range (x: ranges[1] == -1) and the returned pointer */
            off_t rg[2] = { -7, -7 };
            size_t n; unsigned char *h = ltv_unhex(ltv_tok[2], &n);
            long long len = tok_ll(ltv_tok[1]);
            if (len <= 0) { puts("bad-op"); free(h); continue; }
            const char *e = http_range_parse_next((const char *)h, (off_t)len, rg);
            if (rg[1] == -1) fputc('x', stdout);
            else printf("%lld-%lld", (long long)rg[0], (long long)rg[1]);
            printf(" %ld\n", (long)(e - (const char *)h));
            free(h);
        }
        else if (0 == strcmp(op, "etag") && ltv_ntok == 4) {
            size_t n, m; unsigned char *e = ltv_unhex(ltv_tok[2], &n);
            unsigned char *h = ltv_unhex(ltv_tok[3], &m);
            buffer_copy_string_len(eb, (char *)e, n);
            printf("%d\n", http_etag_matches(eb, (const char *)h, atoi(ltv_tok[1])) ? 1 : 0);
            free(e); free(h);
        }
        else if (0 == strcmp(op, "cond") && ltv_ntok == 10) {
            req_reset(r);
            log_epoch_secs = (unix_time64_t)tok_ll(ltv_tok[1]);
            r->http_method = (http_method_t)atoi(ltv_tok[2]);
            if (atoi(ltv_tok[3]))
                http_header_request_set(r, HTTP_HEADER_RANGE, CONST_STR_LEN("Range"), CONST_STR_LEN("bytes=0-"));
            set_req(r, HTTP_HEADER_IF_NONE_MATCH, "If-None-Match", ltv_tok[4]);
            set_req(r, HTTP_HEADER_IF_MODIFIED_SINCE, "If-Modified-Since", ltv_tok[5]);
            set_resp(r, HTTP_HEADER_ETAG, "ETag", ltv_tok[6]);
            const buffer *lmod = NULL;
            if (!absent(ltv_tok[8])) {
                if (atoi(ltv_tok[7])) {
                    size_t n; unsigned char *v = ltv_unhex(ltv_tok[8], &n);
                    buffer_copy_string_len(lb, (char *)v, n);
                    free(v);
                    lmod = lb;
                }
                else
                    set_resp(r, HTTP_HEADER_LAST_MODIFIED, "Last-Modified", ltv_tok[8]);
            }
            chunkqueue_append_mem(&r->write_queue, CONST_STR_LEN("body"));
            int rc = http_response_handle_cachable(r, lmod, (unix_time64_t)tok_ll(ltv_tok[9]));
            if (rc == HANDLER_GO_ON) puts("go");
            else if (rc == HANDLER_FINISHED) printf("%d\n", r->http_status);
            else printf("rc%d\n", rc);
        }
        else if (0 == strcmp(op, "ims") && ltv_ntok == 4) {
            log_epoch_secs = (unix_time64_t)tok_ll(ltv_tok[1]);
            size_t n; unsigned char *h = ltv_unhex(ltv_tok[3], &n);
            printf("%d\n", http_date_if_modified_since((const char *)h, (uint32_t)n,
                                                        (unix_time64_t)tok_ll(ltv_tok[2])) ? 1 : 0);
            free(h);
        }
        else if (0 == strcmp(op, "dparse") && ltv_ntok == 3) {
            log_epoch_secs = (unix_time64_t)tok_ll(ltv_tok[1]);
            size_t n; unsigned char *h = ltv_unhex(ltv_tok[2], &n);
            struct tm tm; memset(&tm, 0, sizeof(tm));
            if (NULL == http_date_str_to_tm((const char *)h, (uint32_t)n, &tm)) puts("null");
            else printf("%lld\n", (long long)timegm(&tm));
            free(h);
        }
        else if (0 == strcmp(op, "dfmt") && ltv_ntok == 2) {
            char s[HTTP_DATE_SZ];
            uint32_t n = http_date_time_to_str(s, sizeof(s), (unix_time64_t)tok_ll(ltv_tok[1]));
            ltv_puthex(s, n);
            fputc('\n', stdout);
        }
        else if (0 == strcmp(op, "gmt") && ltv_ntok == 2) {
            time_t t = (time_t)tok_ll(ltv_tok[1]);
            struct tm tm;
            if (NULL == gmtime_r(&t, &tm)) puts("null");
            else printf("%lld %d %d %d %d %d %d\n", (long long)tm.tm_year + 1900, tm.tm_mon + 1,
                        tm.tm_mday, tm.tm_hour, tm.tm_min, tm.tm_sec, tm.tm_wday);
        }
        else if (0 == strcmp(op, "tgm") && ltv_ntok == 7) {
            struct tm tm; memset(&tm, 0, sizeof(tm));
            tm.tm_year = (int)(tok_ll(ltv_tok[1]) - 1900);
            tm.tm_mon = atoi(ltv_tok[2]) - 1;
            tm.tm_mday = atoi(ltv_tok[3]);
            tm.tm_hour = atoi(ltv_tok[4]);
            tm.tm_min = atoi(ltv_tok[5]);
            tm.tm_sec = atoi(ltv_tok[6]);
            printf("%lld\n", (long long)timegm(&tm));
        }
        else puts("bad-op");
    }
    buffer_free(eb);
    buffer_free(lb);
    return 0;
}
