/* correspondence harness for the HTTP/1.x request-head parser (C01, C08, C09)
 * op:  req <parseopts> <max_field_size> <hex block>
 *   runs http_header_parse_hoff() + the 431/blank checks of h1_recv_headers()
 *   + http_request_headers_process() on the block, prints a canonical line:
 *     incomplete | blank | skip-v6 | err <status> |
 *     ok v<0|1> ka<0|1> m=<hex> t=<hex> p=<hex> q=<hex> h=<hex|none> len=<n> hdrs=<k=v,...sorted>
 */
#include "first.h"
#include "harness_common.h"
#include "request.c"
#include "http_kv.h"

static int cmp_hdr(const void *a, const void *b) {
    return strcmp(*(const char * const *)a, *(const char * const *)b);
}

static char *hexdup(const char *p, size_t n) {
    static const char hx[] = "0123456789abcdef";
    char *o = malloc(2*n+2);
    if (0 == n) { strcpy(o, "-"); return o; }
    for (size_t i = 0; i < n; ++i) { o[2*i] = hx[((unsigned char)p[i])>>4]; o[2*i+1] = hx[p[i]&15]; }
    o[2*n] = 0;
    return o;
}

int main(void) {
    request_st rq; memset(&rq, 0, sizeof(rq));
    request_st * const r = &rq;
    r->tmp_buf = buffer_init();
    static unsigned short hoff[8192];
    while (ltv_next()) {
        if (ltv_ntok != 4 || 0 != strcmp(ltv_tok[0], "req")) { puts("bad-op"); continue; }
        r->conf.http_parseopts = (unsigned int)atoi(ltv_tok[1]);
        uint32_t maxf = (uint32_t)atoi(ltv_tok[2]);
        size_t n; unsigned char *blk = ltv_unhex(ltv_tok[3], &n);
        /* reset (as request_reset + test_request_reset do) */
        r->http_method = HTTP_METHOD_UNSET;
        r->http_version = HTTP_VERSION_UNSET;
        r->http_host = NULL;
        r->rqst_htags = 0;
        r->reqbody_length = 0;
        r->keep_alive = 0;
        r->http_status = 0;
        r->h2_connect_ext = 0;
        buffer_clear(&r->target_orig);
        buffer_clear(&r->target);
        buffer_clear(&r->uri.path);
        buffer_clear(&r->uri.query);
        array_reset_data_strings(&r->rqst_headers);

        hoff[0] = 1; hoff[1] = 0;
        uint32_t hlen = http_header_parse_hoff((char *)blk, (uint32_t)n, hoff);
        if ((hlen ? hlen : (uint32_t)n) > maxf || hoff[0] >= sizeof(hoff)/sizeof(hoff[0])-1) {
            puts("err 431"); free(blk); continue;
        }
        if (0 == hlen) { puts("incomplete"); free(blk); continue; }
        if (hoff[0] <= 1) { puts("blank"); free(blk); continue; }
        r->rqst_header_len = hlen;
        http_request_headers_process(r, (char *)blk, hoff, 80);
        const int v6 = (r->http_host && r->http_host->used && r->http_host->ptr[0] == '['
            && (r->conf.http_parseopts & (HTTP_PARSEOPT_HOST_STRICT|HTTP_PARSEOPT_HOST_NORMALIZE)));
        if (v6) { puts("skip-v6"); free(blk); continue; }
        if (0 != r->http_status) {
            if (r->keep_alive != 0 || r->reqbody_length != 0) printf("err %d NOT-CLOSED\n", r->http_status);
            else printf("err %d\n", r->http_status);
            free(blk); continue;
        }
        const buffer *m = http_method_buf(r->http_method);
        printf("ok v%d ka%d m=", (int)r->http_version, r->keep_alive ? 1 : 0);
        ltv_puthex(m->ptr, buffer_clen(m));
        fputs(" t=", stdout); ltv_puthex(r->target.ptr, buffer_clen(&r->target));
        fputs(" p=", stdout); ltv_puthex(r->uri.path.ptr, buffer_clen(&r->uri.path));
        fputs(" q=", stdout); ltv_puthex(r->uri.query.ptr, buffer_clen(&r->uri.query));
        fputs(" h=", stdout);
        if (r->http_host) ltv_puthex(r->http_host->ptr, buffer_clen(r->http_host)); else fputs("none", stdout);
        printf(" len=%lld hdrs=", (long long)r->reqbody_length);
        /* headers: lower-cased key, sorted, blank (unset) values skipped */
        char *ent[1024]; int ne = 0;
        for (uint32_t i = 0; i < r->rqst_headers.used && ne < 1024; ++i) {
            const data_string *ds = (const data_string *)r->rqst_headers.data[i];
            if (buffer_is_blank(&ds->value)) continue;
            buffer *k = buffer_init();
            buffer_copy_string_len_lc(k, BUF_PTR_LEN(&ds->key));
            char *kh = hexdup(k->ptr, buffer_clen(k));
            char *vh = hexdup(ds->value.ptr, buffer_clen(&ds->value));
            char *e = malloc(strlen(kh)+strlen(vh)+2);
            sprintf(e, "%s=%s", kh, vh);
            ent[ne++] = e; free(kh); free(vh); buffer_free(k);
        }
        qsort(ent, ne, sizeof(*ent), cmp_hdr);
        if (0 == ne) fputc('-', stdout);
        for (int i = 0; i < ne; ++i) { if (i) fputc(',', stdout); fputs(ent[i], stdout); free(ent[i]); }
        fputc('\n', stdout);
        free(blk);
    }
    return 0;
}
