/* correspondence harness for the per-request reset machinery (C08)
 *
 * ops (one self-contained case per line):
 *   ids
 *       prints "ids <name>=<id>,..." for the known request/response header names
 *   rst <op> <spec>...
 *       builds a request_st on a real (srv, con) skeleton as connection_init()/request_acquire()
 *       do, applies the field writes of <spec>... through the real setters, runs <op>, prints
 *       every scalar / buffer / list field of the request_st in canonical form.
 *         op = none | reset | ex | resetex | respreset | bodyclear0 | bodyclear1 | conreset | kaend |
 *              release (request_release + request_acquire: pooled object) |
 *              h2init  (request_release, then h2_init_stream(): recycled stream object that
 *                       inherits config state from the connection request h2r)
 *   rp <proto> <parseopts> <op> <spec>... ; <probe>
 *       parses <probe> (h1: hex request head; h2: k:v,k:v field list) into a fresh request_st and
 *       into one that was dirtied by <spec>... and recycled by <op>; prints both parse results
 *       "A | B" (same format as h_request.c)
 * spec tokens (applied in order):
 *   parse1=<opts>:<hexhead> parse2=<opts>:<k:v,..>   real parsers (h1 head / h2 field list)
 *   m=<n> v=<n> st=<n> state=<n> hm=<0|1> uc=1 (run the uri_clean hook of the fake plugins)
 *   qh=<k>:<v> host=<v> rbl=<n> qhl=<n> tgt= to= usch= uauth= upath= uq=
 *   pp= pbig=1 pb= pd= pr= pi= snb= sn=<auth|buf> env=<k>:<v> rh=<k>:<v> rhi=<k>:<v>
 *   wq= bq= rdq= fin= started= chunked= dechunk= rep= gw=1 loops= ka= async= ehs= ehm= ext=
 *   sp= rhl= tec= civ= cc=<i>:<res>:<loc> po=<n> mrfs=<n> srb=<n>
 *   h2r.po=<n> h2r.civ=<n> h2r.cc=<i>:<res>:<loc> h2r.sn=buf   (connection request, for h2init)
 */
#include "first.h"
#include "harness_common.h"
#include "reqpool.c"
#include "connections.c"
#include "h2.c"
#include "http_header.h"
#include "http_kv.h"
#include "plugin.h"
#include "plugins.h"

void config_patch_config(request_st * const r) { (void)r; }   /* stub: configfile.c is not linked */

/* ------------------------------------------------------------------ fake plugins */
typedef struct { PLUGIN_DATA; } fake_pd;
static int fake_ctx_obj[4];
static int fake_reset_calls[4];

static void *fake_init(void) { return calloc(1, sizeof(fake_pd)); }
static handler_t fake_uri_clean(request_st *r, void *p_d) {
    fake_pd *p = p_d;
    r->plugin_ctx[p->id] = &fake_ctx_obj[p->id];      /* like mod_setenv: per-request hctx */
    return HANDLER_GO_ON;
}
static handler_t fake_request_reset(request_st *r, void *p_d) {
    fake_pd *p = p_d;
    ++fake_reset_calls[p->id];
    r->plugin_ctx[p->id] = NULL;                       /* like mod_setenv / mod_rewrite */
    return HANDLER_GO_ON;
}
static plugin fake_plugins[3];
static plugin *fake_plugin_ptrs[3];
static sock_addr harness_addr;
static buffer harness_addr_buf;

/* ------------------------------------------------------------------ skeleton */
static server srv_s;
static connection *con;
static request_config defaults;
static buffer defaults_docroot, defaults_tag;
#define NCTX 4

static void skeleton_init(void) {
    server * const srv = &srv_s;
    memset(srv, 0, sizeof(*srv));
    srv->tmp_buf = buffer_init();
    buffer_string_prepare_append(srv->tmp_buf, 65536);
    srv->config_context = array_init(NCTX);
    for (int i = 0; i < NCTX; ++i) array_insert_value(srv->config_context, "x", 1);
    srv->config_captures = 2;
    for (int i = 0; i < 3; ++i) {
        plugin *p = &fake_plugins[i];
        memset(p, 0, sizeof(*p));
        p->version = LIGHTTPD_VERSION_ID;
        p->name = i == 0 ? "fake0" : i == 1 ? "fake1" : "fake2-nohook";
        p->init = fake_init;
        p->handle_uri_clean = fake_uri_clean;
        /* the third module keeps per-request state but registers NO handle_request_reset hook:
         * request_reset() itself must not be assumed to clear plugin_ctx[] */
        if (i < 2) p->handle_request_reset = fake_request_reset;
        fake_plugin_ptrs[i] = p;
    }
    srv->plugins.ptr = fake_plugin_ptrs;
    srv->plugins.used = 3;
    buffer_copy_string_len(&harness_addr_buf, CONST_STR_LEN("10.9.8.7"));
    if (HANDLER_GO_ON != plugins_call_init(srv)) { fputs("plugins_call_init failed\n", stderr); exit(2); }
    memset(&defaults, 0, sizeof(defaults));
    buffer_copy_string_len(&defaults_docroot, CONST_STR_LEN("/docroot"));
    buffer_copy_string_len(&defaults_tag, CONST_STR_LEN("ltv"));
    defaults.document_root = &defaults_docroot;
    defaults.server_tag = &defaults_tag;
    defaults.max_request_field_size = 8192;
    defaults.http_parseopts = 9567;        /* lighttpd default parse options */
    defaults.max_keep_alive_requests = 100;
    defaults.max_keep_alive_idle = 5;
    defaults.allow_http11 = 1;
    defaults.range_requests = 1;
    defaults.follow_symlink = 1;
    defaults.h2proto = 2;
    request_config_set_defaults(&defaults);
}

static connection *con_new(void) {
    /* as connection_init() + connection_reset() (connections.c), without sockets */
    server * const srv = &srv_s;
    connection * const c = ck_calloc(1, sizeof(*c));
    c->srv = srv;
    c->plugin_slots = srv->plugin_slots;
    c->config_data_base = srv->config_data_base;
    request_st * const r = &c->request;
    request_init_data(r, c, srv);
    c->write_queue = &r->write_queue;
    c->read_queue = &r->read_queue;
    c->plugin_ctx = ck_calloc(srv->plugins.used + 1, sizeof(void *));
    c->proto_default_port = 80;
    c->fd = -1;
    buffer_copy_string_len(&c->dst_addr_buf, CONST_STR_LEN("127.0.0.1"));
    connection_reset(c);
    return c;
}

static void con_free(connection *c) {
    request_st * const r = &c->request;
    if (c->hx) { free(c->hx); c->hx = NULL; }
    if (r->gw_dechunk) { free(r->gw_dechunk->b.ptr); free(r->gw_dechunk); r->gw_dechunk = NULL; }
    request_free_data(r);
    free(c->plugin_ctx);
    free(c->dst_addr_buf.ptr);
    free(c);
}

/* ------------------------------------------------------------------ parsing helpers */
static void hdr_parse_h1(request_st *r, unsigned int opts, const char *hex) {
    static unsigned short hoff[8192];
    size_t n; unsigned char *blk = ltv_unhex(hex, &n);
    r->conf.http_parseopts = opts;
    hoff[0] = 1; hoff[1] = 0;
    uint32_t hlen = http_header_parse_hoff((char *)blk, (uint32_t)n, hoff);
    if (0 == hlen || hlen > r->conf.max_request_field_size || hoff[0] <= 1
        || hoff[0] >= sizeof(hoff)/sizeof(hoff[0])-1) {
        r->http_status = 400; r->keep_alive = 0; free(blk); return;   /* (not a complete head) */
    }
    r->rqst_header_len = hlen;
    http_request_headers_process(r, (char *)blk, hoff, 80);
    free(blk);
}

/* list "khex:vhex,khex:vhex" -> callback */
typedef void (*kv_cb)(request_st *r, void *ud, const char *k, size_t klen, const char *v, size_t vlen);
static void each_kv(request_st *r, char *list, kv_cb cb, void *ud) {
    if (0 == strcmp(list, "-")) return;
    char *save = NULL;
    for (char *e = strtok_r(list, ",", &save); e; e = strtok_r(NULL, ",", &save)) {
        char *c = strchr(e, ':');
        if (!c) continue;
        *c = 0;
        size_t kl, vl;
        unsigned char *k = ltv_unhex(e, &kl), *v = ltv_unhex(c+1, &vl);
        cb(r, ud, (char *)k, kl, (char *)v, vl);
        free(k); free(v);
    }
}

static void h2_field_cb(request_st *r, void *ud, const char *k, size_t klen, const char *v, size_t vlen) {
    http_header_parse_ctx *hp = ud;
    if (0 != r->http_status) return;        /* (h2_parse_headers_frame() stops at first error) */
    hp->k = (char *)k; hp->v = (char *)v; hp->klen = (uint32_t)klen; hp->vlen = (uint32_t)vlen;
    hp->id = HTTP_HEADER_H2_UNKNOWN;        /* field not in the HPACK static table */
    int st = http_request_parse_header(r, hp);
    if (0 != st) r->http_status = st;
}

static void hdr_parse_h2(request_st *r, unsigned int opts, char *list, int end_stream) {
    /* as h2_recv_headers() + h2_parse_headers_frame() after HPACK decoding */
    r->conf.http_parseopts = opts;
    r->http_version = HTTP_VERSION_2;
    r->reqbody_length = end_stream ? 0 : -1;
    http_header_parse_ctx hp;
    memset(&hp, 0, sizeof(hp));
    hp.pseudo = 1;
    hp.max_request_field_size = r->conf.max_request_field_size;
    hp.http_parseopts = r->conf.http_parseopts;
    each_kv(r, list, h2_field_cb, &hp);
    hp.hlen += 2;
    r->rqst_header_len += hp.hlen;
    if (hp.pseudo && 0 == r->http_status)
        r->http_status = http_request_validate_pseudohdrs(r, hp.scheme, hp.http_parseopts);
    http_request_headers_process_h2(r, 80);
}

/* ------------------------------------------------------------------ spec application */
static void set_buf(buffer *b, const char *hex) {
    size_t n; unsigned char *s = ltv_unhex(hex, &n);
    buffer_copy_string_len(b, (char *)s, n);
    free(s);
}
static void qh_cb(request_st *r, void *ud, const char *k, size_t klen, const char *v, size_t vlen) {
    (void)ud; http_header_request_set(r, http_header_hkey_get(k, klen), k, (uint32_t)klen, v, (uint32_t)vlen);
}
static void rh_cb(request_st *r, void *ud, const char *k, size_t klen, const char *v, size_t vlen) {
    (void)ud; http_header_response_set(r, http_header_hkey_get(k, klen), k, (uint32_t)klen, v, (uint32_t)vlen);
}
static void rhi_cb(request_st *r, void *ud, const char *k, size_t klen, const char *v, size_t vlen) {
    (void)ud; http_header_response_insert(r, http_header_hkey_get(k, klen), k, (uint32_t)klen, v, (uint32_t)vlen);
}
static void env_cb(request_st *r, void *ud, const char *k, size_t klen, const char *v, size_t vlen) {
    (void)ud; http_header_env_set(r, k, (uint32_t)klen, v, (uint32_t)vlen);
}
static void cqadd(chunkqueue *cq, const char *hex) {
    size_t n; unsigned char *s = ltv_unhex(hex, &n);
    chunkqueue_append_mem(cq, (char *)s, n);
    free(s);
}
static void setcc(request_st *r, const char *v) {
    int i = 0, a = 0, b = 0;
    if (3 == sscanf(v, "%d:%d:%d", &i, &a, &b) && i >= 0 && i < NCTX) {
        r->cond_cache[i].result = (int8_t)a; r->cond_cache[i].local_result = (int8_t)b;
    }
}

static int apply_spec(request_st *r, connection *c, char *tok) {
    char *eq = strchr(tok, '=');
    if (!eq) return -1;
    *eq = 0;
    const char *k = tok; char *v = eq + 1;
    request_st * const h2r = &c->request;
    if (0 == strcmp(k, "parse1") || 0 == strcmp(k, "parse2")) {
        char *c2 = strchr(v, ':'); if (!c2) return -1; *c2 = 0;
        if (k[5] == '1') hdr_parse_h1(r, (unsigned)atoi(v), c2+1);
        else hdr_parse_h2(r, (unsigned)atoi(v), c2+1, 1);
        if (0 != r->http_status) return -2;     /* (dirtying by a rejected head: case skipped) */
    }
    else if (0 == strcmp(k, "m")) r->http_method = (http_method_t)atoi(v);
    else if (0 == strcmp(k, "v")) r->http_version = (http_version_t)atoi(v);
    else if (0 == strcmp(k, "st")) r->http_status = atoi(v);
    else if (0 == strcmp(k, "state")) r->state = (request_state_t)atoi(v);
    else if (0 == strcmp(k, "hm")) r->handler_module = atoi(v) ? &fake_plugins[0] : NULL;
    else if (0 == strcmp(k, "uc")) plugins_call_handle_uri_clean(r);
    else if (0 == strcmp(k, "qh")) each_kv(r, v, qh_cb, NULL);
    else if (0 == strcmp(k, "host")) {
        size_t n; unsigned char *s = ltv_unhex(v, &n);
        http_header_request_set(r, HTTP_HEADER_HOST, CONST_STR_LEN("Host"), (char *)s, (uint32_t)n);
        r->http_host = http_header_request_get(r, HTTP_HEADER_HOST, CONST_STR_LEN("Host"));
        free(s);
    }
    else if (0 == strcmp(k, "rbl")) r->reqbody_length = (off_t)atoll(v);
    else if (0 == strcmp(k, "qhl")) r->rqst_header_len = (uint32_t)atoi(v);
    else if (0 == strcmp(k, "tgt")) set_buf(&r->target, v);
    else if (0 == strcmp(k, "to")) set_buf(&r->target_orig, v);
    else if (0 == strcmp(k, "usch")) set_buf(&r->uri.scheme, v);
    else if (0 == strcmp(k, "uauth")) set_buf(&r->uri.authority, v);
    else if (0 == strcmp(k, "upath")) set_buf(&r->uri.path, v);
    else if (0 == strcmp(k, "uq")) set_buf(&r->uri.query, v);
    else if (0 == strcmp(k, "pp")) set_buf(&r->physical.path, v);
    else if (0 == strcmp(k, "pbig")) {
        buffer_string_prepare_append(&r->physical.path, 6000);   /* capacity > BUFFER_MAX_REUSE_SIZE */
        if (buffer_is_unset(&r->physical.path)) buffer_copy_string_len(&r->physical.path, CONST_STR_LEN("/big"));
    }
    else if (0 == strcmp(k, "pb")) set_buf(&r->physical.basedir, v);
    else if (0 == strcmp(k, "pd")) set_buf(&r->physical.doc_root, v);
    else if (0 == strcmp(k, "pr")) set_buf(&r->physical.rel_path, v);
    else if (0 == strcmp(k, "pi")) set_buf(&r->pathinfo, v);
    else if (0 == strcmp(k, "snb")) set_buf(&r->server_name_buf, v);
    else if (0 == strcmp(k, "sn")) r->server_name = (0 == strcmp(v, "buf")) ? &r->server_name_buf : &r->uri.authority;
    else if (0 == strcmp(k, "env")) each_kv(r, v, env_cb, NULL);
    else if (0 == strcmp(k, "rh")) each_kv(r, v, rh_cb, NULL);
    else if (0 == strcmp(k, "rhi")) each_kv(r, v, rhi_cb, NULL);
    else if (0 == strcmp(k, "wq")) cqadd(&r->write_queue, v);
    else if (0 == strcmp(k, "bq")) cqadd(&r->reqbody_queue, v);
    else if (0 == strcmp(k, "rdq")) cqadd(&r->read_queue, v);
    else if (0 == strcmp(k, "fin")) r->resp_body_finished = (char)atoi(v);
    else if (0 == strcmp(k, "started")) r->resp_body_started = (char)atoi(v);
    else if (0 == strcmp(k, "chunked")) r->resp_send_chunked = (char)atoi(v);
    else if (0 == strcmp(k, "dechunk")) r->resp_decode_chunked = (char)atoi(v);
    else if (0 == strcmp(k, "rep")) r->resp_header_repeated = (char)atoi(v);
    else if (0 == strcmp(k, "gw")) {
        if (!r->gw_dechunk) { r->gw_dechunk = ck_calloc(1, sizeof(response_dechunk)); buffer_copy_string_len(&r->gw_dechunk->b, CONST_STR_LEN("5\r\n")); }
    }
    else if (0 == strcmp(k, "loops")) r->loops_per_request = (char)atoi(v);
    else if (0 == strcmp(k, "ka")) r->keep_alive = (int8_t)atoi(v);
    else if (0 == strcmp(k, "async")) r->async_callback = (char)atoi(v);
    else if (0 == strcmp(k, "ehs")) r->error_handler_saved_status = atoi(v);
    else if (0 == strcmp(k, "ehm")) r->error_handler_saved_method = (http_method_t)atoi(v);
    else if (0 == strcmp(k, "ext")) r->h2_connect_ext = atoi(v);
    else if (0 == strcmp(k, "sp")) r->resp_body_scratchpad = (off_t)atoll(v);
    else if (0 == strcmp(k, "rhl")) r->resp_header_len = (uint32_t)atoi(v);
    else if (0 == strcmp(k, "tec")) r->x.h1.te_chunked = (off_t)atoll(v);
    else if (0 == strcmp(k, "civ")) r->conditional_is_valid = (uint32_t)strtoul(v, NULL, 10);
    else if (0 == strcmp(k, "cc")) setcc(r, v);
    else if (0 == strcmp(k, "po")) r->conf.http_parseopts = (unsigned)atoi(v);
    else if (0 == strcmp(k, "mrfs")) r->conf.max_request_field_size = (uint32_t)atoi(v);
    else if (0 == strcmp(k, "srb")) r->conf.stream_request_body = (unsigned short)atoi(v);
    else if (0 == strcmp(k, "h2r.po")) h2r->conf.http_parseopts = (unsigned)atoi(v);
    else if (0 == strcmp(k, "h2r.civ")) h2r->conditional_is_valid = (uint32_t)strtoul(v, NULL, 10);
    else if (0 == strcmp(k, "h2r.cc")) setcc(h2r, v);
    else if (0 == strcmp(k, "dst")) {   /* as mod_extforward does: a request-private remote address */
        if (0 == atoi(v)) { r->dst_addr = &harness_addr; r->dst_addr_buf = &harness_addr_buf; }
    }
    else if (0 == strcmp(k, "cm") || 0 == strcmp(k, "h2r.cm")) {   /* a config regex matched with captures */
        request_st * const t = (k[0] == 'h') ? h2r : r;
        int i = atoi(v);
        if (i >= 0 && i < srv_s.config_captures) { t->cond_match[i] = t->cond_match_data + i; t->cond_match_data[i].captures = 3; }
    }
    else if (0 == strcmp(k, "h2r.sn")) { buffer_copy_string_len(&h2r->server_name_buf, CONST_STR_LEN("sni")); h2r->server_name = &h2r->server_name_buf; }
    else return -1;
    return 0;
}

/* ------------------------------------------------------------------ canonical dump */
static void pbuf(const char *name, const buffer *b) {
    printf(" %s=", name);
    if (0 == b->used) fputc('U', stdout);
    else ltv_puthex(b->ptr, buffer_clen(b));
}
static void plist(const char *name, const array *a, int lc) {
    printf(" %s=", name);
    if (0 == a->used) { fputc('-', stdout); return; }
    for (uint32_t i = 0; i < a->used; ++i) {
        const data_string *ds = (const data_string *)a->data[i];
        if (i) fputc(',', stdout);
        if (lc) {
            buffer *k = buffer_init();
            buffer_copy_string_len_lc(k, BUF_PTR_LEN(&ds->key));
            ltv_puthex(k->ptr, buffer_clen(k));
            buffer_free(k);
        }
        else
        ltv_puthex(ds->key.ptr, buffer_clen(&ds->key));
        fputc(':', stdout);
        ltv_puthex(ds->value.ptr, buffer_clen(&ds->value));
    }
}
static void pbits(const char *name, uint64_t v) {
    printf(" %s=", name);
    int any = 0;
    for (int i = 0; i < 64; ++i) if (v & (1ull << i)) { printf("%s%d", any ? "," : "", i); any = 1; }
    if (!any) fputc('-', stdout);
}
static void pcq(const char *name, const chunkqueue *cq) {
    printf(" %s=%lld:%lld:%lld", name, (long long)chunkqueue_length(cq), (long long)cq->bytes_in, (long long)cq->bytes_out);
}

static void dump(const request_st *r, const connection *c) {
    const server * const srv = &srv_s;
    printf("state=%d st=%d x=%lld:%lld:%lld m=%d v=%d hm=%d", (int)r->state, r->http_status,
           (long long)r->x.h1.bytes_written_ckpt, (long long)r->x.h1.bytes_read_ckpt, (long long)r->x.h1.te_chunked,
           (int)r->http_method, (int)r->http_version, r->handler_module ? 1 : 0);
    printf(" pctx=");
    for (uint32_t i = 0; i <= srv->plugins.used; ++i) fputc(r->plugin_ctx[i] ? '1' : '0', stdout);
    printf(" con=%d dst=%d cm=", r->con == c, r->dst_addr == &c->dst_addr && r->dst_addr_buf == &c->dst_addr_buf);
    for (int i = 0; i < srv->config_captures; ++i)
        fputc(NULL == r->cond_match[i] ? 'n' : r->cond_match[i] == r->cond_match_data + i ? 'o'
              : r->cond_match[i] == c->request.cond_match_data + i ? 'h' : 'x', stdout);
    printf(" civ=%u cc=", r->conditional_is_valid);
    for (int i = 0; i < NCTX; ++i) printf("%s%d:%d", i ? "," : "", r->cond_cache[i].result, r->cond_cache[i].local_result);
    request_config dc = defaults;
    dc.http_parseopts = r->conf.http_parseopts;
    dc.max_request_field_size = r->conf.max_request_field_size;
    dc.stream_request_body = r->conf.stream_request_body;
    printf(" conf=%s po=%u mrfs=%u srb=%u", 0 == memcmp(&dc, &r->conf, sizeof(dc)) ? "def" : "mod",
           r->conf.http_parseopts, r->conf.max_request_field_size, (unsigned)r->conf.stream_request_body);
    printf(" qhl=%u", r->rqst_header_len);
    pbits("qht", r->rqst_htags);
    plist("qh", &r->rqst_headers, 1);
    pbuf("usch", &r->uri.scheme); pbuf("uauth", &r->uri.authority); pbuf("upath", &r->uri.path); pbuf("uq", &r->uri.query);
    pbuf("pp", &r->physical.path); pbuf("pb", &r->physical.basedir); pbuf("pd", &r->physical.doc_root); pbuf("pr", &r->physical.rel_path);
    plist("env", &r->env, 0);
    printf(" rbl=%lld sp=%lld host=", (long long)r->reqbody_length, (long long)r->resp_body_scratchpad);
    if (r->http_host) ltv_puthex(r->http_host->ptr, buffer_clen(r->http_host)); else fputs("none", stdout);
    printf(" sn=%s", r->server_name == &r->uri.authority ? "auth" : r->server_name == &r->server_name_buf ? "buf"
           : (r->server_name == c->request.server_name ? "h2r" : "other"));
    pbuf("tgt", &r->target); pbuf("to", &r->target_orig); pbuf("pi", &r->pathinfo); pbuf("snb", &r->server_name_buf);
    printf(" rhl=%u", r->resp_header_len);
    pbits("rht", r->resp_htags);
    plist("rh", &r->resp_headers, 0);
    printf(" fin=%d started=%d chunked=%d dechunk=%d rep=%d loops=%d ka=%d async=%d tmp=%d gw=%d ehs=%d",
           r->resp_body_finished, r->resp_body_started, r->resp_send_chunked, r->resp_decode_chunked,
           r->resp_header_repeated, r->loops_per_request, r->keep_alive, r->async_callback,
           r->tmp_buf == srv->tmp_buf, r->gw_dechunk ? 1 : 0, r->error_handler_saved_status);
    pcq("wq", &r->write_queue); pcq("rdq", &r->read_queue); pcq("bq", &r->reqbody_queue);
    printf(" cap=%d ext=%d rc=%d%d%d", r->cond_captures, r->h2_connect_ext, fake_reset_calls[1], fake_reset_calls[2], fake_reset_calls[3]);
}

/* parsed-request line in the format of h_request.c */
static int cmp_hdr(const void *a, const void *b) { return strcmp(*(const char * const *)a, *(const char * const *)b); }
static char *hexdup(const char *p, size_t n) {
    static const char hx[] = "0123456789abcdef";
    char *o = malloc(2*n+2);
    if (0 == n) { strcpy(o, "-"); return o; }
    for (size_t i = 0; i < n; ++i) { o[2*i] = hx[((unsigned char)p[i])>>4]; o[2*i+1] = hx[p[i]&15]; }
    o[2*n] = 0;
    return o;
}
static void print_parsed(const request_st *r) {
    if (0 != r->http_status) {
        printf("err %d%s m=%d v=%d", r->http_status, (r->keep_alive != 0 || r->reqbody_length != 0) ? " NOT-CLOSED" : "",
               (int)r->http_method < 0 ? -1 : (int)r->http_method,   /* (HTTP_METHOD_PRI = -2 and UNSET = -1: no method) */
               (int)r->http_version);                       /* what the error response reads */
        return;
    }
    const buffer *m = http_method_buf(r->http_method);
    printf("ok v%d ka%d m=", (int)r->http_version, r->keep_alive ? 1 : 0);
    ltv_puthex(m->ptr, buffer_clen(m));
    fputs(" t=", stdout); ltv_puthex(r->target.ptr, buffer_clen(&r->target));
    fputs(" p=", stdout); ltv_puthex(r->uri.path.ptr, buffer_clen(&r->uri.path));
    fputs(" q=", stdout); ltv_puthex(r->uri.query.ptr, buffer_clen(&r->uri.query));
    fputs(" h=", stdout);
    if (r->http_host) ltv_puthex(r->http_host->ptr, buffer_clen(r->http_host)); else fputs("none", stdout);
    printf(" len=%lld hdrs=", (long long)r->reqbody_length);
    char *ent[1024]; int ne = 0;
    for (uint32_t i = 0; i < r->rqst_headers.used && ne < 1024; ++i) {
        const data_string *ds = (const data_string *)r->rqst_headers.data[i];
        if (buffer_is_blank(&ds->value)) continue;
        buffer *k = buffer_init();
        buffer_copy_string_len_lc(k, BUF_PTR_LEN(&ds->key));
        char *kh = hexdup(k->ptr, buffer_clen(k));
        char *vh = hexdup(ds->value.ptr, buffer_clen(&ds->value));
        char *e = malloc(strlen(kh)+strlen(vh)+2);
        sprintf(e, "%s=%s", kh, vh);
        ent[ne++] = e; free(kh); free(vh); buffer_free(k);
    }
    qsort(ent, ne, sizeof(*ent), cmp_hdr);
    if (0 == ne) fputc('-', stdout);
    for (int i = 0; i < ne; ++i) { if (i) fputc(',', stdout); fputs(ent[i], stdout); free(ent[i]); }
    fputs(" to=", stdout); ltv_puthex(r->target_orig.ptr, buffer_clen(&r->target_orig));
    fputs(" a=", stdout); ltv_puthex(r->uri.authority.ptr, buffer_clen(&r->uri.authority));
    fputs(" s=", stdout); ltv_puthex(r->uri.scheme.ptr, buffer_clen(&r->uri.scheme));
    pbits("ht", r->rqst_htags);
    printf(" ext=%d", r->h2_connect_ext);
}

/* ------------------------------------------------------------------ ops */
static void h2con_attach(connection *c) {
    h2con *h2c = ck_calloc(1, sizeof(h2con));
    h2c->s_initial_window_size = 65535;
    c->hx = (hxcon *)h2c;
}

/* run the recycling op; returns the request object to look at afterwards */
static request_st *run_op(const char *op, request_st *r, connection *c, int pooled) {
    if (0 == strcmp(op, "none")) return r;
    if (0 == strcmp(op, "reset")) { request_reset(r); return r; }
    if (0 == strcmp(op, "ex")) { request_reset_ex(r); return r; }
    if (0 == strcmp(op, "resetex")) { request_reset(r); request_reset_ex(r); return r; }
    if (0 == strcmp(op, "respreset")) { http_response_reset(r); return r; }
    if (0 == strcmp(op, "bodyclear0")) { http_response_body_clear(r, 0); return r; }
    if (0 == strcmp(op, "bodyclear1")) { http_response_body_clear(r, 1); return r; }
    if (0 == strcmp(op, "conreset")) { if (pooled) return NULL; connection_reset(c); return r; }
    if (0 == strcmp(op, "kaend")) {
        /* connection_handle_response_end_state() on its keep-alive path (request completely read,
         * response written): request_reset() + the accounting checkpoints for the next request */
        if (pooled) return NULL;
        r->http_version = HTTP_VERSION_1_1;
        r->keep_alive = 1;
        r->http_status = 0;                              /* (skip the request_done hooks) */
        r->reqbody_length = r->reqbody_queue.bytes_in;
        if (r->state == CON_STATE_ERROR) r->state = CON_STATE_WRITE;
        connection_handle_response_end_state(r, c);
        return r;
    }
    if (0 == strcmp(op, "release")) {
        if (!pooled) return NULL;
        request_release(r);
        request_st *n = request_acquire(c);
        return n;      /* (must be the pooled object) */
    }
    if (0 == strcmp(op, "h2init")) {
        if (!pooled) return NULL;
        request_release(r);
        h2con_attach(c);
        request_st *n = h2_init_stream(&c->request, c);
        return n;
    }
    return NULL;
}

static int op_is_pooled(const char *op) { return 0 == strcmp(op, "release") || 0 == strcmp(op, "h2init"); }

int main(void) {
    skeleton_init();
    while (ltv_next()) {
        if (ltv_ntok >= 1 && 0 == strcmp(ltv_tok[0], "ids")) {
            static const char *names[] = { "Host", "Content-Length", "Connection", "Transfer-Encoding", "Content-Type",
              "Cookie", "Range", "If-None-Match", "If-Modified-Since", "Upgrade", "HTTP2-Settings", "Expect", "ETag",
              "Last-Modified", "Location", "Accept-Encoding", "User-Agent", "Authorization", "X-Foo", "Content-Encoding",
              "Vary", "Date", "Server", "Allow", "WWW-Authenticate", "Accept", "Referer", "Content-Range", "Accept-Ranges",
              "Cache-Control", "Set-Cookie", "Status", "TE", "Priority", "If-Range", "X-Forwarded-For", "Forwarded" };
            fputs("ids", stdout);
            for (size_t i = 0; i < sizeof(names)/sizeof(*names); ++i)
                printf("%s%s=%d", i ? "," : " ", names[i], (int)http_header_hkey_get(names[i], strlen(names[i])));
            fputc('\n', stdout);
            continue;
        }
        memset(fake_reset_calls, 0, sizeof(fake_reset_calls));
        if (ltv_ntok >= 2 && 0 == strcmp(ltv_tok[0], "rst")) {
            const char *op = ltv_tok[1];
            const int pooled = op_is_pooled(op);
            con = con_new();
            request_st *r = pooled ? request_acquire(con) : &con->request;
            int bad = 0;
            for (int i = 2; i < ltv_ntok && !bad; ++i) bad = apply_spec(r, con, ltv_tok[i]);
            memset(fake_reset_calls, 0, sizeof(fake_reset_calls));
            request_st *n = bad ? NULL : run_op(op, r, con, pooled);
            if (NULL == n) puts(-2 == bad ? "skip" : "bad-op");
            else {
                if (pooled) printf("same=%d ", n == r);
                dump(n, con);
                fputc('\n', stdout);
            }
            if (pooled) { if (n) request_release(n); else request_release(r); request_pool_free(); }
            con_free(con);
            continue;
        }
        if (ltv_ntok >= 5 && 0 == strcmp(ltv_tok[0], "rp")) {
            const int h2 = 0 == strcmp(ltv_tok[1], "h2");
            const unsigned opts = (unsigned)atoi(ltv_tok[2]);
            const char *op = ltv_tok[3];
            const int pooled = op_is_pooled(op);
            int semi = -1;
            for (int i = 4; i < ltv_ntok; ++i) if (0 == strcmp(ltv_tok[i], ";")) { semi = i; break; }
            if (semi < 0 || semi + 1 >= ltv_ntok) { puts("bad-op"); continue; }
            char *probe = ltv_tok[semi+1];
            char *probe2 = strdup(probe);
            /* A: fresh object */
            con = con_new();
            request_st *r = pooled ? request_acquire(con) : &con->request;
            if (pooled && 0 == strcmp(op, "h2init")) {   /* a first stream of a fresh connection */
                request_release(r); h2con_attach(con); r = h2_init_stream(&con->request, con);
            }
            if (h2) hdr_parse_h2(r, opts, probe, 1); else hdr_parse_h1(r, opts, probe);
            print_parsed(r);
            if (pooled) { request_release(r); request_pool_free(); }
            con_free(con);
            fputs(" | ", stdout);
            /* B: dirtied and recycled object */
            con = con_new();
            r = pooled ? request_acquire(con) : &con->request;
            int bad = 0;
            for (int i = 4; i < semi && !bad; ++i) {
                bad = apply_spec(r, con, ltv_tok[i]);
                if (-2 == bad) bad = 0;          /* (dirtied by a rejected request head: fine) */
            }
            request_st *n = bad ? NULL : run_op(op, r, con, pooled);
            if (NULL == n) fputs("bad-op", stdout);
            else {
                if (h2) hdr_parse_h2(n, opts, probe2, 1); else hdr_parse_h1(n, opts, probe2);
                print_parsed(n);
            }
            fputc('\n', stdout);
            if (pooled) { request_release(n ? n : r); request_pool_free(); }
            con_free(con);
            free(probe2);
            continue;
        }
        puts("bad-op");
    }
    return 0;
}
