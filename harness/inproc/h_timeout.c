/* correspondence harness for connection lifetime (C13): timeouts, limits, admission, graceful stop
 *
 * The real src/server.c and src/h2.c are #included (server.c with main() renamed), so that the statics
 * server_main_loop(), server_load_check(), server_overload_check(), server_graceful_state(),
 * server_handle_sigalrm() and h2_check_timeout() are reachable; everything else (connections.c, h1.c,
 * network.c, fdevent*.c, response.c, request.c, ...) is the sanitized library of the current tree.
 * Inside server.c two calls are redirected:
 *   clock_gettime()  -> a harness-owned virtual monotonic clock (CLOCK_REALTIME is passed through)
 *   fdevent_poll()   -> a hook that runs the real fdevent_poll(ev, 0) and, whenever the real main loop
 *                       has become quiescent, records an observation and performs the next scripted
 *                       client / clock / signal action
 * so that server_main_loop() itself, unmodified, executes the scenario in virtual time.
 *
 * one case per line:
 *
 *  ct1 <state> <in> <reqcount> <ver> <rts> <wts> <cts> <kaidle> <ri> <wi> <now>
 *      h1_check_timeout() on a hand-built connection with a fake fdnode (interest = FDEVENT_IN if <in>)
 *      state = request_state_t value, ver = http_version_t value (0 = 1.0, 1 = 1.1, 2 = 2)
 *   -> <changed> <state>
 *  ct2 <state> <rts> <wts> <kaidle> <wi> <now> [<sstate>,<bodypending>,<ri> ...]
 *      h2_check_timeout() on a hand-built HTTP/2 connection with the listed streams
 *   -> <changed> <state> <is_readable>
 *  lc <cur_fds> <lowat> <hiwat> <lim_conns> <sockets_disabled> [<max_conns>]
 *      the load-check step of server_main_loop() (server_overload_check / server_load_check)
 *   -> <sockets_disabled>
 *  h2d <max_request_size kB> <content-length | -1> <alen>[e] ...
 *      h2_recv_data() on one open stream of a real (h2_init_con) connection, one DATA frame per token
 *      (e = END_STREAM), the stream's state carried from frame to frame
 *   -> per frame <bytes_in>,<http_status>,<o|c stream open/closed>,<RST_STREAM code sent | ->
 *  h2h <max_request_field_size> <klen>,<vlen> ...
 *      http_request_parse_header() as h2_parse_headers_frame() calls it, field by field (the first four
 *      are :method :scheme :path :authority)
 *   -> 0 | <status>@<index of the field that was refused>
 *  sc <cfg> <op> ...
 *      cfg = eh=<poll|select|linux-sysepoll>,mc=<max conns>,mf=<max fds>,ri=,wi=,ka=,kr=,rs=<max-request-size kB>,
 *            fs=<max-request-field-size>,gt=<graceful-shutdown-timeout>,cf=<descriptors in use at start>
 *      ops:  t[<n>]            advance the virtual clock by n (default 1) seconds
 *            o<i>              client i connects (AF_UNIX stream socket to the real listen socket)
 *            q<i>,<m>,<k>,<z>,<H>,<B>[,<c>]
 *                              client i prepares a request: m = g (GET) | p (POST, Content-Length B) |
 *                              c (POST, chunked, B body bytes in chunks of c); k = 1 keep-alive / 0 Connection: close;
 *                              z = s (small response) | b (big response); H = exact length of the request head
 *                              (q, f and x are ignored while the client waits in the listen queue with bytes
 *                              already sent)
 *            s<i>,<n>          client i sends the next n bytes of its prepared request (0 = the rest)
 *            r<i>              client i reads everything currently available
 *            R<i>              client i keeps reading until the server has nothing more to send
 *            f<i>              client i shuts down its sending side;   x<i>  client i closes
 *            G                 graceful-shutdown signal (what the SIGINT handler does)
 *            W                 spurious wake-up of every connection (joblist_append)
 *   -> one observation per op, joined by " | ":
 *        L<lim_conns>D<sockets_disabled>[X] then for every client opened so far
 *        <i>:<phase>[i][o][,n<request_count>][,r<read_idle_ts>][,w<write_request_ts>][,c<close_timeout_ts>][F][Z|!][=<statuses>]
 *        phase: - not accepted, R read, P read-post, H handle-request, W write, C close, . released;
 *        i/o: FDEVENT_IN / FDEVENT_OUT interest; timestamps relative to the scenario start and only when live
 *        (read_idle_ts while FDEVENT_IN is wanted outside the close state, write_request_ts in the write
 *        state, close_timeout_ts in the close state);
 *        F: the client sees the server's FIN / hang-up; Z: client read EOF; !: client read error;
 *        statuses: status codes of the response heads the client has read so far
 */
#include "first.h"
#include <sys/types.h>
#include <sys/socket.h>
#include <sys/un.h>
#include <sys/wait.h>
#include <poll.h>
#include <time.h>
#include <unistd.h>
#include <fcntl.h>
#include <errno.h>
#include <signal.h>
#include <stdarg.h>
#include <stddef.h>
#include "harness_common.h"

/* ---- virtual clock ---------------------------------------------------------- */
#define LTV_BASE 1000
static long long ltv_now = LTV_BASE;
static int ltv_clock_gettime(clockid_t id, struct timespec *ts) {
    if (id == CLOCK_REALTIME) return clock_gettime(id, ts);
    ts->tv_sec = (time_t)ltv_now;
    ts->tv_nsec = 0;
    return 0;
}

#define clock_gettime ltv_clock_gettime
#define fdevent_poll  ltv_fdevent_poll
#define main          ltv_server_main
#include "server.c"
#undef main
#undef fdevent_poll
#undef clock_gettime
int fdevent_poll(fdevents *ev, int timeout_ms);   /* the real one (fdevent_impl.c) */

#include "h2.c"
#include "fdevent_impl.h"
#include "http_chunk.h"
#include "sock_addr.h"
#include "stat_cache.h"
#include "network_write.h"

/* configfile.c is not part of the harness library */
void config_free(server *srv) { (void)srv; }
void config_reset_config_bytes_sec(void *p) { (void)p; }
void config_init(server *srv) { (void)srv; }
int config_read(server *srv, const char *fn) { (void)srv; (void)fn; return -1; }
void config_print(server *srv) { (void)srv; }
int config_set_defaults(server *srv) { (void)srv; return -1; }
int config_log_error_open(server *srv) { (void)srv; return 0; }
int config_finalize(server *srv, const buffer *t) { (void)srv; (void)t; return 0; }
void config_log_error_close(server *srv) { (void)srv; }
void config_patch_config(request_st *r) { (void)r; }

/* ============================================================ ct1 / ct2 / lc */
static void op_ct1(void) {
    if (ltv_ntok != 12) { puts("bad-op"); return; }
    static connection con;
    static fdnode fdn;
    static chunkqueue wq;
    memset(&con, 0, sizeof(con));
    memset(&fdn, 0, sizeof(fdn));
    request_st * const r = &con.request;
    r->con = &con;
    con.fdn = &fdn;
    con.fd = 3;
    con.write_queue = &wq;
    r->state = (request_state_t)atoi(ltv_tok[1]);
    fdn.events = atoi(ltv_tok[2]) ? FDEVENT_IN : 0;
    con.request_count = (uint32_t)strtoul(ltv_tok[3], NULL, 10);
    r->http_version = (http_version_t)atoi(ltv_tok[4]);
    con.read_idle_ts = atoll(ltv_tok[5]);
    con.write_request_ts = atoll(ltv_tok[6]);
    con.close_timeout_ts = atoll(ltv_tok[7]);
    con.keep_alive_idle = atoi(ltv_tok[8]);
    r->conf.max_read_idle = (unsigned short)atoi(ltv_tok[9]);
    r->conf.max_write_idle = (unsigned short)atoi(ltv_tok[10]);
    const int changed = h1_check_timeout(&con, (unix_time64_t)atoll(ltv_tok[11]));
    printf("%d %d\n", changed, (int)r->state);
}

static void op_ct2(void) {
    if (ltv_ntok < 7 || ltv_ntok > 7 + 8) { puts("bad-op"); return; }
    static connection con;
    static h2con h2c;
    static request_st rr[8];
    memset(&con, 0, sizeof(con));
    memset(&h2c, 0, sizeof(h2c));
    memset(rr, 0, sizeof(rr));
    request_st * const r = &con.request;
    r->con = &con;
    con.hx = (hxcon *)&h2c;
    con.fd = 3;
    con.is_readable = 1;
    r->http_version = HTTP_VERSION_2;
    r->state = (request_state_t)atoi(ltv_tok[1]);
    con.read_idle_ts = atoll(ltv_tok[2]);
    con.write_request_ts = atoll(ltv_tok[3]);
    con.keep_alive_idle = atoi(ltv_tok[4]);
    r->conf.max_write_idle = (unsigned short)atoi(ltv_tok[5]);
    for (int i = 7; i < ltv_ntok; ++i) {
        int st = 0, pend = 0, ri = 0;
        if (3 != sscanf(ltv_tok[i], "%d,%d,%d", &st, &pend, &ri)) { puts("bad-op"); return; }
        request_st * const s = &rr[h2c.rused];
        s->con = &con;
        s->state = (request_state_t)st;
        s->reqbody_length = pend ? 10 : 4;
        s->reqbody_queue.bytes_in = 4;
        s->conf.max_read_idle = (unsigned short)ri;
        h2c.r[h2c.rused++] = s;
    }
    const int changed = h2_check_timeout(&con, (unix_time64_t)atoll(ltv_tok[6]));
    printf("%d %d %d\n", changed, (int)r->state, (int)con.is_readable);
}

static int sink_event_set(fdevents *ev, fdnode *fdn, int events) { (void)ev; (void)fdn; (void)events; return 0; }
static int sink_event_del(fdevents *ev, fdnode *fdn) { (void)ev; (void)fdn; return 0; }

static void op_lc(void) {
    if (ltv_ntok != 6 && ltv_ntok != 7) { puts("bad-op"); return; }
    static server srv;
    static struct fdevents ev;
    memset(&srv, 0, sizeof(srv));
    memset(&ev, 0, sizeof(ev));
    ev.event_set = sink_event_set;
    ev.event_del = sink_event_del;
    srv.ev = &ev;
    static fdlog_st *nullh;
    if (!nullh) nullh = fdlog_init(NULL, open("/dev/null", O_WRONLY), FDLOG_FD);
    srv.errh = nullh;
    srv.cur_fds = atoi(ltv_tok[1]);
    srv.max_fds_lowat = atoi(ltv_tok[2]);
    srv.max_fds_hiwat = atoi(ltv_tok[3]);
    srv.lim_conns = (uint32_t)strtoul(ltv_tok[4], NULL, 10);
    srv.sockets_disabled = atoi(ltv_tok[5]);
    srv.srvconf.max_conns = (unsigned short)(7 == ltv_ntok ? atoi(ltv_tok[6]) : 0);
    /* the branch of server_main_loop() taken when no graceful shutdown is in progress */
    if (srv.sockets_disabled)
        server_overload_check(&srv);
    else
        server_load_check(&srv);
    printf("%d\n", srv.sockets_disabled);
}

/* ============================================================ h2d / h2h */
static server dsrv;
static connection dcon;
static request_config dconf;
static int d_nr(connection *c, chunkqueue *cq, off_t max) { (void)c; (void)cq; (void)max; return 0; }
static int d_nw(connection *c, chunkqueue *cq, off_t max) { (void)c; (void)cq; (void)max; return 0; }
static void direct_init(void) {
    static int done;
    if (done) return;
    done = 1;
    memset(&dsrv, 0, sizeof(dsrv));
    dsrv.config_context = array_init(1);
    dsrv.tmp_buf = buffer_init();
    dsrv.errh = fdlog_init(NULL, open("/dev/null", O_WRONLY), FDLOG_FD);
    log_set_global_errh(dsrv.errh, 0);
    memset(&dconf, 0, sizeof(dconf));
    dconf.errh = dsrv.errh;
    dconf.max_request_field_size = 8192;
    dconf.http_parseopts = 9567;
    dconf.h2proto = 2;
    dconf.max_keep_alive_idle = 5;
    request_config_set_defaults(&dconf);
    chunkqueue_set_tempdirs_default(NULL, 0);
    memset(&dcon, 0, sizeof(dcon));
    dcon.srv = &dsrv;
    dcon.plugin_slots = calloc(256, sizeof(uint16_t));
    dcon.plugin_ctx = calloc(8, sizeof(void *));
    dcon.fd = -1;
    dcon.proto_default_port = 80;
    buffer_copy_string_len(&dcon.dst_addr_buf, CONST_STR_LEN("127.0.0.1"));
    request_init_data(&dcon.request, &dcon, &dsrv);
    dcon.read_queue = &dcon.request.read_queue;
    dcon.write_queue = &dcon.request.write_queue;
    dcon.network_read = d_nr;
    dcon.network_write = d_nw;
    log_monotonic_secs = 1000;
}
static void dcon_begin(void) {
    request_st * const h2r = &dcon.request;
    chunkqueue_reset(dcon.read_queue);
    chunkqueue_reset(dcon.write_queue);
    dcon.read_queue->bytes_in = dcon.read_queue->bytes_out = 0;
    dcon.write_queue->bytes_in = dcon.write_queue->bytes_out = 0;
    dcon.request_count = 0;
    h2r->state = CON_STATE_READ;
    h2r->http_version = HTTP_VERSION_2;
    h2_init_con(h2r, &dcon);
    chunkqueue_reset(dcon.write_queue);
}
static void dcon_end(void) {
    request_st * const h2r = &dcon.request;
    if (dcon.hx) {
        h2con * const h2c = (h2con *)dcon.hx;
        for (uint32_t i = 0; i < h2c->rused; ++i) h2c->r[i]->http_status = 0;   /*(no request_done hooks)*/
        h2r->state = CON_STATE_ERROR;
        h2_retire_con(h2r, &dcon);
    }
    chunkqueue_reset(dcon.read_queue);
    chunkqueue_reset(dcon.write_queue);
}
/* error code of the last RST_STREAM frame in the write queue, -1 if none; the queue is emptied */
static int wq_take_rst(void) {
    int code = -1;
    chunkqueue * const cq = dcon.write_queue;
    const off_t len = chunkqueue_length(cq);
    if (len > 0) {
        char *buf = malloc((size_t)len), *p = buf;
        uint32_t l = (uint32_t)len;
        if (chunkqueue_peek_data(cq, &p, &l, dsrv.errh, 0) >= 0)
            for (uint32_t i = 0; i + 9 <= l; ) {
                const uint32_t fl = ((uint32_t)(unsigned char)p[i] << 16) | ((uint32_t)(unsigned char)p[i+1] << 8) | (unsigned char)p[i+2];
                if (p[i+3] == 3 && fl == 4 && i + 13 <= l)
                    code = (int)(((uint32_t)(unsigned char)p[i+9] << 24) | ((uint32_t)(unsigned char)p[i+10] << 16) | ((uint32_t)(unsigned char)p[i+11] << 8) | (unsigned char)p[i+12]);
                i += 9 + fl;
            }
        free(buf);
    }
    chunkqueue_reset(cq);
    return code;
}

static void op_h2d(void) {
    if (ltv_ntok < 3) { puts("bad-op"); return; }
    direct_init();
    dcon_begin();
    h2con * const h2c = (h2con *)dcon.hx;
    request_st * const r = h2_init_stream(&dcon.request, &dcon);
    r->x.h2.id = 1;
    r->x.h2.state = H2_STATE_OPEN;
    r->state = CON_STATE_READ_POST;
    r->conf.max_request_size = (uint32_t)strtoul(ltv_tok[1], NULL, 10);
    r->conf.stream_request_body = 0;
    r->reqbody_length = (off_t)atoll(ltv_tok[2]);
    h2c->h2_cid = 1;
    static unsigned char frame[9 + 70000];
    for (int i = 3; i < ltv_ntok; ++i) {
        char *e;
        unsigned long alen = strtoul(ltv_tok[i], &e, 10);
        const int es = (*e == 'e');
        if (alen > 65535) { fputs("bad-op", stdout); break; }
        frame[0] = (unsigned char)(alen >> 16); frame[1] = (unsigned char)(alen >> 8); frame[2] = (unsigned char)alen;
        frame[3] = 0 /*DATA*/; frame[4] = es ? 1 : 0;
        frame[5] = frame[6] = frame[7] = 0; frame[8] = 1;
        memset(frame + 9, 'd', alen);
        chunkqueue_reset(dcon.read_queue);
        chunkqueue_append_mem(dcon.read_queue, (char *)frame, 9 + alen);
        dcon.request.x.h2.rwin = 262144;          /* (connection window is C06's; never the limiting factor here) */
        r->x.h2.rwin = 65535;
        const chunk * const c = dcon.read_queue->first;
        h2_recv_data(&dcon, (uint8_t *)(c->mem->ptr + c->offset), (uint32_t)alen);
        const int rst = wq_take_rst();
        printf("%s%lld,%d,%c,", i > 3 ? " " : "", (long long)r->reqbody_queue.bytes_in, r->http_status,
               r->x.h2.state == H2_STATE_OPEN ? 'o' : 'c');
        if (rst < 0) fputc('-', stdout); else printf("%d", rst);
    }
    fputc('\n', stdout);
    chunkqueue_reset(&r->reqbody_queue);
    dcon_end();
}

static void op_h2h(void) {
    if (ltv_ntok < 2) { puts("bad-op"); return; }
    direct_init();
    dcon_begin();
    request_st * const r = h2_init_stream(&dcon.request, &dcon);
    r->x.h2.id = 1;
    http_header_parse_ctx hpctx;
    memset(&hpctx, 0, sizeof(hpctx));
    hpctx.pseudo = 1;
    hpctx.max_request_field_size = (uint32_t)strtoul(ltv_tok[1], NULL, 10);
    hpctx.http_parseopts = r->conf.http_parseopts;
    static const char * const pk[4] = { ":method", ":scheme", ":path", ":authority" };
    static const char * const pv[4] = { "GET", "http", "/", "h" };
    static char kb[70000], vb[70000];
    int status = 0, at = -1;
    for (int i = 2; i < ltv_ntok && 0 == status; ++i) {
        unsigned int kl = 0, vl = 0;
        if (2 != sscanf(ltv_tok[i], "%u,%u", &kl, &vl) || kl >= sizeof(kb) || vl >= sizeof(vb)) { status = -1; break; }
        if (i - 2 < 4) {
            if (kl != strlen(pk[i-2]) || vl != strlen(pv[i-2])) { status = -1; break; }
            memcpy(kb, pk[i-2], kl); memcpy(vb, pv[i-2], vl);
            hpctx.id = HTTP_HEADER_H2_UNKNOWN;
        }
        else {
            if (kl < 3) { status = -1; break; }
            memset(kb, 'a', kl); kb[0] = 'x'; kb[1] = '-';
            memset(vb, 'v', vl);
            hpctx.id = HTTP_HEADER_OTHER;
        }
        hpctx.k = kb; hpctx.v = vb; hpctx.klen = kl; hpctx.vlen = vl;
        status = http_request_parse_header(r, &hpctx);
        if (status) at = i - 2;
    }
    if (status < 0) puts("bad-op");
    else if (status) printf("%d@%d\n", status, at);
    else puts("0");
    dcon_end();
}

/* ============================================================ sc */
#define MAXCL 96
#define BIGRESP (16u << 20)
typedef struct {
    int used, fd, accepted, eof, rderr, closed;
    size_t pre;                /* bytes sent while no connection of this client had been seen yet */
    char name[32];             /* abstract AF_UNIX name (without the leading NUL) */
    char *req; size_t reqlen, reqoff;
    char statuses[128];
    int mstate; char mstatus[4]; /* streaming matcher for "HTTP/1.? NNN" */
} client_t;
static client_t cl[MAXCL];
static server *g_srv;
static char **g_ops; static int g_nops, g_op;
static int g_pending;          /* an op has been executed and its observation is due */
static int g_sticky;           /* R op in progress: client index + 1 */
static int g_quiet, g_spin, g_failed;
static int cfg_mc = 4, cfg_mf = 64, cfg_ri = 2, cfg_wi = 3, cfg_ka = 1, cfg_kr = 100, cfg_rs = 0, cfg_fs = 8192, cfg_gt = 4;
static char cfg_eh[32] = "poll";
static struct sockaddr_un srv_sun; static socklen_t srv_sunlen;
static char *bigbuf;

/* ---- response producer (a minimal dynamic handler, shaped like mod_cgi / gw_backend) */
typedef struct { PLUGIN_DATA; } fake_pd;
static plugin fake_plugin;
static plugin *fake_plugin_ptrs[1];
static void *fake_init(void) { return calloc(1, sizeof(fake_pd)); }
static handler_t fake_uri_clean(request_st *r, void *p_d) {
    fake_pd *p = p_d;
    r->handler_module = p->self;
    return HANDLER_GO_ON;
}
static handler_t fake_subrequest(request_st *r, void *p_d) {
    (void)p_d;
    if (r->state == CON_STATE_READ_POST) {
        handler_t rc = r->con->reqbody_read(r);
        if (rc != HANDLER_GO_ON) return rc;
        if (r->reqbody_length != r->reqbody_queue.bytes_in) return HANDLER_WAIT_FOR_EVENT;
    }
    if (r->resp_body_finished) return HANDLER_FINISHED;
    const int big = (buffer_clen(&r->uri.path) >= 2 && r->uri.path.ptr[1] == 'b');
    r->http_status = 200;
    http_header_response_set(r, HTTP_HEADER_CONTENT_TYPE, CONST_STR_LEN("Content-Type"), CONST_STR_LEN("text/plain"));
    /* (appended directly: http_chunk_append_mem() would spill a large body to a temporary file) */
    if (big) chunkqueue_append_mem(&r->write_queue, bigbuf, BIGRESP);
    else     chunkqueue_append_mem(&r->write_queue, CONST_STR_LEN("xxxxxxxxxxxxxxxxxxxxxxxxxxxxxxxx"));
    r->resp_body_finished = 1;
    return HANDLER_FINISHED;
}

/* ---- clients ------------------------------------------------------------------ */
static void cl_feed(client_t *c, const char *p, size_t n) {
    static const char pat[] = "HTTP/1.";
    for (size_t i = 0; i < n; ++i) {
        const char ch = p[i];
        if (c->mstate < 7) c->mstate = (ch == pat[c->mstate]) ? c->mstate + 1 : (ch == 'H');
        else if (c->mstate < 9) ++c->mstate;               /* minor version digit, space */
        else {
            c->mstatus[c->mstate - 9] = ch;
            if (++c->mstate == 12) {
                c->mstatus[3] = 0;
                size_t l = strlen(c->statuses);
                if (l + 5 < sizeof(c->statuses))
                    snprintf(c->statuses + l, sizeof(c->statuses) - l, "%s%s", l ? "," : "", c->mstatus);
                c->mstate = 0;
            }
        }
    }
}
static size_t cl_read(client_t *c) {
    static char buf[262144];
    size_t total = 0;
    if (c->fd < 0) return 0;
    for (;;) {
        ssize_t n = recv(c->fd, buf, sizeof(buf), MSG_DONTWAIT);
        if (n > 0) { cl_feed(c, buf, (size_t)n); total += (size_t)n; continue; }
        if (0 == n) c->eof = 1;
        else if (errno == EINTR) continue;
        else if (errno != EAGAIN && errno != EWOULDBLOCK) c->rderr = 1;
        break;
    }
    return total;
}
static void cl_prepare(client_t *c, int m, int k, int z, size_t H, size_t B, size_t csz) {
    free(c->req);
    buffer * const b = buffer_init();
    buffer_append_string(b, m == 'g' ? "GET /" : "POST /");
    buffer_append_char(b, (char)z);
    buffer_append_string(b, " HTTP/1.1\r\nHost: h\r\n");
    if (!k) buffer_append_string(b, "Connection: close\r\n");
    if (m == 'p') { buffer_append_string(b, "Content-Length: "); buffer_append_int(b, (intmax_t)B); buffer_append_string(b, "\r\n"); }
    if (m == 'c') buffer_append_string(b, "Transfer-Encoding: chunked\r\n");
    /* pad the head to exactly H bytes with one extra header (needs >= 7 spare bytes: "X: " + 1 + CRLF... ) */
    const size_t cur = buffer_clen(b) + 2;
    if (H >= cur + 6) {
        const size_t pad = H - cur - 5;                  /* "X: " + pad + "\r\n" */
        buffer_append_string(b, "X: ");
        char *s = buffer_extend(b, pad);
        memset(s, 'a', pad);
        buffer_append_string(b, "\r\n");
    }
    buffer_append_string(b, "\r\n");
    if (buffer_clen(b) != H) g_failed = 1;              /* (H too small for this kind of request) */
    if (m == 'p') { char *s = buffer_extend(b, B); memset(s, 'd', B); }
    if (m == 'c') {
        if (0 == csz) csz = B ? B : 1;
        for (size_t left = B; left; ) {
            const size_t n = left < csz ? left : csz;
            char hx[32];
            snprintf(hx, sizeof(hx), "%zx\r\n", n);      /* (minimal number of hex digits) */
            buffer_append_string(b, hx);
            char *s = buffer_extend(b, n); memset(s, 'd', n);
            buffer_append_string(b, "\r\n");
            left -= n;
        }
        buffer_append_string(b, "0\r\n\r\n");
    }
    c->reqlen = buffer_clen(b);
    c->req = malloc(c->reqlen + 1);
    memcpy(c->req, b->ptr, c->reqlen);
    c->reqoff = 0;
    buffer_free(b);
}

static connection *cl_con(const client_t *c) {
    /* (con->dst_addr is copied from a stack buffer of which accept() fills only the address length,
     *  so the peer name is taken from getpeername() on the server-side descriptor) */
    const size_t nl = strlen(c->name);
    for (connection *con = g_srv->conns; con; con = con->next) {
        struct sockaddr_un sun;
        socklen_t len = sizeof(sun);
        if (con->fd < 0 || 0 != getpeername(con->fd, (struct sockaddr *)&sun, &len)) continue;
        if (sun.sun_family != AF_UNIX || len != offsetof(struct sockaddr_un, sun_path) + 1 + nl) continue;
        if (sun.sun_path[0] == 0 && 0 == memcmp(sun.sun_path + 1, c->name, nl)) return con;
    }
    return NULL;
}

/* a client that has sent bytes without having been seen with a connection (it waits in the listen queue):
 * a new request, FIN or close of such a client is outside the scenario language */
static int cl_stranded(const client_t *c) {
    return c->pre > 0 && !c->accepted && NULL == cl_con(c);
}

/* ---- observation ---------------------------------------------------------------- */
static char *obuf; static size_t olen, ocap;
static void oput(const char *fmt, ...) {
    va_list ap;
    if (olen + 256 > ocap) { ocap = ocap * 2 + 4096; obuf = realloc(obuf, ocap); }
    va_start(ap, fmt);
    olen += (size_t)vsnprintf(obuf + olen, ocap - olen, fmt, ap);
    va_end(ap);
}
static int g_exited;
static void observe(void) {
    server * const srv = g_srv;
    if (olen) oput(" | ");
    oput("L%uD%d%s", srv->lim_conns, srv->sockets_disabled, g_exited ? "X" : "");
    for (int i = 0; i < MAXCL; ++i) {
        client_t * const c = &cl[i];
        if (!c->used) continue;
        oput(" %d:", i);
        connection * const con = g_exited ? NULL : cl_con(c);
        if (con) {
            c->accepted = 1;
            const request_st * const r = &con->request;
            const int ev = fdevent_fdnode_interest(con->fdn);
            char ph;
            switch (r->state) {
              case CON_STATE_READ:           ph = 'R'; break;
              case CON_STATE_READ_POST:      ph = 'P'; break;
              case CON_STATE_HANDLE_REQUEST: ph = 'H'; break;
              case CON_STATE_WRITE:          ph = 'W'; break;
              case CON_STATE_CLOSE:          ph = 'C'; break;
              case CON_STATE_REQUEST_START:  ph = 'S'; break;
              case CON_STATE_ERROR:          ph = 'E'; break;
              case CON_STATE_RESPONSE_END:   ph = 'N'; break;
              default:                       ph = '?'; break;
            }
            oput("%c%s%s,n%u", ph, (ev & FDEVENT_IN) ? "i" : "", (ev & FDEVENT_OUT) ? "o" : "", con->request_count);
            if ((ev & FDEVENT_IN) && r->state != CON_STATE_CLOSE) oput(",r%lld", (long long)con->read_idle_ts - LTV_BASE);
            if (r->state == CON_STATE_WRITE) oput(",w%lld", (long long)con->write_request_ts - LTV_BASE);
            if (r->state == CON_STATE_CLOSE) oput(",c%lld", (long long)con->close_timeout_ts - LTV_BASE);
        }
        else
            oput("%c", c->accepted ? '.' : '-');
        if (c->fd >= 0) {
            struct pollfd pfd = { c->fd, POLLIN | POLLRDHUP, 0 };
            if (poll(&pfd, 1, 0) > 0 && (pfd.revents & (POLLRDHUP | POLLHUP | POLLERR))) oput("F");
        }
        if (c->eof) oput("Z");
        if (c->rderr) oput("!");
        if (c->statuses[0]) oput("=%s", c->statuses);
    }
}

/* ---- script ------------------------------------------------------------------------ */
static int op_index(const char *s, const char **rest) {
    char *e;
    long i = strtol(s, &e, 10);
    *rest = e;
    return (e == s || i < 0 || i >= MAXCL) ? -1 : (int)i;
}
static void do_op(const char *op) {
    const char *rest = op + 1;
    client_t *c = NULL;
    if (strchr("oqsrRfx", op[0])) {
        const int i = op_index(op + 1, &rest);
        if (i < 0) { g_failed = 1; return; }
        c = &cl[i];
        if (op[0] != 'o' && (!c->used || c->fd < 0)) return;      /* (no such client: no-op) */
        if (op[0] == 'o') {
            if (c->used) return;
            memset(c, 0, sizeof(*c));
            c->used = 1;
            snprintf(c->name, sizeof(c->name), "ltv%ld-c%d", (long)getpid(), i);
            c->fd = socket(AF_UNIX, SOCK_STREAM | SOCK_NONBLOCK | SOCK_CLOEXEC, 0);
            struct sockaddr_un sun; memset(&sun, 0, sizeof(sun));
            sun.sun_family = AF_UNIX;
            memcpy(sun.sun_path + 1, c->name, strlen(c->name));
            if (c->fd < 0
                || 0 != bind(c->fd, (struct sockaddr *)&sun, (socklen_t)(offsetof(struct sockaddr_un, sun_path) + 1 + strlen(c->name)))
                || 0 != connect(c->fd, (struct sockaddr *)&srv_sun, srv_sunlen)) {
                /* (listen socket already closed by graceful shutdown: connection refused) */
                if (c->fd >= 0) close(c->fd);
                c->fd = -1; c->rderr = 1;
            }
            return;
        }
    }
    switch (op[0]) {
      case 't':
        ltv_now += op[1] ? atoll(op + 1) : 1;
        break;
      case 'q': {
        char m = 'g', z = 's'; int k = 1; unsigned long H = 0, B = 0, csz = 0;
        if (sscanf(rest, ",%c,%d,%c,%lu,%lu,%lu", &m, &k, &z, &H, &B, &csz) < 5) { g_failed = 1; return; }
        if (cl_stranded(c)) break;
        cl_prepare(c, m, k, z, H, B, csz);
        break;
      }
      case 's': {
        unsigned long n = 0;
        if (*rest == ',') n = strtoul(rest + 1, NULL, 10);
        if (!c->req) break;
        const int waiting = (!c->accepted && NULL == cl_con(c));
        size_t left = c->reqlen - c->reqoff;
        if (0 == n || n > left) n = left;
        while (n) {
            ssize_t w = send(c->fd, c->req + c->reqoff, n, MSG_NOSIGNAL | MSG_DONTWAIT);
            if (w <= 0) { if (w < 0 && errno == EINTR) continue; break; }
            c->reqoff += (size_t)w; n -= (size_t)w;
            if (waiting) c->pre += (size_t)w;
        }
        break;
      }
      case 'r': cl_read(c); break;
      case 'R': g_sticky = cl_read(c) ? (int)(c - cl) + 1 : 0; break;
      case 'f': if (!cl_stranded(c)) shutdown(c->fd, SHUT_WR); break;
      case 'x': if (!cl_stranded(c)) { close(c->fd); c->fd = -1; c->closed = 1; } break;
      case 'G':                                   /* as sigaction_handler() does for SIGINT */
        if (graceful_shutdown) {
            if (2 == graceful_restart) graceful_restart = 1;
            else srv_shutdown = 1;
        }
        else graceful_shutdown = 1;
        break;
      case 'W':
        for (connection *con = g_srv->conns; con; con = con->next) joblist_append(con);
        break;
      default: g_failed = 1; break;
    }
}

/* the poll hook: called by the real server_main_loop() once per iteration */
int ltv_fdevent_poll(fdevents *ev, int timeout_ms) {
    const int n = fdevent_poll(ev, 0);
    if (n > 0 || 0 == timeout_ms) {
        g_quiet = 0;
        if (++g_spin > 20000) { g_failed = 2; srv_shutdown = 1; }
        return n;
    }
    if (++g_quiet < 5) return n;         /* a few more full iterations: load / overload check, graceful maintenance */
    g_quiet = 0; g_spin = 0;
    if (g_sticky) { const int i = g_sticky - 1; g_sticky = 0; if (cl_read(&cl[i])) { g_sticky = i + 1; return 0; } }
    if (g_pending) { observe(); g_pending = 0; }
    if (g_failed || g_op >= g_nops) { srv_shutdown = 1; return 0; }
    do_op(g_ops[g_op++]);
    g_pending = 1;
    return 0;
}

static int kv_int(const char *cfg, const char *key, int dflt) {
    const size_t kl = strlen(key);
    for (const char *p = cfg; p && *p; ) {
        if (0 == strncmp(p, key, kl) && p[kl] == '=') return atoi(p + kl + 1);
        p = strchr(p, ',');
        if (p) ++p;
    }
    return dflt;
}

static void run_scenario(void) {
    const char * const cfg = ltv_tok[1];
    cfg_mc = kv_int(cfg, "mc", 4); cfg_mf = kv_int(cfg, "mf", 64);
    cfg_ri = kv_int(cfg, "ri", 2); cfg_wi = kv_int(cfg, "wi", 3); cfg_ka = kv_int(cfg, "ka", 1);
    cfg_kr = kv_int(cfg, "kr", 100); cfg_rs = kv_int(cfg, "rs", 0); cfg_fs = kv_int(cfg, "fs", 8192);
    cfg_gt = kv_int(cfg, "gt", 4);
    const char *eh = strstr(cfg, "eh=");
    if (eh) { size_t n = strcspn(eh + 3, ","); if (n >= sizeof(cfg_eh)) n = sizeof(cfg_eh) - 1; memcpy(cfg_eh, eh + 3, n); cfg_eh[n] = 0; }
    g_ops = ltv_tok + 2; g_nops = ltv_ntok - 2; g_op = 0;

    if (NULL == bigbuf) { bigbuf = malloc(BIGRESP); memset(bigbuf, 'x', BIGRESP); }

    server * const srv = g_srv = server_init();
    /* (LTV_LOG=1: keep the server's error log on stderr, for debugging a scenario by hand) */
    fdlog_st * const nullh = getenv("LTV_LOG") ? NULL : fdlog_init(NULL, open("/dev/null", O_WRONLY), FDLOG_FD);
    srv->errh = log_set_global_errh(nullh, 0);
    log_monotonic_secs = ltv_now;

    /* server.feature-flags */
    srv->srvconf.feature_flags = array_init(2);
    array_set_key_value(srv->srvconf.feature_flags, CONST_STR_LEN("server.graceful-shutdown-timeout"), CONST_STR_LEN("0"));
    {
        data_string *ds = (data_string *)array_get_element_klen(srv->srvconf.feature_flags, CONST_STR_LEN("server.graceful-shutdown-timeout"));
        buffer_clear(&ds->value);
        buffer_append_int(&ds->value, cfg_gt);
    }
    srv->config_context = array_init(1);
    array_insert_value(srv->config_context, "global", 6);
    srv->srvconf.dont_daemonize = 1;
    srv->srvconf.max_conns = (unsigned short)cfg_mc;
    srv->srvconf.max_fds = (unsigned short)cfg_mf;
    srv->srvconf.max_request_field_size = (uint32_t)cfg_fs;

    /* one dynamic handler */
    memset(&fake_plugin, 0, sizeof(fake_plugin));
    fake_plugin.version = LIGHTTPD_VERSION_ID;
    fake_plugin.name = "ltvfake";
    fake_plugin.init = fake_init;
    fake_plugin.handle_uri_clean = fake_uri_clean;
    fake_plugin.handle_subrequest = fake_subrequest;
    fake_plugin_ptrs[0] = &fake_plugin;
    srv->plugins.ptr = fake_plugin_ptrs;
    srv->plugins.used = 1;
    if (HANDLER_GO_ON != plugins_call_init(srv)) { puts("init-failed"); return; }

    static request_config defaults;
    static buffer docroot, tag;
    memset(&defaults, 0, sizeof(defaults));
    buffer_copy_string_len(&docroot, CONST_STR_LEN("/nonexistent"));
    buffer_copy_string_len(&tag, CONST_STR_LEN("ltv"));
    defaults.errh = srv->errh;
    defaults.document_root = &docroot;
    defaults.server_tag = &tag;
    defaults.max_request_field_size = (uint32_t)cfg_fs;
    defaults.http_parseopts = 9567;
    defaults.max_keep_alive_requests = (unsigned short)cfg_kr;
    defaults.max_keep_alive_idle = (unsigned short)cfg_ka;
    defaults.max_read_idle = (unsigned short)cfg_ri;
    defaults.max_write_idle = (unsigned short)cfg_wi;
    defaults.max_request_size = (uint32_t)cfg_rs;
    defaults.allow_http11 = 1;
    defaults.follow_symlink = 1;
    defaults.h2proto = 0;
    request_config_set_defaults(&defaults);

    /* as server_main_setup() does after reading the configuration */
    srv->max_fds = (int)srv->srvconf.max_fds;
    if (srv->max_fds < 32) srv->max_fds = 32;
    srv->ev = fdevent_init(cfg_eh, &srv->max_fds, &srv->cur_fds, srv->errh);
    if (NULL == srv->ev) { puts("fdevent-init-failed"); return; }
    srv->max_fds_lowat = srv->max_fds * 8 / 10;
    srv->max_fds_hiwat = srv->max_fds * 9 / 10;
    srv->lim_conns = srv->srvconf.max_conns;

    /* the listen socket */
    const int lfd = socket(AF_UNIX, SOCK_STREAM | SOCK_NONBLOCK | SOCK_CLOEXEC, 0);
    memset(&srv_sun, 0, sizeof(srv_sun));
    srv_sun.sun_family = AF_UNIX;
    char nm[64];
    snprintf(nm, sizeof(nm), "ltv%ld-srv", (long)getpid());
    memcpy(srv_sun.sun_path + 1, nm, strlen(nm));
    srv_sunlen = (socklen_t)(offsetof(struct sockaddr_un, sun_path) + 1 + strlen(nm));
    if (lfd < 0 || 0 != bind(lfd, (struct sockaddr *)&srv_sun, srv_sunlen) || 0 != listen(lfd, 128)) { puts("listen-failed"); return; }
    static server_socket ss;
    static server_socket *ssp[1];
    static buffer srv_token;
    memset(&ss, 0, sizeof(ss));
    memcpy(&ss.addr.un, &srv_sun, sizeof(srv_sun));
    ss.fd = lfd;
    ss.srv = srv;
    buffer_copy_string_len(&srv_token, CONST_STR_LEN("ltv"));
    ss.srv_token = &srv_token;
    ss.srv_token_colon = 3;
    ssp[0] = &ss;
    srv->srv_sockets.ptr = ssp;
    srv->srv_sockets.used = 1;
    if (0 != network_write_init(srv) || 0 != network_register_fdevents(srv)) { puts("network-init-failed"); return; }
    stat_cache_init(srv->ev, srv->errh);
    { int fd = fdevent_open_devnull(); if (fd >= 0) { srv->cur_fds = fd; close(fd); } }
    /* (server_main_setup() estimates the descriptors in use from the lowest free one; the scenario
     *  fixes the estimate so that the watermark arithmetic is reproducible) */
    if (kv_int(cfg, "cf", -1) >= 0) srv->cur_fds = kv_int(cfg, "cf", -1);

    srv_shutdown = 0; graceful_shutdown = 0; graceful_restart = 0; handle_sig_hup = 0; handle_sig_child = 0;
    for (;;) {
        server_main_loop(srv);               /* the real loop; returns when srv_shutdown is set */
        if (g_failed || (g_op >= g_nops && !g_pending)) break;
        /* the loop ended by itself (graceful shutdown completed / second signal): the remaining ops
         * still get an observation each, with the server marked as exited */
        g_exited = 1;
        if (g_sticky) { cl_read(&cl[g_sticky - 1]); g_sticky = 0; }   /* (nothing more will be written) */
        if (g_pending) { observe(); g_pending = 0; }
        while (g_op < g_nops) {
            do_op(g_ops[g_op++]);
            if (g_sticky) { cl_read(&cl[g_sticky - 1]); g_sticky = 0; }
            observe();
        }
        break;
    }
    if (g_failed) printf("%s%s\n", olen ? obuf : "", 2 == g_failed ? " | spin" : " | bad-op");
    else puts(olen ? obuf : "-");
}

static void op_sc(void) {
    if (ltv_ntok < 2) { puts("bad-op"); return; }
    fflush(stdout);
    int pfd[2];
    if (0 != pipe(pfd)) { puts("pipe-failed"); return; }
    /* (the body of the big response is prepared once, before the fork: every scenario process reads
     *  it copy-on-write instead of filling 16 MiB of its own) */
    if (NULL == bigbuf) { bigbuf = malloc(BIGRESP); memset(bigbuf, 'x', BIGRESP); }
    const pid_t pid = fork();
    if (0 == pid) {
        close(pfd[0]);
        dup2(pfd[1], 1);
        run_scenario();
        fflush(stdout);
        _exit(0);
    }
    close(pfd[1]);
    static char buf[1 << 20];
    size_t len = 0;
    for (;;) {
        ssize_t n = read(pfd[0], buf + len, sizeof(buf) - 1 - len);
        if (n > 0) { len += (size_t)n; continue; }
        if (n < 0 && errno == EINTR) continue;
        break;
    }
    close(pfd[0]);
    int status = 0;
    while (waitpid(pid, &status, 0) < 0 && errno == EINTR) ;
    if (!WIFEXITED(status) || 0 != WEXITSTATUS(status)) {
        fflush(stdout);
        fprintf(stderr, "scenario child failed (status %d) on: sc %s ...\n", status, ltv_tok[1]);
        exit(3);
    }
    buf[len] = 0;
    fputs(len ? buf : "<no-output>\n", stdout);
}

int main(void) {
    signal(SIGPIPE, SIG_IGN);
    while (ltv_next()) {
        if (0 == ltv_ntok) { puts("bad-op"); continue; }
        if (0 == strcmp(ltv_tok[0], "ct1")) op_ct1();
        else if (0 == strcmp(ltv_tok[0], "ct2")) op_ct2();
        else if (0 == strcmp(ltv_tok[0], "lc")) op_lc();
        else if (0 == strcmp(ltv_tok[0], "h2d")) op_h2d();
        else if (0 == strcmp(ltv_tok[0], "h2h")) op_h2h();
        else if (0 == strcmp(ltv_tok[0], "sc")) op_sc();
        else puts("bad-op");
        fflush(stdout);
    }
    return 0;
}
