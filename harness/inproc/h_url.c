/* correspondence harness for the URL/path pipeline (C02, C03, C09, C20 share it)
 * ops:  dec <hex>          buffer_urldecode_path
 *       simp <hex>         buffer_path_simplify
 *       decsimp <hex>      both
 *       norm <flags> <hex>         burl_normalize        -> "rej" | "<qs> <hex>"
 *       target <flags> <sp> <hex>  http_request_parse_target -> "400" | "ok <target> <path> <query>"
 *              sp: 0 = GET, 1 = CONNECT (target taken verbatim), 2 = HTTP/2 extended CONNECT (RFC 8441, has a :path:
 *              parsed like any other request)
 */
#include "first.h"
#include "harness_common.h"
#include "buffer.h"
#include "burl.h"
#include "request.h"
#include "http_kv.h"

int main(void) {
    buffer *b = buffer_init();
    buffer *t = buffer_init();
    request_st rq; memset(&rq, 0, sizeof(rq));
    rq.tmp_buf = buffer_init();
    while (ltv_next()) {
        if (ltv_ntok < 1) { puts("bad-op"); continue; }
        const char *op = ltv_tok[0];
        if ((0 == strcmp(op, "dec") || 0 == strcmp(op, "simp") || 0 == strcmp(op, "decsimp")) && ltv_ntok == 2) {
            size_t n; unsigned char *in = ltv_unhex(ltv_tok[1], &n);
            buffer_copy_string_len(b, (char *)in, n);
            if (op[0] == 'd') buffer_urldecode_path(b);
            if (op[0] == 's' || op[3] == 's') buffer_path_simplify(b);
            ltv_puthex(b->ptr, buffer_clen(b));
            fputc('\n', stdout);
            free(in);
        }
        else if (0 == strcmp(op, "norm") && ltv_ntok == 3) {
            size_t n; unsigned char *in = ltv_unhex(ltv_tok[2], &n);
            buffer_copy_string_len(b, (char *)in, n);
            int qs = burl_normalize(b, t, atoi(ltv_tok[1]));
            if (-2 == qs) puts("rej");
            else { printf("%d ", qs); ltv_puthex(b->ptr, buffer_clen(b)); fputc('\n', stdout); }
            free(in);
        }
        else if (0 == strcmp(op, "target") && ltv_ntok == 4) {
            size_t n; unsigned char *in = ltv_unhex(ltv_tok[3], &n);
            request_st * const r = &rq;
            r->conf.http_parseopts = (unsigned int)atoi(ltv_tok[1]);
            int sp = atoi(ltv_tok[2]);
            r->http_method = sp ? HTTP_METHOD_CONNECT : HTTP_METHOD_GET;
            r->h2_connect_ext = (2 == sp);
            buffer_copy_string_len(&r->target, (char *)in, n);
            int rc = http_request_parse_target(r, 80);
            if (rc) printf("%d\n", rc);
            else {
                fputs("ok ", stdout); ltv_puthex(r->target.ptr, buffer_clen(&r->target));
                fputc(' ', stdout); ltv_puthex(r->uri.path.ptr, buffer_clen(&r->uri.path));
                fputc(' ', stdout); ltv_puthex(r->uri.query.ptr, buffer_clen(&r->uri.query));
                fputc('\n', stdout);
            }
            free(in);
        }
        else puts("bad-op");
    }
    buffer_free(b);
    return 0;
}
