/* shared helpers for the in-process correspondence harnesses:
 * one case per input line, one canonical line of output per case */
#ifndef LTV_HARNESS_COMMON_H
#define LTV_HARNESS_COMMON_H
#include <stdio.h>
#include <stdlib.h>
#include <string.h>
#include <stdint.h>

#define LTV_MAXTOK 16384
static char *ltv_line;
static size_t ltv_cap;
static char *ltv_tok[LTV_MAXTOK];
static int ltv_ntok;

static int ltv_next(void) {
    ssize_t n = getline(&ltv_line, &ltv_cap, stdin);
    if (n <= 0) return 0;
    while (n > 0 && (ltv_line[n-1] == '\n' || ltv_line[n-1] == '\r')) ltv_line[--n] = 0;
    ltv_ntok = 0;
    char *save = NULL;
    for (char *t = strtok_r(ltv_line, " ", &save); t && ltv_ntok < LTV_MAXTOK;
         t = strtok_r(NULL, " ", &save))
        ltv_tok[ltv_ntok++] = t;
    return 1;
}

static int ltv_hv(int c) {
    if (c >= '0' && c <= '9') return c - '0';
    if (c >= 'a' && c <= 'f') return c - 'a' + 10;
    if (c >= 'A' && c <= 'F') return c - 'A' + 10;
    return -1;
}

/* decode hex token ("-" = empty) into malloc'd NUL-terminated buffer */
static unsigned char *ltv_unhex(const char *s, size_t *len) {
    size_t n = (s[0] == '-' && s[1] == 0) ? 0 : strlen(s) / 2;
    unsigned char *b = malloc(n + 1);
    for (size_t i = 0; i < n; ++i)
        b[i] = (unsigned char)((ltv_hv(s[2*i]) << 4) | ltv_hv(s[2*i+1]));
    b[n] = 0;
    *len = n;
    return b;
}

static void ltv_puthex(const void *p, size_t n) {
    static const char hx[] = "0123456789abcdef";
    const unsigned char *s = p;
    if (0 == n) { fputc('-', stdout); return; }
    for (size_t i = 0; i < n; ++i) {
        fputc(hx[s[i] >> 4], stdout);
        fputc(hx[s[i] & 15], stdout);
    }
}
#endif
