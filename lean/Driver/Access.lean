/- line-protocol handler for model "access" (stub until its model is built) -/
namespace Driver

def accessLine : List String → String
  | _ => "bad-op"

end Driver
