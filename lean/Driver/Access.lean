/- line-protocol handler for model "access" (C03): the building blocks of the access
   decision (array_match_*, mod_access_check, mod_extforward) and the whole request
   pipeline; same ops and canonical outputs as harness/inproc/h_access.c -/
import LtVerif.Model.Access
import LtVerif.Model.Extforward
import LtVerif.Model.H1Parse
namespace Driver
open LtVerif LtVerif.B LtVerif.Access LtVerif.Extforward

namespace AccessOps

def optIdx : Option Nat → String
  | some i => toString i
  | none => "-1"

def hexList (ts : List String) : Option (List Bytes) := ts.mapM ofHex

def splitC (c : Char) (s : String) : List String := s.splitOn (String.singleton c)

/-- "~" = unset, "." = empty list, else hex items joined by ',' -/
def optList (s : String) : Option (Option (List Bytes)) :=
  if s = "~" then some none
  else if s = "." then some (some [])
  else (hexList (splitC ',' s)).map some

/-- "-" | key=value,key=value -/
def fwdEntries (s : String) : Option (List (Bytes × Bytes)) :=
  if s = "-" then some []
  else (splitC ',' s).mapM fun e =>
    match splitC '=' e with
    | [k, v] => (match ofHex k, ofHex v with | some k, some v => some (k, v) | _, _ => none)
    | _ => none

/-- http_header_request_append(): repeated fields are joined with ", " -/
def addField (hs : List (Bytes × Bytes)) (n v : Bytes) : List (Bytes × Bytes) :=
  if v.isEmpty then hs else
  let n := n.map toLower
  if hs.any (·.1 = n) then hs.map fun (k, o) => if k = n then (k, o ++ [44, 32] ++ v) else (k, o)
  else hs ++ [(n, v)]

/-- "-" | name:value;name:value -/
def fields (s : String) : Option (List (Bytes × Bytes)) :=
  if s = "-" then some []
  else (splitC ';' s).mapM fun e =>
    match splitC ':' e with
    | [k, v] => (match ofHex k, ofHex v with | some k, some v => some (k, v) | _, _ => none)
    | _ => none

def addrStr : Option SockAddr → String
  | some (.v4 b) => "4 " ++ toHex b
  | some (.v6 b) => "6 " ++ toHex b
  | _ => "none"

/-- extforward.headers: "-" = default -/
def hdrNames (s : String) : Option (List Bytes) :=
  if s = "-" then some defaultHeaders
  else (hexList (splitC ',' s)).map fun l => l.map fun n => n.map toLower

/-! ### the request pipeline -/

def fsOf (s : String) : Option Fs :=
  if s = "-" then some (fun p => if p.isEmpty then some .dir else none) else
  match (splitC ',' s).mapM (fun e =>
      match splitC ':' e with
      | [k, h] =>
        (match ofHex h with
         | some p => if k = "d" then some (p, Kind.dir) else if k = "f" then some (p, Kind.file) else none
         | none => none)
      | _ => none) with
  | none => none
  | some ents =>
    -- (every directory on the way to an entry exists, as `mkdir -p` makes it)
    let dirs : List Bytes := ents.flatMap fun (p, _) => (slashIdx p).map fun i => p.take i
    some fun q =>
      match ents.find? (fun e => e.1 = q) with
      | some e => some e.2
      | none => if q.isEmpty || dirs.contains q then some .dir else none

def strOpOf : String → Option StrOp
  | "e" => some .eq | "n" => some .ne | "p" => some .prefix_ | "s" => some .suffix
  | _ => none

def isInfix (n h : Bytes) : Bool :=
  (List.range (h.length + 1)).any fun i => (h.drop i).take n.length == n

/-- the regular expressions the generator writes: "(?i)lit$", "(?i)^lit", "lit" -/
def reOf (kind : String) (lit : Bytes) : Option (Bytes → Bool) :=
  if kind = "cs" then some (reCaselessSuffix lit)
  else if kind = "cp" then some (reCaselessPrefix lit)
  else if kind = "sub" then some fun u => validUtf8 u && isInfix lit u
  else none

/-- `(?i)^name(:[0-9]+)?$` on an authority (PCRE2, UTF mode) -/
def reHostPort (name u : Bytes) : Bool :=
  validUtf8 u &&
    (u.map toLower == name.map toLower ||
     (preMatch true (name ++ [colon]) u && (u.drop (name.length + 1)).all isDigit &&
      !(u.drop (name.length + 1)).isEmpty))

def hostReOf (kind : String) (lit : Bytes) : Option (Bytes → Bool) :=
  if kind = "cp" then some (reCaselessPrefix lit)
  else if kind = "hp" then some (reHostPort lit)
  else none

def atomOf (s : String) : Option Scope :=
  if s = "G" then some .global else
  match splitC ':' s with
  | [t, h] =>
    (match t.toList, ofHex h with
     | ['U', o], some b => (strOpOf (String.singleton o)).map fun op => Scope.url op b
     | ['H', o], some b => (strOpOf (String.singleton o)).map fun op => Scope.host op b
     | _, _ => none)
  | [t, k, h] =>
    (match t.toList, ofHex h with
     | ['R', n], some b => (reOf k b).map fun m => Scope.urlRe (n == '1') m
     | ['Q', n], some b => (hostReOf k b).map fun m => Scope.hostRe (n == '1') m
     | ['J', n], some b => (reOf k b).map fun m => Scope.ipRe (n == '1') m
     | _, _ => none)
  | [t, fam, a, bits] =>
    (match t.toList, ofHex a, bits.toNat? with
     | ['I', n], some ab, some nb =>
       if fam = "4" && ab.length = 4 then some (Scope.ip (n == '1') (.v4 ab) nb)
       else if fam = "6" && ab.length = 16 then some (Scope.ip (n == '1') (.v6 ab) nb)
       else none
     | _, _, _ => none)
  | _ => none

/-- a block's effective condition: atoms joined by '&' (enclosing blocks first), '!' = an earlier
    branch of the else-chain that must not hold -/
def scopeOf (s : String) : Option Scope :=
  let one (a : String) : Option Scope :=
    if a.startsWith "!" then (atomOf (a.drop 1).toString).map Scope.non else atomOf a
  match (splitC '&' s).mapM one with
  | some (x :: xs) => some (xs.foldl Scope.both x)
  | _ => none

/-- "~" | "." | rule,rule  with rule = prefix | prefix@user+user -/
def authList (s : String) : Option (Option (List AuthRule)) :=
  if s = "~" then some none
  else if s = "." then some (some [])
  else ((splitC ',' s).mapM fun r =>
    match splitC '@' r with
    | [p] => (ofHex p).map fun p => ({ pfx := p } : AuthRule)
    | [p, us] =>
      (match ofHex p, hexList (splitC '+' us) with
       | some p, some us => some ({ pfx := p, users := some us } : AuthRule)
       | _, _ => none)
    | _ => none).map some

def optBool (s : String) : Option (Option Bool) :=
  if s = "~" then some none else if s = "1" then some (some true) else if s = "0" then some (some false) else none

/-- scope|allow|deny|auth|exclude|forwarder|headers|disable-pathinfo -/
def blockOf (s : String) : Option Block :=
  match splitC '|' s with
  | [sc, al, dn, au, ex, fw, fh, np] =>
    match scopeOf sc, optList al, optList dn, authList au, optList ex, optList fh, optBool np with
    | some sc, some al, some dn, some au, some ex, some fh, some np =>
      let fw? : Option (Option Forwarder) :=
        if fw = "~" then some none
        else match fwdEntries fw with
          | some es => (parseForwarder es).map some
          | none => none
      fw?.map fun fw =>
        { scope := sc, allow := al, deny := dn, auth := au, exclude := ex, forwarder := fw,
          fwdHeaders := fh.map fun l => l.map fun n => n.map toLower, noPathinfo := np }
    | _, _, _, _, _, _, _ => none
  | _ => none

/-- the users of the harness's user file, by the Authorization value that verifies -/
def knownCreds : List (Bytes × Bytes) :=
  [(ofString "Basic YWxpY2U6d29uZGVybGFuZA==", ofString "alice"),
   (ofString "Basic YWRtaW46c2VzYW1l", ofString "admin"),
   (ofString "Basic Ym9iOmJ1aWxkZXI=", ofString "bob")]

def userOf (hs : List (Bytes × Bytes)) : Option Bytes :=
  match hs.find? (fun h => h.1 = ofString "authorization") with
  | some h => (knownCreds.find? (fun c => c.1 = h.2)).map (·.2)
  | none => none

def respStr (r : Resp) (parsed : Bool) : String :=
  toString r.status ++ "," ++ (if parsed then toHex r.uri else "-") ++ "," ++
  (if parsed then toHex r.pathinfo else "-") ++ "," ++ toHex r.addr ++ "," ++
  (match r.file with | some f => toHex f | none => "-")

def isTokLower (n : Bytes) : Bool := !n.isEmpty && n.all fun c => isLower c || c = 45

/-- HTTP/2 request below the framing layer: pseudo-headers and fields through
    http_request_parse_header(), then http_request_headers_process_h2() -/
def h2Head (o : Opts) (method path authority : Bytes) (flds : List (Bytes × Bytes)) : ReqOut :=
  if method.isEmpty then .err 400
  else if !methodTable.contains method then .err 501
  else if path.isEmpty then .err 400
  else if authority.length ≥ 1024 then .err 400
  else
    let r0 : PReq := { version := 2, keepAlive := false, method := method, target := path }
    let r0 := if authority.isEmpty then r0 else setHost r0 authority
    -- http_request_validate_pseudohdrs()
    if method = ofString "CONNECT" then .err 400 else
    if path.head? ≠ some slash && !(path = [42] && method = ofString "OPTIONS") then .err 400 else
    let badTarget : Bool :=
      if o.headerStrict then (if o.ctrlsReject then fragmentInvalidStrict path else path.any uriCharInvalidStrict)
      else path.any fun c => c = 0 || c = cr || c = lf
    if badTarget then .err 400 else
    -- fields (the generator only writes lower-case token names)
    let step (acc : Except Nat PReq) (f : Bytes × Bytes) : Except Nat PReq :=
      match acc with
      | .error e => .error e
      | .ok r =>
        let (n, v) := f
        if v.isEmpty then .ok r
        else if (if o.headerStrict then v.any lineCharInvalidStrict
                 else v.any fun c => c = 0 || c = cr || c = lf) then .error 400
        else
          let v := dropTrailingWs (v.dropWhile isWs)
          if v.isEmpty then .ok r
          else if !isTokLower n then .error 400
          else if n = ofString "te" && !eqIcase v (ofString "trailers") then .error 400
          else singleHeader r n v
    match flds.foldl step (.ok r0) with
    | .error e => .err e
    | .ok r1 =>
      match parsePost o 80 r1 with
      | .err e => .err e
      | .skipV6 => .skipV6
      | .ok r t => .ok r t

def reqOf (s : Server) (tok : String) : Option String :=
  let run (peer : Bytes) (ro : ReqOut) : Option String :=
    match ptonAny peer with
    | none => none
    | some pa =>
      match ro with
      | .ok r _ =>
        if r.method ≠ ofString "GET" then none else
        let q : Req := { target := r.target, host := r.host.getD [], peer := peer, peerAddr := pa,
                         hdrs := r.headers, user := userOf r.headers }
        some (respStr (serve false gaiNumeric s q) true)
      | .err e => some (respStr { status := e, uri := [], pathinfo := [], addr := peer, file := none } false)
      | _ => none
  match splitC ',' tok with
  | ["1", peer, blk] =>
    match ofHex peer, ofHex blk with
    | some p, some b => run p (parseHead s.opts 8192 80 b)
    | _, _ => none
  | ["2", peer, m, path, auth, fl] =>
    match ofHex peer, ofHex m, ofHex path, ofHex auth, fields fl with
    | some p, some m, some path, some a, some fl => run p (h2Head s.opts m path a fl)
    | _, _, _, _, _ => none
  | _ => none

def srvLine (toks : List String) : String :=
  match toks with
  | _conf :: dr :: fl :: lc :: fs :: rest =>
    let blocks := rest.takeWhile (· ≠ "/")
    let reqs := (rest.dropWhile (· ≠ "/")).drop 1
    match ofHex dr, fl.toNat?, fsOf fs, blocks.mapM blockOf with
    | some dr, some f, some fs, some bs =>
      if rest.all (· ≠ "/") then "bad-op" else
      let s : Server := { cfg := bs, opts := ⟨f⟩, lc := lc = "1", docroot := dr, fs := fs }
      match reqs.mapM (reqOf s) with
      | some outs => String.intercalate " " ((toString f ++ " " ++ (if s.lc then "1" else "0")) :: outs)
      | none => "bad-op"
    | _, _, _, none => "config-error"
    | _, _, _, _ => "bad-op"
  | _ => "bad-op"

end AccessOps

open AccessOps in
def accessLine : List String → String
  | "sfx" :: nc :: p :: vs =>
    match ofHex p, hexList vs with
    | some p, some vs => optIdx (matchValueSuffix (nc == "1") vs p)
    | _, _ => "bad-op"
  | "vpfx" :: nc :: p :: vs =>
    match ofHex p, hexList vs with
    | some p, some vs => optIdx (matchValuePrefix (nc == "1") vs p)
    | _, _ => "bad-op"
  | "kpfx" :: nc :: p :: vs =>
    match ofHex p, hexList vs with
    | some p, some vs => optIdx (matchKeyPrefix (nc == "1") vs p)
    | _, _ => "bad-op"
  | "ksfx" :: nc :: p :: vs =>
    match ofHex p, hexList vs with
    | some p, some vs => optIdx (matchKeySuffix (nc == "1") vs p)
    | _, _ => "bad-op"
  | "poe" :: p :: vs =>
    match ofHex p, hexList vs with
    | some p, some vs => optIdx (matchPathOrExt vs p)
    | _, _ => "bad-op"
  | "chk" :: lc :: p :: na :: vs =>
    match ofHex p, na.toNat?, hexList vs with
    | some p, some n, some vs =>
      if n > vs.length then "bad-op"
      else if accessCheck (vs.take n) (vs.drop n) p (lc == "1") then "1" else "0"
    | _, _, _ => "bad-op"
  | ["lcs", h] =>
    match ofHex h with
    | some b => toHex (b.map toLower)
    | none => "bad-op"
  | ["utf8", h] =>
    match ofHex h with
    | some b => if validUtf8 b then "1" else "0"
    | none => "bad-op"
  | ["pton", h] =>
    match ofHex h with
    | some b => addrStr (ptonAny b)
    | none => "bad-op"
  | ["gai", h] =>
    match ofHex h with
    | some b => addrStr (gaiNumeric b)
    | none => "bad-op"
  | ["xfa", h] =>
    match ofHex h with
    | some b =>
      let l := extractForwardArray b
      if l.isEmpty then "-" else String.intercalate "," (l.map toHex)
    | none => "bad-op"
  | ["trust", fw, ip] =>
    match fwdEntries fw, ofHex ip with
    | some es, some ip =>
      if fw = "-" then "no-forwarder" else
      (match parseForwarder es with
       | none => "config-error"
       | some f => if isProxyTrusted f ip then "1" else "0")
    | _, _ => "bad-op"
  | ["xff", fw, hn, peer, fl] =>
    match fwdEntries fw, hdrNames hn, ofHex peer, fields fl with
    | some es, some names, some peer, some fl =>
      let f? : Option (Option Forwarder) := if fw = "-" then some none else (parseForwarder es).map some
      (match f? with
       | none => "config-error"
       | some f =>
         match ptonAny peer with
         | none => "bad-peer"
         | some _ =>
           let hs := fl.foldl (fun acc kv => addField acc kv.1 kv.2) []
           match remoteAddr false gaiNumeric { forwarder := f, headers := names } peer hs with
           | .bad => "1 400 ="
           | .unchanged => "0 0 ="
           | .set a _ => "0 0 " ++ toHex a)
    | _, _, _, _ => "bad-op"
  | "srv" :: rest => srvLine rest
  | _ => "bad-op"

end Driver
