/- line-protocol handler for model "arith" (stub until its model is built) -/
namespace Driver

def arithLine : List String → String
  | _ => "bad-op"

end Driver
