/- line-protocol handler for model "arith" (C12): same ops and canonical output as
   harness/inproc/h_arith.c and h_arith_h2.c -/
import LtVerif.Model.Arith
import LtVerif.Model.ArithRange
import LtVerif.Model.ArithTmpBuf
namespace Driver
open LtVerif LtVerif.B LtVerif.Arith

private def ubStr (w : String) : String := "ub:" ++ w.replace " " "_"

private def fnv16 (vals : Array Nat) (upto : Nat) : Nat := Id.run do
  let mut h : Nat := 2166136261
  for i in [0:upto] do
    let v := vals.getD i 0
    h := ((h ^^^ (v % 256)) * 16777619) % 4294967296
    h := ((h ^^^ (v / 256 % 256)) * 16777619) % 4294967296
  return h

private def hoffOut (init0 : Nat) (block : Bytes) : String :=
  match hoffScan init0 block with
  | .ub w => ubStr w
  | .ok (ret, st) =>
    let arr0 : Array Nat := (Array.replicate 8192 65535).set! 0 (st.cnt % 65536) |>.set! 1 0
    let arr := st.writes.foldl (fun (a : Array Nat) (iv : Nat × Nat) => a.set! iv.1 (iv.2 % 65536)) arr0
    let maxidx := Nat.min 8191 (if ret ≠ 0 then st.cnt + 1 else st.cnt)
    toString ret ++ " " ++ toString (st.cnt % 65536) ++ " " ++ toString maxidx ++ " " ++
      toString (fnv16 arr (maxidx + 1)) ++ " clean"

private def ckOut (gw : Bool) : CkOut → String
  | .ub w => ubStr w
  | .err s => if gw then "err" else "err " ++ toString s
  | .unmodelled => "unmodelled"
  | .ok te moved rest _ =>
    if gw then "ok te=" ++ toString te ++ " out=" ++ toString moved ++ " done=0"
    else "ok te=" ++ toString te ++ " in=" ++ toString moved ++ " rest=" ++ toString rest ++ " len=-1"

private def bufOps (ops : List String) : String :=
  let step (acc : Option Buf × List String) (op : String) : Option Buf × List String :=
    match acc.1 with
    | none => acc
    | some b =>
      let k := op.toList.headD ' '
      let n := (op.drop 1).toNat?.getD 0
      let r : BufOut :=
        if k = 'p' then prepareAppend b n
        else if k = 'c' then commit b n
        else if k = 'e' then extend b n
        else if k = 'y' then prepareCopy b n
        else if k = 't' then .ok (truncate b (n % 4294967296))
        else if k = 'x' then .ok (clear b)
        else if k = 'f' then .ok { used := 0, size := 0 }
        else if k = 'R' then bufRealloc b n
        else .ok b
      match r with
      | .abort => (none, acc.2 ++ ["abort"])
      | .ok b' => (some b', acc.2 ++ [toString b'.used ++ "/" ++ toString b'.size])
  let (_, outs) := ops.foldl step (some { used := 0, size := 0 }, [])
  String.intercalate " " outs

private def tbParse (t : String) : Option TbOp :=
  let k := t.toList.headD ' '
  if t = "I" then some .h2init
  else if t = "X" then some .h2retire
  else if t = "Q" then some .h2hdr
  else if k = 'E' || k = 'O' then
    match (t.drop 1).toString.splitOn ":" with
    | [a, b] =>
      match a.toNat?, b.toNat? with
      | some n, some p =>
        if n > 65535 || p > 255 then none
        else some (if k = 'E' then .fcgiErr n p else .fcgiOut n p)
      | _, _ => none
    | _ => none
  else none

/-- `Q` without an open connection is not a case -/
private def tbWellFormed : Bool → List TbOp → Bool
  | _, [] => true
  | _, .h2init :: r => tbWellFormed true r
  | _, .h2retire :: r => tbWellFormed false r
  | o, .h2hdr :: r => o && tbWellFormed o r
  | o, _ :: r => tbWellFormed o r

private def tmpbOut (toks : List String) : String :=
  match toks.mapM tbParse with
  | none => "bad-op"
  | some ops =>
    if !tbWellFormed false ops then "bad-op" else
    match tbRun ⟨⟨0, 0⟩, false⟩ ops with
    | none => "abort"
    | some (sf, tr) =>
      "tb=" ++ String.intercalate "," (tr.map toString) ++ " used=" ++ toString sf.b.used

private def rngOut (len : Int) (s : Bytes) : String :=
  match Rg.parse (s.takeWhile (· ≠ 0)) len with
  | .ub w => ubStr w
  | .ok rs => String.intercalate " " (toString rs.length :: rs.map fun r => toString r.1 ++ "-" ++ toString r.2)

private def gwOut (maxField : Nat) (reads : List Bytes) : String :=
  let r := gwRun maxField reads
  match r.fail with
  | some f =>
    if f.startsWith "ub:" then ubStr (f.drop 3).toString else
    "rc=-1 n=" ++ toString r.n ++ " te=" ++ toString r.st.te ++ " h=" ++ toString r.st.h.length ++
      " done=" ++ (if r.st.done then "1" else "0") ++ " out=" ++ toString r.st.out ++
      " maxh=" ++ toString r.maxh ++ " maxp=" ++ toString r.maxp
  | none =>
    "rc=0 n=" ++ toString r.n ++ " te=" ++ toString r.st.te ++ " h=" ++ toString r.st.h.length ++
      " done=" ++ (if r.st.done then "1" else "0") ++ " out=" ++ toString r.st.out ++
      " maxh=" ++ toString r.maxh ++ " maxp=" ++ toString r.maxp

private def fnv8 (bs : Bytes) : Nat :=
  bs.foldl (fun h b => ((h ^^^ b.toNat) * 16777619) % 4294967296) 2166136261

private def h1Out (ms mf : Nat) (reads : List Bytes) : String :=
  let r := h1Run ms mf reads
  match r.fail with
  | some f =>
    if f.startsWith "ub:" then ubStr (f.drop 3).toString else
    f ++ " n=" ++ toString r.n ++ " maxrest=" ++ toString r.maxrest
  | none =>
    "ok te=" ++ toString r.st.te ++ " in=" ++ toString r.st.bytesIn ++ " rest=" ++ toString r.st.q.length ++
      " len=" ++ (if r.st.done then toString r.st.bytesIn else "-1") ++ " ka=" ++ (if r.st.ka then "1" else "0") ++
      " n=" ++ toString r.n ++ " maxrest=" ++ toString r.maxrest

private def h2cOut (_fsize : Nat) (buf : Bytes) : String :=
  let fsize := Extracted.h2RecvFrameMax
  if buf.length < 9 || 9 + u24 buf 0 > buf.length then "bad-op" else
  let flen0 := u24 buf 0
  let padded := has (buf.getD 4 0) flagPadded
  let padOrig : String := if padded && flen0 ≠ 0 then toString (buf.getD 9 0).toNat else "-1"
  let line (ret flen : Nat) (pad ga : String) (out : Bytes) : String :=
    "ret=" ++ toString ret ++ " flen=" ++ toString flen ++ " pad=" ++ pad ++ " goaway=" ++ ga ++
      " clen=" ++ toString out.length ++ " bytes=" ++ toString (fnv8 out)
  match h2Cont fsize buf with
  | .ub w => ubStr w
  | .incomplete need calm => line need flen0 padOrig (if calm then "-1" else "-") buf
  | .goaway code => line 0 flen0 padOrig (toString code) buf
  | .merged m out calm =>
    line m (u24 out 0) (if padded && flen0 ≠ 0 then toString (out.getD 9 0).toNat else "-1")
      (if calm then "-1" else "-") out

private def h2dOut (frame : Bytes) : String :=
  if frame.length < 9 then "bad-op" else
  let len := frame.length - 9
  let flags := frame.getD 4 0
  let id := u31be frame 5
  let errLine := "rc=0 goaway=1 in=0 rest=" ++ toString frame.length ++ " st=6"
  if id = 0 || 1 < id then errLine
  else
    match h2DataLen len flags (frame.getD 9 0).toNat with
    | .ub w => ubStr w
    | .protoErr => errLine
    | .ok _ alen =>
      "rc=1 goaway=- in=" ++ toString alen ++ " rest=0 st=" ++ (if has flags flagEndStream then "5" else "3")

def arithLine : List String → String
  | ["s64", h] =>
    match ofHex h with
    | some v =>
      match strtoI64 v with
      | .ok (rv, i) => toString rv ++ " " ++ toString i
      | .ub w => ubStr w
    | none => "bad-op"
  | ["ck1", ms, bin, h] =>
    match ms.toNat?, bin.toNat?, ofHex h with
    | some m, some b, some d => ckOut false (ck1 m (b : Int) d)
    | _, _, _ => "bad-op"
  | ["ck2", h] =>
    match ofHex h with
    | some d => ckOut true (ck2 d)
    | none => "bad-op"
  | ["gwd", mf, pre, unit, cnt, suf] =>
    match mf.toNat?, ofHex pre, ofHex unit, cnt.toNat?, ofHex suf with
    | some m, some p, some u, some c, some sfx =>
      gwOut m (([p] ++ (if u.isEmpty then [] else List.replicate c u) ++ [sfx]).filter (!·.isEmpty))
    | _, _, _, _, _ => "bad-op"
  | "gws" :: mf :: segs =>
    match mf.toNat?, segs.mapM ofHex with
    | some m, some bs => if bs.isEmpty then "bad-op" else gwOut m bs
    | _, _ => "bad-op"
  | ["h1d", ms, mf, pre, unit, cnt, suf] =>
    match ms.toNat?, mf.toNat?, ofHex pre, ofHex unit, cnt.toNat?, ofHex suf with
    | some a, some m, some p, some u, some c, some sfx =>
      h1Out a m (([p] ++ (if u.isEmpty then [] else List.replicate c u) ++ [sfx]).filter (!·.isEmpty))
    | _, _, _, _, _, _ => "bad-op"
  | "h1s" :: ms :: mf :: segs =>
    match ms.toNat?, mf.toNat?, segs.mapM ofHex with
    | some a, some m, some bs => if bs.isEmpty then "bad-op" else h1Out a m bs
    | _, _, _ => "bad-op"
  | ["hoff", i0, h] =>
    match i0.toNat?, ofHex h with
    | some i, some b => hoffOut i b
    | _, _ => "bad-op"
  | ["rng", len, h] =>
    match len.toNat?, ofHex h with
    | some l, some s => if l = 0 then "bad-op" else rngOut (l : Int) s
    | _, _ => "bad-op"
  | "buf" :: ops => if ops.isEmpty then "bad-op" else bufOps ops
  | "tmpb" :: ops => if ops.isEmpty then "bad-op" else tmpbOut ops
  | ["ckr", n, x, e] =>
    match n.toNat?, x.toNat?, e.toNat? with
    | some n, some x, some e =>
      match ckReallocU32 n x e with
      | some b => "ok " ++ toString b
      | none => "abort"
    | _, _, _ => "bad-op"
  | ["h2c", fs, h] =>
    match fs.toNat?, ofHex h with
    | some f, some b => h2cOut f b
    | _, _ => "bad-op"
  | ["h2h", cid, _, h] =>
    match cid.toNat?, ofHex h with
    | some c, some f =>
      if f.length < 9 then "bad-op" else
      match h2HeadersEarly c f with
      | .ub w => ubStr w
      | .ok true => "early"
      | .ok false => "pass"
    | _, _ => "bad-op"
  | ["h2d", h] =>
    match ofHex h with
    | some f => h2dOut f
    | none => "bad-op"
  | _ => "bad-op"

end Driver
