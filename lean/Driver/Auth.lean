/- line-protocol handler for model "auth" (see harness/inproc/h_auth.c for the protocol).
   The model's external functions are instantiated here: H = MD5 (written out below;
   the correspondence run compares it with the C implementation on every digest),
   cache key = the same djb2a-based stand-in the harness installs. -/
import LtVerif.Model.Auth
import LtVerif.Model.AuthSplay
namespace Driver
open LtVerif LtVerif.B LtVerif.Auth

/-! ### MD5 (RFC 1321) -/

def md5K : Array UInt32 := #[
    0xd76aa478, 0xe8c7b756, 0x242070db, 0xc1bdceee, 0xf57c0faf, 0x4787c62a, 0xa8304613, 0xfd469501,
    0x698098d8, 0x8b44f7af, 0xffff5bb1, 0x895cd7be, 0x6b901122, 0xfd987193, 0xa679438e, 0x49b40821,
    0xf61e2562, 0xc040b340, 0x265e5a51, 0xe9b6c7aa, 0xd62f105d, 0x02441453, 0xd8a1e681, 0xe7d3fbc8,
    0x21e1cde6, 0xc33707d6, 0xf4d50d87, 0x455a14ed, 0xa9e3e905, 0xfcefa3f8, 0x676f02d9, 0x8d2a4c8a,
    0xfffa3942, 0x8771f681, 0x6d9d6122, 0xfde5380c, 0xa4beea44, 0x4bdecfa9, 0xf6bb4b60, 0xbebfbc70,
    0x289b7ec6, 0xeaa127fa, 0xd4ef3085, 0x04881d05, 0xd9d4d039, 0xe6db99e5, 0x1fa27cf8, 0xc4ac5665,
    0xf4292244, 0x432aff97, 0xab9423a7, 0xfc93a039, 0x655b59c3, 0x8f0ccc92, 0xffeff47d, 0x85845dd1,
    0x6fa87e4f, 0xfe2ce6e0, 0xa3014314, 0x4e0811a1, 0xf7537e82, 0xbd3af235, 0x2ad7d2bb, 0xeb86d391]

def md5S : Array UInt32 := #[
    7, 12, 17, 22, 7, 12, 17, 22, 7, 12, 17, 22, 7, 12, 17, 22,
    5, 9, 14, 20, 5, 9, 14, 20, 5, 9, 14, 20, 5, 9, 14, 20,
    4, 11, 16, 23, 4, 11, 16, 23, 4, 11, 16, 23, 4, 11, 16, 23,
    6, 10, 15, 21, 6, 10, 15, 21, 6, 10, 15, 21, 6, 10, 15, 21]

@[inline] def rotl32 (x s : UInt32) : UInt32 := (x <<< s) ||| (x >>> (32 - s))

def md5Block (m : Array UInt32) (st : UInt32 × UInt32 × UInt32 × UInt32) : UInt32 × UInt32 × UInt32 × UInt32 :=
  let (a0, b0, c0, d0) := st
  let r := (List.range 64).foldl (fun (acc : UInt32 × UInt32 × UInt32 × UInt32) i =>
    let (a, b, c, d) := acc
    let (f, g) : UInt32 × Nat :=
      if i < 16 then ((b &&& c) ||| ((~~~b) &&& d), i)
      else if i < 32 then ((d &&& b) ||| ((~~~d) &&& c), (5 * i + 1) % 16)
      else if i < 48 then (b ^^^ c ^^^ d, (3 * i + 5) % 16)
      else (c ^^^ (b ||| (~~~d)), (7 * i) % 16)
    let f' := f + a + md5K[i]! + m[g]!
    (d, b + rotl32 f' md5S[i]!, b, c)) (a0, b0, c0, d0)
  (a0 + r.1, b0 + r.2.1, c0 + r.2.2.1, d0 + r.2.2.2)

def le32 (x : UInt32) : Bytes :=
  [x.toUInt8, (x >>> 8).toUInt8, (x >>> 16).toUInt8, (x >>> 24).toUInt8]

def md5 (msg : Bytes) : Bytes :=
  let ml := msg.length
  let padLen := (55 + 64 - ml % 64) % 64
  let bits := ml * 8
  let padded : Array UInt8 :=
    (msg ++ 0x80 :: List.replicate padLen 0 ++ leBytes 8 bits).toArray
  let nblk := padded.size / 64
  let st := (List.range nblk).foldl (fun st bi =>
    let m : Array UInt32 := (Array.range 16).map fun j =>
      let o := bi * 64 + j * 4
      (padded[o]!).toUInt32 ||| ((padded[o+1]!).toUInt32 <<< 8)
        ||| ((padded[o+2]!).toUInt32 <<< 16) ||| ((padded[o+3]!).toUInt32 <<< 24)
    md5Block m st) ((0x67452301 : UInt32), (0xefcdab89 : UInt32), (0x98badcfe : UInt32), (0x10325476 : UInt32))
  le32 st.1 ++ le32 st.2.1 ++ le32 st.2.2.1 ++ le32 st.2.2.2

/-! ### SHA-1 (htpasswd "{SHA}" records) -/

def be32 (x : UInt32) : Bytes :=
  [(x >>> 24).toUInt8, (x >>> 16).toUInt8, (x >>> 8).toUInt8, x.toUInt8]

def sha1Block (w0 : Array UInt32) (st : UInt32 × UInt32 × UInt32 × UInt32 × UInt32) :
    UInt32 × UInt32 × UInt32 × UInt32 × UInt32 :=
  let w := (List.range 64).foldl (fun (w : Array UInt32) j =>
    let i := j + 16
    w.push (rotl32 (w[i-3]! ^^^ w[i-8]! ^^^ w[i-14]! ^^^ w[i-16]!) 1)) w0
  let (h0, h1, h2, h3, h4) := st
  let r := (List.range 80).foldl (fun (acc : UInt32 × UInt32 × UInt32 × UInt32 × UInt32) i =>
    let (a, b, c, d, e) := acc
    let (f, k) : UInt32 × UInt32 :=
      if i < 20 then ((b &&& c) ||| ((~~~b) &&& d), 0x5A827999)
      else if i < 40 then (b ^^^ c ^^^ d, 0x6ED9EBA1)
      else if i < 60 then ((b &&& c) ||| (b &&& d) ||| (c &&& d), 0x8F1BBCDC)
      else (b ^^^ c ^^^ d, 0xCA62C1D6)
    let t := rotl32 a 5 + f + e + k + w[i]!
    (t, a, rotl32 b 30, c, d)) (h0, h1, h2, h3, h4)
  (h0 + r.1, h1 + r.2.1, h2 + r.2.2.1, h3 + r.2.2.2.1, h4 + r.2.2.2.2)

def sha1 (msg : Bytes) : Bytes :=
  let ml := msg.length
  let padLen := (55 + 64 - ml % 64) % 64
  let padded : Array UInt8 :=
    (msg ++ 0x80 :: List.replicate padLen 0 ++ (leBytes 8 (ml * 8)).reverse).toArray
  let nblk := padded.size / 64
  let st := (List.range nblk).foldl (fun st bi =>
    let w : Array UInt32 := (Array.range 16).map fun j =>
      let o := bi * 64 + j * 4
      ((padded[o]!).toUInt32 <<< 24) ||| ((padded[o+1]!).toUInt32 <<< 16)
        ||| ((padded[o+2]!).toUInt32 <<< 8) ||| (padded[o+3]!).toUInt32
    sha1Block w st)
    ((0x67452301 : UInt32), (0xEFCDAB89 : UInt32), (0x98BADCFE : UInt32), (0x10325476 : UInt32), (0xC3D2E1F0 : UInt32))
  be32 st.1 ++ be32 st.2.1 ++ be32 st.2.2.1 ++ be32 st.2.2.2.1 ++ be32 st.2.2.2.2

/-- htpasswd records this driver can verify: "{SHA}" + base64(SHA1(pw)); "$apr1$" and crypt(3)
    records are not generated by the check -/
def cryptVerify (stored pw : Bytes) : Bool :=
  if (ofString "{SHA}").isPrefixOf stored then base64Dec (stored.drop 5) = sha1 pw else false

/-! ### cache key stand-in (see ltv_djbhash in h_auth.c) -/

def djb (s : Bytes) (h : UInt32) : UInt32 := s.foldl (fun h b => ((h <<< 5) + h) ^^^ b.toUInt32) h

def cacheKey (hsel : String) (hmod : Nat) (rules : List Rule) (ridx : Nat) (user : Bytes) : Int :=
  let sel : Nat := if hsel = "r" then ridx else
    match rules[ridx]? with
    | some r => if r.scheme = .basic then 0 else 1
    | none => 0
  let h0 := djb (sel.toUInt8 :: List.replicate 7 0) 5381
  let h := djb user h0
  let h : Nat := if hmod = 0 then h.toNat else h.toNat % hmod
  if h < 2 ^ 31 then (h : Int) else (h : Int) - 2 ^ 32

/-! ### parsing the case line -/

def splitComma (s : String) : List String := s.splitOn ","

def parseInt (s : String) : Option Int := s.toInt?

def hexOpt (s : String) : Option (Option Bytes) :=
  if s = "~" then some none else (ofHex s).map some

def parseRule (prev : List Rule) (s : String) : Option (Option Rule) :=   -- none: bad-op; some none: cfg-error
  match splitComma s with
  | [pfx, sch, realm, algo, sec, uh, rq] =>
    match ofHex pfx, ofHex realm, algo.toNat?, hexOpt sec, uh.toNat?, ofHex rq with
    | some pfx, some realm, some algo, some sec, some uh, some rq =>
      let scheme := if sch = "b" then Scheme.basic else Scheme.digest
      if prev.any (fun r => r.pfx = pfx) then
        -- duplicate path: array_insert_unique() drops it (never matched, never parsed)
        some (some { pfx := pfx, scheme := scheme, realm := realm, algorithm := algo, secret := sec,
                     userhash := uh ≠ 0, req := {} })
      else
        match requireParse rq with
        | none => some none
        | some r => some (some { pfx := pfx, scheme := scheme, realm := realm, algorithm := algo,
                                 secret := sec, userhash := uh ≠ 0, req := r })
    | _, _, _, _, _, _ => none
  | _ => none

def parseRules : Nat → List String → List Rule → Option (Option (List Rule) × List String)
  | 0, rest, acc => some (some acc, rest)
  | _ + 1, [], _ => none
  | n + 1, t :: rest, acc =>
    match parseRule acc t with
    | none => none
    | some none => some (none, rest)
    | some (some r) => parseRules n rest (acc ++ [r])

def str (s : String) : Bytes := ofString s

/-! ### rendering -/

def intStr (i : Int) : String := toString i

def renderEntry (p : Int × Entry) : String :=
  let e := p.2
  "k=" ++ intStr p.1 ++ ",r=" ++ toString e.rule ++ ",u=" ++ toHex e.username ++ ",kk=" ++
  (if e.kIsUser then "=" else toHex e.k) ++ ",a=" ++ toString e.dalgo ++ ",t=" ++ intStr e.ctime ++
  ",d=" ++ toHex e.pw

def insertSorted (p : Int × Entry) : List (Int × Entry) → List (Int × Entry)
  | [] => [p]
  | q :: qs => if p.1 ≤ q.1 then p :: q :: qs else q :: insertSorted p qs

def renderCache (c : Cache) : String :=
  "[" ++ String.intercalate ";" ((c.foldr insertSorted []).map renderEntry) ++ "]"

def asString (b : Bytes) : String := String.ofList (b.map fun x => Char.ofNat x.toNat)

def epochHex (st : St) : String := asString (hexLcEven (st.epoch % 2 ^ 64).toNat)

def kaStr (ka : Bool) : String := if ka then ":ka1" else ":ka-1"

def renderOutcome (rule : Option Rule) (st : St) : Outcome → String
  | .pass => "pass"
  | .go u dig nn => "go:" ++ toHex u ++ (if dig then ":Digest" else ":Basic") ++ ":ka1" ++
      (if nn then ":nn" ++ epochHex st else "")
  | .refuse (.s401b ka) =>
    let realm := match rule with | some r => r.realm | none => []
    "401:B:" ++ toHex (str "Basic realm=\"" ++ realm ++ str "\", charset=\"UTF-8\"") ++ kaStr ka
  | .refuse (.s401d stale ka) =>
    match rule with
    | none => "401:-"
    | some r =>
      let algos := if stale ≠ 0 then stale else r.algorithm
      -- (no MD5 in the mask: no challenge is emitted and the header stays empty)
      if algos &&& 2 = 0 then "401:-" ++ kaStr ka else
      "401:D:" ++ toHex r.realm ++ "/MD5/" ++ epochHex st ++ "/" ++ (if r.secret.isSome then "3" else "2") ++ ".32/q1u" ++
          (if r.userhash then "1" else "0") ++ "s" ++ (if stale ≠ 0 then "1" else "0") ++ kaStr ka
  | .refuse .s400 => "400"
  | .refuse .s500 => "500"

/-! ### running a scenario -/

def methodOk (m : String) : Bool :=
  ["GET", "HEAD", "POST", "PUT", "DELETE", "CONNECT", "OPTIONS", "TRACE", "PATCH", "PROPFIND"].contains m

def runOps (P : Prims) (cfg : Cfg) : Nat → St → List String → List String → List String
  | _, _, [], acc => acc.reverse
  | sc, st, t :: rest, acc =>
    match splitComma t with
    | ["q", m, tgt, path, hdr, h2] =>
      match ofHex tgt, ofHex path, hexOpt hdr with
      | some tgt, some path, some hdr =>
        if !methodOk m then runOps P cfg sc st rest ("bad-op" :: acc) else
        let req : Req := { method := str m, target := tgt, path := path, auth := hdr, protocol := h2 ≠ "0", scope := sc }
        let r := serve P cfg st req
        let rule := (findRule cfg.rules path 0).map (·.2)
        -- challenges are rendered with the clock of the request
        runOps P cfg sc r.1 rest ((renderOutcome rule st r.2 ++ "|" ++ renderCache r.1.cache) :: acc)
      | _, _, _ => runOps P cfg sc st rest ("bad-op" :: acc)
    | ["h", _idmode, flds] =>
      let parsed : Option (List (Bytes × Bytes)) :=
        ((flds.splitOn ";").filter (· ≠ "")).foldr (fun f acc =>
          match acc, f.splitOn ":" with
          | some l, [k, v] => (match ofHex k, ofHex v with
                               | some k, some v => some ((k, v) :: l)
                               | _, _ => none)
          | _, _ => none) (some [])
      match parsed with
      | none => runOps P cfg sc st rest ("bad-op" :: acc)
      | some fields =>
        match h2Request h2Opts fields with
        | .error s => runOps P cfg sc st rest (("h2:" ++ toString s) :: acc)
        | .ok req0 =>
          let req : Req := { req0 with scope := sc }
          let r := serve P cfg st req
          let rule := (findRule cfg.rules req.path 0).map (·.2)
          runOps P cfg sc r.1 rest (("m=" ++ asString req.method ++ ",x=" ++ (if req.h2ext then "1" else "0") ++
            ",t=" ++ toHex req.target ++ ",p=" ++ toHex req.path ++ "/" ++
            renderOutcome rule st r.2 ++ "|" ++ renderCache r.1.cache) :: acc)
    | ["a", dt] =>
      match dt.toNat? with
      | some dt =>
        let st' := loopIter cfg dt st
        runOps P cfg sc st' rest (("t" ++ renderCache st'.cache) :: acc)
      | none => runOps P cfg sc st rest ("bad-op" :: acc)
    | ["s", n] =>
      match n.toNat? with
      | some n =>
        let st' := secs cfg n st
        runOps P cfg sc st' rest (("t" ++ renderCache st'.cache) :: acc)
      | none => runOps P cfg sc st rest ("bad-op" :: acc)
    | ["b", n] =>
      match n.toNat? with
      | some n => if n < cfg.scopes.length then runOps P cfg n st rest ("b" :: acc)
                  else runOps P cfg sc st rest ("bad-op" :: acc)
      | none => runOps P cfg sc st rest ("bad-op" :: acc)
    | ["e", de] =>
      match parseInt de with
      | some de => runOps P cfg sc { st with epoch := st.epoch + de } rest ("e" :: acc)
      | none => runOps P cfg sc st rest ("bad-op" :: acc)
    | ["n", ri, ts, rnd, _dalgo] =>
      match ri.toNat?, parseInt ts, rnd.toNat? with
      | some ri, some ts, some rnd =>
        match cfg.rules[ri]? with
        | some r =>
          if (cfg.rules.take ri).any (fun r' => r'.pfx = r.pfx) then runOps P cfg sc st rest ("bad-op" :: acc)
          else runOps P cfg sc st rest (toHex (appendNonce P ts r.secret (rnd % 2 ^ 32)) :: acc)
        | none => runOps P cfg sc st rest ("bad-op" :: acc)
      | _, _, _ => runOps P cfg sc st rest ("bad-op" :: acc)
    | _ => runOps P cfg sc st rest ("bad-op" :: acc)

def renderParams (dp : Params) : String :=
  let f (n : String) (v : Option Bytes) : String := n ++ "=" ++ (match v with | some b => toHex b | none => "~")
  String.intercalate " " [f "username" dp.username, f "realm" dp.realm, f "nonce" dp.nonce, f "uri" dp.uri,
    f "algorithm" dp.algorithm, f "qop" dp.qop, f "cnonce" dp.cnonce, f "nc" dp.nc, f "response" dp.response,
    f "username*" dp.userstar, f "userhash" dp.userhash]


/-! ### auth.cache container (algo_splaytree.c + the mod_auth.c functions on it) -/

/-- `(` left key `:` ctime right `)`, `.` = NULL -/
def splayShape : AuthSplay.Tree Int → String
  | .nil => "."
  | .node l k v r => "(" ++ splayShape l ++ toString k ++ ":" ++ toString v ++ splayShape r ++ ")"

/-- ops: `q<key>` http_auth_cache_query; `i<key>,<ctime>` query + http_auth_cache_insert (the order
    mod_auth_check_basic()/mod_auth_digest_get() use); `c<cur>` mod_auth_periodic_cleanup -/
def splayOps (maxAge : Int) (cap : Nat) : AuthSplay.Tree Int → List String → List String → Option (List String)
  | _, [], acc => some acc.reverse
  | t, op :: ops, acc =>
    let arg := (op.drop 1).toString
    if op.startsWith "q" then
      match parseInt arg with
      | some k =>
        let (t', r) := AuthSplay.cacheQuery t k
        splayOps maxAge cap t' ops (((match r with | some v => toString v | none => "-") ++ splayShape t') :: acc)
      | none => none
    else if op.startsWith "i" then
      match arg.splitOn "," with
      | [ks, cs] =>
        match parseInt ks, parseInt cs with
        | some k, some c =>
          let (t', r) := AuthSplay.cacheQuery t k
          let t'' := AuthSplay.cacheInsert t' k c
          splayOps maxAge cap t'' ops (((match r with | some v => toString v | none => "-") ++ splayShape t'') :: acc)
        | _, _ => none
      | _ => none
    else if op.startsWith "I" then                      -- as `i`, without the tree dump (large trees)
      match arg.splitOn "," with
      | [ks, cs] =>
        match parseInt ks, parseInt cs with
        | some k, some c =>
          let (t', r) := AuthSplay.cacheQuery t k
          splayOps maxAge cap (AuthSplay.cacheInsert t' k c) ops ((match r with | some v => toString v | none => "-") :: acc)
        | _, _ => none
      | _ => none
    else if op.startsWith "c" then
      match parseInt arg with
      | some cur =>
        let t' := AuthSplay.periodicCleanup (fun ct => decide (cur - ct > maxAge)) cap t
        splayOps maxAge cap t' ops (splayShape t' :: acc)
      | none => none
    else none

def authLine : List String → String
  | "splay" :: maxAge :: cap :: ops =>
    match parseInt maxAge, cap.toNat? with
    | some m, some c =>
      (match splayOps m c .nil ops [] with
       | some outs => if outs.isEmpty then "-" else String.intercalate " " outs
       | none => "bad-op")
    | _, _ => "bad-op"
  | ["parse", h] =>
    match ofHex h with
    | some b => renderParams (parseAuthorization b)
    | none => "bad-op"
  | ["b64", h] =>
    match ofHex h with
    | some b => let d := base64Dec b; if d.isEmpty then "0" else toHex d
    | none => "bad-op"
  | ["eqct", a, b] =>
    match ofHex a, ofHex b with
    | some a, some b =>
      (if a = b then "1" else "0") ++ (if a.length = b.length then (if a = b then " 1" else " 0") else "")
    | _, _ => "bad-op"
  | ["algo", h] =>
    match ofHex h with
    | some b => (match algorithmParse b with | some (a, l) => toString a ++ " " ++ toString l | none => "0")
    | none => "bad-op"
  | "run" :: hsel :: hmod :: cache :: backend :: file :: mono0 :: epoch0 :: nrules :: rest =>
    -- backend / file: one entry per backend scope, joined by '+' (scope 0 first)
    let beOf (b : String) : Option Backend :=
      if b = "plain" then some .plain else if b = "htdigest" then some .htdigest
      else if b = "htpasswd" then some .htpasswd else if b = "none" then some .none else none
    let bes : Option (List Backend) := (backend.splitOn "+").foldr (fun b acc =>
      match acc, beOf b with | some l, some x => some (x :: l) | _, _ => none) (some [])
    let files : Option (List Bytes) := (file.splitOn "+").foldr (fun f acc =>
      match acc, ofHex f with | some l, some x => some (x :: l) | _, _ => none) (some [])
    match hmod.toNat?, files, parseInt mono0, parseInt epoch0, nrules.toNat? with
    | some hmod, some files, some mono0, some epoch0, some nrules =>
      let cacheMaxAge : Option (Option Int) := if cache = "-" then some none else (parseInt cache).map some
      match cacheMaxAge, bes with
      | some cacheMaxAge, some bes =>
        if nrules > 16 || bes.length ≠ files.length || bes.isEmpty then "bad-op" else
        match parseRules nrules rest [] with
        | none => "bad-op"
        | some (none, _) => "cfg-error"
        | some (some rules, ops) =>
          let scopes := bes.zip files
          let cfg : Cfg := { rules := rules, backend := bes.headD .none, file := files.headD [],
                             cacheMaxAge := cacheMaxAge, scopes := scopes }
          let P : Prims := { H := md5, hash := cacheKey hsel hmod rules, crypt := cryptVerify }
          let outs := runOps P cfg 0 { mono := mono0, epoch := epoch0 } ops []
          if outs.isEmpty then "-" else String.intercalate " " outs
      | _, _ => if bes.isNone then "bad-backend" else "bad-op"
    | _, _, _, _, _ => "bad-op"
  | _ => "bad-op"

end Driver
