/- line-protocol handler for model "auth" (stub until its model is built) -/
namespace Driver

def authLine : List String → String
  | _ => "bad-op"

end Driver
