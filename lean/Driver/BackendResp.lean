/- line-protocol handler for model "beresp" (C10: backend response relay) -/
import LtVerif.Model.BackendResp
namespace Driver
open LtVerif LtVerif.B LtVerif.BeResp

def berespEv : Ev → String
  | .w b => "W:" ++ toHex b
  | .interim s h => "I:" ++ toString s ++ ":" ++ toHex h
  | .hdrs s h => "H:" ++ toString s ++ ":" ++ toHex h
  | .trailers t => "T:" ++ toHex t
  | .endStream => "E"
  | .rst => "R"
  | .redispatch => "X"

def berespBit (b : Bool) : String := if b then "1" else "0"

def berespOut (st : St) : String :=
  String.join (st.evs.map fun e => berespEv e ++ " ") ++
  "end=" ++ (if st.cstate ≠ .done then "pend" else if st.keepAlive then "ka" else "close") ++
  " st=" ++ toString st.status ++
  " fl=" ++ berespBit st.started ++ berespBit st.finished ++ berespBit st.handler ++ berespBit st.cerr

def berespBackend : String → Option Backend
  | "proxy" => some .proxy
  | "cgi" => some .cgi
  | "scgi" => some .scgi
  | "fcgi" => some .fcgi
  | _ => none

def berespEnd : String → Option End
  | "eof" => some .eof
  | "rst" => some .rst
  | "err" => some .err
  | "hup" => some .hup
  | "none" => some .none
  | _ => none

def berespLine : List String → String
  | "relay" :: be :: ver :: stream :: meth :: e :: segs =>
    match berespBackend be, ver.toNat?, stream.toNat?, berespEnd e, segs.mapM ofHex with
    | some b, some v, some s, some en, some ss =>
      let cfg : Cfg := { be := b, ver := if v = 10 then 0 else if v = 11 then 1 else 2, stream := s,
                         head := meth = "H" }
      -- (run-time check of the one unproved hypothesis of `c10_truncated_after_head_closes`, `hpt`, on the
      --  state the backend stream ends in: a self-chunked response has no known remaining length)
      let pre := ss.foldl (onData cfg) {}
      let hptBad := pre.sendChunked && decide (pre.scratch > 0) && pre.dc.isNone
      berespOut (relay cfg ss en) ++ (if hptBad then " HPT-VIOLATED" else "")
    | _, _, _, _, _ => "bad-op"
  | "dechunk" :: _mf :: sc :: segs =>
    match segs.mapM ofHex with
    | some ss =>
      -- (send_chunked = 1: the raw pieces are passed through, a piece with a framing error is not)
      let rec dgo (ss : List Bytes) (st : DcSt) (raw : Bytes) : DcSt × Bytes :=
        match ss with
        | [] => (st, raw)
        | s :: rest =>
          let st' := dcFeed st s
          if st'.mode.isErr then (st', raw) else dgo rest st' (raw ++ s)
      let (st, raw) := dgo ss {} []
      let out := if sc = "1" then raw else st.out
      match st.mode with
      | .err => "err out=" ++ toHex out
      | .done acc => "ok out=" ++ toHex out ++ " te=0 t=" ++ toHex (dcTrailerFields acc) ++ " done=200 fin=1 ka=1"
      | m => "ok out=" ++ toHex out ++ " te=" ++ toString (dcTe m) ++ " h=" ++ toHex (dcBuf m) ++
             " done=0 fin=0 ka=1"
    | none => "bad-op"
  | "fcgi" :: segs =>
    match segs.mapM ofHex with
    | some ss =>
      -- response headers already complete: STDOUT content is body
      let rec go (evs : List FrEv) (out : Bytes) : Bytes × Bool :=
        match evs with
        | [] => (out, false)
        | .stdout d :: rest => go rest (out ++ d)
        | .endRequest :: _ => (out, true)
        | _ :: rest => go rest out
      -- the C stops reading once a segment completed the request
      let rec feed (ss : List Bytes) (st : FrSt) : FrSt :=
        match ss with
        | [] => st
        | s :: rest => if st.ended then st else feed rest (frFeed st s)
      let st := feed ss {}
      let (out, fin) := go st.evs []
      (if fin then "fin" else "go") ++ " out=" ++ toHex out ++ " rb=" ++
        toString (if fin then 0 else st.got) ++ " rid=" ++ (if fin then "-1" else "1")
    | none => "bad-op"
  | _ => "bad-op"

end Driver
