/- line-protocol handler for model "beresp" (stub until its model is built) -/
namespace Driver

def berespLine : List String → String
  | _ => "bad-op"

end Driver
