/- line-protocol handler for model "cgi" (C09): see harness/inproc/h_cgi.c for the format -/
import LtVerif.Model.Burl
import LtVerif.Model.ProxyReq
namespace Driver
open LtVerif LtVerif.B

namespace CgiDrv

def hexChar (n : UInt8) : Char := Char.ofNat (hexDigitLC n).toNat

/-- hex rendering that stays fast on megabyte strings -/
def fastHex (bs : Bytes) : String :=
  if bs.isEmpty then "-" else
  bs.foldl (fun (s : String) (b : UInt8) => (s.push (hexChar (b >>> 4))).push (hexChar (b &&& 0xf))) ""

def optHex (s : String) : Option (Option Bytes) :=
  if s = "~" then some none else (ofHex s).map some

def kvList (s : String) : Option (List (Bytes × Bytes)) :=
  if s = "-" then some [] else
  (s.splitOn ",").mapM fun e =>
    match e.splitOn ":" with
    | [k, v] => match ofHex k, ofHex v with
      | some kb, some vb => some (kb, vb)
      | _, _ => none
    | _ => none

def field (pre : String) (tok : String) : Option String :=
  if tok.startsWith pre then some (tok.drop pre.length).toString else none

/-- pseudo-random block: x' = (x * 1103515245 + 12345) mod 2^31, byte = x' >> 16 -/
def randBlock : Nat → Nat → List UInt8 → List UInt8
  | 0, _, acc => acc.reverse
  | n + 1, x, acc =>
    let x' := (x * 1103515245 + 12345) % 2147483648
    randBlock n x' ((x' / 65536 % 256).toUInt8 :: acc)

/-- test body: a pseudo-random block of (up to) 65521 bytes, repeated cyclically -/
def randBody (len seed : Nat) (_ : List UInt8) : List UInt8 :=
  let blk := randBlock (min len 65521) seed []
  if len ≤ 65521 then blk
  else ((List.replicate (len / 65521 + 1) blk).flatten).take len

def bodyOf (tok : String) : Option Bytes :=
  if tok = "-" then some []
  else if tok.startsWith "h" then ofHex (tok.drop 1).toString
  else if tok.startsWith "r" then
    match ((tok.drop 1).toString.splitOn ".").map String.toNat? with
    | [some len, some seed] => some (randBody len (seed % 2147483648) [])
    | _ => none
  else if tok.startsWith "k" then
    -- chunked framing of r<len>.<seed>: the model only needs the decoded body
    match ((tok.drop 1).toString.splitOn ".").map String.toNat? with
    | [some len, some seed, some _, some _] => some (randBody len (seed % 2147483648) [])
    | _ => none
  else none

/-- length of the raw client byte stream (gw ops) -/
def rawLenOf (tok : String) (body : Bytes) : Nat :=
  if tok.startsWith "k" then
    match ((tok.drop 1).toString.splitOn ".").map String.toNat? with
    | [_, _, _, some n] => n
    | _ => 0
  else body.length

/-- gw ops: are all client bytes readable at the first gw_handle_subrequest() call? -/
def firstComplete (sched : String) (rawLen : Nat) : Bool :=
  match (sched.splitOn ",").filter (fun t => t.startsWith "c" || t.startsWith "w") with
  | [] => true
  | t :: _ => if t.startsWith "c" then ((t.drop 1).toString.toNat?.getD 0) ≥ rawLen else rawLen = 0

structure Parsed where
  method : Bytes
  version : Nat
  targetOrig : Bytes
  host : Option Bytes
  bodyLen : Int
  headers : List (Bytes × Bytes)

def parseParsed : List String → Option (Except String Parsed)
  | ["err", s] => some (.error ("err " ++ s))
  | [m, v, to, h, l, hs] =>
    match field "m=" m, field "v=" v, field "to=" to, field "host=" h, field "len=" l, field "hdrs=" hs with
    | some m, some v, some to, some h, some l, some hs =>
      match ofHex m, v.toNat?, ofHex to, optHex h, l.toInt?, kvList hs with
      | some m, some v, some to, some h, some l, some hs =>
        some (.ok { method := m, version := v, targetOrig := to, host := h, bodyLen := l, headers := hs })
      | _, _, _, _, _, _ => none
    | _, _, _, _, _, _ => none
  | _ => none

def echoParsed (toks : List String) : String := String.intercalate " " toks

def envStr (env : List (Bytes × Bytes)) : String :=
  if env.isEmpty then "-" else
  String.intercalate "," (env.map fun (k, v) => toHex k ++ "=" ++ toHex v)

def okStr (reqlen : Int) (out pending : Bytes) : String :=
  "ok reqlen=" ++ toString reqlen ++ " in=" ++ toString out.length ++ " pend=" ++
    toString pending.length ++ " out=" ++ fastHex out

inductive Step
  | arrive (n : Nat)
  | fixed (n : Nat)      -- "c<n>": n bytes arrive and reqbody_length := n before create_env
  | complete

def parseSched (s : String) : Option (List Step) :=
  -- ("s<late>.<rd>": how slowly the harness's CGI reads its stdin — timing only, not the model's business)
  ((s.splitOn ",").filter fun t => !t.startsWith "s").mapM fun t =>
    if t = "e" then some .complete
    else if t.startsWith "c" then (t.drop 1).toString.toNat?.map .fixed
    else t.toNat?.map .arrive

def hasFlag (fl bit : Nat) : Bool := fl &&& bit ≠ 0

/-- run a schedule over a stream state, generically -/
def runSched {σ : Type} (arrive : σ → Bytes → σ) (complete : σ → σ) :
    List Step → Bytes → σ → σ
  | [], _, st => st
  | .arrive n :: rest, body, st => runSched arrive complete rest (body.drop n) (arrive st (body.take n))
  | .complete :: rest, body, st => runSched arrive complete rest body (complete st)
  | .fixed _ :: rest, body, st => runSched arrive complete rest body st     -- (only meaningful first)

def caseLine (op0 : String) (t : List String) (ptoks : List String) : String :=
  let isGw := op0.startsWith "g"
  -- "scgibuf" / "uwsgibuf": same case layout as "scgi" / "uwsgi"; observes scgi_create_env() at buffer level
  let isBuf := op0 = "scgibuf" || op0 = "uwsgibuf"
  let op := if isGw then (op0.drop 1).toString
            else if op0 = "scgibuf" then "scgi" else if op0 = "uwsgibuf" then "uwsgi" else op0
  match t with
  | [po, fl, ext, docroot, strip, basedir, pinfoK, srvtok, aux, sname, raddr, rport, tag, renv, px,
     _head, body, sched] =>
    match po.toNat?, fl.toNat?, ofHex ext, optHex docroot, optHex strip, ofHex basedir, pinfoK.toNat?,
          ofHex srvtok, optHex sname, ofHex raddr, rport.toNat?, optHex tag, kvList renv with
    | some po, some fl, some ext, some docroot, some strip, some basedir, some pinfoK,
      some srvtok, some sname, some raddr, some rport, some tag, some renv =>
      match parseParsed ptoks, aux.splitOn ".", bodyOf body, (if isGw then some [] else parseSched sched) with
      | some (.error e), _, _, _ => e
      | some (.ok p), [fam, wild, colon], some bodyBytes, some steps =>
        let echo := echoParsed ptoks ++ " | "
        let o : Opts := ⟨po⟩
        let h2ext := hasFlag fl 128
        let version := if hasFlag fl 64 || h2ext then 2 else p.version
        let special := p.method = ofString "CONNECT" || (p.method = ofString "OPTIONS" && p.targetOrig = [42])
        match parseTarget o special p.targetOrig with
        | .error _ => echo ++ "model-target-reject"
        | .ok tg =>
          let authorizer0 := hasFlag fl 1
          let path0 := tg.path
          let phys0 := pathJoin basedir path0
          -- path-info found by the filesystem walk: last K bytes
          -- (everything from the K-th '/' from the end, the leading '/' excluded)
          let slashPos : List Nat :=
            ((List.range path0.length).filter fun i => i > 0 && path0.getD i 0 = slash).reverse
          let pinfoPos : Option Nat := if pinfoK = 0 then none else slashPos[pinfoK - 1]?
          let pinfoK : Nat := match pinfoPos with
            | some i => path0.length - i
            | none => 0
          let (path1, pinfo1, phys1) : Bytes × Bytes × Bytes :=
            if 0 < pinfoK ∧ pinfoK < path0.length then
              (path0.take (path0.length - pinfoK), path0.drop (path0.length - pinfoK),
               phys0.take (phys0.length - pinfoK))
            else (path0, [], phys0)
          let authority : Bytes := p.host.getD []
          let scheme := ofString (if hasFlag fl 16 then "https" else "http")
          let mkReq (path pinfo : Bytes) (hs : List (Bytes × Bytes)) : CgiReq :=
            { bodyLen := p.bodyLen, query := tg.query, targetOrig := p.targetOrig, target := tg.target,
              errSaved := hasFlag fl 32, path := path, pathinfo := pinfo, basedir := basedir,
              physPath := phys1, h2ConnectExt := h2ext, method := p.method, version := version,
              serverTag := tag, scheme := scheme, srvToken := srvtok,
              srvColon := colon.toNat?.getD 0 % 256, srvInet := fam ≠ "u", srvWildcard := wild = "1",
              localAddr := [], serverName := sname.getD authority, remoteAddr := raddr,
              remotePort := rport, headers := hs, env := renv }
          if op = "cgi" then
            let env := cgiEnv {} (mkReq path1 pinfo1 p.headers)
            echo ++ "cgi " ++ toString env.length ++ " " ++ toHex (envpEncode env)
          else if op = "cgibody" then
            -- arrival amounts; a first "c<n>" fixes reqbody_length
            let (bodyLen, amounts) : Int × List Nat :=
              match steps with
              | .fixed n :: rest => (((bodyBytes.take n).length : Int), n :: rest.filterMap fun s => match s with | .arrive k => some k | _ => none)
              | other => (p.bodyLen, other.filterMap fun s => match s with | .arrive k => some k | _ => none)
            let delivered := min (amounts.foldl (· + ·) 0) bodyBytes.length
            let st := cgiStdin bodyLen [bodyBytes.take delivered]
            echo ++ "cgibody eof=" ++ (if st.eof then "1" else "0") ++ " pend=0 out=" ++ fastHex st.out
          else
          -- backend selection: gw_check_extension()
          let isProxy := op = "proxy"
          let isScgi := op = "scgi" || op = "uwsgi"
          let authorizer := authorizer0 && !isScgi
          let checkLocal := hasFlag fl 8 && !isProxy
          let m1 := gwExtMatches ext path1 path1
          let m2 := !isProxy && gwExtMatches ext path1 phys1
          let sel : Option (Bytes × Bytes) :=        -- (uri.path, pathinfo) when handled
            if m1 && !checkLocal then
              (if ext.head? = some slash && !authorizer then
                 let (a, b) := gwPathinfoSplit ext (hasFlag fl 4) path1
                 if b.isEmpty then some (path1, pinfo1) else some (a, b)
               else some (path1, pinfo1))
            else if m2 then some (path1, pinfo1)
            else none
          match sel with
          | none => echo ++ "nomatch"
          | some (path2, pinfo2) =>
            let upgradeOk := hasFlag fl 256
            if h2ext && !upgradeOk && !authorizer then echo ++ "st=405" else
            let (hs2, upgrade) := gwUpgradeHeaders h2ext authorizer upgradeOk version p.bodyLen p.headers
            let req := mkReq path2 pinfo2 hs2
            let copts : CgiOpts :=
              { authorizer := authorizer, breakScriptFilenameForPhp := hasFlag fl 2,
                docroot := docroot, stripRequestUri := strip }
            if op = "env" then echo ++ "env " ++ envStr (cgiEnv copts req) ++ " rc=0"
            else if isGw then
              -- gw_handle_subrequest(): the backend is started when the body is complete, or at
              -- once when streaming; CGI-style gateways answer 411 for a streamed chunked body
              let chunkedReq := p.bodyLen = -1
              let streaming := (hasFlag fl 1024 || hasFlag fl 4096)
              let fc := firstComplete sched (rawLenOf body bodyBytes)
              let fin (reqlen : Int) (out : Bytes) : String :=
                echo ++ op0 ++ " rc=2 st=0 gs=" ++ (if reqlen = (out.length : Int) then "4" else "3") ++
                  " d=" ++ toString (reqlen - (out.length : Int)) ++ " pend=0 rq=0 out=" ++ fastHex out
              if chunkedReq && streaming && !isProxy && !fc then echo ++ op0 ++ " rc=1 st=411"
              else
              let lenAtCreate : Int :=
                if chunkedReq && streaming && isProxy && !fc then -1 else (bodyBytes.length : Int)
              let req := { req with bodyLen := lenAtCreate }
              if op = "fcgi" then
                match Fcgi.run Extracted.C09.gwResponder upgrade (cgiEnv copts req) lenAtCreate bodyBytes [] with
                | none => echo ++ op0 ++ " rc=1 st=400"
                | some st => fin st.reqlen st.out
              else if isScgi then
                let env := cgiEnv { docroot := docroot } req
                let res : Uwsgi.Res :=
                  if op = "scgi" then .ok (Scgi.createEnv env lenAtCreate bodyBytes)
                  else Uwsgi.createEnv env lenAtCreate bodyBytes
                match res with
                | .status c => echo ++ op0 ++ " rc=1 st=" ++ toString c
                | .ok st => let st2 := st.moveAll; fin st2.reqlen st2.out
              else
                match px.splitOn "." with
                | fwd :: rh =>
                  let rhost : Option Bytes := match rh with
                    | [h] => (optHex h).getD none
                    | _ => none
                  let cfg : Proxy.Cfg :=
                    { forceHttp10 := hasFlag fl 2048, replaceHost := rhost, forwarded := fwd.toNat?.getD 0,
                      authorizer := authorizer, streaming := streaming }
                  let preq : Proxy.Req :=
                    { method := p.method,
                      isGetOrHead := p.method = ofString "GET" || p.method = ofString "HEAD",
                      target := tg.target, h2ConnectExt := h2ext, version := version, host := p.host,
                      bodyLen := lenAtCreate, scheme := scheme, isSsl := hasFlag fl 16, remoteAddr := raddr,
                      remoteUser := (renv.find? fun (k, v) => eqIcase k (ofString "REMOTE_USER") && !v.isEmpty).map (·.2),
                      headers := hs2 }
                  match Proxy.createEnv cfg preq bodyBytes with
                  | .status c => echo ++ op0 ++ " rc=1 st=" ++ toString c
                  | .ok st chunked =>
                    let st1 := Proxy.complete chunked st
                    let st2 := if st1.pending.isEmpty then st1
                               else if chunked then Proxy.stdinAppend st1 else st1.moveAll
                    fin st2.reqlen st2.out
                | _ => "bad-op"
            else
            -- body schedule: first entry is queued when create_env runs
            let (seg0, steps1, body1, bodyLen) : Bytes × List Step × Bytes × Int :=
              match steps with
              | .arrive n :: rest => (bodyBytes.take n, rest, bodyBytes.drop n, p.bodyLen)
              | .fixed n :: rest => (bodyBytes.take n, rest, bodyBytes.drop n, ((bodyBytes.take n).length : Int))
              | other => ([], other, bodyBytes, p.bodyLen)
            let req := { req with bodyLen := bodyLen }
            if op = "fcgi" then
              let role := if authorizer then Extracted.C09.gwAuthorizer else Extracted.C09.gwResponder
              match Fcgi.createEnv role upgrade (cgiEnv copts req) bodyLen seg0 with
              | none => echo ++ "st=400"
              | some st =>
                let st1 := runSched (Fcgi.arrive authorizer upgrade) (Fcgi.complete authorizer upgrade)
                             steps1 body1 st
                let st2 := Fcgi.flush authorizer upgrade (st1.pending.length + 1) st1
                echo ++ okStr st2.reqlen st2.out st2.pending
            else if isScgi then
              let sopts : CgiOpts := { docroot := docroot }
              let env := cgiEnv sopts req
              if isBuf then
                -- the buffer-level model (placeholder, in-place header, chunk offset), right after create_env
                let bres : ScgiBuf.Res :=
                  if op = "scgi" then
                    (match ScgiBuf.scgi env bodyLen seg0 with | some s => .ok s | none => .status 999)
                  else ScgiBuf.uwsgi env bodyLen seg0
                match bres with
                | .status c => echo ++ "st=" ++ toString c
                | .ok s =>
                  echo ++ "buf off=" ++ toString s.offset ++ " hid=" ++ fastHex s.hidden ++
                    " reqlen=" ++ toString s.st.reqlen ++ " in=" ++ toString s.bytesIn ++
                    " bo=" ++ toString s.bytesOut ++ " pend=" ++ toString s.st.pending.length ++
                    " out=" ++ fastHex s.st.out
              else
              let res : Uwsgi.Res :=
                if op = "scgi" then .ok (Scgi.createEnv env bodyLen seg0)
                else Uwsgi.createEnv env bodyLen seg0
              match res with
              | .status c => echo ++ "st=" ++ toString c
              | .ok st =>
                let st1 := runSched RawSt.arrive RawSt.complete steps1 body1 st
                let st2 := st1.moveAll
                echo ++ okStr st2.reqlen st2.out st2.pending
            else if isProxy then
              match px.splitOn "." with
              | fwd :: rh =>
                let rhost : Option Bytes := match rh with
                  | [h] => (optHex h).getD none
                  | _ => none
                let cfg : Proxy.Cfg :=
                  { forceHttp10 := hasFlag fl 2048, replaceHost := rhost, forwarded := fwd.toNat?.getD 0,
                    authorizer := authorizer, streaming := (hasFlag fl 1024 || hasFlag fl 4096) }
                let preq : Proxy.Req :=
                  { method := p.method,
                    isGetOrHead := p.method = ofString "GET" || p.method = ofString "HEAD",
                    target := tg.target, h2ConnectExt := h2ext, version := version, host := p.host,
                    bodyLen := bodyLen, scheme := scheme, isSsl := hasFlag fl 16, remoteAddr := raddr,
                    remoteUser := (renv.find? fun (k, v) => eqIcase k (ofString "REMOTE_USER") && !v.isEmpty).map (·.2),
                    headers := hs2 }
                match Proxy.createEnv cfg preq seg0 with
                | .status c => echo ++ "st=" ++ toString c
                | .ok st chunked =>
                  let st1 := runSched (Proxy.arrive cfg chunked) (Proxy.complete chunked) steps1 body1 st
                  let st2 := if st1.pending.isEmpty ∨ cfg.authorizer then st1
                             else if chunked then Proxy.stdinAppend st1 else st1.moveAll
                  echo ++ okStr st2.reqlen st2.out st2.pending
              | _ => "bad-op"
            else "bad-op"
      | _, _, _, _ => "bad-op"
    | _, _, _, _, _, _, _, _, _, _, _, _, _ => "bad-op"
  | _ => "bad-op"

end CgiDrv

/-- "h2data <cl> <maxkb> <consumer> <body> <frames len.pad.end[.x],...> <segmentation>" -/
def CgiDrv.h2dataLine (cl maxkb cons body frames : String) : String :=
  match cl.toInt?, maxkb.toNat?, CgiDrv.bodyOf body with
  | some cl, some maxkb, some bodyBytes =>
    let rec build : List (List String) → Bytes → List DataFrame → Option (List DataFrame)
      | [], _, acc => some acc.reverse
      | spec :: rest, b, acc =>
        match spec with
        | dl :: pad :: e :: x =>
          match dl.toNat?, pad.toInt?, e.toNat? with
          | some n, some pad, some e =>
            let d := b.take n
            let raw : Bytes :=
              if pad < 0 then d
              else pad.toNat.toUInt8 :: d ++ (if x = ["x"] then [] else List.replicate pad.toNat 0xAA)
            build rest (b.drop n) ({ padded := pad ≥ 0, endStream := e ≠ 0, raw := raw } :: acc)
          | _, _, _ => none
        | _ => none
    match build ((frames.splitOn ",").map (·.splitOn ".")) bodyBytes [] with
    | none => "bad-op"
    | some fs =>
      let c : H2Cfg := { consumer := cons = "1", maxSize := maxkb }
      let st := h2Body c cl fs
      let rb := if st.goaway then "-" else
        match h2ReqbodyRead c.consumer st with
        | .ready => "ready" | .more => "more" | .wait => "wait" | .error => "error"
      "h2data state=" ++ (match st.state with | .open => "open" | .halfClosedRemote => "hcr" | .closed => "closed") ++
        " len=" ++ toString st.bodyLen ++ " rst=" ++ toString st.rst ++ " goaway=" ++ (if st.goaway then "1" else "0") ++
        " st=" ++ toString st.status ++ " rb=" ++ rb ++ " rq=0 out=" ++ CgiDrv.fastHex st.out
  | _, _, _ => "bad-op"

def cgiLine (toks : List String) : String :=
  match toks with
  | ["h2data", cl, maxkb, cons, body, frames, _seg] => CgiDrv.h2dataLine cl maxkb cons body frames
  | op :: rest =>
    -- split at the "P" marker: everything after it is the parsed request
    let pre := rest.takeWhile (· ≠ "P")
    let post := (rest.dropWhile (· ≠ "P")).drop 1
    CgiDrv.caseLine op pre post
  | _ => "bad-op"

end Driver
