/- line-protocol handler for model "cgi" (stub until its model is built) -/
namespace Driver

def cgiLine : List String → String
  | _ => "bad-op"

end Driver
