/- line-protocol handler for model "cond" (C14): see harness/inproc/h_cond.c for the
   line format.  The <cfghex> token is ignored here; the tree comes from the <node>
   tokens (`parent,prev,comp,cond,str,tag,extra,dirs`); `next` / `children` are derived
   the way configparser.y links them (`Cond.link`). -/
import LtVerif.Model.Cond
import LtVerif.Model.CondSimplify
import LtVerif.Proofs.Cond
namespace Driver
open LtVerif LtVerif.B LtVerif.Cond

namespace CondP

def compOf : Char → Option Comp
  | 'G' => some .unset | 'S' => some .socket | 'U' => some .url | 'H' => some .host
  | 'I' => some .remoteIp | 'Q' => some .query | 'C' => some .scheme | 'M' => some .method
  | 'R' => some .header | _ => none

def compCh : Comp → Char
  | .unset => 'G' | .socket => 'S' | .url => 'U' | .host => 'H' | .remoteIp => 'I'
  | .query => 'Q' | .scheme => 'C' | .method => 'M' | .header => 'R'

def condOf : String → Option CondOp
  | "un" => some .unset | "eq" => some .eq | "ne" => some .ne | "re" => some .match_
  | "nr" => some .nomatch | "pr" => some .prefix_ | "su" => some .suffix | "el" => some .else_
  | _ => none

def condNm : CondOp → String
  | .unset => "un" | .eq => "eq" | .ne => "ne" | .match_ => "re" | .nomatch => "nr"
  | .prefix_ => "pr" | .suffix => "su" | .else_ => "el"

def comps (s : String) : Option (List Comp) :=
  if s = "-" then some [] else s.toList.mapM compOf

def optNat (s : String) : Option (Option Nat) :=
  if s = "-" then some none else s.toNat?.map some

def lower (b : Bytes) : Bytes := b.map toLower

def addrOf (fam hex : String) : Option SockAddr := do
  let b ← ofHex hex
  if fam = "4" ∧ b.length = 4 then some (.v4 b)
  else if fam = "6" ∧ b.length = 16 then some (.v6 b)
  else none

/-! regular-expression subset → `Regex` -/

def isSpecial (c : UInt8) : Bool :=
  c == 92 || c == 94 || c == 36 || c == 46 || c == 124 || c == 63 || c == 42 || c == 43 ||
  c == 40 || c == 41 || c == 91 || c == 93 || c == 123 || c == 125

/-- body of a character class up to ']' (ranges a-z are expanded) -/
def clsBody : Nat → Bytes → List UInt8 → Option (List UInt8 × Bytes)
  | 0, _, _ => none
  | _ + 1, [], _ => none
  | _ + 1, 93 :: rest, acc => some (acc.reverse, rest)
  | f + 1, a :: 45 :: b :: rest, acc =>
    if b = 93 then clsBody f (45 :: b :: rest) (a :: acc)
    else if a ≤ b then
      clsBody f rest (((List.range (b.toNat - a.toNat + 1)).map fun k => a + k.toUInt8).reverse ++ acc)
    else none
  | f + 1, a :: rest, acc => clsBody f rest (a :: acc)

def atomOf : Bytes → Option (Atom × Bytes)
  | [] => none
  | 46 :: rest => some (.any, rest)
  | 92 :: c :: rest => if isAlnum c then none else some (.lit c, rest)
  | 91 :: 94 :: rest => (clsBody (rest.length + 1) rest []).map fun (cs, r) => (.cls true cs, r)
  | 91 :: rest => (clsBody (rest.length + 1) rest []).map fun (cs, r) => (.cls false cs, r)
  | c :: rest => if isSpecial c then none else some (.lit c, rest)

def itemsOf : Nat → Bytes → List (Atom × Quant) → Option (List (Atom × Quant) × Bool)
  | 0, _, _ => none
  | _ + 1, [], acc => some (acc.reverse, false)
  | _ + 1, [36], acc => some (acc.reverse, true)
  | f + 1, s, acc =>
    match atomOf s with
    | none => none
    | some (a, rest) =>
      match rest with
      | 42 :: r => itemsOf f r ((a, .star) :: acc)
      | 43 :: r => itemsOf f r ((a, .plus) :: acc)
      | 63 :: r => itemsOf f r ((a, .opt) :: acc)
      | r => itemsOf f r ((a, .one) :: acc)

def regexOf (s : Bytes) : Option Regex :=
  let (bol, body) := match s with | 94 :: r => (true, r) | r => (false, r)
  (itemsOf (body.length + 1) body []).map fun (items, eol) => { bol, items, eol }

def setsOf (s : String) : Option (List (Nat × Nat)) :=
  if s = "-" then some [] else
  (s.splitOn "+").mapM fun kv =>
    match kv.splitOn "." with
    | [k, v] => do some ((← k.toNat?), (← v.toNat?))
    | _ => none

/-- node token → node and the header name as written (for the tree dump) -/
def nodeOf (tok : String) : Option (Node × Bytes) :=
  match tok.splitOn "," with
  | [par, prev, comp, cond, str, tag, extra, dirs] => do
    let parent ← par.toNat?
    let prev ← optNat prev
    let comp ← (match comp.toList with | [c] => compOf c | _ => none)
    let cond ← condOf cond
    let str ← ofHex str
    let tag ← ofHex tag
    let sets ← setsOf dirs
    let cidr ← (if extra = "-" then some none else
      match extra.splitOn "." with
      | [fam, hex, bits] => do some (some ((← addrOf fam hex), (← bits.toNat?)))
      | _ => none)
    let re ← (if cond = .match_ ∨ cond = .nomatch then (regexOf str).map some else some none)
    some ({ parent, prev, comp, cond, str, tag := lower tag, cidr, re, sets }, tag)
  | _ => none

def knownMethods : List String :=
  ["GET", "HEAD", "QUERY", "POST", "PUT", "DELETE", "CONNECT", "OPTIONS", "TRACE", "PATCH",
   "PROPFIND", "MKCOL", "COPY", "MOVE", "LOCK", "UNLOCK", "PRI"]

def attrOf (tok : String) : Option (Comp × AttrVal) :=
  match tok.splitOn ":" with
  | ["I", fam, hex, s] => do some (.remoteIp, .ip (← addrOf fam hex) (← ofHex s))
  | ["R", n, v] => do some (.header, .hdr (lower (← ofHex n)) (← ofHex v))
  | [c, v] =>
    match c.toList with
    | [ch] => do
      let comp ← compOf ch
      let b ← ofHex v
      if comp = .remoteIp ∨ comp = .header ∨ comp = .unset then none
      else if comp = .method then
        -- r->http_method is an enum: unknown names compare as ""
        some (comp, .str (if knownMethods.any (fun m => ofString m == b) then b else []))
      else some (comp, .str b)
    | _ => none
  | _ => none

def dumpNode (i : Nat) (nd : Node) (rawTag : Bytes) : String :=
  let opt (o : Option Nat) := match o with | some k => toString k | none => "-"
  let ch := if nd.children.isEmpty then "-" else ".".intercalate (nd.children.map toString)
  let str := if nd.cond = .else_ then "-" else toHex nd.str
  let tag := if nd.comp = .header ∧ nd.cond ≠ .else_ then toHex rawTag else "-"
  let extra := match nd.cidr with
    | some (.v4 b, bits) => "4." ++ toHex b ++ "." ++ toString bits
    | some (.v6 b, bits) => "6." ++ toHex b ++ "." ++ toString bits
    | _ => "-"
  s!"{i}:{nd.parent}:{opt nd.prev}:{opt nd.next}:{ch}:{compCh nd.comp}:{condNm nd.cond}:{str}:{tag}:{extra}"

def dumpCache (n : Nat) (c : Cache) : String :=
  if n ≤ 1 then "-" else
  String.join (((List.range n).drop 1).map fun i => toString (colGet c.res i).toNat ++ toString (colGet c.loc i).toNat)

def dumpValid (v : Comp → Bool) : String :=
  String.ofList ("SUHIQCMR".toList.filter fun ch =>
    match compOf ch with | some c => v c | none => false)

def dirsOf (s : String) : Option (List Nat) :=
  s.toList.mapM fun ch => if ch.isDigit then some (ch.toNat - 48) else none

/-- op token → model operation -/
def opOf (n nslots : Nat) (tok : String) : Option Op :=
  match tok.splitOn "," with
  | ["k", s, i] => do
    let s ← s.toNat?; let i ← i.toNat?
    if s < nslots ∧ 1 ≤ i ∧ i < n then some (.check s i) else none
  | ["a", s, a] => do
    let s ← s.toNat?; let (c, v) ← attrOf a
    if s < nslots then some (.setAttr s c v) else none
  | ["z", s] => do let s ← s.toNat?; if s < nslots then some (.resetAll s) else none
  | ["v", s, cs] => do
    let s ← s.toNat?; let cs ← comps cs
    if s < nslots then some (.setValid s cs) else none
  | ["n", s, cs, as] => do
    let s ← s.toNat?; let cs ← comps cs
    let sets ← (if as = "-" then some [] else (as.splitOn ";").mapM attrOf)
    if s < nslots then some (.newReq s sets cs) else none
  | ["s"] => if nslots < 8 then some .spawn else none
  | ["p", s, d] => do
    let s ← s.toNat?
    if s < nslots ∧ (d = "012" ∨ d = "345") then some (.patch s (← dirsOf d)) else none
  | _ => none

def showOp (n : Nat) (op : Op) (st : List Req) (o : Obs) : String :=
  let cache (s : Nat) := dumpCache n (st.getD s default).cache
  match op, o with
  | .check s _, .result _ _ r => s!"k{if r = .true_ then 1 else 0}={cache s}"
  | .setAttr s _ _, _ => s!"a={cache s}"
  | .resetAll s, _ => s!"z={cache s}"
  | .setValid s _, _ => s!"v={cache s}"
  | .newReq s _ _, _ => s!"n={cache s}"
  | .spawn, _ =>
    let s := st.length - 1
    s!"s{s},{dumpValid (st.getD s default).valid}={cache s}"
  | .patch s dirs, .conf _ _ cf => s!"p{".".intercalate (dirs.map fun d => toString (cf d))}={cache s}"
  | _, _ => "?"

def runOps (t : Tree) (n : Nat) : List String → List Req → List String → Option (List String)
  | [], _, acc => some acc.reverse
  | tok :: rest, st, acc =>
    -- "N,s,valid,attrs": the next request has been parsed into the request_st; nothing is
    -- reset yet (http_response_config(), op h, does that) — not an operation of the theorems,
    -- which take "new attributes + full reset" as one step (`Op.newReq`)
    if tok.startsWith "N," then
      match opOf n st.length ("n," ++ (tok.drop 2).toString) with
      | some (.newReq s sets v) =>
        match st[s]? with
        | some rq =>
          let st' := st.set s { rq with env := applySets rq.env sets, valid := validOf v }
          runOps t n rest st' (("N=" ++ dumpCache n rq.cache) :: acc)
        | none => none
      | _ => none
    else
    -- "h,s": http_response_config() = full reset, then the core patch_config
    if tok.startsWith "h," then
      match (tok.drop 2).toNat? with
      | some s =>
        if s < st.length then
          let (st1, _) := step true t st (.resetAll s)
          let (st2, o) := step true t st1 (.patch s [0, 1, 2])
          let out := showOp n (.patch s [0, 1, 2]) st2 o
          runOps t n rest st2 (("h" ++ out.drop 1) :: acc)
        else none
      | none => none
    else
    match opOf n st.length tok with
    | none => none
    | some op =>
      let (st', o) := step true t st op
      runOps t n rest st' (showOp n op st' o :: acc)

/-- mini-server request token `q,<peer>,<head>,<core attrs>,<clean attrs>`: the generator
    states which attributes the request has when http_response_config() runs for the last
    time (core settings) and at the uri_clean / docroot hooks (mod_setenv settings, probe);
    the model says which settings the language gives for them -/
def srvReq (t : Tree) (n : Nat) (tok : String) : Option String :=
  match tok.splitOn "," with
  | ["q", _, _, core, clean] => do
    let envOf (s : String) : Option Env :=
      if s = "-" then some default else ((s.splitOn ";").mapM attrOf).map (applySets default)
    let e1 ← envOf core
    let e2 ← envOf clean
    let all : Comp → Bool := fun _ => true
    let c1 := (patch t e1 all [0, 1, 2] (Cache.empty n)).1
    let c2 := (patch t e2 all [3, 4, 5] (Cache.empty n)).1
    let bits := String.ofList (((List.range n).drop 1).map fun i =>
      if (check t e2 all n i (Cache.empty n)).1 = .true_ then '1' else '0')
    some s!"c{c1 0}.{c1 1}.{c1 2},e{c2 3}.{c2 4}.{c2 5},d{bits},{toHex e2.scheme},{toHex e2.url},{toHex e2.query},{toHex e2.ipStr}"
  | _ => none

end CondP

open CondP in
def condLine : List String → String
  | ["x", hx] =>
    -- configparser_simplify_regex() on the string of a `=~` condition: stored (cond, string)
    match ofHex hx with
    | none => "bad-op"
    | some b =>
      let cs := simplifyRegex b
      condNm cs.1 ++ " " ++ toHex cs.2
  | "srv" :: _cfg :: rest =>
    let nodeToks := rest.takeWhile (· ≠ "/")
    let reqToks := (rest.dropWhile (· ≠ "/")).drop 1
    if rest.all (· ≠ "/") then "bad-op" else
    match nodeToks.mapM nodeOf with
    | none => "bad-op"
    | some nds =>
      let t := link (nds.map (·.1))
      let n := t.length
      if n = 0 then "bad-op" else
      let tree := toString n ++ (if decide (WF t) then " W1" else " W0") ++ String.join (((List.range n).drop 1).map fun i =>
        " " ++ dumpNode i (t.node i) ((nds.getD i default).2))
      match reqToks.mapM (srvReq t n) with
      | none => "bad-op"
      | some outs => tree ++ " /" ++ String.join (outs.map (" " ++ ·))
  | "c" :: _cfg :: rest =>
    let nodeToks := rest.takeWhile (· ≠ "/")
    let opToks := (rest.dropWhile (· ≠ "/")).drop 1
    if rest.all (· ≠ "/") then "bad-op" else
    match nodeToks.mapM nodeOf with
    | none => "bad-op"
    | some nds =>
      let t := link (nds.map (·.1))
      let n := t.length
      if n = 0 then "bad-op" else
      -- "W1": the tree satisfies the well-formedness hypothesis `WF` of the C14 theorems
      let tree := toString n ++ (if decide (WF t) then " W1" else " W0") ++ String.join (((List.range n).drop 1).map fun i =>
        " " ++ dumpNode i (t.node i) ((nds.getD i default).2))
      match runOps t n opToks [Req.fresh n] [] with
      | none => "bad-op"
      | some outs => tree ++ " /" ++ String.join (outs.map (" " ++ ·))
  | _ => "bad-op"

end Driver
