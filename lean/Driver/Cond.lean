/- line-protocol handler for model "cond" (stub until its model is built) -/
namespace Driver

def condLine : List String → String
  | _ => "bad-op"

end Driver
