/- line-protocol handler for model "cq" (stub until its model is built) -/
namespace Driver

def cqLine : List String → String
  | _ => "bad-op"

end Driver
