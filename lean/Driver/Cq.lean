/-
  line-protocol handler for model "cq" (chunk queue, C17); same protocol and
  canonical output as harness/inproc/h_cq.c:
    seq <chunksz> <tmpsz | tmpsz/q0size/q1size> <ndirs> <wsched> <msched> <files> <op> <op> ...
-/
import LtVerif.Model.Cq
import LtVerif.Model.CqSplice
namespace Driver
open LtVerif LtVerif.Cq

namespace CqD

/-- pat(seed, i) of h_cq.c -/
def patByte (seed i : Nat) : UInt8 :=
  UInt8.ofNat ((seed * 37 + i * 131 + (i / 256) * 17 + (i / 65536) * 5) % 256)

def pat (seed n : Nat) : Bytes := (List.range n).map (patByte seed)

def crcTable : Array UInt32 :=
  Array.ofFn (n := 256) fun i =>
    (List.range 8).foldl
      (fun (c : UInt32) _ => if c &&& 1 = 1 then (c >>> 1) ^^^ 0xEDB88320 else c >>> 1)
      i.val.toUInt32

def crcStep (c : UInt32) (b : UInt8) : UInt32 :=
  crcTable[((c ^^^ b.toUInt32) &&& 0xff).toNat]! ^^^ (c >>> 8)

/-- running CRC-32 (zlib), state is the complemented register -/
def crcFeed (c : UInt32) (bs : Bytes) : UInt32 := bs.foldl crcStep c

def hexDigit (n : Nat) : Char := if n < 10 then Char.ofNat (48 + n) else Char.ofNat (87 + n)

def hex8 (v : UInt32) : String :=
  let n := v.toNat
  String.ofList ((List.range 8).map fun i => hexDigit ((n >>> (4 * (7 - i))) % 16))

def crcHex (bs : Bytes) : String := hex8 (crcFeed 0xFFFFFFFF bs ^^^ 0xFFFFFFFF)

/-- chunkqueue_set_chunk_size() -/
def chunkSize (sz : Nat) : Nat :=
  if sz = 0 then 8192
  else (List.range 20).foldl (fun x _ => if x < sz then x * 2 else x) 1024

structure St where
  s : Sys
  nsrc : Nat

def readable (w : World) : Chunk → Bytes
  | .mem d off _ => d.drop off
  | .file fid off len _ fd =>
    if fd.isOpen || (w.files fid).nlink > 0 then ((w.files fid).content.drop off).take (len - off) else []

def layoutChunk : Chunk → String
  | .mem d off _ => "M" ++ toString (d.length - off)
  | .file _ off len t fd => (if t then "T" else "F") ++ toString (len - off) ++ (if fd.isOpen then "+" else "")

def dumpCq (w : World) (i : Nat) (q : Cq) : String :=
  let parts := q.chunks.map (readable w)
  let n := parts.foldl (fun a p => a + p.length) 0
  let c := parts.foldl crcFeed 0xFFFFFFFF ^^^ 0xFFFFFFFF
  let lay := if q.chunks.isEmpty then "-" else ".".intercalate (q.chunks.map layoutChunk)
  s!" q{i}:{q.length},{q.bytesIn},{q.bytesOut},{q.tdIdx},{n},{hex8 c},{lay}"

def dumpState (st : St) : String :=
  let w := st.s.w
  let temps := (List.range (w.nfiles - st.nsrc)).filterMap fun k =>
    let f := w.files (st.nsrc + k)
    if f.nlink > 0 then some s!"{k}@{f.dir}" else none
  let fds : Int := (List.range w.nfiles).foldl (fun a k => a + (w.files k).nfd) 0
  dumpCq w 0 st.s.q0 ++ dumpCq w 1 st.s.q1 ++ " t:" ++ (if temps.isEmpty then "-" else ",".intercalate temps)
    ++ s!" fd:{fds}"

def rcStr (ok : Bool) : String := if ok then "0" else "-1"

/-- token -> operation of the model -/
def parseOp (nsrc : Nat) (tok : String) : Option Op :=
  match tok.splitOn "," with
  | op :: qs :: args =>
    match qs.toNat?, args.mapM String.toNat? with
    | some qn, some a =>
      let qi := qn % 2 = 1
      match op, a with
      | "am", [seed, len] => some (.appendMem qi (pat seed len))
      | "an", [seed, len] => some (.appendMemMin qi (pat seed len))
      | "ab", [seed, len] => some (.appendBuffer qi (pat seed len))
      | "bo", [seed, len] => some (.appendBufferOpen qi (pat seed len))
      | "gm", [req, seed, use] => some (.getUseMemory qi req (pat seed use))
      | "af", [fid, off, len] => if fid < nsrc then some (.appendFile qi fid off len false) else none
      | "ad", [fid, off, len] => if fid < nsrc then some (.appendFile qi fid off len true) else none
      | "ac", [] => some (.appendChunkqueue qi)
      | "mt", [seed, len] => some (.appendMemToTempfile qi (pat seed len))
      | "st", [n] => some (.steal qi n)
      | "sw", [n] => some (.stealWithTempfiles qi n)
      | "cr", [si, off, len] => some (.appendCqRange qi (decide ((si % 2 = 1) = qi)) off len)
      | "mw", [n] => some (.markWritten qi n)
      | "rf", [] => some (.removeFinished qi)
      | "re", [] => some (.removeEmpty qi)
      | "cm", [clen] => some (.compactMem qi clen)
      | "co", [] => some (.compactMemOffset qi)
      | "pk", [n] => some (.peekData qi n)
      | "rd", [n] => some (.readData qi n)
      | "sq", [] => some (.readSquash qi)
      | "rs", [] => some (.reset qi)
      | _, _ => none
    | _, _ => none
  | _ => none

/-- result token as printed by h_cq.c -/
def resStr (name : String) : Res → String
  | .done => name
  | .skipped => name ++ ":skip"
  | .avail n => s!"gm:{n}"
  | .rc ok => if name = "sq" then (if ok then "sq:1" else "sq:0") else name ++ ":" ++ rcStr ok
  | .peeked ok d => s!"pk:{rcStr ok},{d.length},{crcHex d}"
  | .read (some d) => s!"rd:0,{crcHex d}"
  | .read none => "rd:-1"

/-- `sp,q,seed,len` (chunkqueue_append_splice_pipe_tempfile): not an `Op`, see Model/CqSplice.lean -/
def parseSp (tok : String) : Option (Bool × Nat × Nat) :=
  match tok.splitOn "," with
  | ["sp", qs, seed, len] =>
    match qs.toNat?, seed.toNat?, len.toNat? with
    | some qn, some seed, some len => if len ≤ 60000 then some (qn % 2 = 1, seed, len) else none
    | _, _, _ => none
  | _ => none

def doOp (st : St) (tok : String) : St × String :=
  match parseOp st.nsrc tok with
  | none =>
    match parseSp tok with
    | some (qi, seed, len) =>
      let (s', r) := spliceStep st.s qi (pat seed len)
      ({ st with s := s' }, match r with | .rc true => s!"sp:{len}" | _ => "sp:-1")
    | none => (st, "bad-op")
  | some op =>
    let (s', r) := step st.s op
    ({ st with s := s' }, resStr ((tok.splitOn ",").headD "") r)

def parseW (s : String) : Option (List WFault) :=
  if s = "-" then some [] else
  (s.splitOn ",").mapM fun t =>
    if t = "k" then some WFault.ok
    else if t = "i" then some .eintr
    else if t = "n" then some .enospc
    else if t = "e" then some .eio
    else if t.startsWith "s" then (t.drop 1).toString.toNat?.map WFault.short
    else none

def parseM (s : String) : Option (List Bool) :=
  if s = "-" then some [] else
  s.toList.mapM fun c => if c = 'k' then some false else if c = 'f' then some true else none

def parseFiles (s : String) : Option (List Nat) :=
  if s = "-" then some [] else ((s.splitOn ",").take 4).mapM String.toNat?

def initWorld (cs tmpsz ndirs : Nat) (ws : List WFault) (ms : List Bool) (files : List Nat) : World :=
  let fl : List File := files.zipIdx.map fun (sz, fid) => { content := pat fid sz, nlink := 1 }
  { cs := chunkSize cs, defTempSize := if tmpsz = 0 then 1048576 else tmpsz, ndirs := ndirs,
    files := fun i => fl.getD i {}, nfiles := fl.length, nsrc := fl.length, wsched := ws, msched := ms }

def runOps (st : St) (ops : List String) : String :=
  let (st, out) := ops.foldl (fun (acc : St × String) tok =>
    let (st, o) := acc
    let (st', r) := doOp st tok
    (st', o ++ r ++ dumpState st' ++ " | ")) (st, "")
  let s := (step (step st.s (.reset false)).1 (.reset true)).1
  out ++ "end" ++ dumpState { st with s := s }
    ++ s!" ws:{s.w.wsched.length} ms:{s.w.msched.length}"

end CqD

def cqLine : List String → String
  | "seq" :: cs :: tmpsz :: ndirs :: ws :: ms :: files :: ops =>
    -- "G" or "G/A/B": default temp file size, then chunkqueue_set_tempdirs(q0, A) / (q1, B)
    let tz : Option (Nat × Option (Nat × Nat)) :=
      match tmpsz.splitOn "/" with
      | [g] => g.toNat?.map fun g => (g, none)
      | [g, a, b] =>
        match g.toNat?, a.toNat?, b.toNat? with
        | some g, some a, some b => some (g, some (a, b))
        | _, _, _ => none
      | _ => none
    match cs.toNat?, tz, ndirs.toNat?, CqD.parseW ws, CqD.parseM ms, CqD.parseFiles files with
    | some cs, some (tmpsz, per), some ndirs, some ws, some ms, some files =>
      if ndirs > 3 then "bad-op" else
      let w := CqD.initWorld cs tmpsz ndirs ws ms files
      let q : Cq := { tempSize := w.defTempSize }
      let setT (v : Nat) : Cq := { tempSize := if v = 0 then w.defTempSize else v }
      let (q0, q1) := match per with
        | none => (q, q)
        | some (a, b) => (setT a, setT b)
      CqD.runOps { s := { w := w, q0 := q0, q1 := q1 }, nsrc := files.length } ops
    | _, _, _, _, _, _ => "bad-op"
  | _ => "bad-op"

end Driver
