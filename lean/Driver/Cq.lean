/-
  line-protocol handler for model "cq" (chunk queue, C17); same protocol and
  canonical output as harness/inproc/h_cq.c:
    seq <chunksz> <tmpsz> <ndirs> <wsched> <msched> <files> <op> <op> ...
-/
import LtVerif.Model.Cq
namespace Driver
open LtVerif LtVerif.Cq

namespace CqD

/-- pat(seed, i) of h_cq.c -/
def patByte (seed i : Nat) : UInt8 :=
  UInt8.ofNat ((seed * 37 + i * 131 + (i / 256) * 17 + (i / 65536) * 5) % 256)

def pat (seed n : Nat) : Bytes := (List.range n).map (patByte seed)

def crcTable : Array UInt32 :=
  Array.ofFn (n := 256) fun i =>
    (List.range 8).foldl
      (fun (c : UInt32) _ => if c &&& 1 = 1 then (c >>> 1) ^^^ 0xEDB88320 else c >>> 1)
      i.val.toUInt32

def crcStep (c : UInt32) (b : UInt8) : UInt32 :=
  crcTable[((c ^^^ b.toUInt32) &&& 0xff).toNat]! ^^^ (c >>> 8)

/-- running CRC-32 (zlib), state is the complemented register -/
def crcFeed (c : UInt32) (bs : Bytes) : UInt32 := bs.foldl crcStep c

def hexDigit (n : Nat) : Char := if n < 10 then Char.ofNat (48 + n) else Char.ofNat (87 + n)

def hex8 (v : UInt32) : String :=
  let n := v.toNat
  String.ofList ((List.range 8).map fun i => hexDigit ((n >>> (4 * (7 - i))) % 16))

def crcHex (bs : Bytes) : String := hex8 (crcFeed 0xFFFFFFFF bs ^^^ 0xFFFFFFFF)

/-- chunkqueue_set_chunk_size() -/
def chunkSize (sz : Nat) : Nat :=
  if sz = 0 then 8192
  else (List.range 20).foldl (fun x _ => if x < sz then x * 2 else x) 1024

structure St where
  w : World
  q0 : Cq
  q1 : Cq
  nsrc : Nat

def St.q (s : St) (i : Nat) : Cq := if i % 2 = 0 then s.q0 else s.q1
def St.setQ (s : St) (i : Nat) (q : Cq) : St := if i % 2 = 0 then { s with q0 := q } else { s with q1 := q }

def readable (w : World) : Chunk → Bytes
  | .mem d off _ => d.drop off
  | .file fid off len _ fd =>
    if fd.isOpen || (w.files fid).nlink > 0 then ((w.files fid).content.drop off).take (len - off) else []

def layoutChunk : Chunk → String
  | .mem d off _ => "M" ++ toString (d.length - off)
  | .file _ off len t fd => (if t then "T" else "F") ++ toString (len - off) ++ (if fd.isOpen then "+" else "")

def dumpCq (w : World) (i : Nat) (q : Cq) : String :=
  let parts := q.chunks.map (readable w)
  let n := parts.foldl (fun a p => a + p.length) 0
  let c := parts.foldl crcFeed 0xFFFFFFFF ^^^ 0xFFFFFFFF
  let lay := if q.chunks.isEmpty then "-" else ".".intercalate (q.chunks.map layoutChunk)
  s!" q{i}:{q.length},{q.bytesIn},{q.bytesOut},{q.tdIdx},{n},{hex8 c},{lay}"

def dumpState (s : St) : String :=
  let temps := (List.range (s.w.nfiles - s.nsrc)).filterMap fun k =>
    let f := s.w.files (s.nsrc + k)
    if f.nlink > 0 then some s!"{k}@{f.dir}" else none
  let fds : Int := (List.range s.w.nfiles).foldl (fun a k => a + (s.w.files k).nfd) 0
  dumpCq s.w 0 s.q0 ++ dumpCq s.w 1 s.q1 ++ " t:" ++ (if temps.isEmpty then "-" else ",".intercalate temps)
    ++ s!" fd:{fds}"

def allMem (q : Cq) : Bool := !q.chunks.isEmpty && q.chunks.all Chunk.isMem

def rcStr (ok : Bool) : String := if ok then "0" else "-1"

/-- one operation: new state and the result token -/
def doOp (s : St) (tok : String) : St × String :=
  let f := tok.splitOn ","
  match f with
  | op :: qs :: args =>
    match qs.toNat?, args.mapM String.toNat? with
    | some qi, some a =>
      let q := s.q qi
      let o := s.q (qi + 1)
      match op, a with
      | "am", [seed, len] =>
        let (w, q) := appendMem s.w q (pat seed len); ({ s with w := w }.setQ qi q, op)
      | "an", [seed, len] =>
        let (w, q) := appendMemMin s.w q (pat seed len); ({ s with w := w }.setQ qi q, op)
      | "ab", [seed, len] =>
        let (w, q) := appendBuffer s.w q (pat seed len); ({ s with w := w }.setQ qi q, op)
      | "bo", [seed, len] =>
        let (w, q) := appendBufferOpen s.w q (pat seed len); ({ s with w := w }.setQ qi q, op)
      | "gm", [req, seed, use] =>
        let (w, q, avail) := getUseMemory s.w q req use (pat seed)
        ({ s with w := w }.setQ qi q, s!"gm:{avail}")
      | "af", [fid, off, len] =>
        if fid ≥ s.nsrc then (s, "bad-op") else
        let (w, q) := appendFile s.w q fid off len false; ({ s with w := w }.setQ qi q, op)
      | "ad", [fid, off, len] =>
        if fid ≥ s.nsrc then (s, "bad-op") else
        let (w, q) := appendFile s.w q fid off len true; ({ s with w := w }.setQ qi q, op)
      | "ac", [] =>
        let (q, o) := appendChunkqueue q o; ((s.setQ qi q).setQ (qi + 1) o, op)
      | "mt", [seed, len] =>
        let (w, q, ok) := appendMemToTempfile s.w q (pat seed len)
        ({ s with w := w }.setQ qi q, "mt:" ++ rcStr ok)
      | "st", [n] =>
        let (w, q, o) := steal s.w q o n; (({ s with w := w }.setQ qi q).setQ (qi + 1) o, op)
      | "sw", [n] =>
        let (w, q, o, ok) := stealWithTempfiles s.w q o n
        (({ s with w := w }.setQ qi q).setQ (qi + 1) o, "sw:" ++ rcStr ok)
      | "cr", [si, off, len] =>
        if si % 2 = qi % 2 then
          if len > 0 ∧ (off + len : Int) > q.length then (s, "cr:skip")
          else
            let (w, q) := appendCqRangeSelf s.w q off len; ({ s with w := w }.setQ qi q, op)
        else
          let (w, q) := appendCqRange s.w q o off len; ({ s with w := w }.setQ qi q, op)
      | "mw", [n] =>
        if (n : Int) ≤ q.length then
          let (w, q) := markWritten s.w q n; ({ s with w := w }.setQ qi q, op)
        else (s, "mw:skip")
      | "rf", [] => let (w, q) := removeFinished s.w q; ({ s with w := w }.setQ qi q, op)
      | "re", [] => let (w, q) := removeEmpty s.w q; ({ s with w := w }.setQ qi q, op)
      | "cm", [clen] =>
        if allMem q then let (w, q) := compactMem s.w q clen; ({ s with w := w }.setQ qi q, op)
        else (s, "cm:skip")
      | "co", [] =>
        if q.chunks.isEmpty then (s, "co:skip") else (s.setQ qi (compactMemOffset q), op)
      | "pk", [n] =>
        let (w, q, data, ok) := peekData s.w q n
        ({ s with w := w }.setQ qi q, s!"pk:{rcStr ok},{data.length},{crcHex data}")
      | "rd", [n] =>
        match readData s.w q n with
        | (w, q, some data) => ({ s with w := w }.setQ qi q, s!"rd:0,{crcHex data}")
        | (w, q, none) => ({ s with w := w }.setQ qi q, "rd:-1")
      | "sq", [] =>
        let (w, q, ok) := readSquash s.w q
        ({ s with w := w }.setQ qi q, if ok then "sq:1" else "sq:0")
      | "rs", [] => let (w, q) := reset s.w q; ({ s with w := w }.setQ qi q, op)
      | _, _ => (s, "bad-op")
    | _, _ => (s, "bad-op")
  | _ => (s, "bad-op")

def parseW (s : String) : Option (List WFault) :=
  if s = "-" then some [] else
  (s.splitOn ",").mapM fun t =>
    if t = "k" then some WFault.ok
    else if t = "i" then some .eintr
    else if t = "n" then some .enospc
    else if t = "e" then some .eio
    else if t.startsWith "s" then (t.drop 1).toString.toNat?.map WFault.short
    else none

def parseM (s : String) : Option (List Bool) :=
  if s = "-" then some [] else
  s.toList.mapM fun c => if c = 'k' then some false else if c = 'f' then some true else none

def parseFiles (s : String) : Option (List Nat) :=
  if s = "-" then some [] else ((s.splitOn ",").take 4).mapM String.toNat?

def initWorld (cs tmpsz ndirs : Nat) (ws : List WFault) (ms : List Bool) (files : List Nat) : World :=
  let fl : List File := files.zipIdx.map fun (sz, fid) => { content := pat fid sz, nlink := 1 }
  { cs := chunkSize cs, defTempSize := if tmpsz = 0 then 1048576 else tmpsz, ndirs := ndirs,
    files := fun i => fl.getD i {}, nfiles := fl.length, wsched := ws, msched := ms }

def runOps (s : St) (ops : List String) : String :=
  let (s, out) := ops.foldl (fun (acc : St × String) tok =>
    let (s, o) := acc
    let (s', r) := doOp s tok
    (s', o ++ r ++ dumpState s' ++ " | ")) (s, "")
  let (w, q0) := reset s.w s.q0
  let (w, q1) := reset w s.q1
  out ++ "end" ++ dumpState { s with w := w, q0 := q0, q1 := q1 }
    ++ s!" ws:{w.wsched.length} ms:{w.msched.length}"

end CqD

def cqLine : List String → String
  | "seq" :: cs :: tmpsz :: ndirs :: ws :: ms :: files :: ops =>
    match cs.toNat?, tmpsz.toNat?, ndirs.toNat?, CqD.parseW ws, CqD.parseM ms, CqD.parseFiles files with
    | some cs, some tmpsz, some ndirs, some ws, some ms, some files =>
      if ndirs > 3 then "bad-op" else
      let w := CqD.initWorld cs tmpsz ndirs ws ms files
      let q : Cq := { tempSize := w.defTempSize }
      CqD.runOps { w := w, q0 := q, q1 := q, nsrc := files.length } ops
    | _, _, _, _, _, _ => "bad-op"
  | _ => "bad-op"

end Driver
