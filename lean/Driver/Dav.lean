/- line-protocol handler for model "dav" (stub until its model is built) -/
namespace Driver

def davLine : List String → String
  | _ => "bad-op"

end Driver
