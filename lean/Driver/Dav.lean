/- line-protocol handler for model "dav" (C18)

   seq <req> <req> …          one whole request sequence per line, run from the empty collection
     req  = M,src,dst,ow,depth,pre,body,range
       M     PUT DELETE MKCOL COPY MOVE GET
       src   hex of the (clean) request path, e.g. "/a/b/"
       dst   "-" (no Destination header) or hex of the raw header value
       ow    - T F X        depth  - 0 1 i
       pre   4 chars: If-Match (- m x)  If-None-Match:* (- s)  If-Unmodified-Since (- p f)  fragment (- #)
       body  hex            range  "-" | "bad" | offset
     output: one token per request  "status;tree"  (GET: "status;hexbody"),
       tree = entries below the root sorted by path, "hexpath=hexcontent" or "hexpath/" joined by ","
       followed by one token "out:<canary state>" for the entries outside the root
   dest <hexraw>              Destination parsing only:  "ok <hexpath>" | "err <status>"
   put <old> <new> <events…>  PUT syscall protocol (Model/DavPut.lean), see there
   cond <now> <flags> <im> <inm> <ius> <lk>   webdav_if_match_or_unmodified_since (Model/DavCond.lean)
        header values hex, "~" absent, "-" empty;  lk = f:<ino>:<size>:<mtime>:<nsec> (stat handed in)
        | r:<size>:<mtime>:<nsec> (real file, found by the function's own lstat; inode not part of
        flags) | enoent | enotdir | other      -> 0 | 412
   etag <flags> <ino> <size> <mtime> <nsec>   http_etag_create -> hex
-/
import LtVerif.Model.Dav
import LtVerif.Model.DavPut
import LtVerif.Model.DavCond
namespace Driver
open LtVerif LtVerif.B LtVerif.Dav

def davRoot : Dav.Path := [ofString "R"]
def davScheme : Bytes := ofString "http"
def davAuthority : Bytes := ofString "dav.test"
def davInit : Tree := [([], .dir), (davRoot, .dir), ([ofString "canary"], .file (ofString "C"))]

def bytesLt : Bytes → Bytes → Bool
  | [], [] => false
  | [], _ :: _ => true
  | _ :: _, [] => false
  | a :: as, b :: bs => if a < b then true else if b < a then false else bytesLt as bs

def fnv1a (bs : Bytes) : UInt64 :=
  bs.foldl (fun h b => (h ^^^ b.toUInt64) * 0x100000001b3) 0xcbf29ce484222325

/-- short contents in hex, long ones as "#length.fnv1a64" -/
def showContent (c : Bytes) : String :=
  if c.length > 32 then "#" ++ toString c.length ++ "." ++ toString (fnv1a c).toNat else toHex c

def renderPath (p : Dav.Path) : Bytes := p.flatMap fun s => slash :: s

def dedupKeys : Tree → List Dav.Path → List Dav.Path
  | [], _ => []
  | (q, _) :: r, seen => if seen.contains q then dedupKeys r seen else q :: dedupKeys r (q :: seen)

def dumpTree (t : Tree) (inside : Bool) : String :=
  let keys := (dedupKeys t []).filter fun k =>
    if inside then under davRoot k && k != davRoot else !under davRoot k && k != []
  let items := keys.map fun k =>
    let rel := renderPath (if inside then k.drop davRoot.length else k)
    match get t k with
    | some .dir => (rel ++ [slash], none)
    | some (.file c) => (rel, some c)
    | none => (rel, none)
  let sorted := items.mergeSort fun a b => !bytesLt b.1 a.1
  let strs := sorted.map fun (p, c) =>
    match c with
    | none => toHex p
    | some c => toHex p ++ "=" ++ showContent c
  if strs.isEmpty then "-" else ",".intercalate strs

def parseReq (s : String) : Option Req :=
  match s.splitOn "," with
  | [m, src, dst, ow, depth, pre, body, range] => do
    let m ← (match m with
      | "PUT" => some Method.put | "DELETE" => some .delete | "MKCOL" => some .mkcol
      | "COPY" => some .copy | "MOVE" => some .move | "GET" => some .get | _ => none)
    let srcb ← ofHex src
    let rp := toRPath srcb
    let dstv ← (if dst = "-" then some none else (ofHex dst).map some)
    let ow ← (match ow with
      | "-" => some Ow.absent | "T" => some .t | "F" => some .f | "X" => some .bad | _ => none)
    let depth ← (match depth with
      | "-" => some Depth.absent | "0" => some .zero | "1" => some .one | "i" => some .inf | _ => none)
    let pc := pre.toList
    let im ← (match pc[0]? with
      | some '-' => some none | some 'm' => some (some true) | some 'x' => some (some false) | _ => none)
    let inm ← (match pc[1]? with | some '-' => some false | some 's' => some true | _ => none)
    let ius ← (match pc[2]? with
      | some '-' => some none | some 'p' => some (some true) | some 'f' => some (some false) | _ => none)
    let frag ← (match pc[3]? with | some '-' => some false | some '#' => some true | _ => none)
    let body ← ofHex body
    let range ← (match range with
      | "-" => some none | "bad" => some (some none) | n => n.toNat?.map fun k => some (some k))
    pure { m := m, src := ⟨davRoot ++ rp.segs, rp.slash⟩, dst := mkDest davRoot davScheme davAuthority dstv,
           ow := ow, depth := depth, pre := ⟨im, inm, ius⟩, body := body, range := range, frag := frag }
  | _ => none

def runSeq (t : Tree) : List String → List String → Option (List String)
  | [], acc => some ((("out:" ++ dumpTree t false) :: acc).reverse)
  | s :: rest, acc =>
    match parseReq s with
    | none => none
    | some r =>
      if r.m == .get then
        let g := doGet t r
        runSeq t rest ((toString g.1 ++ ";" ++ showContent g.2) :: acc)
      else
        let (st, t') := step t r
        runSeq t' rest ((toString st ++ ";" ++ dumpTree t' true) :: acc)

/-- "~" absent; a blank value is the header store's encoding of a removed header
    (http_header_request_set with vlen 0 clears the tag bit; the request parser drops empty fields) -/
def davOptHex (s : String) : Option (Option Bytes) :=
  if s = "~" || s = "-" then some none else (ofHex s).map some

def davLk (s : String) : Option DavCond.Lk :=
  match s.splitOn ":" with
  | ["f", i, z, m, n] =>
    match i.toNat?, z.toNat?, m.toInt?, n.toNat? with
    | some i, some z, some m, some n => some (.found ⟨i, z, m, n⟩)
    | _, _, _, _ => none
  | ["r", z, m, n] =>
    match z.toNat?, m.toInt?, n.toNat? with
    | some z, some m, some n => some (.found ⟨0, z, m, n⟩)
    | _, _, _ => none
  | ["enoent"] => some .enoent
  | ["enotdir"] => some .enotdir
  | ["other"] => some .other
  | _ => none

def davLine : List String → String
  | ["cond", now, flags, im, inm, ius, lk] =>
    match now.toInt?, flags.toNat?, davOptHex im, davOptHex inm, davOptHex ius, davLk lk with
    | some now, some flags, some im, some inm, some ius, some lk =>
      toString (DavCond.precond now flags im inm ius lk)
    | _, _, _, _, _, _ => "bad-op"
  | ["etag", flags, i, z, m, n] =>
    match flags.toNat?, i.toNat?, z.toNat?, m.toInt?, n.toNat? with
    | some flags, some i, some z, some m, some n => toHex (DavCond.etagCreate ⟨i, z, m, n⟩ flags)
    | _, _, _, _, _ => "bad-op"
  | "seq" :: reqs =>
    match runSeq davInit reqs [] with
    | some out => " ".intercalate out
    | none => "bad-op"
  | ["dest", h] =>
    match ofHex h with
    | none => "bad-op"
    | some raw =>
      match parseDest davScheme davAuthority raw with
      | .ok p => "ok " ++ toHex p
      | .error s => "err " ++ toString s
  | "put" :: args => DavPut.putLine args
  | _ => "bad-op"

end Driver
