/- line-protocol handler for model "deflate" (stub until its model is built) -/
namespace Driver

def deflateLine : List String → String
  | _ => "bad-op"

end Driver
