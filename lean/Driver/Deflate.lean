/- line-protocol handler for model "deflate" (C19): same ops as harness/inproc/h_deflate.c -/
import LtVerif.Model.Deflate
import LtVerif.Model.DeflateStream
import LtVerif.Model.DeflateScan
namespace Driver
open LtVerif LtVerif.B LtVerif.Deflate

namespace Dfl

def asciiOf (b : Bytes) : String := String.ofList (b.map fun x => Char.ofNat x.toNat)

/-- "~" absent, "-" empty, else hex -/
def optHex (s : String) : Option (Option Bytes) :=
  if s = "~" then some none else (ofHex s).map some

def hexList (s : String) : Option (List Bytes) := (s.splitOn ",").mapM ofHex

/-- allowed-encodings token: "~" directive absent, "-" empty list, else hex list -/
def allowedOf (s : String) : Option (List CSet) :=
  if s = "~" then some (encodingsToFlags none)
  else if s = "-" then some (encodingsToFlags (some []))
  else (hexList s).map fun l => encodingsToFlags (some l)

def labelStr (c : Coding) : String := asciiOf c.label

def codingOfLabel (s : String) : Option Coding :=
  if s = "gzip" then some .gzip else if s = "x-gzip" then some .xgzip
  else if s = "deflate" then some .deflate else none

def optOut : Option Bytes → String
  | none => "~"
  | some b => toHex b

def methodOf (s : String) : Option Method :=
  match s with
  | "0" => some .get | "1" => some .head | "2" => some .query | "3" => some .other
  | _ => none

def rsLine (al mi mn mx cd me ae inm st fl ct et va cc bk ln : String) : String :=
  match allowedOf al, (if mi = "~" then some [] else hexList mi), mn.toNat?, mx.toNat?, methodOf me,
        optHex ae, optHex inm, st.toNat?, fl.toNat?, optHex ct, optHex et, optHex va, optHex cc, ln.toNat? with
  | some allowed, some mimes, some minSz, some maxKB, some method, some ae', some inm', some status,
    some flags, some ctype, some etag, some vary, some ccv, some len =>
    let cfg : Cfg := { mimetypes := mimes, allowed := allowed, minSize := minSz, maxSizeKB := maxKB,
                       cacheDir := cd = "1" }
    let rq : Rq := { method := method, acceptEncoding := ae', ifNoneMatch := inm' }
    let rs : Rs := { status := status, finished := flags % 2 = 1, hasTE := (flags / 2) % 2 = 1,
                     hasCE := (flags / 4) % 2 = 1, contentType := ctype, etag := etag, vary := vary,
                     cacheControl := ccv, hasCL := (flags / 8) % 2 = 1, len := len,
                     wholeFile := bk = "f" && len > 0 }
    let o := respStart cfg rq rs
    let (v, body) := match o.verdict with
      | .pass => ("pass", "id")
      | .notModified => ("nm", "empty")
      | .precondFailed => ("pf", "empty")
      | .encode c cache => ("enc:" ++ labelStr c ++ ":" ++ (if cache then "1" else "0"), "dec")
    v ++ " " ++ toString o.status ++ " " ++ optOut o.etag ++ " " ++ optOut o.vary ++ " " ++
      optOut o.contentEncoding ++ " " ++ (if o.hasCL then "1" else "0") ++ " " ++ body
  | _, _, _, _, _, _, _, _, _, _, _, _, _, _ => "bad-op"

/-! ### cache histories -/

/-- stand-in for zlib in the executable driver: 16 label-dependent filler bytes, the content length
    (8 bytes, big endian), then the content (injective and self-delimiting like a real stream;
    only lengths ≥ 8 and determinism matter for the correspondence) -/
def be8 (n : Nat) : Bytes := (List.range 8).reverse.map fun i => UInt8.ofNat (n / 256 ^ i % 256)

def toyCompress (c : Coding) (x : Bytes) : Bytes :=
  List.replicate 16 (c.label.length.toUInt8) ++ be8 x.length ++ x

def toyComplete (c : Coding) (b : Bytes) : Bool :=
  b.length ≥ 24 && b.take 16 == List.replicate 16 (c.label.length.toUInt8)
    && (b.drop 16).take 8 == be8 (b.length - 24)

def toyDecode (c : Coding) (b : Bytes) : String :=
  if toyComplete c b then "d" ++ toHex (b.drop 24) else "BAD(model)"

/-- validator of a source version: the ETag is a function of (inode, size, mtime) -/
def validatorOf (v size : Nat) : Nat := v * 1000000 + size

def digits? (s : String) : Option Nat := s.toNat?

/-- write events "k3ik0fx" -/
def parseEvents : List Char → Nat → Option (List WEv)
  | [], _ => some []
  | c :: rest, fuel =>
    match fuel with
    | 0 => none
    | fuel + 1 =>
      if c = 'k' then
        let ds := rest.takeWhile Char.isDigit
        match (String.ofList ds).toNat? with
        | some n => (parseEvents (rest.dropWhile Char.isDigit) fuel).map (WEv.wr n :: ·)
        | none => none
      else if c = 'i' then (parseEvents rest fuel).map (WEv.eintr :: ·)
      else if c = 'f' then (parseEvents rest fuel).map (WEv.fail :: ·)
      else if c = 'x' then (parseEvents rest fuel).map (WEv.crash :: ·)
      else none

/-- plan "c1o1w<events>r<o|f|b|a>" -/
def parsePlan (s : String) : Option Plan :=
  match s.toList with
  | 'c' :: c :: 'o' :: o :: 'w' :: rest =>
    match rest.reverse with
    | r :: 'r' :: evRev =>
      let ren : Option RenEv := if r = 'o' then some .ok else if r = 'f' then some .fail
        else if r = 'b' then some .crashBefore else if r = 'a' then some .crashAfter else none
      match ren, parseEvents evRev.reverse (evRev.length + 1) with
      | some rn, some evs => some { cacheable := c = '1', openOk := o = '1', writes := evs, rename := rn }
      | _, _ => none
    | _ => none
  | _ => none

def vtokOf (validator : Nat) : String := toString (validator / 1000000) ++ "." ++ toString (validator % 1000000)

def parseVtok (s : String) : Option Nat :=
  match s.splitOn "." with
  | [a, b] => match a.toNat?, b.toNat? with
    | some v, some sz => some (validatorOf v sz)
    | _, _ => none
  | _ => none

def parseOp (tok : String) : Option Op :=
  match tok.splitOn ":" with
  | ["K"] => some .tick
  | ["M", f, v, c] =>
    match f.toNat?, v.toNat?, ofHex c with
    | some file, some vv, some content => some (.modify file (validatorOf vv content.length) content)
    | _, _, _ => none
  | ["R", f, lab, pid, plan] =>
    match f.toNat?, codingOfLabel lab, pid.toNat?, parsePlan plan with
    | some file, some c, some p, some pl => some (.request file c p pl)
    | _, _, _, _ => none
  | ["E", "F", f, vt, lab] =>
    match f.toNat?, parseVtok vt, codingOfLabel lab with
    | some file, some v, some c => some (.evict (.final ⟨file, v, c⟩))
    | _, _, _ => none
  | ["E", "T", f, vt, lab, pid] =>
    match f.toNat?, parseVtok vt, codingOfLabel lab, pid.toNat? with
    | some file, some v, some c, some p => some (.evict (.tmp ⟨file, v, c⟩ p))
    | _, _, _, _ => none
  | _ => none

def obsStr (op : Op) : Obs → String
  | .quiet => "q"
  | .error => "E"
  | .crashed => "X"
  | .served body hit =>
    match op with
    | .request _ c _ _ => "S:" ++ (if hit then "1" else "0") ++ ":" ++ labelStr c ++ ":" ++ toyDecode c body
    | _ => "?"

def listEntry : Name × Bytes → String
  | (.final k, b) => "F:" ++ toString k.path ++ ":" ++ vtokOf k.validator ++ ":" ++ labelStr k.coding ++ ":" ++
      toyDecode k.coding b
  | (.tmp k pid, b) => "T:" ++ toString k.path ++ ":" ++ vtokOf k.validator ++ ":" ++ labelStr k.coding ++ ":" ++
      toString pid ++ ":" ++ (if toyComplete k.coding b then "full:" ++ toyDecode k.coding b else "part:" ++ toString b.length)

def cacheLine (toks : List String) : String :=
  match toks.mapM parseOp with
  | none => "bad-op"
  | some ops =>
    let tr := run toyCompress {} ops
    let fin := exec toyCompress {} ops
    let obs := tr.map fun t => obsStr t.2.1 t.2.2
    let listing := (fin.fs.map listEntry).toArray.qsort (fun a b => a < b) |>.toList
    String.intercalate " " (obs ++ ["|"] ++ listing)

/-! ### stream assembly (op zs): replay the recorded zlib answers -/
open LtVerif.DeflateStream in
def parseLayout (s : String) : Option (List Chunk) :=
  (s.splitOn ",").mapM fun t =>
    match t.toList with
    | k :: ds =>
      match (String.ofList ds).toNat? with
      | some n =>
        let z (m : Nat) : Bytes := List.replicate m 0
        if n = 0 then none
        else if k = 'm' then some (.mem (z n))
        else if k = 'f' then some (.file (z n) 0 n)
        else if k = 'p' then some (.file (z (3 + n)) 3 n)
        else if k = 'P' then some (.file (z (n + 100)) 0 n)
        else if k = 'o' then some (.file (z (3 + n + 100)) 3 n)
        else none
      | none => none
    | [] => none

open LtVerif.DeflateStream in
def parseZScript (s : String) : Option (List ZR) :=
  if s = "-" then some [] else
  (s.splitOn ",").mapM fun t =>
    match t.splitOn ":" with
    | [c, p, rc] =>
      match c.toNat?, p.toNat? with
      | some cn, some pn =>
        (if rc = "ok" then some ZRc.ok else if rc = "end" then some ZRc.streamEnd else if rc = "err" then some ZRc.err
         else none).map fun r => ⟨cn, List.replicate pn 0, r⟩
      | _, _ => none
    | _ => none

open LtVerif.DeflateStream in
def evStr : Ev → String
  | .call c consumed produced rc =>
    "D" ++ toString c.availIn ++ ":" ++ toString c.availOut ++ ":" ++ (if c.finish then "1" else "0") ++ ">" ++
      toString consumed ++ ":" ++ toString produced ++ ":" ++
      (match rc with | .ok => "ok" | .streamEnd => "end" | .err => "err")
  | .app n => "A" ++ toString n
  | .read count off => "R" ++ toString count ++ "@" ++ toString off

open LtVerif.DeflateStream in
def zsLine (cap layout rsz zsc : String) : String :=
  match cap.toNat?, parseLayout layout, (if rsz = "-" then some [] else (rsz.splitOn ",").mapM String.toNat?),
        parseZScript zsc with
  | some capN, some cq, some reads, some zs =>
    match compressResponse capN 2097152 cq reads zs with
    | .ok (st, rest) =>
      let ok := st.fed.length = (body cq).length && st.obuf.isEmpty && rest.isEmpty
      String.intercalate " " ([if ok then "ok" else "model-leftover"] ++ st.trace.reverse.map evStr ++
        ["sink:" ++ toString st.sink.length ++ ":dec"])
    | .error .codec => "err"
    | .error .truncated => "err"
    | .error .invalid => "invalid-script"
    | .error .stuck => "script-exhausted"
  | _, _, _, _ => "bad-op"

end Dfl

def deflateLine : List String → String
  | ["ae", al, h] =>
    match Dfl.allowedOf al, ofHex h with
    | some allowed, some hdr =>
      match chooseEncoding allowed hdr with
      | some c => Dfl.labelStr c
      | none => "none"
    | _, _ => "bad-op"
  | ["sc", h] =>
    -- the C scan loop (Model/DeflateScan.lean): accept_encoding bits gzip / x-gzip / deflate
    match ofHex h with
    | some hdr =>
      let a := Scan.scanC hdr
      let b := fun (x : Bool) => if x then "1" else "0"
      b a.gzip ++ b a.xgzip ++ b a.deflate
    | none => "bad-op"
  | ["rs", al, mi, mn, mx, cd, me, ae, inm, st, fl, ct, et, va, cc, bk, _gen, ln] =>
    Dfl.rsLine al mi mn mx cd me ae inm st fl ct et va cc bk ln
  | ["name", d, pa, e, lab, pid] =>
    match ofHex d, ofHex pa, ofHex e, Dfl.codingOfLabel lab, pid.toNat? with
    | some dir, some path, some etag, some c, some p =>
      if etag.length < 3 then "bad-op"
      else
        -- the harness' cache directory is "<scratch>/c" ++ dir; only the part after it is printed
        let fn := cacheFileName ([47, 99] ++ dir) path (suffixEtag etag c.label)
        toHex (fn.drop 2) ++ " " ++ toHex ((tmpFileName fn p).drop 2)
    | _, _, _, _, _ => "bad-op"
  | ["zs", _lab, cap, layout, _gen, rsz, zsc] => Dfl.zsLine cap layout rsz zsc
  | "cache" :: ops => Dfl.cacheLine ops
  | _ => "bad-op"

end Driver
