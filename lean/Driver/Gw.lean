/- line-protocol handler for model "gw" (C11, backend pool); same line format and
   canonical output as harness/inproc/h_gw.c -/
import LtVerif.Model.Gw
import LtVerif.Model.GwStat
namespace Driver
open LtVerif LtVerif.Gw

def gwScript (s : String) : Script :=
  (s.splitOn ",").foldl (fun sc g =>
    match g.toList with
    | 'c' :: '=' :: r => { sc with conn := r }
    | 'k' :: '=' :: r => { sc with sock := r }
    | 's' :: '=' :: r => { sc with stat := r }
    | 'w' :: '=' :: r => { sc with wr := r }
    | 'r' :: '=' :: r => { sc with rd := r }
    | 'v' :: '=' :: r => { sc with env := r }
    | 'u' :: '=' :: r => { sc with upg := r }
    | _ => sc) {}

def gwFields (s : String) : List String := (s.splitOn ".").filter (· ≠ "")

def gwOp (tok : String) : Option Op :=
  match tok.toList with
  | [] => none
  | c :: rest =>
    let f := gwFields (String.ofList rest)
    let sc (i : Nat) : Script := match f[i]? with | some x => gwScript x | none => {}
    match c, f with
    | 'a', s :: k :: _ => do some (.arrive (← s.toNat?) (← k.toNat?) (sc 2))
    | 'e', s :: m :: _ => do some (.event (← s.toNat?) (← m.toNat?) (sc 2))
    | 's', s :: _ => do some (.wake (← s.toNat?) (sc 1))
    | 'c', s :: _ => do some (.abort (← s.toNat?))
    | 't', d :: _ => do some (.tick (← d.toNat?) (sc 1))
    | _, _ => none

def gwSpec (s : String) : Option HostSpec :=
  match s.splitOn "." with
  | [a, b, c, d, e, k] =>
    match a.toNat?, b.toNat?, c.toNat?, d.toNat?, e.toNat?, k.toList with
    | some a, some b, some c, some d, some e, [k] =>
      if a ≥ 1 ∧ a ≤ 8 ∧ (k = 'r' ∨ k = 'u' ∨ k = 'l') then some ⟨a, b, c, d, e, k⟩ else none
    | _, _, _, _, _, _ => none
  | _ => none

def gwEv : Ev → String
  | .arrive (some h) => s!"A{h},"
  | .arrive none => "A-,"
  | .dispatch _ h p => s!"D{h}.{p},"
  | .fin s st started trunc hostless =>
    s!"{s}=fin{st}" ++ (if started then "s" else "") ++ (if trunc then "t" else "") ++
      (if hostless then "h" else "") ++ ","
  | .wait s => s!"{s}=wait,"
  | .err s => s!"{s}=err,"
  | .fdev m => s!"E{m},"
  | .note m => if m = "W" ∨ m = "C" ∨ m = "T" then m ++ "," else m

def gwPState : PState → String
  | .running => "R" | .overloaded => "O" | .diedWait => "W" | .died => "D" | .killed => "K"

def gwCState : CState → Nat
  | .init => 0 | .connectDelayed => 1 | .prepareWrite => 2 | .write => 3 | .read => 4

def gwOptIdx : Option Nat → String
  | some i => toString i
  | none => "-1"

def gwDump (w : World) : String :=
  let hosts := (List.range w.nhosts).map fun h =>
    let H := w.host h
    let q := if H.hctxs.isEmpty then "-" else String.intercalate "-" (H.hctxs.map toString)
    let ps := (List.range H.nprocs).map fun p =>
      let P := w.proc h p
      s!",P{gwPState P.state}{P.load},{w.pstat H.label p},{P.disabledUntil}"
    s!"H{H.load},{w.hstat H.label},{H.active},Q{q}" ++ String.join ps ++ ";"
  let slots := (List.range w.nslots).map fun s =>
    match w.slot s with
    | none => "S-;"
    | some c =>
      if !c.link.hctx then "S!;" else
      let a := c.aux
      let ev := (if a.evIn then 1 else 0) + (if a.evOut then 2 else 0) + (if a.evRdhup then 8 else 0)
      s!"S{gwOptIdx c.link.host}.{gwOptIdx c.link.proc}.{gwCState c.link.state}.{a.reconnects}." ++
      s!"{if c.link.fd then 1 else 0}.{ev}.{if a.started then 1 else 0}.{a.wbLen}.{a.bytesOut}." ++
      s!"{a.readTs}.{a.writeTs}.{a.dispatched}.{(if a.headSent then 1 else 0) + (if a.short then 2 else 0)};"
  String.join hosts ++ String.join slots ++
    s!"G{w.globalActive},F{w.curFds},L{w.lastUsed},N{if w.noteSent then 1 else 0},T{w.now}"

def gwRunOps (w : World) (toks : List String) : World × List String :=
  toks.foldl (fun (acc : World × List String) tok =>
    let w := acc.1
    match gwOp tok with
    | none => (w, (("bad#" ++ gwDump w) :: acc.2))
    | some op =>
      let n := w.log.length
      let w' := compact (step w op)
      let evs := (w'.log.take (w'.log.length - n)).reverse
      (w', (String.join (evs.map gwEv) ++ "#" ++ gwDump w') :: acc.2)) (w, [])

/-- `gwk <id hex> <proc: - | n> <tag hex>  <id hex> <proc> <tag hex>`: the two keys
    gw_status_get_counter() builds (case-folded, as array_get_int_ptr compares them) and whether they name one
    plugin_stats entry -/
def gwKeyArg (id pr tag : String) : Option Bytes := do
  let i ← B.ofHex id
  let t ← B.ofHex tag
  let p ← if pr = "-" then some none else (do let n ← pr.toNat?; if n < 4294967296 then some (some n) else none)
  some (GwStat.statKey i p t)

def gwKeyOut (b : Bytes) : String := if b.isEmpty then "-" else B.toHex b

def gwLine : List String → String
  | ["gwk", i1, p1, t1, i2, p2, t2] =>
    match gwKeyArg i1 p1 t1, gwKeyArg i2 p2 t2 with
    | some a, some b =>
      s!"{gwKeyOut (GwStat.lower a)} {gwKeyOut (GwStat.lower b)} {if GwStat.sameEntry a b then 1 else 0}"
    | _, _ => "bad-op"
  | "gw" :: bal :: wkr :: ns :: hosts :: ops =>
    match bal.toNat?, wkr.toNat?, ns.toNat?, ((hosts.splitOn "/").filter (· ≠ "")).mapM gwSpec with
    | some b, some k, some n, some specs =>
      if n < 1 ∨ n > 16 ∨ b > 3 ∨ specs.isEmpty ∨ specs.length > 16 then "bad-op" else
      -- flags: bit 0 worker, bit 1 unlabeled hosts (one statistics label for all)
      let w0 := if k / 2 % 2 = 1 then anonymize (initWorld b (k % 2 = 1) n specs) else initWorld b (k % 2 = 1) n specs
      let r := gwRunOps w0 ops
      -- end of case: every connection is reset, then the deferred closes run
      let wf := schedRun ((List.range n).foldl (fun w s => finish w s true) r.1)
      String.intercalate " | " (r.2.reverse ++ [s!"end:{(wf.opened : Int) - wf.closed},{wf.curFds}"])
    | _, _, _, _ => "bad-op"
  | _ => "bad-op"

end Driver
