/- line-protocol handler for model "gw" (stub until its model is built) -/
namespace Driver

def gwLine : List String → String
  | _ => "bad-op"

end Driver
