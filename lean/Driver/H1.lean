import LtVerif.Model.H1Parse
import LtVerif.Model.H1Chunked
namespace Driver
open LtVerif LtVerif.B

def hdrsCanon (hs : List (Bytes × Bytes)) : String :=
  let nonEmpty := hs.filter fun (_, v) => !v.isEmpty
  let ents := nonEmpty.map fun (k, v) => toHex k ++ "=" ++ toHex v
  let sorted := ents.toArray.qsort (fun a b => a < b) |>.toList
  if sorted.isEmpty then "-" else String.intercalate "," sorted

def reqOutStr : ReqOut → String
  | .incomplete => "incomplete"
  | .blank => "blank"
  | .skipV6 => "skip-v6"
  | .err e => "err " ++ toString e
  | .ok r t =>
    "ok v" ++ toString r.version ++ " ka" ++ (if r.keepAlive then "1" else "0") ++
    " m=" ++ toHex r.method ++ " t=" ++ toHex t.target ++ " p=" ++ toHex t.path ++
    " q=" ++ toHex t.query ++ " h=" ++ (match r.host with | some h => toHex h | none => "none") ++
    " len=" ++ toString r.bodyLen ++ " hdrs=" ++ hdrsCanon r.headers

def h1Line : List String → String
  | ["req", fl, mf, h] =>
    match fl.toNat?, mf.toNat?, ofHex h with
    | some f, some m, some b => reqOutStr (parseHead ⟨f⟩ m 80 b)
    | _, _, _ => "bad-op"
  | "chunked" :: ms :: mf :: segs =>
    match ms.toNat?, mf.toNat?, segs.mapM ofHex with
    | some msz, some mfl, some bs =>
      let cfg : CkCfg := { maxSize := msz * 1024, maxField := mfl }
      let st := bs.foldl (ckFeed cfg) {}
      match st.mode with
      | .err e => "err " ++ toString e
      | .done => "done out=" ++ toHex st.out ++ " rest=" ++ toString st.after ++ " ka=" ++ (if st.ka then "1" else "0")
      | m =>
        let (te, rest) : Nat × Nat := match m with
          | .hdr acc _ => (0, acc.length)
          | .data n => (n + 2, 0)
          | .crlf none => (2, 0)
          | .crlf (some _) => (2, 1)
          | .trailer acc _ _ => (0, acc.length)
          | _ => (0, 0)
        "more te=" ++ toString te ++ " out=" ++ toHex st.out ++ " rest=" ++ toString rest ++
          " ka=" ++ (if st.ka then "1" else "0")
    | _, _, _ => "bad-op"
  | _ => "bad-op"

end Driver
