import LtVerif.Model.H1Parse
import LtVerif.Model.H1Chunked
import LtVerif.Model.H1Conn
namespace Driver
open LtVerif LtVerif.B

def hdrsCanon (hs : List (Bytes × Bytes)) : String :=
  let nonEmpty := hs.filter fun (_, v) => !v.isEmpty
  let ents := nonEmpty.map fun (k, v) => toHex k ++ "=" ++ toHex v
  let sorted := ents.toArray.qsort (fun a b => a < b) |>.toList
  if sorted.isEmpty then "-" else String.intercalate "," sorted

def reqOutStr : ReqOut → String
  | .incomplete => "incomplete"
  | .blank => "blank"
  | .skipV6 => "skip-v6"
  | .err e => "err " ++ toString e
  | .ok r t =>
    "ok v" ++ toString r.version ++ " ka" ++ (if r.keepAlive then "1" else "0") ++
    " m=" ++ toHex r.method ++ " t=" ++ toHex t.target ++ " p=" ++ toHex t.path ++
    " q=" ++ toHex t.query ++ " h=" ++ (match r.host with | some h => toHex h | none => "none") ++
    " len=" ++ toString r.bodyLen ++ " hdrs=" ++ hdrsCanon r.headers

/-! ### connection automaton (`conn` op) -/

/-- request handler of the end-to-end set-up of tools/ltv/props/c01.py: `/echo.pl` (with optional
    path-info) is an echoing CGI, CONNECT is refused with 405 + close, everything else is answered
    without reading the body (status decided by the check module's own table: printed as 0) -/
def isCgiPath (p : Bytes) : Bool :=
  let pre := ofString "/echo.pl"
  p.take pre.length = pre && (p.length = pre.length || p.getD pre.length 0 = slash)

def connHandler (r : PReq) (t : Target) : Handler :=
  if r.method = ofString "CONNECT" then { status := 405, close := true }
  else if isCgiPath t.path then { status := 200, readsBody := true }
  -- a CGI that answers 202 without reading its stdin: lighttpd (not streaming) has read the whole body
  else if t.path = ofString "/noread.pl" then { status := 202, readsBody := true }
  else { status := 0 }

def evStr (idx : Nat) (alt : Option Nat) (inCk : Bool) (tov : Bool) : Event → String
  | .request st m _ path body ck =>
    "req:" ++ toString st ++ ":" ++ toHex m ++ ":" ++ toHex path ++ ":" ++ (if ck then "ck" else "cl") ++ ":" ++
      toHex body ++ (if tov then ":tov" else "") ++ "@" ++ toString idx
  | .reject st =>
    "rej:" ++ toString st ++ (match alt with | some a => ":alt" ++ toString a | none => "") ++
      (if inCk then ":ck" else "") ++ "@" ++ toString idx
  | .close => "close@" ++ toString idx
  | .unmodelled => "skip@" ++ toString idx

/-- the complete head starting with `pre` in `pre ++ rest` (for the alternative status of a head
    that begins with a control byte) -/
def completeHead : Bytes → Bytes → Option Bytes
  | rpre, [] => if headEnd rpre then some rpre.reverse else none
  | rpre, b :: rest => if headEnd rpre then some rpre.reverse else completeHead (b :: rpre) rest

def phaseStr : Phase → String
  | .head rbuf _ bo => if rbuf.isEmpty then "idle" else if bo then "blank" else "head"
  | .bodyCL .. => "body-cl"
  | .bodyCk .. => "body-ck"
  | .closed => "closed"

def connGo (cfg : ConnCfg) : ConnSt → Nat → Bytes → List String → ConnSt × List String
  | s, _, [], acc => (s, acc.reverse)
  | s, i, b :: rest, acc =>
    let r := h1Step cfg s b
    -- rejected by the "first byte < 32" rule of h1_recv_headers: what the parser would say if the
    -- whole head were already buffered
    let alt : Option Nat :=
      match s.phase, r.2 with
      | .head rbuf _ bo, .reject 400 :: _ =>
        let start : Option Bytes :=
          if rbuf.isEmpty then some [b]
          else if bo && rbuf = [13] then some [b, 13]
          else if bo && b ≠ cr && b ≠ lf then some [b]
          else none
        match start with
        | some rpre =>
          if (rpre.getLast?.getD 32) < 32 then
            match completeHead rpre rest with
            | some blk =>
              match parseHead cfg.opts cfg.maxField cfg.port blk with
              | .err e => some e
              | _ => some 400
            | none => some 400
          else none
        | none => none
      | _, _ => none
    let inCk : Bool := match s.phase with | .bodyCk .. => true | _ => false
    -- the chunked body ended because its trailer section outgrew max-request-field-size (keep-alive off)
    let tov : Bool := match s.phase with
      | .bodyCk _ _ _ ck =>
        let ck' := ckStep (ckCfgOf cfg) ck b
        ck'.mode == .done && !ck'.ka
      | _ => false
    connGo cfg r.1 (i + 1) rest ((r.2.map (evStr i alt inCk tov)).reverse ++ acc)

/-- `chunked` / `chunkedb` ops: the same byte stream (the C harness puts each segment of `chunkedb`
    into a read buffer of its own) -/
def chunkedLine (ms mf : String) (segs : List String) : String :=
  match ms.toNat?, mf.toNat?, segs.mapM ofHex with
  | some msz, some mfl, some bs =>
    let cfg : CkCfg := { maxSize := msz * 1024, maxField := mfl }
    let st := bs.foldl (ckFeed cfg) {}
    match st.mode with
    | .err e => "err " ++ toString e
    | .done => "done out=" ++ toHex st.out ++ " rest=" ++ toString st.after ++ " ka=" ++ (if st.ka then "1" else "0")
    | m =>
      let (te, rest) : Nat × Nat := match m with
        | .hdr acc _ => (0, acc.length)
        | .data n => (n + 2, 0)
        | .crlf none => (2, 0)
        | .crlf (some _) => (2, 1)
        | .trailer acc _ _ => (0, acc.length)
        | _ => (0, 0)
      "more te=" ++ toString te ++ " out=" ++ toHex st.out ++ " rest=" ++ toString rest ++
        " ka=" ++ (if st.ka then "1" else "0")
  | _, _, _ => "bad-op"

def h1Line : List String → String
  | ["conn", fl, mf, mk, ki, ms, h] =>
    match fl.toNat?, mf.toNat?, mk.toNat?, ki.toNat?, ms.toNat?, ofHex h with
    | some f, some m, some k, some idle, some msz, some bs =>
      let cfg : ConnCfg := { opts := ⟨f⟩, maxField := m, maxKaReqs := k, kaIdle := idle,
                             maxSize := msz * 1024, handler := connHandler }
      let (s, evs) := connGo cfg {} 0 bs []
      String.intercalate " " (evs ++ ["end:" ++ phaseStr s.phase ++ ":" ++ toString s.count])
    | _, _, _, _, _, _ => "bad-op"
  | ["req", fl, mf, h] =>
    match fl.toNat?, mf.toNat?, ofHex h with
    | some f, some m, some b => reqOutStr (parseHead ⟨f⟩ m 80 b)
    | _, _, _ => "bad-op"
  | "chunkedb" :: ms :: mf :: segs => chunkedLine ms mf segs
  | "chunked" :: ms :: mf :: segs => chunkedLine ms mf segs
  | _ => "bad-op"

end Driver
