/- line-protocol handler for model "h1" (stub until its model is built) -/
namespace Driver

def h1Line : List String → String
  | _ => "bad-op"

end Driver
