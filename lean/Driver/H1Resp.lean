/- line-protocol handler for model "h1resp" (stub until its model is built) -/
namespace Driver

def h1respLine : List String → String
  | _ => "bad-op"

end Driver
