/- line-protocol handler for model "h1resp" (C04): same ops and canonical output as
   harness/inproc/h_h1resp.c -/
import LtVerif.Model.H1Resp
import LtVerif.Model.NetWrite
import LtVerif.Model.H1End
namespace Driver
open LtVerif LtVerif.B

namespace H1RespDrv

/-- data pattern shared with the C harness -/
def pat (seed i : Nat) : UInt8 := ((seed * 131 + i * 7 + i / 251) % 256).toUInt8

def patBytes (seed len : Nat) : Bytes := (List.range len).map (pat seed)

/-- Adler-32 of the accepted bytes (zlib.adler32 on the Python side) -/
def adler32 (bs : Bytes) : UInt32 :=
  let (a, b) := bs.foldl (fun (p : Nat × Nat) x =>
    let a := (p.1 + x.toNat) % 65521
    (a, (p.2 + a) % 65521)) (1, 0)
  (b * 65536 + a).toUInt32

def hex8 (v : UInt32) : String :=
  let n := v.toNat
  String.ofList ((List.range 8).map fun i =>
    Char.ofNat (hexDigitLC ((n / 16 ^ (7 - i)) % 16).toUInt8).toNat)

def parseSched (s : String) : Option (List WrRes) :=
  if s = "-" then some []
  else (s.splitOn ",").mapM fun t =>
    match t with
    | "A" => some WrRes.eagain
    | "I" => some WrRes.eintr
    | "P" => some WrRes.epipe
    | "R" => some WrRes.econnreset
    | "N" => some WrRes.enotconn
    | "V" => some WrRes.einval
    | "X" => some WrRes.eio
    | _ => t.toNat?.map WrRes.ok

def parseChunk (t : String) : Option Chunk :=
  let cs := t.toList
  let nums := ((String.ofList cs.tail).splitOn ".").mapM String.toNat?
  match cs.head?, nums with
  | some 'm', some [seed, len, off] => some (.mem (patBytes seed len) off)
  | some 'f', some [seed, flen, off, fend] => some (.file (patBytes seed flen) off fend)
  | some 'F', some [seed, flen, off, fend] => some (.file (patBytes seed flen) off fend)
  | _, _ => none

def layout (q : Cq) : String :=
  if q.isEmpty then "-"
  else String.intercalate "." (q.map fun c =>
    (if c.isMem then "M" else "F") ++ toString c.remLen)

def sysStr : Sys → String
  | .writev cnt total => "v" ++ toString cnt ++ ":" ++ toString total
  | .write len => "w" ++ toString len
  | .sendfile count off => "s" ++ toString count ++ "@" ++ toString off

def nwLine (b max sched : String) (chunks : List String) : String :=
  let backend : Option Backend := if b = "w" then some .writev else if b = "s" then some .sendfile else none
  match backend, max.toNat?, parseSched sched, chunks.mapM parseChunk with
  | some be, some mx, some sc, some q =>
    let (rc, calls, st) := drive be mx { q := q, sched := sc }
    "rc=" ++ toString rc ++ " calls=" ++ toString calls ++ " out=" ++ toString st.out ++
      " acc=" ++ toString st.acc.length ++ ":" ++ hex8 (adler32 st.acc) ++ " ff=" ++ toString st.faults ++
      " q=" ++ layout st.q ++ " sys=" ++
      (if st.trace.isEmpty then "-" else String.intercalate "," (st.trace.map sysStr))
  | _, _, _, _ => "bad-op"

def parseHdrs (s : String) : Option (List Hdr) :=
  if s = "-" then some []
  else (s.splitOn ",").foldlM (fun hs t =>
    match t.splitOn ":" with
    | [op, k, v] =>
      match ofHex k, ofHex v with
      | some kb, some vb =>
        if op = "i" then some (Hdrs.insert hs kb vb) else some (Hdrs.set hs kb vb)
      | _, _ => none
    | _ => none) []

/-- the date the harness pins `log_epoch_secs` to -/
def fixedDate : Bytes := ofString "Sun, 06 Nov 1994 08:49:37 GMT"

def b01 (b : Bool) : String := if b then "1" else "0"

def prepLine (status meth ver fin ka flags hdrs qbody : String) (pieces : List String) : String :=
  match status.toNat?, ver.toNat?, fin.toNat?, ka.toNat?, flags.toNat?, parseHdrs hdrs, ofHex qbody,
        pieces.mapM ofHex with
  | some st, some v, some f, some k, some fl, some hs, some qb, some ps =>
    let m : Meth := if meth = "H" then .head else if meth = "P" then .post
                    else if meth = "C" then .connect else .get
    let bit (n : Nat) : Bool := fl / n % 2 = 1
    let d : RespIn :=
      { status := st, meth := m, ver11 := v ≠ 0, finished := f ≠ 0, keepAlive := k ≠ 0,
        hasHandler := bit 1, errorIntercept := bit 2, kaReqExceeded := bit 4, kaIdleZero := bit 8,
        reqBodyUnread := bit 16, serverTag := if bit 32 then some (ofString "lighttpd/ltv") else none,
        closeNormally := bit 64, ehSaved := if bit 128 then 65535 else if bit 256 then 404 else 0,
        hdrs := hs, queued := qb, pieces := ps }
    let o := respond d fixedDate
    "ka=" ++ b01 o.keepAlive ++ " fin=" ++ b01 o.finished ++ " ch=" ++ b01 o.sendChunked ++
      " hlen=" ++ toString o.head.length ++ " wire=" ++ toHex (o.head ++ o.body)
  | _, _, _, _, _, _, _, _ => "bad-op"

/-- expected framing summary for an end-to-end exchange:
    e2e <status> <method> <ver> <fin> <ka> <flags> <declared-cl|-> <bodylen>
    -> cl=<n|-> te=<0|1> conn=<hex|-> len=<wire body length> ka=<0|1> -/
def e2eLine (status meth ver fin ka flags cl blen : String) : String :=
  match status.toNat?, ver.toNat?, fin.toNat?, ka.toNat?, flags.toNat?, blen.toNat? with
  | some st, some v, some f, some k, some fl, some bl =>
    let m : Meth := if meth = "H" then .head else if meth = "P" then .post
                    else if meth = "C" then .connect else .get
    let bit (n : Nat) : Bool := fl / n % 2 = 1
    let hs : List Hdr := if cl = "-" then [] else [⟨nContentLength, ofString cl⟩]
    let body := List.replicate bl (120 : UInt8)
    let d : RespIn :=
      { status := st, meth := m, ver11 := v ≠ 0, finished := f ≠ 0, keepAlive := k ≠ 0,
        hasHandler := bit 1, errorIntercept := bit 2, kaReqExceeded := bit 4, kaIdleZero := bit 8,
        reqBodyUnread := bit 16, serverTag := none, closeNormally := bit 64, hdrs := hs,
        queued := if f ≠ 0 then body else [], pieces := if f ≠ 0 then [] else [body] }
    let o := respond d fixedDate
    let sh (k : Bytes) : String := match Hdrs.get o.hdrs k with
      | some v => if v.isEmpty then "-" else toHex v
      | none => "-"
    "cl=" ++ (match Hdrs.get o.hdrs nContentLength with
              | some v => if v.isEmpty then "-" else String.ofList (v.map fun b => Char.ofNat b.toNat)
              | none => "-") ++
      " te=" ++ b01 (Hdrs.has o.hdrs nTransferEncoding) ++ " conn=" ++ sh nConnection ++
      " len=" ++ toString o.body.length ++ " ka=" ++ b01 o.keepAlive
  | _, _, _, _, _, _ => "bad-op"

def clenLine (n : String) : String :=
  match n.toNat? with
  | some k =>
    if k = 0 then toHex (chunkLenLine 0 ++ [cr, lf])
    else toHex (chunkLenLine k) ++ "<file>" ++ toHex [cr, lf]
  | none => "bad-op"

/-! ### connection end (Model/H1End.lean): ops `rend`, `pipe` -/
open LtVerif.H1End in
def stName : CState → String
  | .requestStart => "rs" | .close => "cl" | .connect => "co"

/-- descriptor modes of the harness: 0 connected socketpair, 1 unconnected socket (shutdown fails),
    2 negated descriptor (con->fd < 0), 3 unconnected socket with is_ssl_sock (shutdown skipped);
    result (fdOk, shutOk, a peer can observe end-of-stream) -/
def connMode : Nat → Option (Bool × Bool × Bool)
  | 0 => some (true, true, true) | 1 => some (true, false, false)
  | 2 => some (false, true, true) | 3 => some (true, true, false) | _ => none

open LtVerif.H1End in
def endLine (e : EndOut) (peer : Bool) : String :=
  stName e.state ++ " ka=0 done=" ++ toString e.done ++ " sep=" ++ b01 e.sepWq ++ " fin=" ++ b01 e.fin ++
  " closed=" ++ b01 e.closed ++ " pend=" ++ toString e.pending ++ " eof=" ++ b01 (peer && (e.fin || e.closed))

open LtVerif.H1End in
def rendLine (h2 status reqLen reqIn isErr ka sep mode pending : String) : String :=
  match h2.toNat?, status.toNat?, reqLen.toInt?, reqIn.toInt?, isErr.toNat?, ka.toInt?, sep.toNat?,
        mode.toNat?.bind connMode, pending.toNat? with
  | some h, some st, some rl, some ri, some er, some k, some sp, some (fdOk, shutOk, peer), some pn =>
    endLine (responseEnd { h2 := h ≠ 0, status := st, reqLen := rl, reqIn := ri, isError := er ≠ 0,
                           keepAlive := k, sepWq := sp ≠ 0, fdOk := fdOk, shutOk := shutOk, pending := pn }) peer
  | _, _, _, _, _, _, _, _, _ => "bad-op"

open LtVerif.H1End in
def parseReq (idx : Nat) (t : String) : Option Req :=
  match t.splitOn "," with
  | [len, ka, wrote, rl, ri, st] =>
    match len.toNat?, ka.toNat?, wrote.toInt?, rl.toInt?, ri.toInt?, st.toNat? with
    | some l, some k, some w, some a, some b, some s =>
      some { msg := patBytes idx l, ka := k ≠ 0, status := s,
             wrote := if w < 0 then none else some w.toNat, reqLen := a, reqIn := b }
    | _, _, _, _, _, _ => none
  | _ => none

def parseReqs : Nat → List String → Option (List LtVerif.H1End.Req)
  | _, [] => some []
  | i, t :: ts =>
    match parseReq i t, parseReqs (i + 1) ts with
    | some q, some qs => some (q :: qs)
    | _, _ => none

open LtVerif.H1End in
def pipeLine (mode : String) (toks : List String) : String :=
  match mode.toNat?.bind connMode, parseReqs 0 toks with
  | some (fdOk, shutOk, true), some qs =>
    let r := connRun fdOk shutOk qs
    "n=" ++ toString r.answered ++ " wire=" ++ toString r.wire.length ++ ":" ++ hex8 (adler32 r.wire) ++ " " ++
    (match r.final with
     | none => "open"
     | some e => endLine e true)
  | _, _ => "bad-op"

end H1RespDrv

open H1RespDrv in
def h1respLine : List String → String
  | ["rend", h2, status, reqLen, reqIn, isErr, ka, sep, mode, pending] =>
    rendLine h2 status reqLen reqIn isErr ka sep mode pending
  | "pipe" :: mode :: toks => if toks.isEmpty then "bad-op" else pipeLine mode toks
  | "nw" :: b :: max :: sched :: chunks => if chunks.isEmpty then "bad-op" else nwLine b max sched chunks
  | "prep" :: status :: meth :: ver :: fin :: ka :: flags :: hdrs :: qbody :: pieces =>
    prepLine status meth ver fin ka flags hdrs qbody pieces
  | ["e2e", status, meth, ver, fin, ka, flags, cl, blen] => e2eLine status meth ver fin ka flags cl blen
  | ["enc", e, h] =>
    match e.toNat?, ofHex h with
    | some n, some b => if n ≤ 3 then toHex (encodeStr n b) else "bad-op"
    | _, _ => "bad-op"
  | ["redir", ab, status, sch, auth, path, query] =>
    match ab.toNat?, status.toNat?, ofHex sch, ofHex auth, ofHex path, ofHex query with
    | some a, some s, some sc, some au, some p, some q =>
      let pfx : Bytes := if a ≠ 0 then sc ++ ofString "://" ++ au else []
      toString (if s ≥ 300 then s else 0) ++ " " ++ toHex (redirectLocation pfx p q)
    | _, _, _, _, _, _ => "bad-op"
  | ["clen", n] => clenLine n
  | ["cshort", _api, seed, flen, claimed] =>
    match seed.toNat?, flen.toNat?, claimed.toNat? with
    | some sd, some fl, some cl =>
      let r := chunkAppendWholeFile true (patBytes sd fl) cl
      toString r.2 ++ " " ++ toHex r.1
    | _, _, _ => "bad-op"
  | ["s1xx", status, hdrs] =>
    match status.toNat?, parseHdrs hdrs with
    | some st, some hs => "1 " ++ toHex (send1xx st hs)
    | _, _ => "bad-op"
  | ["cfile", api, ch, seed, flen, off, len] =>
    match ch.toNat?, seed.toNat?, flen.toNat?, off.toNat?, len.toNat? with
    | some c, some sd, some fl, some o, some l =>
      let content := patBytes sd fl
      let chunked := c ≠ 0
      if api = "d" || api = "r" then "0 " ++ toHex (chunkAppend chunked content)
      else if api = "R" then "0 " ++ toHex (chunkAppendFileRange chunked content o l)
      else if api = "D" then "0 " ++ toHex (chunkAppendFdRange chunked content o l)
      else "bad-op"
    | _, _, _, _, _ => "bad-op"
  | _ => "bad-op"

end Driver
