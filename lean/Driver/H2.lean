import LtVerif.Model.H2Flow
import LtVerif.Model.H2
import LtVerif.Model.H2Reader
namespace Driver
open LtVerif

/-- run write passes until nothing more is sent (server quiescence) -/
def fcQuiesce : Nat → FcConn → FcConn × List FcOut
  | 0, c => (c, [])
  | fuel + 1, c =>
    let (c', o) := writePass c 262144
    if o.isEmpty then (c', []) else
      let (c'', o') := fcQuiesce fuel c'
      (c'', o ++ o')

def fcOutStr : FcOut → String
  | .data sid n => s!"D{sid}:{n}"
  | .rst sid code => s!"R{sid}:{code}"
  | .goaway code => s!"G{code}"

def fcSummary (c : FcConn) : String :=
  let ss := c.streams.map fun s =>
    s!"{s.id}:sent={s.sent},pend={s.pending},swin={s.swin},credit={s.credit}"
  s!"conn:sent={c.sent},swin={c.swin},credit={c.credit},goaway={c.goaway.getD 0}|" ++ String.intercalate ";" ss

/-- events: o<id>,<body>,<inc01> | s<v> | w<sid>,<inc> | q  (q = run write passes to quiescence)
    output after every q: per-stream totals -/
def fcEvents : List String → FcConn → List String → List String
  | [], _, acc => acc.reverse
  | t :: rest, c, acc =>
    let args := (t.drop 1).toString.splitOn ","
    let nat (i : Nat) : Nat := ((args.getD i "0").toNat?).getD 0
    match t.toList.head? with
    | some 'o' => fcEvents rest (fcStep c (.openStream (nat 0) (nat 1) (nat 2 == 1))).1 acc
    | some 's' =>
      let (c', o) := fcStep c (.settingsInitialWindow (nat 0))
      fcEvents rest c' (if o.isEmpty then acc else (String.intercalate " " (o.map fcOutStr)) :: acc)
    | some 'w' =>
      let (c', o) := fcStep c (.windowUpdate (nat 0) (nat 1))
      fcEvents rest c' (if o.isEmpty then acc else (String.intercalate " " (o.map fcOutStr)) :: acc)
    | some 'q' =>
      let (c', _) := fcQuiesce 10000 c
      fcEvents rest c' (fcSummary c' :: acc)
    | _ => fcEvents rest c ("bad-ev" :: acc)

def natArg (args : List String) (i : Nat) : Nat := ((args.getD i "0").toNat?).getD 0
def intArg (args : List String) (i : Nat) : Int := ((args.getD i "0").toInt?).getD 0

/-- frame tokens (fields separated by ':'):
    S:<ack01>:<sid>:<k=v,..|->:<junk>     P:<ack01>:<sid>:<len>     W:<sid>:<len>:<inc>
    R:<sid>:<len>:<code>   Y:<sid>:<len>:<dep>   G:<sid>:<len>:<code>
    D:<sid>:<len>:<pad|->:<es01>
    H:<sid>:<r<status>,<body>,<reqLen>,<incr01>|x>:<es01>:<dep|->:<padBad01>:<contBad01>
    C:<sid>   U:<type>   X:<sid> (PUSH_PROMISE)   O (oversize)   F (32nd CONTINUATION of a block)
    Z:<sid>:<len>:<prid>:<field hex> (PRIORITY_UPDATE)     P: optional 5th field = the 8 octets (hex)
    H kind: optional 5th number 1 = response body is a file -/
def parseFrame (t : String) : Option FrameIn :=
  let a := t.splitOn ":"
  match a.head? with
  | some "S" =>
    let ps := if a.getD 3 "-" = "-" then [] else
      ((a.getD 3 "").splitOn ",").filterMap fun kv =>
        match kv.splitOn "=" with
        | [k, v] => match k.toNat?, v.toNat? with | some k, some v => some (k, v) | _, _ => none
        | _ => none
    some (.settings (natArg a 1 == 1) (natArg a 2) ps (natArg a 4))
  | some "P" =>
    -- octets: 5th field (hex) or, absent, `len` times 'p'
    some (.ping (natArg a 1 == 1) (natArg a 2) (natArg a 3)
            (match a[4]? with
             | some h => (B.ofHex h).getD []
             | none => List.replicate (natArg a 3) (112 : UInt8)))
  | some "Z" =>
    -- Z:<sid>:<len>:<prid>:<Priority field value, hex>
    some (.priorityUpdate (natArg a 1) (natArg a 2) (natArg a 3) (parsePrio ((B.ofHex (a.getD 4 "-")).getD [])))
  | some "W" => some (.windowUpdate (natArg a 1) (natArg a 2) (natArg a 3))
  | some "R" => some (.rstStream (natArg a 1) (natArg a 2) (natArg a 3))
  | some "Y" => some (.priority (natArg a 1) (natArg a 2) (natArg a 3))
  | some "G" => some (.goaway (natArg a 1) (natArg a 2) (natArg a 3))
  | some "D" => some (.data (natArg a 1) (natArg a 2)
                        (if a.getD 3 "-" = "-" then none else some (natArg a 3)) (natArg a 4 == 1))
  | some "H" =>
    let k := a.getD 2 "x"
    let kind : HdrKind :=
      if k = "x" then .hpackBad else
        let f := (k.drop 1).toString.splitOn ","
        .request (natArg f 0) (natArg f 1) (intArg f 2) (natArg f 3 == 1) (natArg f 4 == 1)
    some (.headers (natArg a 1) kind (natArg a 3 == 1)
            (if a.getD 4 "-" = "-" then none else some (natArg a 4)) (natArg a 5 == 1) (natArg a 6 == 1))
  | some "C" => some (.continuation (natArg a 1))
  | some "U" => some (.unknown (natArg a 1))
  | some "X" => some (.pushPromise (natArg a 1))
  | some "O" => some .oversize
  | some "F" => some .contFlood
  | _ => none

def outStr : Out → String
  | .settingsAck => "SA"
  | .pingAck o => "PA" ++ (if o.isEmpty then "" else B.toHex o)
  | .goaway last code => s!"G{last},{code}"
  | .rst sid code => s!"R{sid},{code}"
  | .windowUpdate sid inc => s!"W{sid},{inc}"
  | .headers sid status es => s!"H{sid},{status},{if es then 1 else 0}"
  | .data sid len es => s!"D{sid},{len},{if es then 1 else 0}"

/-- "h2 <frames..> q <frames..> q": after every q the frames emitted in that step -/
def h2Events : List String → H2Conn → List FrameIn → List String → List String
  | [], _, _, acc => acc.reverse
  | t :: rest, c, batch, acc =>
    if t = "q" then
      let (c', o) := h2Step c batch.reverse
      h2Events rest c' [] ((if o.isEmpty then "-" else String.intercalate " " (o.map outStr)) :: acc)
    else
      match parseFrame t with
      | some f => h2Events rest c (f :: batch) acc
      | none => h2Events rest c batch ("bad-frame" :: acc)

/-- receive-side credit: "credit <fudge0> <len> <len> ..." -> "<total returned> <final fudge>" -/
def creditLine (args : List String) : String :=
  match args with
  | f0 :: lens =>
    match f0.toInt?, lens.mapM String.toNat? with
    | some f, some ls =>
      let r := creditRun f ls          -- the definition c06_upload_credit_returned is about
      s!"{r.2} {r.1}"
    | _, _ => "bad-op"
  | _ => "bad-op"

def parseKind (k : String) : HdrKind :=
  if k = "x" then .hpackBad else
    let f := (k.drop 1).toString.splitOn ","
    .request (natArg f 0) (natArg f 1) (intArg f 2) (natArg f 3 == 1) (natArg f 4 == 1)

/-- header block table of an `h2b` line: "<hex>=<kind>;<hex>=<kind>;..." or "-" -/
def parseDecTable (t : String) : List (Bytes × HdrKind) :=
  if t = "-" then [] else
  (t.splitOn ";").filterMap fun e =>
    match e.splitOn "=" with
    | [h, k] => (B.ofHex h).map fun b => (b, parseKind k)
    | _ => none

/-- the HPACK layer as a table look-up (C07 has the decoder); an unlisted block does not decode -/
def decOf (tab : List (Bytes × HdrKind)) (blk : Bytes) : HdrKind :=
  match tab.find? (·.1 = blk) with
  | some e => e.2
  | none => .hpackBad

/-- "h2b <table> <seg> <seg> .. q <seg> .. q": octets in read segments; after every q the frames
    emitted in that step; at the end whether the connection has ended -/
def h2bEvents (dec : Bytes → HdrKind) : List String → BConn → List Bytes → List String → List String × BConn
  | [], s, _, acc => (acc.reverse, s)
  | t :: rest, s, segs, acc =>
    if t = "q" then
      let r := h2StepBytes dec s segs.reverse
      h2bEvents dec rest r.1 [] ((if r.2.isEmpty then "-" else String.intercalate " " (r.2.map outStr)) :: acc)
    else
      match B.ofHex t with
      | some b => h2bEvents dec rest s (b :: segs) acc
      | none => h2bEvents dec rest s segs ("bad-seg" :: acc)

def h2bLine (args : List String) : String :=
  match args with
  | tab :: evs =>
    -- a table starting with the entry "noack": the client has not acknowledged the server's SETTINGS
    let c0 : H2Conn := { sentSettings := tab.startsWith "noack" }
    let r := h2bEvents (decOf (parseDecTable tab)) evs { c := c0 } [] []
    String.intercalate " / " r.1 ++ (if r.2.c.dead then " | fin" else " | open")
  | _ => "bad-op"

def h2Line : List String → String
  | "credit" :: args => creditLine args
  | "fc" :: evs => String.intercalate " / " (fcEvents evs FcConn.init [])
  | "h2" :: "noack" :: evs => String.intercalate " / " (h2Events evs { sentSettings := true } [] [])
  | "h2" :: evs => String.intercalate " / " (h2Events evs {} [] [])
  | "h2b" :: args => h2bLine args
  | ["hsplit", fsize, n] =>
    String.intercalate "+" ((hpackSplit ((fsize.toNat?).getD 16384) ((n.toNat?).getD 0) ((n.toNat?).getD 0)).map toString)
  | _ => "bad-op"

end Driver
