/- line-protocol handler for model "h2" (stub until its model is built) -/
namespace Driver

def h2Line : List String → String
  | _ => "bad-op"

end Driver
