import LtVerif.Model.H2Flow
namespace Driver
open LtVerif

/-- run write passes until nothing more is sent (server quiescence) -/
def fcQuiesce : Nat → FcConn → FcConn × List FcOut
  | 0, c => (c, [])
  | fuel + 1, c =>
    let (c', o) := writePass c 262144
    if o.isEmpty then (c', []) else
      let (c'', o') := fcQuiesce fuel c'
      (c'', o ++ o')

def fcOutStr : FcOut → String
  | .data sid n => s!"D{sid}:{n}"
  | .rst sid code => s!"R{sid}:{code}"
  | .goaway code => s!"G{code}"

def fcSummary (c : FcConn) : String :=
  let ss := c.streams.map fun s =>
    s!"{s.id}:sent={s.sent},pend={s.pending},swin={s.swin},credit={s.credit}"
  s!"conn:sent={c.sent},swin={c.swin},credit={c.credit},goaway={c.goaway.getD 0}|" ++ String.intercalate ";" ss

/-- events: o<id>,<body>,<inc01> | s<v> | w<sid>,<inc> | q  (q = run write passes to quiescence)
    output after every q: per-stream totals -/
def fcEvents : List String → FcConn → List String → List String
  | [], _, acc => acc.reverse
  | t :: rest, c, acc =>
    let args := (t.drop 1).toString.splitOn ","
    let nat (i : Nat) : Nat := ((args.getD i "0").toNat?).getD 0
    match t.toList.head? with
    | some 'o' => fcEvents rest (fcStep c (.openStream (nat 0) (nat 1) (nat 2 == 1))).1 acc
    | some 's' =>
      let (c', o) := fcStep c (.settingsInitialWindow (nat 0))
      fcEvents rest c' (if o.isEmpty then acc else (String.intercalate " " (o.map fcOutStr)) :: acc)
    | some 'w' =>
      let (c', o) := fcStep c (.windowUpdate (nat 0) (nat 1))
      fcEvents rest c' (if o.isEmpty then acc else (String.intercalate " " (o.map fcOutStr)) :: acc)
    | some 'q' =>
      let (c', _) := fcQuiesce 10000 c
      fcEvents rest c' (fcSummary c' :: acc)
    | _ => fcEvents rest c ("bad-ev" :: acc)

def h2Line : List String → String
  | "fc" :: evs => String.intercalate " / " (fcEvents evs FcConn.init [])
  | _ => "bad-op"

end Driver
