/- line-protocol handler for model "hpack" (stub until its model is built) -/
namespace Driver

def hpackLine : List String → String
  | _ => "bad-op"

end Driver
