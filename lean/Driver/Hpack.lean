/- line-protocol handler for model "hpack" (C07)
   ops (bytes hex, "-" = empty):
     int <pbits> <hex>          lshpack_dec_dec_int      -> "ok <val> <consumed>" | "err"
     encint <pbits> <n>         lshpack_enc_enc_int      -> hex
     huffenc <hex>              lshpack_enc_huff_encode  -> hex
     huffdec <cap> <hex>        lshpack_dec_huff_decode  -> "ok <hex> ng=1" | "err <code> ng=1"
     huffrt <hex>               encode and decode back   -> "<hex> ng=1 rt=<b>"
     str <cap> <hex>            hdec_dec_str             -> "ok <hex> <consumed>" | "err <code>"
     encstr <hex>               lshpack_enc_enc_str      -> hex
     conn <cap> <op>...         one connection's decoder history:
         B<hex> served block, D<hex> discarded block, S<n> set_max_capacity
       -> one token per op ("ok:<fields>" | "e<code>:<fields>" then "dead" | "d" | "s"),
          last token "T<max>/<cur>/<size>:<entries>"
     connv / connx              same + " x=ok" (the harness cross-checks with nghttp2)
     resp <srvtag> <item>...    h2_send_headers() of one connection's responses (see h_hpack.c)
     req <maxfield> <item>...   h2_recv_headers() over one connection's HEADERS sequences (see h_hpack.c)
     enc <max> <cur> <block>... reference encoder (tool use): block = fields joined by ",",
         field = name:value:mode:idx:huffN:huffV:resize+resize..   -> one hex block per token
-/
import LtVerif.Model.Hpack
import LtVerif.Model.H2Headers
namespace Driver
open LtVerif LtVerif.B LtVerif.Hpack LtVerif.H2Headers

def hpHex (s : String) (f : Bytes → String) : String :=
  match ofHex s with
  | some b => f b
  | none => "bad-op"

def errStr (e : Err) : String := toString e.code

def fieldStr (f : Field) : String :=
  toHex f.name ++ ":" ++ toHex f.value ++ ":" ++ toString f.hint ++ ":" ++ (if f.never then "1" else "0")

def joinWith (sep : String) (l : List String) : String :=
  if l.isEmpty then "-" else sep.intercalate l

def tableStr (d : Dec) : String :=
  let rec go : List Header → List Nat → List String
    | [], _ => []
    | h :: t, hs => (toHex h.1 ++ ":" ++ toHex h.2 ++ ":" ++ toString (hs.headD 0)) :: go t hs.tail
  "T" ++ toString d.tbl.maxCap ++ "/" ++ toString d.tbl.curMax ++ "/" ++
    toString (tableSize d.tbl.dyn) ++ ":" ++ joinWith "," (go d.tbl.dyn d.hints)

def connRun (cap : Nat) : Dec → List String → List String → String
  | d, [], acc => " ".intercalate (acc.reverse ++ [tableStr d])
  | d, op :: ops, acc =>
    let kind := op.take 1
    let arg := (op.drop 1).toString
    if kind == "S" then
      match arg.toNat? with
      | some n => connRun cap (d.setMaxCapacity n) ops ("s" :: acc)
      | none => "bad-op"
    else
      match ofHex arg with
      | none => "bad-op"
      | some bs =>
        if kind == "D" then
          match discardBlock cap d bs with
          | (d', none) => connRun cap d' ops ("d" :: acc)
          | (d', some e) => " ".intercalate (acc.reverse ++ ["d!" ++ errStr e, "dead", tableStr d'])
        else if kind == "B" then
          let r := decodeBlock cap d bs
          let fs := joinWith "," (r.fields.map fieldStr)
          match r.err with
          | none => connRun cap r.dec ops (("ok:" ++ fs) :: acc)
          | some e => " ".intercalate (acc.reverse ++ ["e" ++ errStr e ++ ":" ++ fs, "dead", tableStr r.dec])
        else "bad-op"

def parseMode (s : String) : Option Mode :=
  match s with
  | "x" => some .indexed
  | "i" => some .incr
  | "w" => some .without
  | "n" => some .never
  | _ => none

/-- name:value:mode:idx:huffN:huffV:resizes -/
def parseEncField (s : String) : Option (Header × Choice) :=
  match s.splitOn ":" with
  | [n, v, m, i, hn, hv, rs] =>
    match ofHex n, ofHex v, parseMode m, i.toNat? with
    | some n, some v, some m, some i =>
      let resize := if rs == "-" then [] else (rs.splitOn "+").filterMap String.toNat?
      some ((n, v), { resize := resize, mode := m, idx := i, huffName := hn == "1", huffValue := hv == "1" })
    | _, _, _, _ => none
  | _ => none

def encRun : Table → List String → List String → String
  | _, [], acc => " ".intercalate acc.reverse
  | t, blk :: rest, acc =>
    let fs := if blk == "-" then some [] else (blk.splitOn ",").mapM parseEncField
    match fs with
    | none => "bad-op"
    | some fs =>
      let r := encodeBlock t (fs.map (·.2)) (fs.map (·.1))
      encRun r.2 rest (toHex r.1 :: acc)

/-- "<op><hexname>:<hexvalue>,..." applied to an empty response -/
def applyHdrOps (ops : String) : Option Resp :=
  if ops == "-" then some {} else
  (ops.splitOn ",").foldlM (fun (r : Resp) t =>
    match ((t.drop 1).toString).splitOn ":" with
    | [k, v] =>
      match ofHex k, ofHex v with
      | some k, some v =>
        match (t.take 1).toString with
        | "s" => some (r.set k v)
        | "i" => some (r.insert k v)
        | "a" => some (r.append k v)
        | _ => none
      | _, _ => none
    | _ => none) {}

def updStr (us : List Nat) : String :=
  if us.isEmpty then "-" else "+".intercalate (us.map toString)

def fieldsStr (fs : List Header) : String :=
  joinWith "," (fs.map fun f => toHex f.1 ++ ":" ++ toHex f.2)

/-- one item: output token and the encoder-glue state after it -/
def respItem (srv : Bool) (g : EncGlue) (it : String) : String × EncGlue :=
  let kind := (it.take 1).toString
  let sent (es : String) (fs : List Header) : String × EncGlue :=
    ("ok:" ++ es ++ ":" ++ updStr g.updates ++ ":" ++ fieldsStr fs, g.sent)
  if kind == "C" then
    match ((it.drop 1).toString).toNat? with
    | some n => ("c", g.settings n)
    | none => ("bad-op", g)
  else if kind == "F" then
    -- SETTINGS_MAX_FRAME_SIZE outside [2^14, 2^24-1] is a connection error
    match ((it.drop 1).toString).toNat? with
    | some n => (if n < 16384 ∨ n > 16777215 then "f goaway" else "f", g)
    | none => ("bad-op", g)
  else if kind == "I" then
    match ((it.drop 1).toString).splitOn "/" with
    | [st, _, ops] =>
      match st.toNat?, applyHdrOps ops with
      | some st, some r => sent "0" (interimFields st r)
      | _, _ => ("bad-op", g)
    | _ => ("bad-op", g)
  else if kind == "T" then
    match ((it.drop 1).toString).splitOn "/" with
    | [_, _, ops] =>
      let lines : Option (List Bytes) := if ops == "-" then some [] else
        (ops.splitOn ",").mapM fun t =>
          match ((t.drop 1).toString).splitOn ":" with
          | [k, v] =>
            match ofHex k, ofHex v with
            | some k, some v => some (k ++ [colon, sp] ++ v ++ [cr, lf])
            | _, _ => none
          | _ => none
      match lines with
      | none => ("bad-op", g)
      | some ls =>
        match trailerFields (ls.flatten ++ [cr, lf]) with
        | none => ("data", g)
        | some fs => sent "1" fs
    | _ => ("bad-op", g)
  else if kind == "R" then
    match ((it.drop 1).toString).splitOn "/" with
    | [st, es, ops] =>
      match st.toNat?, applyHdrOps ops with
      | some st, some r =>
        match respFields st r (if srv then some (ofString "ltv/1.0") else none) with
        | none => ("rst", g)
        | some fs => sent (if es == "0" then "0" else "1") fs
      | _, _ => ("bad-op", g)
    | _ => ("bad-op", g)
  else ("bad-op", g)

/-- items until a connection error ("goaway" ends the line) -/
def respRun (srv : Bool) : EncGlue → List String → List String → String
  | _, [], acc => " ".intercalate acc.reverse
  | g, it :: rest, acc =>
    let (o, g') := respItem srv g it
    if o.endsWith "goaway" || o == "bad-op" then " ".intercalate (acc.reverse ++ [o])
    else respRun srv g' rest (o :: acc)

def outcomeStr : Outcome → String
  | .new id => "new:" ++ toString id
  | .trailers id => "trl:" ++ toString id
  | .discarded id (some c) => "disc:" ++ toString id ++ ":" ++ toString c
  | .discarded id none => "disc:" ++ toString id ++ ":-"
  | .deferred => "defer"
  | .nothing => "none"

def reqFinish (c : GConn) (acc : List String) : String :=
  " ".intercalate (acc.reverse ++ [tableStr c.dec,
    "cid=" ++ (if c.goaway > 0 then "-" else toString c.cid),
    "nd=" ++ toString c.ndisc, "nr=" ++ toString c.nrefused])

def reqRun (cap : Nat) : GConn → List String → List String → String
  | c, [], acc => reqFinish c acc
  | c, it :: rest, acc =>
    let kind := (it.take 1).toString
    if kind == "A" then reqRun cap { c with acked := true } rest ("a" :: acc)
    else if kind == "G" then reqRun cap (setGoaway c (-1)) rest ("g" :: acc)
    else if kind == "X" then
      match ((it.drop 1).toString).toNat? with
      | some id => reqRun cap { c with streams := c.streams.filter (·.id != id) } rest ("x" :: acc)
      | none => "bad-op"
    else if kind == "S" then
      -- S<id>/<status>: the response of a tracked stream has begun (r->http_status set).  Nothing
      -- in the HPACK state depends on it: trailers are decoded to the end of the block whatever
      -- http_request_parse_header() says about a field and whatever the status already is.
      reqRun cap c rest ("s" :: acc)
    else if kind == "H" || kind == "h" then
      match ((it.drop 1).toString).splitOn "/" with
      | id :: es :: _pad :: dep :: frags :: keep :: _ =>
        match id.toNat?, (frags.splitOn "+").mapM ofHex with
        | some id, some fs =>
          let g0 := c.goaway
          -- keep: 0 = stream finished at once, 1 = still tracked, 2 = tracked with announced body missing
          let (c', o) := recvHeaders cap c id (es != "0") (if dep == "-" then none else dep.toNat?)
            fs.flatten (keep != "0") (keep == "2")
          let tok := outcomeStr o
          if c'.goaway > 0 then reqFinish c' ((tok ++ "!" ++ toString c'.goaway) :: acc)
          else reqRun cap c' rest ((if c'.goaway < 0 ∧ g0 = 0 then tok ++ "~" else tok) :: acc)
        | _, _ => "bad-op"
      | _ => "bad-op"
    else "bad-op"

def hpackLine : List String → String
  | ["int", p, h] => hpHex h fun b =>
    match p.toNat? with
    | none => "bad-op"
    | some p =>
      match decInt p b with
      | none => "err"
      | some (v, rest) => "ok " ++ toString v ++ " " ++ toString (b.length - rest.length)
  | ["encint", p, n] =>
    match p.toNat?, n.toNat? with
    | some p, some n => toHex (encInt p 0 n)
    | _, _ => "bad-op"
  | ["huffenc", h] => hpHex h fun b => toHex (huffEncode b)
  | ["huffdec", c, h] => hpHex h fun b =>
    match c.toNat? with
    | none => "bad-op"
    | some c =>
      match huffDecode c b with
      | .ok s => "ok " ++ toHex s ++ " ng=1"
      | .error e => "err " ++ errStr e ++ " ng=1"
  | ["str", c, h] => hpHex h fun b =>
    match c.toNat? with
    | none => "bad-op"
    | some c =>
      match decStr c b with
      | .ok (s, rest) => "ok " ++ toHex s ++ " " ++ toString (b.length - rest.length)
      | .error e => "err " ++ errStr e
  | ["encstr", h] => hpHex h fun b => toHex (encStrLs b)
  | "conn" :: c :: ops =>
    match c.toNat? with
    | some c => connRun c Dec.init ops []
    | none => "bad-op"
  | "connv" :: c :: ops =>
    match c.toNat? with
    | some c => connRun c Dec.init ops [] ++ " x=ok"
    | none => "bad-op"
  | "connx" :: c :: ops =>
    match c.toNat? with
    | some c => connRun c Dec.init ops [] ++ " x=ok"
    | none => "bad-op"
  | ["huffrt", h] => hpHex h fun b =>
    toHex (huffEncode b) ++ " ng=1 rt=" ++
      (match huffDecode (b.length + 16) (huffEncode b) with
       | .ok s => if s = b then "1" else "0"
       | .error _ => "0")
  | "resp" :: srv :: items => respRun (srv == "1") {} items []
  | "req" :: _maxfield :: items => reqRun 65535 {} items []
  | "enc" :: mx :: cur :: blocks =>
    match mx.toNat?, cur.toNat? with
    | some mx, some cur => encRun ⟨mx, cur, []⟩ blocks []
    | _, _ => "bad-op"
  | _ => "bad-op"

end Driver
