/- line-protocol handler for model "kv" (stub until its model is built) -/
namespace Driver

def kvLine : List String → String
  | _ => "bad-op"

end Driver
