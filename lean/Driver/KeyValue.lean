/- line-protocol handler for model "kv" (keyvalue.c / burl_append / mod_rewrite / mod_redirect /
   mod_alias / mod_simple_vhost / mod_evhost).  Protocol: see harness/inproc/h_keyvalue.c -/
import LtVerif.Model.KeyValue
namespace Driver
open LtVerif LtVerif.B

namespace KV

def hexOpt (s : String) : Option (Option Bytes) :=
  if s = "~" then some none else (ofHex s).map some

def parsePair (s : String) : Option (Option (Nat × Nat)) :=
  if s = "u" then some none else
  match s.splitOn "." with
  | [a, b] => match a.toNat?, b.toNat? with
    | some x, some y => some (some (x, y))
    | _, _ => none
  | _ => none

def parseOVec (s : String) : Option OVec :=
  if s = "-" then some [] else (s.splitOn ",").mapM parsePair

/-- `<subject-hex>@<ovec>` -/
def parseCaps (s : String) : Option Caps :=
  match s.splitOn "@" with
  | [h, o] => match ofHex h, parseOVec o with
    | some subj, some ov => some { subject := subj, ovec := ov }
    | _, _ => none
  | _ => none

def parseCond (s : String) : Option (Option Caps) :=
  if s = "~" then some none else (parseCaps s).map some

/-- `<scheme>,<authority>,<port>,<path>,<query>` -/
def parseUrl (s : String) : Option UrlParts :=
  match s.splitOn "," with
  | [sc, au, po, pa, qu] =>
    match hexOpt sc, hexOpt au, po.toNat?, ofHex pa, hexOpt qu with
    | some sc, some au, some po, some pa, some qu =>
      some { scheme := sc, authority := au, port := po, path := pa, query := qu }
    | _, _, _, _, _ => none
  | _ => none

/-- `<pat>:<tmpl>;...` -> templates ("-" alone = no rules) -/
def parseRules (s : String) : Option (List Bytes) :=
  if s = "." then some [] else
  (s.splitOn ";").mapM fun kv =>
    match kv.splitOn ":" with
    | [_, t] => ofHex t
    | _ => none

def parseRes (s : String) : Option MatchRes :=
  if s = "N" then some .nomatch
  else if s = "E" then some .error
  else (parseOVec s).map .matched

def parseTrace (s : String) : Option (List MatchRes) :=
  if s = "." then some [] else (s.splitOn "/").mapM parseRes

def parseTable (s : String) : Option (List (Bytes × List MatchRes)) :=
  if s = "." then some [] else
  (s.splitOn "|").mapM fun e =>
    match e.splitOn "=" with
    | [t, tr] => match ofHex t, parseTrace tr with
      | some t, some tr => some (t, tr)
      | _, _ => none
    | _ => none

def parsePairs (s : String) : Option (List (Bytes × Bytes)) :=
  if s = "." then some [] else
  (s.splitOn ";").mapM fun kv =>
    match kv.splitOn ":" with
    | [k, v] => match ofHex k, ofHex v with
      | some k, some v => some (k, v)
      | _, _ => none
    | _ => none

def showProc : ProcRes → String
  | .goOn none => "go -"
  | .goOn (some m) => s!"go {m}"
  | .error => "err"
  | .finished m r => s!"fin {m} {toHex r}"

def showWhy : RwRes → String
  | .loopError => "loop"
  | .invalidResult => "invalid"
  | .pcreError => "pcre"
  | .goOn => "goon"
  | .comeback _ => "comeback"

def showFinal : RwFinal → String
  | .served t n => s!"served {toHex t} {n}"
  | .status c n => s!"status {c} {n}"
  | .failed _ n => s!"failed {n}"
  | .outOfFuel => "out-of-fuel"

def orBad (o : Option String) : String := o.getD "bad-op"

end KV
open KV

def kvLine : List String → String
  | ["app", fl, s, look] => orBad do
    let f ← fl.toNat?
    let s ← ofHex s
    let l ← ofHex look
    pure (toHex (burlAppend f s l))
  | ["nkey", h] => orBad do pure (toHex (normalizeKey (← ofHex h)))
  | ["nval", h] => orBad do pure (toHex (normalizeValue (← ofHex h)))
  | ["subst", tmpl, caps, cond, url] => orBad do
    let t ← ofHex tmpl
    let c ← parseCaps caps
    let cd ← parseCond cond
    let u ← parseUrl url
    pure (toHex (subst { rule := c, cond := cd, url := u } t))
  | ["proc", rules, subj, cond, url, trace] => orBad do
    let ts ← parseRules rules
    let s ← ofHex subj
    let cd ← parseCond cond
    let u ← parseUrl url
    let tr ← parseTrace trace
    if tr.length ≠ ts.length then none
    pure (showProc (process cd u s (ts.zip tr)))
  | ["redir", code, goh, h10, rules, cond, url, trace] => orBad do
    let code ← code.toNat?
    let ts ← parseRules rules
    let cd ← parseCond cond
    let u ← parseUrl url
    let tr ← parseTrace trace
    if tr.length ≠ ts.length then none
    pure (match redirect code (goh == "1") (h10 == "1") cd u (ts.zip tr) with
          | .ok none => "none"
          | .ok (some (st, loc)) => s!"{st} {toHex loc}"
          | .error _ => "err")
  | ["rw", ridx, rules, target, cond, scheme, auth, srvname, port, opts, table] => orBad do
    let ridx ← ridx.toNat?
    let ts ← parseRules rules
    let t ← ofHex target
    let cd ← parseCond cond
    let sc ← ofHex scheme
    let au0 ← hexOpt auth
    -- r->uri.authority is the lower-cased Host ("~": no Host header, blank authority)
    let au : Bytes := (au0.getD []).map toLower
    let sn ← ofHex srvname
    let po ← port.toNat?
    let o ← opts.toNat?
    let tbl ← parseTable table
    -- the matcher is the recorded table (validated against PCRE2 by the harness);
    -- a target outside the table yields a trace of the wrong length, detected below
    let matcher : Bytes → List MatchRes := fun tg => ((tbl.find? (·.1 == tg)).map (·.2)).getD []
    match parseTarget ⟨o⟩ false t with
    | .error e => pure s!"status {e} 0"
    | .ok tg =>
      let r := rwRun matcher ts ridx cd ⟨o⟩ sc au sn po 200 tg.target none 0
      -- detect trace misses: every target reached must be in the table
      let rec reach (fuel : Nat) (tg : Bytes) (h : Option RwState) : Bool :=
        match fuel with
        | 0 => true
        | fuel + 1 =>
          if (tbl.find? (·.1 == tg)).isNone && !ts.isEmpty then false else
          let url : UrlParts := requestUrl sc au sn po tg
          match rwCall ridx cd url (ts.zip (matcher tg)) h with
          | (.comeback t', h') =>
            (match parseTarget ⟨o⟩ false t' with
             | .ok tg' => reach fuel tg'.target h'
             | .error _ => true)
          | _ => true
      if reach 200 tg.target none then pure (showFinal r) else pure "trace-miss"
  | ["nf", kind, handler, ridx, rules, target, cond, scheme, auth, srvname, port, trace] => orBad do
    -- filesystem assumption: stat() follows symbolic links; a trailing '/' on a non-directory and a
    -- path below a regular file fail (ENOTDIR)
    let k : FsKind ←
      if kind == "reg" || kind == "lnreg" then some FsKind.regular
      else if kind == "dir" || kind == "dirslash" || kind == "lndir" || kind == "lndirslash" then some .directory
      else if kind == "missing" || kind == "missingslash" || kind == "lndangling" || kind == "below"
              || kind == "regslash" then some .missing
      else if kind == "fifo" then some .other
      else none
    let ridx ← ridx.toNat?
    let ts ← parseRules rules
    let t ← ofHex target
    let cd ← parseCond cond
    let sc ← ofHex scheme
    let au0 ← hexOpt auth
    let au : Bytes := (au0.getD []).map toLower
    let sn ← ofHex srvname
    let po ← port.toNat?
    let tr ← parseTrace trace
    match parseTarget ⟨0⟩ false t with
    | .error e => pure s!"status {e}"
    | .ok tg =>
      if tr.length ≠ ts.length then none
      let url : UrlParts := requestUrl sc au sn po tg.target
      pure (match (rwPhysical (handler == "1") k ridx cd url (ts.zip tr) none).1 with
            | .goOn => "go"
            | .comeback t' => s!"comeback {toHex t'}"
            | _ => "failed")
  | ["alias", nc, aliases, basedir, path] => orBad do
    let al ← parsePairs aliases
    let bd ← ofHex basedir
    let p ← ofHex path
    pure (match aliasRemap (nc == "1") al bd p with
          | .unchanged => s!"{toHex p} {toHex bd}"
          | .forbidden => "403"
          | .remapped p' b' => s!"{toHex p'} {toHex b'}")
  | ["svhost", sroot, host, droot] => orBad do
    let sr ← ofHex sroot
    let h ← hexOpt host
    let d ← hexOpt droot
    pure (toHex (simpleVhostRoot sr h d))
  | ["evhost", pat, auth] => orBad do
    let p ← ofHex pat
    let a ← ofHex auth
    pure (match evParsePattern p with
          | none => "badpat"
          | some pieces => toHex (evhostRoot pieces a))
  | _ => "bad-op"

end Driver
