/- line-protocol handler for model "life" (C13, connection lifetime); same line format and
   canonical output as harness/inproc/h_timeout.c -/
import LtVerif.Model.Lifecycle
namespace Driver
open LtVerif LtVerif.Lifecycle

def lifeInt (s : String) : Option Int := s.toInt?

def lifeBool (s : String) : Option Bool :=
  match s.toInt? with
  | some 0 => some false
  | some _ => some true
  | none => none

def lifeCfgField (cfg : Cfg) (kv : String) : Option Cfg :=
  match kv.splitOn "=" with
  | [k, v] =>
    if k = "eh" then some cfg else
    match v.toInt? with
    | none => none
    | some x =>
      let n := x.toNat
      match k with
      | "mc" => some { cfg with mc := n }
      | "mf" => some { cfg with mf := n }
      | "cf" => some { cfg with cf := x }
      | "ri" => some { cfg with ri := n }
      | "wi" => some { cfg with wi := n }
      | "ka" => some { cfg with ka := n }
      | "kr" => some { cfg with kr := n }
      | "rs" => some { cfg with rs := n }
      | "fs" => some { cfg with fs := n }
      | "gt" => some { cfg with gt := n }
      | _ => none
  | _ => none

def lifeCfg (s : String) : Option Cfg :=
  (s.splitOn ",").foldlM lifeCfgField ({} : Cfg)

def lifeOp (tok : String) : Option Op :=
  match tok.toList with
  | [] => none
  | c :: rest =>
    let f := (String.ofList rest).splitOn ","
    match c, f with
    | 't', [""] => some (.tick 1)
    | 't', [n] => do some (.tick (← n.toNat?))
    | 'o', [i] => do some (.open_ (← i.toNat?))
    | 'q', i :: m :: k :: z :: h :: b :: more => do
      let kind ← (match m with | "g" => some RKind.get | "p" => some RKind.post | "c" => some RKind.chunked | _ => none)
      let big ← (match z with | "s" => some false | "b" => some true | _ => none)
      let csz ← (match more with | [] => some 0 | [x] => x.toNat? | _ => none)
      some (.prepare (← i.toNat?) { kind := kind, ka := (← k.toNat?) ≠ 0, big := big, H := (← h.toNat?),
                                    B := (← b.toNat?), csz := csz })
    | 's', [i] => do some (.send (← i.toNat?) 0)
    | 's', [i, n] => do some (.send (← i.toNat?) (← n.toNat?))
    | 'r', [i] => do some (.read (← i.toNat?))
    | 'R', [i] => do some (.drain (← i.toNat?))
    | 'f', [i] => do some (.fin (← i.toNat?))
    | 'x', [i] => do some (.close (← i.toNat?))
    | 'G', [""] => some .graceful
    | 'W', [""] => some .wake
    | _, _ => none

def lifeStream (s : String) : Option H2Stream :=
  match s.splitOn "," with
  | [a, b, c] => do
    let st ← CState.ofCode (← a.toNat?)
    some { st := st, bodyPending := (← b.toNat?) ≠ 0, ri := (← c.toInt?) }
  | _ => none

def lifeFrame (s : String) : Option (Nat × Bool) :=
  match s.toList.reverse with
  | 'e' :: rest => do some ((← (String.ofList rest.reverse).toNat?), true)
  | _ => do some ((← s.toNat?), false)

def lifeField (s : String) : Option (Nat × Nat) :=
  match s.splitOn "," with
  | [a, b] => do some ((← a.toNat?), (← b.toNat?))
  | _ => none

def lifeLine : List String → String
  | ["ct1", st, inEv, n, ver, rts, wts, cts, ka, ri, wi, now] =>
    match st.toNat? >>= CState.ofCode, lifeBool inEv, n.toNat?, ver.toInt?, rts.toInt?, wts.toInt?,
          cts.toInt?, ka.toInt?, ri.toInt?, wi.toInt?, now.toInt? with
    | some st, some inEv, some n, some ver, some rts, some wts, some cts, some ka, some ri, some wi, some now =>
      let r := checkTimeoutH1 { st := st, inEv := inEv, n := n, h1 := decide (ver ≤ 1), rts := rts, wts := wts,
                                cts := cts, kaIdle := ka, ri := ri, wi := wi } now
      s!"{if r.1 then 1 else 0} {r.2.code}"
    | _, _, _, _, _, _, _, _, _, _, _ => "bad-op"
  | "ct2" :: st :: rts :: wts :: ka :: wi :: now :: streams =>
    match st.toNat? >>= CState.ofCode, rts.toInt?, wts.toInt?, ka.toInt?, wi.toInt?, now.toInt?,
          streams.mapM lifeStream with
    | some st, some rts, some wts, some ka, some wi, some now, some ss =>
      if ss.length > 8 then "bad-op" else
      let r := checkTimeoutH2 { st := st, streams := ss, rts := rts, wts := wts, kaIdle := ka, wi := wi } now
      s!"{if r.1 then 1 else 0} {r.2.1.code} {if r.2.2 then 1 else 0}"
    | _, _, _, _, _, _, _ => "bad-op"
  | "lc" :: cur :: lo :: hi :: lim :: dis :: more =>
    -- (an optional sixth number, srv->srvconf.max_conns, does not enter the decision)
    match cur.toInt?, lo.toInt?, hi.toInt?, lim.toNat?, dis.toNat?, more.mapM String.toNat? with
    | some cur, some lo, some hi, some lim, some dis, some m =>
      if m.length > 1 then "bad-op" else toString (loadCheck cur lo hi lim dis)
    | _, _, _, _, _, _ => "bad-op"
  | ["mcl", mc, mf] =>
    -- effective connection limit for configured max-connections / max-fds (server start-up)
    match mc.toNat?, mf.toNat? with
    | some mc, some mf => toString (effMaxConns mc ({ mf := mf } : Cfg).maxFds)
    | _, _ => "bad-op"
  | "h2d" :: maxkb :: cl :: frames =>
    match maxkb.toNat?, cl.toInt?, frames.mapM lifeFrame with
    | some maxkb, some cl, some fr =>
      if fr.isEmpty then "bad-op" else
      let b0 : H2Body := { cl := if cl < 0 then none else some cl.toNat }
      let step := fun (acc : H2Body × List String) (f : Nat × Bool) =>
        let r := h2DataStep (maxkb * 1024) acc.1 f.1 f.2
        let rst := match r.2 with | some c => toString c | none => "-"
        (r.1, s!"{r.1.bytesIn},{r.1.status},{if r.1.isOpen then "o" else "c"},{rst}" :: acc.2)
      String.intercalate " " ((fr.foldl step (b0, [])).2.reverse)
    | _, _, _ => "bad-op"
  | "h2h" :: fs :: fields =>
    match fs.toNat?, fields.mapM lifeField with
    | some fs, some fl =>
      let r := h2HeadScan fs 0 0 fl
      if r.1 = 0 then "0" else s!"{r.1}@{r.2}"
    | _, _ => "bad-op"
  | "sc" :: cfg :: ops =>
    match lifeCfg cfg, ops.mapM lifeOp with
    | some cfg, some ops =>
      if ops.isEmpty then "-" else String.intercalate " | " (runObserve cfg (Sys.init cfg) ops)
    | _, _ => "bad-op"
  | _ => "bad-op"

end Driver
