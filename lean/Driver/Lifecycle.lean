/- line-protocol handler for model "life" (stub until its model is built) -/
namespace Driver

def lifeLine : List String → String
  | _ => "bad-op"

end Driver
