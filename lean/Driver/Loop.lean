/- shared stdin/stdout loop of the per-model drivers -/
namespace Driver

partial def loop (h : IO.FS.Stream) (out : IO.FS.Stream) (f : List String → String) : IO Unit := do
  let line ← h.getLine
  if line.isEmpty then return ()
  let toks := (line.trimAscii.toString.splitOn " ").filter (· ≠ "")
  out.putStrLn (f toks)
  loop h out f

def runLoop (f : List String → String) : IO UInt32 := do
  let stdin ← IO.getStdin
  let stdout ← IO.getStdout
  loop stdin stdout f
  return 0

end Driver
