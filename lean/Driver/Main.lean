/-
  ltmodel: line-protocol driver for the executable models.
    ltmodel <model>     reads one case per line on stdin, writes one line per case.
  Each line is self-contained (stateful cores take a whole operation sequence
  on one line), so inputs can be sharded and replayed one line at a time.
-/
import Driver.Url
import Driver.H1
import Driver.Range
import Driver.Cq
import Driver.KeyValue
import Driver.Hpack
import Driver.Cond
import Driver.Auth
import Driver.Cgi
import Driver.BackendResp
import Driver.Gw
import Driver.H2
import Driver.H1Resp
import Driver.Lifecycle
import Driver.Dav
import Driver.Deflate
import Driver.Access
import Driver.Arith
import Driver.Server

open LtVerif

def dispatch (model : String) : Option (List String → String) :=
  match model with
  | "url" => some Driver.urlLine
  | "h1" => some Driver.h1Line
  | "range" => some Driver.rangeLine
  | "cq" => some Driver.cqLine
  | "kv" => some Driver.kvLine
  | "hpack" => some Driver.hpackLine
  | "cond" => some Driver.condLine
  | "auth" => some Driver.authLine
  | "cgi" => some Driver.cgiLine
  | "beresp" => some Driver.berespLine
  | "gw" => some Driver.gwLine
  | "h2" => some Driver.h2Line
  | "h1resp" => some Driver.h1respLine
  | "life" => some Driver.lifeLine
  | "dav" => some Driver.davLine
  | "deflate" => some Driver.deflateLine
  | "access" => some Driver.accessLine
  | "arith" => some Driver.arithLine
  | "server" => some Driver.serverLine
  | _ => none

partial def loop (h : IO.FS.Stream) (out : IO.FS.Stream) (f : List String → String) : IO Unit := do
  let line ← h.getLine
  if line.isEmpty then return ()
  let toks := (line.trimAscii.toString.splitOn " ").filter (· ≠ "")
  out.putStrLn (f toks)
  loop h out f

def main (args : List String) : IO UInt32 := do
  match args with
  | [m] =>
    match dispatch m with
    | some f =>
      let stdin ← IO.getStdin
      let stdout ← IO.getStdout
      loop stdin stdout f
      return 0
    | none => IO.eprintln s!"unknown model {m}"; return 2
  | _ => IO.eprintln "usage: ltmodel <model>"; return 2
