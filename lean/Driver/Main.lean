/-
  ltmodel: line-protocol driver for the executable models.
    ltmodel <model>     reads one case per line on stdin, writes one line per case.
  Each line is self-contained (stateful cores take a whole operation sequence
  on one line), so inputs can be sharded and replayed one line at a time.
-/
import Driver.Url

open LtVerif

def dispatch (model : String) : Option (List String → String) :=
  match model with
  | "url" => some Driver.urlLine
  | _ => none

partial def loop (h : IO.FS.Stream) (out : IO.FS.Stream) (f : List String → String) : IO Unit := do
  let line ← h.getLine
  if line.isEmpty then return ()
  let toks := (line.trimAscii.toString.splitOn " ").filter (· ≠ "")
  out.putStrLn (f toks)
  loop h out f

def main (args : List String) : IO UInt32 := do
  match args with
  | [m] =>
    match dispatch m with
    | some f =>
      let stdin ← IO.getStdin
      let stdout ← IO.getStdout
      loop stdin stdout f
      return 0
    | none => IO.eprintln s!"unknown model {m}"; return 2
  | _ => IO.eprintln "usage: ltmodel <model>"; return 2
