import Driver.Access
import Driver.Loop
/- per-model driver: ltm_access -/
def main (_ : List String) : IO UInt32 := Driver.runLoop Driver.accessLine
