import Driver.Arith
import Driver.Loop
/- per-model driver: ltm_arith -/
def main (_ : List String) : IO UInt32 := Driver.runLoop Driver.arithLine
