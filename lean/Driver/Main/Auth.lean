import Driver.Auth
import Driver.Loop
/- per-model driver: ltm_auth -/
def main (_ : List String) : IO UInt32 := Driver.runLoop Driver.authLine
