import Driver.BackendResp
import Driver.Loop
/- per-model driver: ltm_beresp -/
def main (_ : List String) : IO UInt32 := Driver.runLoop Driver.berespLine
