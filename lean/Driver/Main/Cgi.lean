import Driver.Cgi
import Driver.Loop
/- per-model driver: ltm_cgi -/
def main (_ : List String) : IO UInt32 := Driver.runLoop Driver.cgiLine
