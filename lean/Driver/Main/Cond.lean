import Driver.Cond
import Driver.Loop
/- per-model driver: ltm_cond -/
def main (_ : List String) : IO UInt32 := Driver.runLoop Driver.condLine
