import Driver.Cq
import Driver.Loop
/- per-model driver: ltm_cq -/
def main (_ : List String) : IO UInt32 := Driver.runLoop Driver.cqLine
