import Driver.Dav
import Driver.Loop
/- per-model driver: ltm_dav -/
def main (_ : List String) : IO UInt32 := Driver.runLoop Driver.davLine
