import Driver.Deflate
import Driver.Loop
/- per-model driver: ltm_deflate -/
def main (_ : List String) : IO UInt32 := Driver.runLoop Driver.deflateLine
