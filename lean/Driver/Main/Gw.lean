import Driver.Gw
import Driver.Loop
/- per-model driver: ltm_gw -/
def main (_ : List String) : IO UInt32 := Driver.runLoop Driver.gwLine
