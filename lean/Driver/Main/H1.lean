import Driver.H1
import Driver.Loop
/- per-model driver: ltm_h1 -/
def main (_ : List String) : IO UInt32 := Driver.runLoop Driver.h1Line
