import Driver.H1Resp
import Driver.Loop
/- per-model driver: ltm_h1resp -/
def main (_ : List String) : IO UInt32 := Driver.runLoop Driver.h1respLine
