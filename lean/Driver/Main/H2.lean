import Driver.H2
import Driver.Loop
/- per-model driver: ltm_h2 -/
def main (_ : List String) : IO UInt32 := Driver.runLoop Driver.h2Line
