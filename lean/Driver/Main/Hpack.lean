import Driver.Hpack
import Driver.Loop
/- per-model driver: ltm_hpack -/
def main (_ : List String) : IO UInt32 := Driver.runLoop Driver.hpackLine
