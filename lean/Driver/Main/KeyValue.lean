import Driver.KeyValue
import Driver.Loop
/- per-model driver: ltm_kv -/
def main (_ : List String) : IO UInt32 := Driver.runLoop Driver.kvLine
