import Driver.Lifecycle
import Driver.Loop
/- per-model driver: ltm_life -/
def main (_ : List String) : IO UInt32 := Driver.runLoop Driver.lifeLine
