import Driver.Range
import Driver.Loop
/- per-model driver: ltm_range -/
def main (_ : List String) : IO UInt32 := Driver.runLoop Driver.rangeLine
