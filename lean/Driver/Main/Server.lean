import Driver.Server
import Driver.Loop
/- per-model driver: ltm_server -/
def main (_ : List String) : IO UInt32 := Driver.runLoop Driver.serverLine
