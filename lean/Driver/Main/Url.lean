import Driver.Url
import Driver.Loop
/- per-model driver: ltm_url -/
def main (_ : List String) : IO UInt32 := Driver.runLoop Driver.urlLine
