/- line-protocol handler for model "range" (stub until its model is built) -/
namespace Driver

def rangeLine : List String → String
  | _ => "bad-op"

end Driver
