/- line-protocol handler for model "range" (C15): Range, conditional GET, HTTP dates.
   Same ops and canonical output as harness/inproc/h_range.c. -/
import LtVerif.Model.Range
import LtVerif.Model.RangeWalk
import LtVerif.Model.Cond304
namespace Driver
open LtVerif LtVerif.B LtVerif.Date LtVerif.Range LtVerif.Cond

/-- "~" = header absent, otherwise hex ("-" = empty) -/
def optHex (s : String) : Option (Option Bytes) :=
  if s = "~" then some none else (ofHex s).map some

def putOpt : Option Bytes → String
  | none => "~"
  | some b => toHex b

/-- "m3,M2,f4" -> chunk sizes -/
def layoutSizes (s : String) : Option (List Nat) :=
  if s = "-" then some []
  else (s.splitOn ",").mapM fun t => (t.drop 1).toString.toNat?

def splitSizes : List Nat → Bytes → List Bytes
  | [], _ => []
  | n :: ns, b => b.take n :: splitSizes ns (b.drop n)

def rangeLine : List String → String
  | ["rng", meth, ver, a10, st, fl, lay, rep, rg, ir, et, lm, ct, ar] =>
    match meth.toInt?, ver.toInt?, a10.toNat?, st.toInt?, fl.toNat?, layoutSizes lay, ofHex rep,
          optHex rg, optHex ir, optHex et, optHex lm, optHex ct, optHex ar with
    | some meth, some ver, some a10, some st, some fl, some sizes, some rep,
      some rg, some ir, some et, some lm, some ct, some ar =>
      if sizes.foldl (· + ·) 0 ≠ rep.length then "bad-op" else
      let rq : Req := { method := meth, version := ver, allow10 := a10 ≠ 0, range := rg, ifRange := ir }
      let enc := (fl &&& 2 ≠ 0) || (fl &&& 4 ≠ 0)
      let rs : Resp := { status := st, finished := fl &&& 1 ≠ 0, encoded := enc,
                         body := splitSizes sizes rep, etag := et, lastModified := lm,
                         contentType := ct, acceptRanges := ar }
      let o := rfc7233 rq rs
      s!"{o.status} {putOpt o.contentRange} {putOpt o.contentType} {putOpt o.contentLength} {putOpt o.acceptRanges} {toHex o.body.flatten} 1"
    | _, _, _, _, _, _, _, _, _, _, _, _, _ => "bad-op"
  | ["parse", len, h] =>
    match len.toInt?, ofHex h with
    | some len, some h =>
      if len ≤ 0 then "bad-op" else
      let rs := parse h len
      rs.foldl (fun acc r => acc ++ s!" {r.1}-{r.2}") (toString rs.length)
    | _, _ => "bad-op"
  | ["walk", len, h] =>            -- http_range_parse() as the pointer walk (Model/RangeWalk.lean)
    match len.toInt?, ofHex h with
    | some len, some h =>
      if len ≤ 0 then "bad-op" else
      let rs := parsePtr h len
      rs.foldl (fun acc r => acc ++ s!" {r.1}-{r.2}") (toString rs.length)
    | _, _ => "bad-op"
  | ["pnext", len, h] =>           -- http_range_parse_next(): range (x = ranges[1] == -1) and returned offset
    match len.toInt?, ofHex h with
    | some len, some h =>
      if len ≤ 0 then "bad-op" else
      let (r, e) := parseNext h len
      let off := h.length - e.length
      match r with
      | none => s!"x {off}"
      | some (a, b) => s!"{a}-{b} {off}"
    | _, _ => "bad-op"
  | ["etag", w, e, h] =>
    match w.toNat?, ofHex e, ofHex h with
    | some w, some e, some h => if etagMatches e h (w ≠ 0) then "1" else "0"
    | _, _, _ => "bad-op"
  | ["cond", now, meth, hasr, inm, ims, et, lmp, lm, lmt] =>
    match now.toInt?, meth.toInt?, hasr.toNat?, optHex inm, optHex ims, optHex et, lmp.toNat?,
          optHex lm, lmt.toInt? with
    | some now, some meth, some hasr, some inm, some ims, some et, some _, some lm, some lmt =>
      let rq : CondReq := { method := meth, hasRange := hasr ≠ 0, ifNoneMatch := inm,
                            ifModifiedSince := ims }
      match handleCachable now rq et lm lmt with
      | .goOn => "go"
      | .notModified => "304"
      | .preconditionFailed => "412"
    | _, _, _, _, _, _, _, _, _ => "bad-op"
  | ["ims", now, lmt, h] =>
    match now.toInt?, lmt.toInt?, ofHex h with
    | some now, some lmt, some h => if ifModifiedSince now h lmt then "1" else "0"
    | _, _, _ => "bad-op"
  | ["dparse", now, h] =>
    match now.toInt?, ofHex h with
    | some now, some h =>
      match dateToTime now h with
      | none => "null"
      | some t => toString t
    | _, _ => "bad-op"
  | ["dfmt", t] =>
    match t.toInt? with
    | some t => toHex (timeToStr t)
    | none => "bad-op"
  | ["gmt", t] =>
    match t.toInt? with
    | some t =>
      let (tm, w) := gmtime t
      if tm.year - 1900 > 2147483647 ∨ tm.year - 1900 < -2147483648 then "null"
      else s!"{tm.year} {tm.mon + 1} {tm.mday} {tm.hour} {tm.min} {tm.sec} {w}"
    | none => "bad-op"
  | ["tgm", y, m, d, hh, mm, ss] =>
    match y.toInt?, m.toInt?, d.toInt?, hh.toInt?, mm.toInt?, ss.toInt? with
    | some y, some m, some d, some hh, some mm, some ss =>
      toString (timegm { year := y, mon := m - 1, mday := d, hour := hh, min := mm, sec := ss })
    | _, _, _, _, _, _ => "bad-op"
  | _ => "bad-op"

end Driver
