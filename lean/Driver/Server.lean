/- line-protocol handler for model "server" (stub until its model is built) -/
namespace Driver

def serverLine : List String → String
  | _ => "bad-op"

end Driver
