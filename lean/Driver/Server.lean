/- line-protocol handler for model "server" (C08): reset / recycle / parse-into-recycled-object
   cases of harness/inproc/h_reset.c and connection-level cases of the end-to-end stream -/
import LtVerif.Model.Server
import LtVerif.Model.ErrHandler
import Driver.H1
namespace Driver
open LtVerif LtVerif.B LtVerif.Req

/-- the skeleton of h_reset.c -/
def srvEnv : SrvEnv :=
  { nPlugins := 3, nContexts := 4, nCaptures := 2, resetHooks := [1, 2],
    defaults := { parseopts := 9567, maxRequestFieldSize := 8192, maxKeepAliveRequests := 100,
                  docRoot := ofString "/docroot", serverTag := ofString "ltv" } }

def bufStr (b : Buf) : String := match b with | none => "U" | some v => toHex v

def hlistStr (a : HList) (lc : Bool) : String :=
  if a.isEmpty then "-" else
  String.intercalate "," (a.map fun e => toHex (if lc then e.2.1.map toLower else e.2.1) ++ ":" ++ toHex e.2.2)

def bitsStr (s : List HId) : String :=
  if s.isEmpty then "-" else String.intercalate "," (s.map toString)

def cqStr (q : Cq) : String := s!"{q.data.length}:{q.bytesIn}:{q.bytesOut}"

def b01 (b : Bool) : String := if b then "1" else "0"

def dumpReq (e : SrvEnv) (s : ReqSt) (rc : String) : String :=
  let confDef := ({ s.conf with parseopts := e.defaults.parseopts,
                                maxRequestFieldSize := e.defaults.maxRequestFieldSize,
                                streamRequestBody := e.defaults.streamRequestBody } == e.defaults)
  let sn := match s.serverName with
            | .authority => "auth" | .nameBuf => "buf" | .conf => "other" | .h2r _ => "h2r"
  s!"state={s.state} st={s.httpStatus} x={s.x0}:{s.x1}:{s.x2} m={s.method} v={s.version} hm={b01 s.handlerModule}" ++
  " pctx=" ++ String.join ((List.range (e.nPlugins + 1)).map fun i => b01 (pctxGet s.toReqLive i).isSome) ++
  s!" con=1 dst={b01 s.dstOwn} cm=" ++ String.join (s.condMatch.map fun m => match m with | .null => "n" | .own => "o" | .h2r => "h") ++
  s!" civ={s.conValid} cc=" ++ String.intercalate "," (s.condCache.map fun c => s!"{c.result}:{c.localResult}") ++
  s!" conf={if confDef then "def" else "mod"} po={s.conf.parseopts} mrfs={s.conf.maxRequestFieldSize} srb={s.conf.streamRequestBody}" ++
  s!" qhl={s.rqstHeaderLen} qht={bitsStr s.rqstHtags} qh={hlistStr s.rqstHeaders true}" ++
  s!" usch={bufStr s.uriScheme} uauth={bufStr s.uriAuthority} upath={bufStr s.uriPath} uq={bufStr s.uriQuery}" ++
  s!" pp={bufStr s.physPath} pb={bufStr s.physBasedir} pd={bufStr s.physDocRoot} pr={bufStr s.physRelPath}" ++
  s!" env={hlistStr s.env false} rbl={s.reqbodyLength} sp={s.respBodyScratchpad}" ++
  " host=" ++ (match s.httpHost with | some h => toHex h | none => "none") ++
  s!" sn={sn} tgt={bufStr s.target} to={bufStr s.targetOrig} pi={bufStr s.pathinfo} snb={bufStr s.serverNameBuf}" ++
  s!" rhl={s.respHeaderLen} rht={bitsStr s.respHtags} rh={hlistStr s.respHeaders false}" ++
  s!" fin={b01 s.respBodyFinished} started={b01 s.respBodyStarted} chunked={b01 s.respSendChunked}" ++
  s!" dechunk={b01 s.respDecodeChunked} rep={b01 s.respHeaderRepeated} loops={s.loopsPerRequest} ka={s.keepAlive}" ++
  s!" async={b01 s.asyncCallback} tmp=1 gw={b01 s.gwDechunk} ehs={s.errorHandlerSavedStatus}" ++
  s!" wq={cqStr s.writeQueue} rdq={cqStr s.readQueue} bq={cqStr s.reqbodyQueue} cap=2 ext={b01 s.h2ConnectExt} rc={rc}"

/-- "khex:vhex,khex:vhex" -/
def kvList (t : String) : Option (List (Bytes × Bytes)) :=
  if t = "-" then some [] else
  (t.splitOn ",").mapM fun e =>
    match e.splitOn ":" with
    | [k, v] => match ofHex k, ofHex v with
                | some kb, some vb => some (kb, vb)
                | _, _ => none
    | _ => none

def splitEq (t : String) : Option (String × String) :=
  match t.splitOn "=" with
  | k :: rest@(_ :: _) => some (k, String.intercalate "=" rest)
  | _ => none

structure World where
  r : ReqSt
  h2r : ReqSt
  skip : Bool := false      -- dirtying request head was rejected

def setPhys (s : ReqSt) (v : Bytes) : ReqSt := { s with physPath := some v, physPathPtr := true }

/-- one spec token of h_reset.c; `strict` = a rejected dirtying head makes the case "skip" -/
def applySpec (w : World) (tok : String) : Option World :=
  match splitEq tok with
  | none => none
  | some (k, v) =>
    let r := w.r
    let setR (r' : ReqSt) : Option World := some { w with r := r' }
    let num := v.toInt?
    let bytes := ofHex v
    match k with
    | "parse1" | "parse2" =>
      match v.splitOn ":" with
      | o :: rest@(_ :: _) =>
        match o.toNat? with
        | none => none
        | some on =>
          let arg := String.intercalate ":" rest
          let r1 := { r with conf := { r.conf with parseopts := on } }
          let res : Option (IntoRes ReqSt) :=
            if k = "parse1" then (ofHex arg).map (parseIntoH1 r1)
            else (kvList arg).map fun fs => parseIntoH2 { r1 with version := 2 } fs true
          match res with
          | some (.done r2) => some { w with r := r2, skip := w.skip || r2.httpStatus ≠ 0 }
          | some _ =>
            -- not a complete head: the harness records 400
            some { w with r := { r1 with httpStatus := 400, keepAlive := 0 }, skip := true }
          | none => none
      | _ => none
    | "m" => num.bind fun n => setR { r with method := n }
    | "v" => num.bind fun n => setR { r with version := n }
    | "st" => num.bind fun n => setR { r with httpStatus := n }
    | "state" => num.bind fun n => setR { r with state := n.toNat }
    | "hm" => num.bind fun n => setR { r with handlerModule := n ≠ 0 }
    | "uc" => setR (r.onLive fun l => (List.range srvEnv.nPlugins).foldl (fun l i => pctxSet l (i + 1) []) l)
    | "qh" => (kvList v).bind fun l => setR (r.onLive fun c => l.foldl (fun s kv => rqstSet s (hid (kv.1.map toLower)) kv.1 kv.2) c)
    | "host" => bytes.bind fun b =>
        setR (r.onLive fun c =>
          let s := rqstSet c idHost (ofString "Host") b
          { s with httpHost := rqstGet s idHost (ofString "Host") })
    | "rbl" => num.bind fun n => setR { r with reqbodyLength := n }
    | "qhl" => num.bind fun n => setR { r with rqstHeaderLen := n.toNat }
    | "tgt" => bytes.bind fun b => setR { r with target := some b }
    | "to" => bytes.bind fun b => setR { r with targetOrig := some b }
    | "usch" => bytes.bind fun b => setR { r with uriScheme := some b }
    | "uauth" => bytes.bind fun b => setR { r with uriAuthority := some b }
    | "upath" => bytes.bind fun b => setR { r with uriPath := some b }
    | "uq" => bytes.bind fun b => setR { r with uriQuery := some b }
    | "pp" => bytes.bind fun b => setR (setPhys r b)
    | "pbig" => setR { r with physPath := some (r.physPath.getD (ofString "/big")), physPathPtr := true,
                              physPathBig := true }
    | "pb" => bytes.bind fun b => setR { r with physBasedir := some b }
    | "pd" => bytes.bind fun b => setR { r with physDocRoot := some b }
    | "pr" => bytes.bind fun b => setR { r with physRelPath := some b }
    | "pi" => bytes.bind fun b => setR { r with pathinfo := some b }
    | "snb" => bytes.bind fun b => setR { r with serverNameBuf := some b }
    | "sn" => setR { r with serverName := if v = "buf" then .nameBuf else .authority }
    | "env" => (kvList v).bind fun l => setR (r.onLive fun c => l.foldl (fun s kv => envSet s kv.1 kv.2) c)
    | "rh" => (kvList v).bind fun l => setR (r.onLive fun c => l.foldl (fun s kv => respSet s (hid (kv.1.map toLower)) kv.1 kv.2) c)
    | "rhi" => (kvList v).bind fun l => setR (r.onLive fun c => l.foldl (fun s kv => respInsert s (hid (kv.1.map toLower)) kv.1 kv.2) c)
    | "wq" => bytes.bind fun b => setR { r with writeQueue := r.writeQueue.append b }
    | "bq" => bytes.bind fun b => setR { r with reqbodyQueue := r.reqbodyQueue.append b }
    | "rdq" => bytes.bind fun b => setR { r with readQueue := r.readQueue.append b }
    | "fin" => num.bind fun n => setR { r with respBodyFinished := n ≠ 0 }
    | "started" => num.bind fun n => setR { r with respBodyStarted := n ≠ 0 }
    | "chunked" => num.bind fun n => setR { r with respSendChunked := n ≠ 0 }
    | "dechunk" => num.bind fun n => setR { r with respDecodeChunked := n ≠ 0 }
    | "rep" => num.bind fun n => setR { r with respHeaderRepeated := n ≠ 0 }
    | "gw" => setR { r with gwDechunk := true }
    | "loops" => num.bind fun n => setR { r with loopsPerRequest := n.toNat }
    | "ka" => num.bind fun n => setR { r with keepAlive := n }
    | "async" => num.bind fun n => setR { r with asyncCallback := n ≠ 0 }
    | "ehs" => num.bind fun n => setR { r with errorHandlerSavedStatus := n }
    | "ehm" => num.bind fun n => setR { r with errorHandlerSavedMethod := n }
    | "ext" => num.bind fun n => setR { r with h2ConnectExt := n ≠ 0 }
    | "sp" => num.bind fun n => setR { r with respBodyScratchpad := n }
    | "rhl" => num.bind fun n => setR { r with respHeaderLen := n.toNat }
    | "tec" => num.bind fun n => setR { r with x2 := n }
    | "civ" => num.bind fun n => setR { r with conValid := n.toNat }
    | "cc" | "h2r.cc" =>
      match (v.splitOn ":").map String.toInt? with
      | [some i, some a, some b] =>
        let upd (s : ReqSt) : ReqSt :=
          if i ≥ 0 ∧ i.toNat < s.condCache.length then
            { s with condCache := s.condCache.set i.toNat { result := a, localResult := b } } else s
        if k = "cc" then setR (upd r) else some { w with h2r := upd w.h2r }
      | _ => none
    | "po" => num.bind fun n => setR { r with conf := { r.conf with parseopts := n.toNat } }
    | "mrfs" => num.bind fun n => setR { r with conf := { r.conf with maxRequestFieldSize := n.toNat } }
    | "srb" => num.bind fun n => setR { r with conf := { r.conf with streamRequestBody := n.toNat } }
    | "h2r.po" => num.bind fun n => some { w with h2r := { w.h2r with conf := { w.h2r.conf with parseopts := n.toNat } } }
    | "h2r.civ" => num.bind fun n => some { w with h2r := { w.h2r with conValid := n.toNat } }
    | "dst" => num.bind fun n => setR { r with dstOwn := n ≠ 0 }
    | "cm" => num.bind fun n => setR { r with condMatch := r.condMatch.set n.toNat .own }
    | "h2r.cm" => num.bind fun n => some { w with h2r := { w.h2r with condMatch := w.h2r.condMatch.set n.toNat .own } }
    | "h2r.sn" => some { w with h2r := { w.h2r with serverNameBuf := some (ofString "sni"), serverName := .nameBuf } }
    | _ => none

def isPooled (op : String) : Bool := op = "release" || op = "h2init"

def runOp (op : String) (w : World) : Option ReqSt :=
  let e := srvEnv
  match op with
  | "none" => some w.r
  | "reset" | "conreset" => some (requestReset hdrIds e w.r)
  | "kaend" =>
    let r3 := requestReset hdrIds e w.r
    some { r3 with x0 := r3.writeQueue.bytesOut, x1 := r3.readQueue.bytesIn, state := 1 }
  | "ex" => some (requestResetEx w.r)
  | "resetex" => some (requestResetEx (requestReset hdrIds e w.r))
  | "respreset" => some (responseReset hdrIds w.r)
  | "bodyclear0" => some (w.r.onLive (bodyClear hdrIds · false))
  | "bodyclear1" => some (w.r.onLive (bodyClear hdrIds · true))
  | "release" => some (requestRelease hdrIds e w.r)
  | "h2init" => some (h2InitStream w.h2r 65535 (requestRelease hdrIds e w.r))
  | _ => none

def opResets (op : String) : Bool := op ∈ ["reset", "conreset", "resetex", "release", "h2init", "kaend"]

def freshWorld : World := { r := ReqSt.init srvEnv, h2r := ReqSt.init srvEnv }

/-- the parsed-request line of h_reset.c (print_parsed) -/
def parsedStr (s : ReqSt) : String :=
  if s.httpStatus ≠ 0 then
    s!"err {s.httpStatus}" ++ (if s.keepAlive ≠ 0 || s.reqbodyLength ≠ 0 then " NOT-CLOSED" else "") ++
      s!" m={s.method} v={s.version}"
  else
    "ok v" ++ toString s.version ++ " ka" ++ (if s.keepAlive ≠ 0 then "1" else "0") ++
    " m=" ++ toHex (methodName s.method) ++ " t=" ++ toHex s.target.bytes ++ " p=" ++ toHex s.uriPath.bytes ++
    " q=" ++ toHex s.uriQuery.bytes ++ " h=" ++ (match s.httpHost with | some h => toHex h | none => "none") ++
    " len=" ++ toString s.reqbodyLength ++
    " hdrs=" ++ hdrsCanon (s.rqstHeaders.map fun e => (e.2.1.map toLower, e.2.2)) ++
    " to=" ++ toHex s.targetOrig.bytes ++ " a=" ++ toHex s.uriAuthority.bytes ++ " s=" ++ toHex s.uriScheme.bytes ++
    " ht=" ++ bitsStr s.rqstHtags ++ " ext=" ++ b01 s.h2ConnectExt

def parseProbe (h2 : Bool) (opts : Nat) (s : ReqSt) (probe : String) : Option String :=
  let s := { s with conf := { s.conf with parseopts := opts } }
  if h2 then
    (kvList probe).map fun fs =>
      match parseIntoH2 { s with version := 2 } fs true with
      | .done r => parsedStr r
      | .skipV6 => "skip-v6"
      | _ => s!"err 400 m={s.method} v=2"
  else
    (ofHex probe).map fun b =>
      match parseIntoH1 s b with
      | .done r => parsedStr r
      | .skipV6 => "skip-v6"
      | _ => s!"err 400 m={s.method} v={s.version}"     -- not a complete head: the harness records 400


/-! ### connection-level cases (end-to-end stream) -/

def hexParts (t : String) : Option (List Bytes) := (t.splitOn ":").mapM ofHex

/-- site / configuration tokens:
      n=<path>:<f|d>:<ctype>:<content>:<etag>   idx=<name>   deny=<suffix>   excl=<ext>
      sc=<u|h|q|m>;<arg1>;<arg2>;<extra k:v list or *>;<range 0|1|*>;<maxka or *>;<docroot or *>[;<http11 0|1|*>]
      root=<docroot>  maxka=<n>  gextra=<k:v list>  sink=<ext>  sinkbody=<bytes>  sname=<server.name>
      maxreq=<server.max-request-size, KB>
    all string parts hex-encoded -/
structure SiteCfg where
  site : Site := {}
  env : SrvEnv := { nPlugins := 2, nContexts := 16,
                    defaults := { parseopts := 9567, maxRequestFieldSize := 8192, maxKeepAliveRequests := 1000 } }

def siteTok (c : SiteCfg) (tok : String) : Option SiteCfg :=
  match splitEq tok with
  | none => none
  | some (k, v) =>
    match k with
    | "n" =>
      match v.splitOn ":" with
      | [p, kind, ct, content, etag] =>
        match ofHex p, ofHex ct, ofHex content, ofHex etag with
        | some pb, some ctb, some cb, some eb =>
          let node := if kind = "d" then FsNode.dir else FsNode.file ctb cb eb
          some { c with site := { c.site with nodes := c.site.nodes ++ [(pb, node)] } }
        | _, _, _, _ => none
      | _ => none
    | "idx" => (ofHex v).map fun b => { c with site := { c.site with indexNames := c.site.indexNames ++ [b] } }
    | "deny" => (ofHex v).map fun b => { c with site := { c.site with denySuffix := c.site.denySuffix ++ [b] } }
    | "excl" => (ofHex v).map fun b => { c with site := { c.site with excludeExt := c.site.excludeExt ++ [b] } }
    | "root" => (ofHex v).map fun b => { c with env := { c.env with defaults := { c.env.defaults with docRoot := b } } }
    | "gextra" => (kvList v).map fun l => { c with env := { c.env with defaults := { c.env.defaults with extra := l } } }
    | "maxka" => v.toNat?.map fun n => { c with env := { c.env with defaults := { c.env.defaults with maxKeepAliveRequests := n } } }
    | "sink" => (ofHex v).map fun b => { c with site := { c.site with sinkExt := c.site.sinkExt ++ [b] } }
    | "sinkbody" => (ofHex v).map fun b => { c with site := { c.site with sinkBody := b } }
    | "sname" => (ofHex v).map fun b => { c with env := { c.env with defaults := { c.env.defaults with serverName := some b } } }
    | "maxreq" => v.toNat?.map fun n => { c with env := { c.env with defaults := { c.env.defaults with maxRequestSize := n } } }
    | "sc" =>
      let parts := v.splitOn ";"
      let (parts, h11) : List String × Option Bool :=
        match parts with
        | [a, b, c', d, e', f, g, h] => ([a, b, c', d, e', f, g], if h = "*" then none else some (h = "1"))
        | _ => (parts, none)
      match parts with
      | [kind, a1, a2, extra, rng, mka, root] =>
        match ofHex a1, ofHex a2 with
        | some b1, some b2 =>
          let cond : Cond := if kind = "u" then .urlPrefix b1 else if kind = "h" then .hostEq b1
                             else if kind = "m" then .methodIs b1 else .headerEq b1 b2
          let ex : Option (Option (List (Bytes × Bytes))) :=
            if extra = "*" then some none else (kvList extra).map some
          let rt : Option (Option Bytes) := if root = "*" then some none else (ofHex root).map some
          match ex, rt with
          | some ex, some rt =>
            let sc : Scope := { cond := cond, extra := ex,
                                rangeRequests := if rng = "*" then none else some (rng = "1"),
                                maxKeepAliveRequests := if mka = "*" then none else mka.toNat?,
                                docRoot := rt, allowHttp11 := h11 }
            some { c with site := { c.site with scopes := c.site.scopes ++ [sc] } }
          | _, _ => none
        | _, _ => none
      | _ => none
    | _ => none

def outStr (o : Option Out) : String :=
  match o with
  | none => "none"
  | some o =>
    let hs := (o.core.2.1.map fun kv => toHex kv.1 ++ "=" ++ toHex kv.2).toArray.qsort (· < ·) |>.toList
    s!"{o.status},{if o.keepAlive then 1 else 0},{toHex o.body}," ++
      (if hs.isEmpty then "-" else String.intercalate ";" hs)

/-- conn <1|2> <site tokens...> -- <message> <message> ...
    h1 message = hex request head;  h2 message = <endStream 0|1>:<k:v,...> -/
def connLine (ver : String) (rest : List String) : String :=
  match rest.span (· ≠ "--") with
  | (cfgToks, _ :: msgs) =>
    match cfgToks.foldlM siteTok {} with
    | none => "bad-op"
    | some cfg =>
      if ver = "2" then
        let ms : Option (List (List (Bytes × Bytes) × Bool)) := msgs.mapM fun m =>
          match m.splitOn "/" with
          | [es, l] => (kvList l).map fun fs => (fs, es = "1")
          | _ => none
        match ms with
        | none => "bad-op"
        | some ms =>
          String.intercalate " | " ((h2Run cfg.site cfg.env (ReqSt.init cfg.env) 65535 [] ms).map outStr)
      else
        match msgs.mapM ofHex with
        | none => "bad-op"
        | some ms => String.intercalate " | " ((h1Run cfg.site cfg.env (Conn.fresh cfg.env) ms).map outStr)
  | _ => "bad-op"

/-! ### error-handler bookkeeping (h_errh.c) -/
open LtVerif.ErrH in
def ehDump (s : EhSt) (tail : Int) : String :=
  let sm : Int := if s.savedStatus > 0 && s.savedStatus < 65535 then s.savedMethod else -9
  let rs := match s.redirectStatus with | some v => toString v | none => "U"
  s!"{s.status} {s.method} {s.version} {s.savedStatus} {sm} {b01 s.handlerModule} {s.reqbodyLength} {s.bodyIn} " ++
  s!"{s.keepAlive} {s.target} {rs} {s.resetCalls} {b01 s.upgrade}{b01 s.upgrade} {b01 s.h2ConnectExt} " ++
  s!"{b01 s.physPath} {b01 s.wwwAuth}{b01 s.wwwAuth} {b01 s.respOther} {s.bodyLen} {b01 s.respBodyFinished} | {tail}"

open LtVerif.ErrH in
def ehLine (toks : List String) : String :=
  match toks.take 19 |>.mapM String.toInt?, toks.drop 19 with
  | some [eh, eh4, ic, st, me, ve, sv, sm, hm, rbl, bi, ka, up, h2, pp, ww, ro, bl, rbf], passes =>
    let c : Cfg := { errorHandler := eh ≠ 0, errorHandler404 := eh4 ≠ 0, errorIntercept := ic ≠ 0 }
    let s : EhSt :=
      { status := st,
        method := me,
        version := ve,
        savedStatus := sv,
        savedMethod := sm,
        handlerModule := hm ≠ 0,
        reqbodyLength := rbl,
        bodyIn := bi,
        keepAlive := ka,
        target := 0,
        redirectStatus := none,
        resetCalls := 0,
        upgrade := up ≠ 0,
        h2ConnectExt := h2 ≠ 0,
        physPath := pp ≠ 0,
        wwwAuth := ww ≠ 0,
        respOther := ro ≠ 0,
        bodyLen := bl.toNat,
        respBodyFinished := rbf ≠ 0 }
    if passes.isEmpty then
      let r := hasErrorHandler c s
      ehDump r.1 (if r.2 then 1 else 0)
    else
      let script : List (Int × Bool) := passes.map fun p =>
        match p.splitOn "," with
        | [a, b] => (a.toInt?.getD 0, b ≠ "0")
        | _ => (0, false)
      let prep : Nat → EhSt → EhSt := fun k s =>
        match script[k]? with
        | some (a, b) => { s with status := a, handlerModule := b }
        | none => s
      match handle c prep script.length 0 s with
      | some (r, k) => ehDump r k
      | none => "fuel"
  | _, _ => "bad-op"

def serverLine : List String → String
  | "eh" :: rest => ehLine rest
  | "conn" :: ver :: rest => connLine ver rest
  | "rst" :: op :: specs =>
    match specs.foldlM applySpec freshWorld with
    | none => "bad-op"
    | some w =>
      if w.skip then "skip" else
      match runOp op w with
      | none => "bad-op"
      | some r => (if isPooled op then "same=1 " else "") ++ dumpReq srvEnv r (if opResets op then "110" else "000")
  | "rp" :: proto :: opts :: op :: rest =>
    match opts.toNat?, rest.span (· ≠ ";") with
    | some o, (specs, [_, probe]) =>
      let h2 := proto = "h2"
      -- A: fresh object (for h2init: the first stream of a fresh connection)
      let a0 : ReqSt := if op = "h2init" then h2InitStream freshWorld.h2r 65535 (requestRelease hdrIds srvEnv freshWorld.r)
                        else freshWorld.r
      match parseProbe h2 o a0 probe, specs.foldlM applySpec freshWorld with
      | some a, some w =>
        match runOp op w with
        | some r =>
          match parseProbe h2 o r probe with
          | some b => a ++ " | " ++ b
          | none => "bad-op"
        | none => a ++ " | bad-op"
      | _, _ => "bad-op"
    | _, _ => "bad-op"
  | _ => "bad-op"

end Driver
