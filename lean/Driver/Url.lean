import LtVerif.Model.Burl
import LtVerif.Model.PathPtr
import LtVerif.Model.Docroot
namespace Driver
open LtVerif LtVerif.B

def withHex (s : String) (f : Bytes → String) : String :=
  match ofHex s with
  | some b => f b
  | none => "bad-op"

/-- all tokens hex-decoded, or none -/
def hexAll : List String → Option (List Bytes)
  | [] => some []
  | s :: rest =>
    match ofHex s, hexAll rest with
    | some b, some bs => some (b :: bs)
    | _, _ => none

/-- "~" = absent -/
def hexOpt (s : String) : Option (Option Bytes) :=
  if s = "~" then some none else (ofHex s).map some

def pairsOf : List Bytes → List (Bytes × Bytes)
  | k :: v :: rest => (k, v) :: pairsOf rest
  | _ => []

def optHex : Option Bytes → String
  | some b => toHex b
  | none => "~"

/-- deterministic stand-in for the filesystem used by the in-process vhost ops -/
def isdirMode (mode : String) (p : Bytes) : Bool :=
  match mode with
  | "0" => false
  | "1" => true
  | "2" => p.length % 2 == 0
  | _ => p.length % 3 == 0

def fsKindOf (s : String) : FsKind :=
  match s with
  | "d" => .dir
  | "f" => .file
  | "l" => .link
  | _ => .missing

/-- "hexpath:kind" tokens -/
def fsOfTokens (toks : List String) : Bytes → FsKind :=
  let tbl : List (Bytes × FsKind) := toks.filterMap fun t =>
    match t.splitOn ":" with
    | [h, k] => (ofHex h).map fun b => (b, fsKindOf k)
    | _ => none
  fun p => ((tbl.find? (·.1 = p)).map (·.2)).getD .missing

def showAlias : AliasRes → String
  | .forbidden => "403"
  | .go p b => "go " ++ toHex p ++ " " ++ toHex b

def showXsf : XsfRes → String
  | .status st => "st " ++ toString st
  | .send p => "send " ++ toHex p

/-- vhost specification tokens of the `cand` / `serve` ops:
    "none" | "sv" sroot defhost droot | "ev" pattern ; returns the config and the remaining tokens -/
def parseVhost : List String → Option (Option VhostCfg × List String)
  | "none" :: rest => some (some .none, rest)
  | "sv" :: sr :: dh :: dr :: rest =>
    match ofHex sr, hexOpt dh, hexOpt dr with
    | some sroot, some defhost, some droot => some (some (.simple sroot defhost droot), rest)
    | _, _, _ => none
  | "ev" :: pat :: rest =>
    match ofHex pat with
    | some p =>
      (match evParsePattern p with
       | some pieces => some (some (.evhost pieces), rest)
       | none => some (none, rest))
    | none => none
  | _ => none

/-- n hex tokens, then the rest -/
def takeCounted (toks : List String) : Option (List Bytes × List String) :=
  match toks with
  | n :: rest =>
    match n.toNat? with
    | some k =>
      if k ≤ rest.length then (hexAll (rest.take k)).map fun bs => (bs, rest.drop k) else none
    | none => none
  | [] => none

def docrootLine : List String → Option String
  | ["hostpol", st, h] => some <| withHex h fun b =>
    match hostPolicyPlain (st == "1") b with
    | none => "rej"
    | some r => "ok " ++ toHex r
  | ["phys", lc, d, u] =>
    match ofHex d, ofHex u with
    | some d, some u => some (toHex (physicalPath (lc == "1") d u))
    | _, _ => some "bad-op"
  | "alias" :: lc :: bd :: p :: kv =>
    match ofHex bd, ofHex p, hexAll kv with
    | some bd, some p, some kv => some (showAlias (aliasRemap (lc == "1") (pairsOf kv) bd p))
    | _, _, _ => some "bad-op"
  | ["svhost", st, mode, sr, dh, dr, a] =>
    match ofHex sr, hexOpt dh, hexOpt dr, ofHex a with
    | some sr, some dh, some dr, some a =>
      some (match svhostDocroot (st == "1") (isdirMode mode) sr dh dr a with
            | none => "none"
            | some (d, sn) => "ok " ++ toHex d ++ " " ++ optHex sn)
    | _, _, _, _ => some "bad-op"
  | ["evhost", st, mode, pat, a] =>
    match ofHex pat, ofHex a with
    | some pat, some a =>
      some (match evParsePattern pat with
            | none => "badpat"
            | some pieces =>
              match evhostDocroot (st == "1") (isdirMode mode) pieces a with
              | none => "none"
              | some d => "ok " ++ toHex d)
    | _, _ => some "bad-op"
  | ["evpath", pat, a] =>
    match ofHex pat, ofHex a with
    | some pat, some a =>
      some (match evParsePattern pat with
            | none => "badpat"
            | some pieces => toHex (evBuildPath pieces a))
    | _, _ => some "bad-op"
  | ["userdir", lc, lh, bp, up, u] =>
    match ofHex bp, ofHex up, ofHex u with
    | some bp, some up, some u =>
      let l := lc == "1"
      some (match userdirRemap l (lh == "1") bp up u (if l then lowerBytes u else u) with
            | .pass => "pass"
            | .redirect => "301"
            | .go p b => "go " ++ toHex p ++ " " ++ toHex b)
    | _, _, _ => some "bad-op"
  | "xsf" :: lc :: raw :: xd =>
    match ofHex raw, hexAll xd with
    | some raw, some xd => some (showXsf (xsendfilePath (lc == "1") xd raw))
    | _, _ => some "bad-op"
  | "xsf2" :: lc :: raw :: xd =>
    match ofHex raw, hexAll xd with
    | some raw, some xd => some (showXsf (xsendfile2First (lc == "1") xd raw))
    | _, _ => some "bad-op"
  | "xsfs" :: lc :: st :: raw :: xd =>
    match st.toNat?, ofHex raw, hexAll xd with
    | some st, some raw, some xd => some (showXsf (xsendfileAt (lc == "1") xd st raw))
    | _, _, _ => some "bad-op"
  | "xsfs2" :: lc :: st :: raw :: xd =>
    match st.toNat?, ofHex raw, hexAll xd with
    | some st, some raw, some xd => some (showXsf (xsendfile2At (lc == "1") xd st raw))
    | _, _, _ => some "bad-op"
  | ["davdst", lc, sch, au, dr, sr, sp, de] =>
    match hexAll [sch, au, dr, sr, sp, de] with
    | some [sch, au, dr, sr, sp, de] =>
      some (match davDestination (lc == "1") sch au dr sr sp de with
            | .status st => "st " ++ toString st
            | .ok r p => "ok " ++ toHex r ++ " " ++ toHex p)
    | _ => some "bad-op"
  | "symwalk" :: name :: fs =>
    match ofHex name with
    | some name => some (toString (symWalk (fsOfTokens fs) name))
    | none => some "bad-op"
  | "idxfile" :: dr :: ph :: rest =>
    -- idxfile <docroot> <phys> <k> <names...> <m> <existing paths...>
    match ofHex dr, ofHex ph, takeCounted rest with
    | some dr, some ph, some (names, rest) =>
      (match takeCounted rest with
       | some (ex, []) => some ("go " ++ toHex (indexResolve (fun p => ex.contains p) dr ph names))
       | _ => some "bad-op")
    | _, _, _ => some "bad-op"
  | "idxserve" :: fo :: dr :: ph :: rest =>
    -- idxserve <follow> <docroot> <phys> <k> <names...> <m> <existing...> <path:kind ...>
    match ofHex dr, ofHex ph, takeCounted rest with
    | some dr, some ph, some (names, rest) =>
      (match takeCounted rest with
       | some (ex, fsToks) =>
         let final := indexResolve (fun p => ex.contains p) dr ph names
         some (toHex final ++ " " ++ (if staticServed (fo == "1") (fsOfTokens fsToks) ph final then "1" else "0"))
       | none => some "bad-op")
    | _, _, _ => some "bad-op"
  | "cand" :: rest =>
    -- candidate doc_root directories the vhost module would stat: cand <vhost...> <parseopts> <raw host>
    match parseVhost rest with
    | some (some vh, [fl, a]) =>
      (match fl.toNat?, ofHex a with
       | some f, some raw =>
         let o : Opts := ⟨f⟩
         if raw.head? = some 91 && o.hostNormalize then some "skip" else
         match authorityOf o 80 raw with
         | none => some "rej"
         | some a =>
         some (match vh with
               | .none => "-"
               | .simple sr dh dr =>
                 (if svhostGuard o.hostStrict a then toHex (svhostPath sr (some a) dr) else "~") ++ " " ++
                   toHex (svhostPath sr dh dr)
               | .evhost pieces =>
                 if evhostGuard o.hostStrict a then toHex (evBuildPath pieces a) else "~")
       | _, _ => some "bad-op")
    | some (none, _) => some "badpat"
    | _ => some "bad-op"
  | "serve" :: fl :: lc :: dr :: rest =>
    -- serve <parseopts> <lc> <docroot> <vhost...> <ndirs> <dirs...> <nalias*2> <k v ...> <authority> <target>
    match fl.toNat?, ofHex dr, parseVhost rest with
    | some f, some dr, some (vh?, rest) =>
      match vh? with
      | none => some "badpat"
      | some vh =>
        match takeCounted rest with
        | some (dirs, rest) =>
          match takeCounted rest with
          | some (kv, [a, t]) =>
            (match ofHex a, ofHex t with
             | some a, some t =>
               if a.head? = some 91 && (Opts.mk f).hostNormalize then some "skip" else
               some (match servePath ⟨f⟩ (lc == "1") dr vh (fun p => dirs.contains p) (pairsOf kv) a t with
                     | .reject st => "rej " ++ toString st
                     | .path p d => "path " ++ toHex p ++ " " ++ toHex d)
             | _, _ => some "bad-op")
          | _ => some "bad-op"
        | none => some "bad-op"
    | _, _, _ => some "bad-op"
  | "request" :: fl :: sp :: lc :: dr :: rest =>
    -- request <parseopts> <special> <lc> <docroot> <vhost...> <ndirs> <dirs...> <nalias*2> <k v ...>
    --         <userdir: ~ | lh basepath path> <nindex> <names...> <nexists> <paths...> <raw host> <target>
    match fl.toNat?, ofHex dr, parseVhost rest with
    | some f, some dr, some (vh?, rest) =>
      match vh? with
      | none => some "badpat"
      | some vh =>
        match takeCounted rest with
        | some (dirs, rest) =>
          match takeCounted rest with
          | some (kv, rest) =>
            let ud? : Option (Option UserdirCfg × List String) :=
              match rest with
              | "~" :: r => some (none, r)
              | lh :: bp :: up :: r =>
                (match ofHex bp, ofHex up with
                 | some bp, some up => some (some ⟨lh == "1", bp, up⟩, r)
                 | _, _ => none)
              | _ => none
            match ud? with
            | some (ud, rest) =>
              match takeCounted rest with
              | some (names, rest) =>
                match takeCounted rest with
                | some (ex, [a, t]) =>
                  (match ofHex a, ofHex t with
                   | some a, some t =>
                     if a.head? = some 91 && (Opts.mk f).hostNormalize && sp != "1" then some "skip" else
                     let cfg : ServeCfg := { lc := lc == "1", docroot := dr, vh := vh, aliases := pairsOf kv,
                                             userdir := ud, index := names }
                     some (match serveRequest ⟨f⟩ cfg (fun p => dirs.contains p) (fun p => ex.contains p)
                                   (sp == "1") a t with
                           | .answered st => "ans " ++ toString st
                           | .file p d => "file " ++ toHex p ++ " " ++ toHex d)
                   | _, _ => some "bad-op")
                | _ => some "bad-op"
              | none => some "bad-op"
            | none => some "bad-op"
          | none => some "bad-op"
        | none => some "bad-op"
    | _, _, _ => some "bad-op"
  | _ => none

def urlLine (toks : List String) : String :=
  match docrootLine toks with
  | some r => r
  | none =>
  match toks with
  -- the C is compared with the cursor-level transcriptions (Model/PathPtr.lean); Proofs/PathPtr.lean
  -- proves them equal to the specifications `pathSimplify` / `urldecodePath` (NUL-free input)
  | ["dec", h] => withHex h fun b => toHex (urldecodePathC b)
  | ["simp", h] => withHex h fun b => toHex (pathSimplifyPtr b)
  | ["decsimp", h] => withHex h fun b => toHex (pathSimplifyPtr (urldecodePathC b))
  | ["norm", fl, h] => withHex h fun b =>
    match fl.toNat? with
    | none => "bad-op"
    | some f =>
      match burlNormalize ⟨f⟩ b with
      | none => "rej"
      | some (u, qs) => (match qs with | some q => toString q | none => "-1") ++ " " ++ toHex u
  | ["target", fl, sp, h] => withHex h fun b =>
    match fl.toNat? with
    | none => "bad-op"
    | some f =>
      match parseTarget ⟨f⟩ (sp == "1") b with
      | .error e => toString e
      | .ok t => "ok " ++ toHex t.target ++ " " ++ toHex t.path ++ " " ++ toHex t.query
  | _ => "bad-op"

end Driver
