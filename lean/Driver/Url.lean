import LtVerif.Model.Burl
namespace Driver
open LtVerif LtVerif.B

def withHex (s : String) (f : Bytes → String) : String :=
  match ofHex s with
  | some b => f b
  | none => "bad-op"

def urlLine : List String → String
  | ["dec", h] => withHex h fun b => toHex (urldecodePath b)
  | ["simp", h] => withHex h fun b => toHex (pathSimplify b)
  | ["decsimp", h] => withHex h fun b => toHex (pathSimplify (urldecodePath b))
  | ["norm", fl, h] => withHex h fun b =>
    match fl.toNat? with
    | none => "bad-op"
    | some f =>
      match burlNormalize ⟨f⟩ b with
      | none => "rej"
      | some (u, qs) => (match qs with | some q => toString q | none => "-1") ++ " " ++ toHex u
  | ["target", fl, sp, h] => withHex h fun b =>
    match fl.toNat? with
    | none => "bad-op"
    | some f =>
      match parseTarget ⟨f⟩ (sp == "1") b with
      | .error e => toString e
      | .ok t => "ok " ++ toHex t.target ++ " " ++ toHex t.path ++ " " ++ toHex t.query
  | _ => "bad-op"

end Driver
