-- Root of the `LtVerif` library: models and property theorems.
import LtVerif.Model.Basic
import LtVerif.Model.Path
