/-
  Model of the access decisions lighttpd takes on the canonical URL path:

    src/buffer.c   buffer_eq_icase_ssn()                     -> `eqIcaseByte`, `eqIcaseN`
    src/array.c    array_match_value_suffix{,_nc}()          -> `matchValueSuffix`
                   array_match_value_prefix{,_nc}()          -> `matchValuePrefix`
                   array_match_key_prefix{,_nc}()            -> `matchKeyPrefix`
                   array_match_key_suffix{,_nc}()            -> `matchKeySuffix`
                   array_match_path_or_ext()                 -> `matchPathOrExt`
    src/mod_access.c      mod_access_check()                 -> `accessCheck`
    src/mod_auth.c        mod_auth_uri_handler() rule lookup -> `authRule`
    src/mod_staticfile.c  exclude-extensions test, disable-pathinfo -> `staticExclude`, `Block.noPathinfo`
    src/configfile-glue.c config_check_cond_nocache_eval()   -> `Scope.holds`
                          (url / host / remoteip conditions; `==` on the host is C14's `Cond.eqLike`;
                           the cache and its resets are C14's)
    src/response.c  http_response_physical_path_check(),
                    http_response_physical_pathinfo()        -> `statFull`, `pathinfoSplit`, `resolve`
                    http_response_prepare()                  -> `serve` (order of the hooks:
                       uri_raw [mod_extforward], uri_clean [mod_access, mod_auth],
                       physical path check + path-info split + condition reset for the URL,
                       subrequest_start [mod_access again, mod_staticfile])

  The file system below the document root is abstract: `Fs` maps a path to the kind of
  object found there.  Request-target canonicalisation is `parseTarget` of Model/Burl.lean.
-/
import LtVerif.Model.Burl
import LtVerif.Model.Cond
import LtVerif.Model.Extforward
namespace LtVerif.Access
open LtVerif B

/-! ### case-insensitive comparison (buffer.c) -/

/-- light_isalpha() -/
def lightIsAlpha (c : UInt8) : Bool := 97 ≤ (c ||| 0x20) && (c ||| 0x20) ≤ 122

/-- one step of buffer_eq_icase_ssn(): `ca == cb || ((ca ^ cb) == 0x20 && light_isalpha(ca))` -/
def eqIcaseByte (a b : UInt8) : Bool := a == b || ((a ^^^ b) == 0x20 && lightIsAlpha a)

/-- buffer_eq_icase_ssn(a, b, len) on two strings of the same length -/
def eqIcaseN : Bytes → Bytes → Bool
  | a :: as, b :: bs => eqIcaseByte a b && eqIcaseN as bs
  | _, _ => true

/-! ### array_match_*() (array.c): index of the first matching entry -/

/-- `klen <= blen && 0 == memcmp(end - klen, key, klen)` / buffer_eq_icase_ssn -/
def sufMatch (nc : Bool) (v b : Bytes) : Bool :=
  v.length ≤ b.length &&
    (if nc then eqIcaseN (b.drop (b.length - v.length)) v else b.drop (b.length - v.length) == v)

/-- `klen <= blen && 0 == memcmp(b, key, klen)` / buffer_eq_icase_ssn -/
def preMatch (nc : Bool) (v b : Bytes) : Bool :=
  v.length ≤ b.length && (if nc then eqIcaseN (b.take v.length) v else b.take v.length == v)

def matchValueSuffix (nc : Bool) (a : List Bytes) (b : Bytes) : Option Nat :=
  a.findIdx? (fun v => sufMatch nc v b)

def matchValuePrefix (nc : Bool) (a : List Bytes) (b : Bytes) : Option Nat :=
  a.findIdx? (fun v => preMatch nc v b)

def matchKeyPrefix (nc : Bool) (a : List Bytes) (b : Bytes) : Option Nat :=
  a.findIdx? (fun k => preMatch nc k b)

def matchKeySuffix (nc : Bool) (a : List Bytes) (b : Bytes) : Option Nat :=
  a.findIdx? (fun k => sufMatch nc k b)

/-- array_match_path_or_ext(): "/path" keys are prefixes, other keys are suffixes -/
def matchPathOrExt (a : List Bytes) (b : Bytes) : Option Nat :=
  a.findIdx? (fun k => if k.head? = some slash then preMatch false k b else sufMatch false k b)

/-! ### the modules' decisions -/

/-- mod_access_check(): `true` = allowed -/
def accessCheck (allow deny : List Bytes) (path : Bytes) (lc : Bool) : Bool :=
  if !allow.isEmpty then (matchValueSuffix lc allow path).isSome
  else if !deny.isEmpty then (matchValueSuffix lc deny path).isNone
  else true

/-- mod_auth_uri_handler(): index of the auth.require rule that guards the path -/
def authRule (rules : List Bytes) (path : Bytes) (lc : Bool) : Option Nat :=
  matchKeyPrefix lc rules path

/-- mod_staticfile_process(): is the file excluded from static delivery? -/
def staticExclude (excl : List Bytes) (physical : Bytes) : Bool :=
  (matchValueSuffix false excl physical).isSome

/-! ### conditional configuration ($HTTP["url"], $HTTP["host"], $HTTP["remoteip"]) -/

inductive StrOp where
  | eq | ne | prefix_ | suffix
deriving DecidableEq, Repr

inductive Scope where
  | global
  | url (op : StrOp) (s : Bytes)
  | urlRe (neg : Bool) (m : Bytes → Bool)     -- =~ / !~ : PCRE2 is external
  | host (op : StrOp) (s : Bytes)
  | hostRe (neg : Bool) (m : Bytes → Bool)    -- $HTTP["host"] =~ / !~
  | ip (neg : Bool) (net : SockAddr) (bits : Nat)   -- == / != "addr/bits" (bits 0 = whole address)
  | ipRe (neg : Bool) (m : Bytes → Bool)      -- $HTTP["remoteip"] =~ / !~ : on the TEXT r->dst_addr_buf
  | both (a b : Scope)     -- a block nested in another: the enclosing condition must hold too
  | non (a : Scope)        -- `else`: the earlier branch(es) of the chain did not hold

/-- ranges a continuation byte may have to lie in (RFC 3629 table 3-7) -/
inductive U8Range where
  | r80bf | ra0bf | r809f | r90bf | r808f
deriving DecidableEq, Repr

def U8Range.has (r : U8Range) (b : UInt8) : Bool :=
  match r with
  | .r80bf => 0x80 ≤ b && b ≤ 0xbf
  | .ra0bf => 0xa0 ≤ b && b ≤ 0xbf
  | .r809f => 0x80 ≤ b && b ≤ 0x9f
  | .r90bf => 0x90 ≤ b && b ≤ 0xbf
  | .r808f => 0x80 ≤ b && b ≤ 0x8f

/-- state of the UTF-8 check: continuation bytes still expected, range of the next one -/
structure U8St where
  need : Nat := 0
  next : U8Range := .r80bf
deriving DecidableEq, Repr

/-- what a lead byte announces (`none` = not a lead byte of well-formed UTF-8) -/
def u8Lead (b : UInt8) : Option U8St :=
  if b < 0x80 then some {}
  else if 0xc2 ≤ b && b ≤ 0xdf then some ⟨1, .r80bf⟩
  else if b == 0xe0 then some ⟨2, .ra0bf⟩
  else if b == 0xed then some ⟨2, .r809f⟩
  else if 0xe1 ≤ b && b ≤ 0xef then some ⟨2, .r80bf⟩
  else if b == 0xf0 then some ⟨3, .r90bf⟩
  else if 0xf1 ≤ b && b ≤ 0xf3 then some ⟨3, .r80bf⟩
  else if b == 0xf4 then some ⟨3, .r808f⟩
  else none

def u8Step (st : Option U8St) (b : UInt8) : Option U8St :=
  match st with
  | none => none
  | some st =>
    if st.need = 0 then u8Lead b
    else if st.next.has b then some ⟨st.need - 1, .r80bf⟩ else none

/-- PCRE2 is called with PCRE2_UTF (data_config_pcre_compile()): pcre2_match() fails, and the
    condition is taken as "no match", when the subject is not well-formed UTF-8 (RFC 3629:
    no stray continuation bytes, no truncated or overlong forms, no surrogates, ≤ U+10FFFF).
    Byte-at-a-time automaton. -/
def validUtf8 (u : Bytes) : Bool :=
  match u.foldl u8Step (some {}) with
  | some st => st.need == 0
  | none => false

/-- `(?i)^lit` and `(?i)lit$` as PCRE2 (UTF mode) decides them for ASCII literals -/
def reCaselessPrefix (lit u : Bytes) : Bool := validUtf8 u && preMatch true lit u
def reCaselessSuffix (lit u : Bytes) : Bool := validUtf8 u && sufMatch true lit u

/-- the client address a request is attributed to -/
structure Addr where
  sa : SockAddr       -- r->dst_addr
  text : Bytes        -- r->dst_addr_buf (the spelling: the peer's, or the forwarded header's)

/-- the request attributes conditions test -/
structure Env where
  url : Bytes         -- r->uri.path
  host : Bytes        -- r->uri.authority
  addr : Addr

def strOp (op : StrOp) (s l : Bytes) : Bool :=
  match op with
  | .eq => l == s
  | .ne => !(l == s)
  | .prefix_ => s.length ≤ l.length && l.take s.length == s
  | .suffix => s.length ≤ l.length && l.drop (l.length - s.length) == s

/-- `$HTTP["host"] == s` on authority `l`: the port-tolerant comparison of
    config_check_cond_nocache_eval() (names match whether or not a ":port" of at most 5 digits is
    present on either side).  This is C14's model of that code (Model/Cond.lean `eqLike` /
    `hostPort`), reused, not re-stated. -/
def hostEq (s l : Bytes) : Bool :=
  Cond.eqLike { comp := .host, cond := .eq, str := s } { host := l }

/-- config_check_cond_nocache_eval() for the conditions modelled here; nesting and else-chains
    (config_check_cond_nocache(): parent / prev) are `both` / `non`: conditions are evaluated
    afresh, which is what the cached evaluation amounts to (C14) -/
def Scope.holds (sc : Scope) (e : Env) : Bool :=
  match sc with
  | .global => true
  | .url op s => strOp op s e.url
  | .urlRe neg m => m e.url != neg
  | .host .eq s => hostEq s e.host
  | .host .ne s => !hostEq s e.host
  | .host op s => strOp op s e.host
  | .hostRe neg m => m e.host != neg
  | .ip neg net bits =>
    (if bits ≠ 0 then SockAddr.addrEqBits net e.addr.sa bits else SockAddr.addrEq net e.addr.sa) != neg
  | .ipRe neg m => m e.addr.text != neg
  | .both a b => a.holds e && b.holds e
  | .non a => !a.holds e

/-- conditions that do not distinguish the letter case of the URL: everything except the
    case-sensitive string comparisons on `$HTTP["url"]`; a regular expression on the URL must be
    case-insensitive -/
def Scope.caseBlind : Scope → Prop
  | .url _ _ => False
  | .urlRe _ m => ∀ u v : Bytes, u.map toLower = v.map toLower → m u = m v
  | .both a b => a.caseBlind ∧ b.caseBlind
  | .non a => a.caseBlind
  | _ => True

/-- conditions that do not look at the URL at all -/
def Scope.urlFree : Scope → Prop
  | .url _ _ => False
  | .urlRe _ _ => False
  | .both a b => a.urlFree ∧ b.urlFree
  | .non a => a.urlFree
  | _ => True

/-- conditions that cannot tell `name` from `name:port`: `==` / `!=` against a name without port
    (the port-tolerant comparison), regular expressions that allow for a port; not `=^` / `=$` -/
def Scope.portBlind : Scope → Prop
  | .host .eq s => colon ∉ s ∧ s.head? ≠ some slash
  | .host .ne s => colon ∉ s ∧ s.head? ≠ some slash
  | .host _ _ => False
  | .hostRe _ m => ∀ n port : Bytes, colon ∉ n → colon ∉ port → port.length ≤ 5 →
      m (n ++ colon :: port) = m n
  | .both a b => a.portBlind ∧ b.portBlind
  | .non a => a.portBlind
  | _ => True

/-- one auth.require rule: path prefix and who may pass -/
structure AuthRule where
  pfx : Bytes
  users : Option (List Bytes) := none       -- "require" => "valid-user" (none) | "user=a|user=b"

/-- http_auth_match_rules(): does the rule accept the authenticated user (if any)?
    (the user array is keyed: ASCII case-insensitive) -/
def AuthRule.accepts (r : AuthRule) (user : Option Bytes) : Bool :=
  match user with
  | none => false
  | some u => match r.users with
    | none => true
    | some us => us.any (fun x => eqIcase x u)

/-- one configuration block (the global scope or a conditional) and what it assigns -/
structure Block where
  scope : Scope
  allow : Option (List Bytes) := none       -- url.access-allow
  deny : Option (List Bytes) := none        -- url.access-deny
  auth : Option (List AuthRule) := none     -- auth.require, in file order
  exclude : Option (List Bytes) := none     -- static-file.exclude-extensions
  noPathinfo : Option Bool := none          -- static-file.disable-pathinfo
  forwarder : Option Extforward.Forwarder := none   -- extforward.forwarder
  fwdHeaders : Option (List Bytes) := none  -- extforward.headers

/-- mod_*_patch_config(): the value of the last block (in file order) whose condition holds
    and that assigns the directive -/
def setting {α : Type} (sel : Block → Option α) (cfg : List Block) (e : Env) : Option α :=
  cfg.foldl (fun acc b => if b.scope.holds e then (match sel b with | some v => some v | none => acc) else acc)
    none

def listOf (o : Option (List Bytes)) : List Bytes := o.getD []

/-- mod_access_uri_handler() (both hooks): `true` = request may proceed -/
def accessHook (cfg : List Block) (e : Env) (lc : Bool) : Bool :=
  accessCheck (listOf (setting (·.allow) cfg e)) (listOf (setting (·.deny) cfg e)) e.url lc

/-- auth.require as patched for this request -/
def authRules (cfg : List Block) (e : Env) : List AuthRule := (setting (·.auth) cfg e).getD []

/-- mod_auth_uri_handler(): the guarding rule (first prefix match in file order), if any -/
def authHook (cfg : List Block) (e : Env) (lc : Bool) : Option Nat :=
  authRule ((authRules cfg e).map (·.pfx)) e.url lc

/-- … and whether the request passes it: unguarded, or the guarding rule accepts the
    authenticated user (`user` = name whose credentials verified: C16) -/
def authPass (cfg : List Block) (e : Env) (lc : Bool) (user : Option Bytes) : Bool :=
  match authHook cfg e lc with
  | none => true
  | some i => match (authRules cfg e)[i]? with
    | some r => r.accepts user
    | none => false

/-! ### from URL path to file (response.c) -/

inductive Kind where
  | file | dir
deriving DecidableEq, Repr

/-- what is found at a path below the document root ("" = the document root itself) -/
abbrev Fs := Bytes → Option Kind

inductive Stat where
  | ok (k : Kind)
  | enotdir
  | enoent
deriving DecidableEq, Repr

/-- positions of the '/' bytes of a path -/
def slashIdx (p : Bytes) : List Nat :=
  (List.range p.length).filter (fun i => p.getD i 0 == slash)

/-- the kernel's walk over the directories on the way to `p` (at the given '/' positions) -/
def walkDirs (fs : Fs) (p : Bytes) : List Nat → Option Stat
  | [] => none                    -- all directories exist
  | i :: is =>
    match fs (p.take i) with
    | some .dir => walkDirs fs p is
    | some .file => some .enotdir
    | none => some .enoent

/-- stat_cache_get_entry(docroot ++ rel): `rel` is "/" seg "/" … (canonical) -/
def statFull (fs : Fs) (rel : Bytes) : Stat :=
  let ts := rel.getLast? = some slash
  let p := if ts then rel.dropLast else rel
  match walkDirs fs p (slashIdx p) with
  | some err => err
  | none =>
    match fs p with
    | none => .enoent
    | some .file => if ts then .enotdir else .ok .file
    | some .dir => .ok .dir

/-- http_response_physical_pathinfo(): walk the '/' positions from the document root; the
    first prefix that is not a directory must be a regular file; `some i` = PATH_INFO starts
    at offset `i` of `rel` -/
def splitGo (fs : Fs) (rel : Bytes) : List Nat → Option Nat
  | [] => none
  | i :: is =>
    match fs (rel.take i) with
    | some .dir => splitGo fs rel is
    | some .file => some i
    | none => none

def pathinfoSplit (fs : Fs) (rel : Bytes) : Option Nat := splitGo fs rel (slashIdx rel)

inductive Resolved where
  | notFound                          -- 404
  | redirect                          -- 301: directory requested without trailing '/'
  | dir                               -- directory
  | file (script : Bytes) (info : Nat)   -- regular file below the docroot; PATH_INFO = last `info` bytes
deriving DecidableEq, Repr

/-- physical.rel_path: the URL path, lower-cased under force-lowercase-filenames -/
def relPath (lc : Bool) (path : Bytes) : Bytes := if lc then path.map toLower else path

/-- http_response_physical_path_check() -/
def resolve (fs : Fs) (lc : Bool) (path : Bytes) : Resolved :=
  let rel := relPath lc path
  match statFull fs rel with
  | .ok .file => .file rel 0
  | .ok .dir => if path.getLast? = some slash then .dir else .redirect
  | .enoent => .notFound
  | .enotdir =>
    match pathinfoSplit fs rel with
    | some i => .file (rel.take i) (rel.length - i)
    | none => .notFound

/-! ### one request -/

structure Server where
  cfg : List Block
  opts : Opts                -- server.http-parseopts
  lc : Bool                  -- server.force-lowercase-filenames
  docroot : Bytes            -- server.document-root (no trailing '/')
  fs : Fs

structure Req where
  target : Bytes             -- request-target (h1: after absolute-form handling; h2: :path)
  host : Bytes               -- r->uri.authority
  peer : Bytes               -- address of the TCP peer, as text
  peerAddr : SockAddr
  hdrs : List (Bytes × Bytes)   -- request header fields (lower-cased name, value)
  user : Option Bytes        -- user whose credentials the request carries and that verify (C16)

structure Resp where
  status : Nat
  uri : Bytes                -- r->uri.path when the response is produced
  pathinfo : Bytes
  addr : Bytes               -- address the request was attributed to
  file : Option Bytes        -- static file sent (path below the document root)
deriving DecidableEq, Repr

/-- PATH_INFO as http_response_physical_pathinfo() stores it: with force-lowercase the
    original spelling is taken from the end of the request-target when it matches -/
def pathinfoValue (lc : Bool) (target rel : Bytes) (n : Nat) : Bytes :=
  let pi := rel.drop (rel.length - n)
  if lc && n ≤ target.length && eqIcaseN (target.drop (target.length - n)) pi
  then target.drop (target.length - n) else pi

def extConf (cfg : List Block) (e : Env) : Extforward.ExtConf :=
  { forwarder := setting (·.forwarder) cfg e,
    headers := (setting (·.fwdHeaders) cfg e).getD Extforward.defaultHeaders }

/-- everything after the canonical path is known: hooks, path resolution, static file.
    `e` = request attributes with the (possibly forwarded) client address. -/
def serveFrom (s : Server) (t : Target) (e : Env) (user : Option Bytes) : Resp :=
  let fail (st : Nat) : Resp := { status := st, uri := e.url, pathinfo := [], addr := e.addr.text, file := none }
  -- handle_uri_clean: mod_access, mod_auth
  if !accessHook s.cfg e s.lc then fail 403
  else if !authPass s.cfg e s.lc user then fail 401
  else
    match resolve s.fs s.lc e.url with
    | .notFound => fail 404
    | .redirect => fail 301
    | .dir => fail 403
    | .file script n =>
      -- path-info split: r->uri.path loses the PATH_INFO; conditions on the URL are re-evaluated
      let uri := e.url.take (e.url.length - n)
      let pi := if n = 0 then [] else pathinfoValue s.lc t.target (relPath s.lc e.url) n
      let e2 : Env := { e with url := uri }
      let fail2 (st : Nat) : Resp :=
        { status := st, uri := uri, pathinfo := pi, addr := e.addr.text, file := none }
      -- handle_subrequest_start: mod_access, mod_staticfile
      if !accessHook s.cfg e2 s.lc then fail2 403
      else if (setting (·.noPathinfo) s.cfg e2).getD false && n != 0 then fail2 403
      else if staticExclude (listOf (setting (·.exclude) s.cfg e2)) (s.docroot ++ script) then fail2 403
      else { status := 200, uri := uri, pathinfo := pi, addr := e.addr.text, file := some script }

/-- the address mod_extforward attributes the request to (the TCP peer's unless a trusted
    forwarder says otherwise); `none` = 400 -/
def effAddr (beforeFix : Bool) (parse : Bytes → Option SockAddr) (s : Server) (r : Req) (path : Bytes) :
    Option Addr :=
  let e0 : Env := { url := path, host := r.host, addr := ⟨r.peerAddr, r.peer⟩ }
  match Extforward.remoteAddr beforeFix parse (extConf s.cfg e0) r.peer r.hdrs with
  | .bad => none
  | .unchanged => some ⟨r.peerAddr, r.peer⟩
  | .set a sa => some ⟨sa, a⟩

/-- http_response_handler() for a GET request whose head has been parsed -/
def serve (beforeFix : Bool) (parse : Bytes → Option SockAddr) (s : Server) (r : Req) : Resp :=
  match parseTarget s.opts false r.target with
  | .error st => { status := st, uri := [], pathinfo := [], addr := r.peer, file := none }
  | .ok t =>
    -- handle_uri_raw: mod_extforward (its own configuration is patched with the peer's address)
    match effAddr beforeFix parse s r t.path with
    | none => { status := 400, uri := t.path, pathinfo := [], addr := r.peer, file := none }
    | some a => serveFrom s t { url := t.path, host := r.host, addr := a } r.user

end LtVerif.Access
