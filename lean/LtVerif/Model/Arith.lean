/-
  C12 — machine-arithmetic model of the size / overflow arithmetic lighttpd applies to
  untrusted input.  Every function mirrors one C routine *with explicit C widths*: each
  intermediate value the C code computes is produced through a checking helper
  (`i64`, `u32`, `usz`, array-index checks); the result `ub …` means "the C computation
  would leave its type / its array here" (signed overflow, unsigned wrap that the code does
  not expect, out-of-bounds index).  The property theorems (Props/C12.lean) show that `ub`
  is never produced; the correspondence check runs these same definitions against the real
  functions compiled with ASan+UBSan.

    li_restricted_strtoint64()          (request.c)      -> `strtoI64`
    hex loop of h1_chunked() /
      http_chunk_decode_append_data()   (h1.c, http_chunk.c) -> `ckHex`, `ck1`, `ck2`
    http_header_parse_hoff()            (http_header.c)  -> `hoffScan`
    buffer_realloc(), buffer_string_prepare_copy/append(),
      buffer_extend(), buffer_commit()  (buffer.c)       -> `bufRealloc`, `prepareCopy`, …
    ck_realloc_u32()                    (ck.c)           -> `ckReallocU32`
    h2_recv_headers() / h2_recv_data() length checks,
      h2_recv_continuation()            (h2.c)           -> `h2HeadersLen`, `h2DataLen`, `h2Cont`
  http_range.c is modelled in Model/Range.lean (C15); its arithmetic is re-stated in checked
  form in Model/ArithRange.lean (kept out of this file so that the driver does not depend on it).
  Limits and guards come from Extracted/ArithConst.lean (regenerated from the source each run).
-/
import LtVerif.Model.Basic
import LtVerif.Extracted.ArithConst
namespace LtVerif
namespace Arith
open B

/-! ### C integer types -/

def i64Max : Int := 2 ^ (Extracted.offTBits - 1) - 1
def i64Min : Int := -(2 ^ (Extracted.offTBits - 1))
def u32Max : Nat := 2 ^ Extracted.bufSizeBits - 1
def uszMax : Nat := 2 ^ Extracted.sizeTBits - 1
def u16Max : Nat := 2 ^ Extracted.ushortBits - 1

def inI64 (x : Int) : Bool := i64Min ≤ x && x ≤ i64Max

/-- outcome of a modelled C computation -/
inductive R (α : Type)
  | ok (a : α)
  | ub (what : String)      -- would be undefined / unintended wrap / out-of-bounds in C
deriving Repr, DecidableEq

def R.isUb {α : Type} : R α → Bool
  | .ub _ => true
  | .ok _ => false

/-! ### li_restricted_strtoint64() -/

/-- the loop of li_restricted_strtoint64(): `rv` so far, `i` bytes consumed.
    Result: (returned value, number of bytes consumed = `*err - v`). -/
def strtoI64Go : Bytes → Int → Nat → R (Int × Nat)
  | [], rv, i => .ok (rv, i)
  | b :: rest, rv, i =>
    let c : UInt8 := b - 48                          -- uint8_t c = v[i] - '0' (unsigned; wraps)
    if c > 9 then .ok (rv, i)
    else if rv > i64Max / 10 then .ok (rv, i)
    else
      let rv10 := rv * 10                            -- rv *= 10
      if !inI64 rv10 then .ub "rv*10"
      else
        let lim := i64Max - (c.toNat : Int)          -- INT64_MAX - c
        if !inI64 lim then .ub "INT64_MAX-c"
        else if rv10 > lim then .ok (rv10, i)
        else
          let rv' := rv10 + (c.toNat : Int)          -- rv += c
          if !inI64 rv' then .ub "rv+c" else strtoI64Go rest rv' (i + 1)

def strtoI64 (v : Bytes) : R (Int × Nat) := strtoI64Go v 0 0

/-- decimal value of a digit string (specification) -/
def decValue (v : Bytes) : Nat := v.foldl (fun a d => a * 10 + (d - 48).toNat) 0

/-! ### chunk-size accumulation -/

inductive HexOut
  | ub (what : String)
  | tooLarge                                     -- guard hit: 400 / -1
  | ok (te : Int) (ndigits : Nat) (rest : Bytes) -- rest starts at the first non-hex byte
deriving Repr, DecidableEq

/-- `for (u; (u = hex2int(*s)) != 0xFF; ++s) { if (te > GUARD) error; te <<= 4; te |= u; }` -/
def ckHex (guard : Int) : Bytes → Int → Nat → HexOut
  | [], te, k => .ok te k []
  | b :: rest, te, k =>
    match hexVal b with
    | none => .ok te k (b :: rest)
    | some u =>
      if te > guard then .tooLarge
      else if te < 0 then .ub "left shift of negative value"
      else
        let sh := te * 16                            -- te_chunked <<= 4
        if !inI64 sh then .ub "te<<4"
        else
          -- te_chunked |= u : the low four bits of `sh` are zero, so `|` is `+`
          let te' := sh + (u.toNat : Int)
          if !inI64 te' then .ub "te|u" else ckHex guard rest te' (k + 1)

/-- value of the leading hex digits (specification) -/
def hexValue : Bytes → Nat → Nat
  | [], v => v
  | b :: rest, v =>
    match hexVal b with
    | none => v
    | some u => hexValue rest (v * 16 + u.toNat)

def isWsb (b : UInt8) : Bool := b = sp || b = ht

/-- offset of the first LF -/
def lfIdx : Bytes → Nat → Option Nat
  | [], _ => none
  | b :: rest, i => if b = lf then some i else lfIdx rest (i + 1)

/-- split at the first LF: (acc ++ line including LF, rest) -/
def splitLf (data acc : Bytes) : Option (Bytes × Bytes) :=
  match lfIdx data 0 with
  | none => none
  | some i => some (acc ++ data.take (i + 1), data.drop (i + 1))

inductive CkOut
  | ub (what : String)
  | err (status : Nat)
  | ok (te : Int) (moved : Nat) (rest : Nat) (done : Bool)
  | unmodelled
deriving Repr, DecidableEq

/-- validity of the text after the hex digits in h1_chunked(): `after` starts at the first
    non-hex byte of the line; `k` hex digits were read; `hsz` = line length incl. LF -/
def ck1LineOk (line : Bytes) (k : Nat) (after : Bytes) : Bool :=
  let hsz := line.length
  if k = 0 then false                                    -- p == s + hsz : no hex
  else if line.getD (hsz - 2) 0 ≠ cr then false          -- p[-2] != '\r'
  else if k = hsz - 2 then true                          -- p-2 == s
  else
    let a := after.dropWhile isWsb
    match a.head? with
    | some b =>
      if b = cr || b = 59 then
        -- CR only before LF; no other CTLs in the chunk extension (922b1b1): scan up to p-2
        (a.take (a.length - 2)).all fun c => !((c < 32 && c ≠ 9) || c = 127)
      else false
    | none => false

/-- h1_chunked(): ONE call, read queue = `data` in one chunk, reqbody_queue.bytes_in = `bytesIn`,
    r->x.h1.te_chunked = 0.  The model covers: chunk header line, size accumulation, 413 test,
    `te_chunked += 2`, the in-memory/tempfile decision and the transfer of the chunk data that is
    present (data shorter than the chunk).  `msKB` = server.max-request-size (kB).
    The in-memory decision is modelled in the overflow-free form
    `te_chunked <= 64*1024 - bytes_in` (see `ck1SumAsWritten`). -/
def ck1 (msKB : Nat) (bytesIn : Int) (data : Bytes) : CkOut :=
  if data.isEmpty then .ok 0 0 0 false else
  match splitLf data [] with
  | none =>
    if data.length ≥ Extracted.ckPartialMaxH1 then .err 400 else .ok 0 0 data.length false
  | some (line, rest) =>
    match ckHex Extracted.ckGuardH1 line 0 0 with
    | .ub w => .ub w
    | .tooLarge => .err 400
    | .ok te k after =>
      if !ck1LineOk line k after then .err 400
      else if line.length ≥ Extracted.ckLineMaxH1 then .err 400
      else if te = 0 then
        (if rest.isEmpty then .ok 0 0 data.length false else .unmodelled)
      else
        let maxReq : Int := (msKB : Int) * 1024          -- (off_t)max_request_size << 10
        if !inI64 maxReq then .ub "max_request_size<<10"
        else if msKB ≠ 0 && (maxReq < te || maxReq - te < bytesIn) then .err 413
        else
          let te2 := te + 2                              -- te_chunked += 2
          if !inI64 te2 then .ub "te+2"
          else
            let room := Extracted.ckInMemMax - bytesIn   -- 64*1024 - dst_cq->bytes_in
            if !inI64 room then .ub "64k-bytes_in"
            else
              let n : Int := if (rest.length : Int) > te2 - 2 then te2 - 2 else rest.length
              let in' := bytesIn + n                     -- dst_cq->bytes_in += len
              if !inI64 in' then .ub "bytes_in+len"
              else
                let te3 := te2 - n
                let left : Int := (rest.length : Int) - n
                if left < te3 then .ok te3 n.toNat left.toNat false
                else .unmodelled                         -- chunk complete: CRLF, next header

/-- the sum the *current* source evaluates at h1.c:725 (`dst_cq->bytes_in + te_chunked`) -/
def ck1SumAsWritten (bytesIn te2 : Int) : Int := bytesIn + te2

/-- validity of the chunk header line in http_chunk_decode_append_data() (fast path: header
    buffer blank, complete line in `mem`) -/
def ck2LineOk (line : Bytes) (k : Nat) (after : Bytes) : Bool :=
  let hsz := line.length
  if hsz = 1 || line.getD (hsz - 2) 0 ≠ cr then false    -- p-1 == mem || p[-2] != '\r'
  else if k = 0 then false                               -- (char *)s == mem : no hex
  else if after.head? = some cr then true
  else
    match (after.dropWhile isWsb).head? with
    | some b => b = cr || b = 59
    | none => false

/-- http_chunk_decode_append_data(): ONE call on fresh state with `data` -/
def ck2 (data : Bytes) : CkOut :=
  if data.isEmpty then .ok 0 0 0 false else
  match splitLf data [] with
  | none => if data.length ≥ Extracted.ckPartialMaxGw then .err 0 else .ok 0 0 0 false
  | some (line, rest) =>
    if line.length > Extracted.ckLineMaxGw then .err 0 else      -- (0a90156)
    match ckHex Extracted.ckGuardGw line 0 0 with
    | .ub w => .ub w
    | .tooLarge => .err 0
    | .ok te k after =>
      if !ck2LineOk line k after then .err 0
      else if te = 0 then
        (if rest.isEmpty then .ok 0 0 0 false else .unmodelled)
      else
        let te2 := te + 2
        if !inI64 te2 then .ub "te+2"
        else if rest.isEmpty then .ok te2 0 0 false
        else
          let clen : Int := if te2 - 2 > rest.length then rest.length else te2 - 2
          let te3 := te2 - clen
          if (rest.length : Int) - clen = 0 then .ok te3 clen.toNat 0 false else .unmodelled

/-! ### http_header_parse_hoff() -/

structure HoffSt where
  cnt : Nat                        -- hoff[0]
  hlen : Nat                       -- uint32_t hlen
  writes : List (Nat × Nat)        -- (index, value before truncation to unsigned short), in order
deriving Repr, DecidableEq

inductive HoffStep
  | ub (what : String)
  | ret (r : Nat) (st : HoffSt)    -- function returns r
  | cont (st : HoffSt)

/-- one LF-terminated line of `x` bytes (incl. LF); `prevCR` = the byte before the LF is CR -/
def hoffLine (st : HoffSt) (x : Nat) (prevCR : Bool) : HoffStep :=
  let hlen := st.hlen + x                              -- hlen += x (uint32_t)
  if hlen > u32Max then .ub "hlen wraps"
  else if x ≤ 2 && (x = 1 || prevCR) then
    let idx := st.cnt + 1                              -- hoff[hoff[0]+1] = hlen
    if idx ≥ Extracted.hoffDim then .ub "hoff index"
    else .ret hlen { st with hlen := hlen, writes := st.writes ++ [(idx, hlen)] }
  else
    let cnt := st.cnt + 1                              -- ++hoff[0] (unsigned short)
    if cnt > u16Max then .ub "hoff[0] wraps"
    else if cnt ≥ Extracted.hoffBreak then .ret 0 { st with hlen := hlen, cnt := cnt }
    else if cnt ≥ Extracted.hoffDim then .ub "hoff index"
    else .cont { st with hlen := hlen, cnt := cnt, writes := st.writes ++ [(cnt, hlen)] }

/-- the memchr loop: `x` = bytes of the current line seen so far, `prev` = previous byte -/
def hoffGo : Bytes → Nat → UInt8 → HoffSt → R (Nat × HoffSt)
  | [], _, _, st => .ok (0, st)                        -- no further LF: return 0
  | b :: rest, x, prev, st =>
    if b = lf then
      match hoffLine st (x + 1) (prev = cr) with
      | .ub w => .ub w
      | .ret r st' => .ok (r, st')
      | .cont st' => hoffGo rest 0 b st'
    else hoffGo rest (x + 1) b st

/-- http_header_parse_hoff(n, clen, hoff) with hoff[0] = `init0` on entry -/
def hoffScan (init0 : Nat) (block : Bytes) : R (Nat × HoffSt) :=
  hoffGo block 0 0 { cnt := init0, hlen := 0, writes := [] }

/-! ### buffer.c growth -/

structure Buf where
  used : Nat        -- uint32_t (includes the terminating NUL when non-zero)
  size : Nat        -- uint32_t
deriving Repr, DecidableEq

inductive BufOut
  | ok (b : Buf)
  | abort           -- force_assert / ck_assert_failed
deriving Repr, DecidableEq

def wrapSz (x : Nat) : Nat := x % (uszMax + 1)
def wrap32 (x : Nat) : Nat := x % (u32Max + 1)

/-- smallest `256 << k` that is ≥ psz (the `for (sz = 256; sz < psz; sz <<= 1)` loop) -/
def pow2From : Nat → Nat → Nat → Nat
  | 0, sz, _ => sz
  | fuel + 1, sz, psz => if sz < psz then pow2From fuel (sz * 2) psz else sz

/-- buffer_realloc(b, len): the size passed to realloc(), before it is stored in the
    32-bit `b->size`; `none` = force_assert(sz > len) fails -/
def bufReallocSz (len : Nat) : Option Nat :=
  let piece := Extracted.bufferPieceSize
  let sz := (wrapSz (len + 1 + (piece - 1))) / piece * piece      -- (len+1+63) & ~63  (size_t wraps)
  if !(sz > len) then none
  else
    let sz := if (sz &&& (sz - 1)) ≠ 0 && sz < Extracted.cIntMax then pow2From 64 256 sz else sz
    some (sz ||| 1)

def bufRealloc (b : Buf) (len : Nat) : BufOut :=
  match bufReallocSz len with
  | none => .abort
  | some sz => .ok { b with size := wrap32 sz }                   -- b->size = sz (uint32_t)

/-- (b->size & ~1uL) << 1 -/
def bsize2x (size : Nat) : Nat := (size / 2 * 2) * 2

/-- `x - 1` in size_t -/
def decSz (x : Nat) : Nat := wrapSz (x + uszMax)

/-- buffer_string_prepare_copy() -/
def prepareCopy (b : Buf) (n : Nat) : BufOut :=
  let b := { b with used := 0 }
  if n < b.size then .ok b
  else bufRealloc b (if bsize2x b.size > n then decSz (bsize2x b.size) else n)   -- buffer_alloc_replace

/-- buffer_string_prepare_append_resize() -/
def prepareAppendResize (b : Buf) (n : Nat) : BufOut :=
  if b.used < 2 then prepareCopy b n
  else
    let d := wrapSz (bsize2x b.size + (uszMax + 1) - b.used)      -- bsize2x - b->used (size_t)
    let req := if d > n then decSz (bsize2x b.size) else wrapSz (b.used + n)
    if !(req ≥ b.used) then .abort                                 -- force_assert(req_size >= b->used)
    else bufRealloc b req

def bufLen (b : Buf) : Nat := if b.used ≠ 0 then b.used - 1 else 0

/-- the test `b->size - len >= size + 1` (uint32_t difference, size_t sum) -/
def hasRoom (b : Buf) (n : Nat) : Bool :=
  wrap32 (b.size + (u32Max + 1) - bufLen b) ≥ wrapSz (n + 1)

/-- buffer_string_prepare_append() -/
def prepareAppend (b : Buf) (n : Nat) : BufOut :=
  if hasRoom b n then .ok b else prepareAppendResize b n

/-- buffer_extend() -/
def extend (b : Buf) (x : Nat) : BufOut :=
  let len := bufLen b
  match (if hasRoom b x then BufOut.ok b else prepareAppendResize b x) with
  | .abort => .abort
  | .ok b' => .ok { b' with used := wrap32 (len + x + 1) }       -- b->used = len+x+1 (uint32_t)

/-- buffer_commit() -/
def commit (b : Buf) (n : Nat) : BufOut :=
  let sz := if b.used = 0 then 1 else b.used
  if n + sz > uszMax then .abort                                  -- __builtin_add_overflow
  else .ok { b with used := wrap32 (sz + n) }

def truncate (b : Buf) (n : Nat) : Buf := { b with used := wrap32 (n + 1) }
def clear (b : Buf) : Buf := { b with used := 0 }

/-- the growth operations callers apply to a buffer -/
inductive BufOp
  | prep (n : Nat)        -- buffer_string_prepare_append(b, n)
  | commit (m : Nat)      -- buffer_commit(b, m)
  | extend (n : Nat)      -- buffer_extend(b, n) / buffer_append_string_len(b, s, n)
  | copy (n : Nat)        -- buffer_string_prepare_copy(b, n) / buffer_copy_string_len
  | trunc (n : Nat)       -- buffer_truncate(b, n)
  | clear                 -- buffer_clear(b)
deriving Repr, DecidableEq

def bufStep (b : Buf) : BufOp → BufOut
  | .prep n => prepareAppend b n
  | .commit m => commit b m
  | .extend n => extend b n
  | .copy n => prepareCopy b n
  | .trunc n => .ok (truncate b n)
  | .clear => .ok (clear b)

def bufRun : Buf → List BufOp → BufOut
  | b, [] => .ok b
  | b, op :: rest =>
    match bufStep b op with
    | .abort => .abort
    | .ok b' => bufRun b' rest

/-! ### ck_realloc_u32() -/

/-- bytes passed to realloc(); `none` = ck_assert fails (elt_sz ≠ 0 is the callers' sizeof) -/
def ckReallocU32 (n x elt : Nat) : Option Nat :=
  if x ≤ u32Max && n ≤ u32Max - x && n + x ≤ uszMax / elt then some ((n + x) * elt) else none

/-! ### http_chunk_decode_append_data() across reads: the header / trailer accumulator -/

/-- per-request decoder state kept between reads: `gw_chunked`, `gw_dechunk->b`, `done`,
    and the number of body bytes handed on -/
structure GwSt where
  te : Int := 0
  h : Bytes := []
  done : Bool := false
  out : Nat := 0
deriving Repr, DecidableEq

/-- one iteration of the `while (len)` loop -/
inductive GwIter
  | ub (what : String)
  | err                                  -- return -1
  | stop (st : GwSt)                     -- break
  | cont (st : GwSt) (m : Bytes)         -- next iteration with the rest of the read
deriving Repr, DecidableEq

/-- offset of the first CRLFCRLF (strstr) -/
def findCrlfCrlf : Bytes → Nat → Option Nat
  | [], _ => none
  | b :: rest, i =>
    if b = cr && rest.take 3 = [lf, cr, lf] then some i else findCrlfCrlf rest (i + 1)

/-- offset of the last LF (strrchr) -/
def lastLf (bs : Bytes) : Option Nat :=
  match splitLf bs.reverse [] with
  | none => none
  | some (line, _) => some (bs.length - line.length)

/-- text validity after the hex digits (`*s != '\r'`, BWS, then CR or ';') -/
def gwTailOk (after : Bytes) : Bool :=
  if after.head? = some cr then true
  else
    match (after.dropWhile isWsb).head? with
    | some b => b = cr || b = 59
    | none => false

/-- the last-chunk line is complete (gw_chunked = 0 after the hex loop): immediate CRLF, or
    trailer accumulation bounded by `maxField` (server.max-request-field-size).
    `h` = header buffer holding the line or [] (line then at the start of `m`), `hsz` as in the C,
    `p` = the bytes the C pointer `p` points at. -/
def gwLastChunk (maxField : Nat) (st : GwSt) (h m : Bytes) (hsz : Nat) (p : Bytes) : GwIter :=
  let len : Int := m.length
  if len - hsz ≥ 2 && p.getD 0 0 = cr && p.getD 1 0 = lf then
    if len - hsz > 2 then .err else .stop { st with te := 0, h := [], done := true }
  else
    let mlen := if maxField > h.length then maxField - h.length else 0
    if (mlen : Int) < len then
      let h1 := h ++ m.take mlen
      let h3 : Bytes :=
        match lastLf h1 with
        | some q =>
          let h2 := h1.take (q + 1)
          if h2.getD (q - 1) 0 ≠ cr then h2 ++ [cr, lf] else h2
        | none => [48, cr, lf]
      .stop { st with te := 0, h := h3 ++ [cr, lf], done := true }
    else
      let h1 := h ++ m
      match findCrlfCrlf h1 0 with
      | some k => if h1.length > k + 4 then .err else .stop { st with te := 0, h := h1, done := true }
      | none => .stop { st with te := 0, h := h1 }

/-- after a complete chunk-size line: hex loop, validity, then last-chunk handling or
    `gw_chunked = size + 2`.  `src` = the bytes the hex loop reads (start of `mem` or of `h`),
    `lineOk` = the CR test made while locating the line, `adv` = bytes of `m` the line occupies. -/
def gwLine (maxField : Nat) (st : GwSt) (src : Bytes) (lineOk : Bool) (h m : Bytes) (hsz adv : Nat)
    (p : Bytes) (fromH : Bool) : GwIter :=
  match ckHex Extracted.ckGuardGw src 0 0 with
  | .ub w => .ub w
  | .tooLarge => .err
  | .ok te k after =>
    if !(lineOk && k ≠ 0 && gwTailOk after) then .err
    else if te = 0 then gwLastChunk maxField st h m hsz p
    else if fromH && hsz ≠ 0 then .ub "mem += hsz with hsz taken from the header buffer"
    else
      let te2 := te + 2
      if !inI64 te2 then .ub "te+2"
      else
        let m' := m.drop adv
        if m'.isEmpty then .stop { st with te := te2, h := [] } else .cont { st with te := te2, h := [] } m'

def gwIter (maxField : Nat) (st : GwSt) (m : Bytes) : GwIter :=
  if st.te = 0 then
    if st.h.isEmpty then
      match splitLf m [] with
      | none =>
        if m.length ≥ Extracted.ckPartialMaxGw then .err else .stop { st with h := m }
      | some (line, rest) =>
        let hsz := line.length
        if hsz > Extracted.ckLineMaxGw then .err                  -- (0a90156) same limit as for a split line
        else
          let ok := !(hsz = 1 || line.getD (hsz - 2) 0 ≠ cr)
          gwLine maxField st m ok [] m hsz hsz rest false
    else
      match splitLf st.h [] with
      | some (line, rest) =>
        -- the buffer already holds a complete (last-chunk) line: trailer accumulation continues
        -- `memchr(s,'\n',…)[-1] != '\r'`: the byte in front of the size line's LF (c5fe038)
        gwLine maxField st st.h (st.h.getD (line.length - 2) 0 = cr) st.h m line.length 0 rest true
      | none =>
        -- an unterminated chunk-size line is buffered: the bound is on buffered + new bytes,
        -- `(off_t)(1024 - hlen) < hsz` with the difference computed in uint32_t
        match splitLf m [] with
        | none =>
          if wrap32 (Extracted.ckPartialMaxGw + (u32Max + 1) - st.h.length) < m.length then .err
          else .stop { st with h := st.h ++ m }
        | some (line, rest) =>
          if wrap32 (Extracted.ckPartialMaxGw + (u32Max + 1) - st.h.length) < line.length then .err
          else
            let h' := st.h ++ line
            gwLine maxField st h' (h'.getD (h'.length - 2) 0 = cr) h' rest 0 0 rest true
  else if st.te ≥ 2 then
    let len : Int := m.length
    let clen : Int := if st.te - 2 > len then len else st.te - 2
    let m' := m.drop clen.toNat
    let te' := st.te - clen
    let st' := { st with te := te', out := st.out + clen.toNat }
    if te' = 2 then
      if m'.length ≥ 2 then
        if m'.getD 0 0 ≠ cr || m'.getD 1 0 ≠ lf then .err else .cont { st' with te := 0 } (m'.drop 2)
      else if m'.length = 1 then
        if m'.getD 0 0 ≠ cr then .err else .stop { st' with te := 1 }
      else .cont st' m'
    else .cont st' m'
  else if st.te = 1 then
    if m.getD 0 0 ≠ lf then .err else .cont { st with te := 0 } (m.drop 1)
  else .ub "negative gw_chunked"

inductive GwOut
  | ub (what : String)
  | err
  | ok (st : GwSt)
deriving Repr, DecidableEq

def gwLoop (maxField : Nat) : Nat → GwSt → Bytes → GwOut
  | 0, _, _ => .ub "fuel"
  | fuel + 1, st, m =>
    if m.isEmpty then .ok st
    else
      match gwIter maxField st m with
      | .ub w => .ub w
      | .err => .err
      | .stop st' => .ok st'
      | .cont st' m' => gwLoop maxField fuel st' m'

/-- one call of http_chunk_decode_append_data() with the bytes of one read -/
def gwRead (maxField : Nat) (st : GwSt) (m : Bytes) : GwOut :=
  if st.done then .err else gwLoop maxField (m.length + 1) st m

/-- a whole response body delivered as a sequence of reads; stops at the first error.
    Result: state after the last successful read, number of successful reads, failure,
    largest header-buffer length seen after any read, largest length seen while the buffer
    held an unterminated chunk-size line -/
structure GwRun where
  st : GwSt := {}
  n : Nat := 0
  fail : Option String := none       -- some "err" | some "ub:…"
  maxh : Nat := 0
  maxp : Nat := 0
deriving Repr, DecidableEq

def noLf (h : Bytes) : Bool := !h.contains lf

def gwRunStep (maxField : Nat) (r : GwRun) (m : Bytes) : GwRun :=
  if r.fail.isSome then r
  else
    match gwRead maxField r.st m with
    | .ub w => { r with fail := some ("ub:" ++ w) }
    | .err => { r with fail := some "err" }
    | .ok st' =>
      { r with st := st', n := r.n + 1, maxh := Nat.max r.maxh st'.h.length,
               maxp := if noLf st'.h then Nat.max r.maxp st'.h.length else r.maxp }

def gwRun (maxField : Nat) (reads : List Bytes) : GwRun := reads.foldl (gwRunStep maxField) {}

/-! ### h1_chunked(): whole calls, resumed across reads -/

/-- request-body decoder state kept between calls: `r->x.h1.te_chunked`, `reqbody_queue.bytes_in`,
    the unconsumed bytes of the read queue (viewed contiguously: h1_cq_compact() joins the chunks
    before every decision that looks at more than one), `reqbody_length >= 0`, keep-alive -/
structure H1St where
  te : Int := 0
  bytesIn : Int := 0
  q : Bytes := []
  done : Bool := false
  ka : Bool := true
deriving Repr, DecidableEq

inductive H1Iter
  | ub (what : String)
  | err (status : Nat)
  | stop (st : H1St)              -- break / return HANDLER_GO_ON
  | cont (st : H1St)              -- next round of the do-while loop
deriving Repr, DecidableEq

/-- strchr(s, '\n') / strstr(s, "\r\n\r\n") on a NUL-terminated buffer: nothing behind a NUL is seen -/
def cstr (q : Bytes) : Bytes := q.takeWhile (· ≠ 0)

def h1Iter (msKB maxField : Nat) (st : H1St) : H1Iter :=
  if st.te = 0 then
    match lfIdx (cstr st.q) 0 with
    | none => if st.q.length ≥ Extracted.ckPartialMaxH1 then .err 400 else .stop st
    | some i =>
      let hsz := i + 1
      let line := st.q.take hsz
      let rest := st.q.drop hsz
      match ckHex Extracted.ckGuardH1 line 0 0 with
      | .ub w => .ub w
      | .tooLarge => .err 400
      | .ok te k after =>
        if !ck1LineOk line k after then .err 400
        else if hsz ≥ Extracted.ckLineMaxH1 then .err 400
        else if te = 0 then
          -- last chunk: the line is consumed only together with the trailer section
          if rest.getD 0 0 = cr && rest.getD 1 0 = lf then .stop { st with q := rest.drop 2, done := true }
          else
            match findCrlfCrlf (cstr (st.q.drop (hsz - 2))) 0 with
            | some j => .stop { st with q := st.q.drop (hsz - 2 + j + 4), done := true }
            | none =>
              if st.q.length < maxField then .stop st
              else .stop { st with q := [], done := true, ka := false }
        else
          let maxReq : Int := (msKB : Int) * 1024
          if !inI64 maxReq then .ub "max_request_size<<10"
          else if msKB ≠ 0 && (maxReq < te || maxReq - te < st.bytesIn) then .err 413
          else
            let te2 := te + 2
            if !inI64 te2 then .ub "te+2" else .cont { st with te := te2, q := rest }
  else
    let len : Int := st.q.length
    -- if (te_chunked > 2) { if (len > te_chunked-2) len = te_chunked-2; … steal len … te_chunked -= len }
    let t2 := st.te - 2
    if !inI64 t2 then .ub "te-2"
    else
      let n : Int := if st.te > 2 then (if len > t2 then t2 else len) else 0
      let room := Extracted.ckInMemMax - st.bytesIn
      if !inI64 room then .ub "64k-bytes_in"
      else
        let in' := st.bytesIn + n
        if !inI64 in' then .ub "bytes_in+len"
        else
          let te' := st.te - n
          if !inI64 te' then .ub "te-len"
          else
            let q' := st.q.drop n.toNat
            let st' := { st with te := te', bytesIn := in', q := q' }
            if (q'.length : Int) < te' then .stop st'
            else if te' = 2 then
              if q'.getD 0 0 ≠ cr then .err 400
              else if q'.getD 1 0 ≠ lf then .err 400
              else .cont { st' with te := 0, q := q'.drop 2 }
            else .cont st'

inductive H1Out
  | ub (what : String)
  | err (status : Nat)
  | ok (st : H1St)
deriving Repr, DecidableEq

def h1Loop (msKB maxField : Nat) : Nat → H1St → H1Out
  | 0, _ => .ub "fuel"
  | fuel + 1, st =>
    match h1Iter msKB maxField st with
    | .ub w => .ub w
    | .err e => .err e
    | .stop st' => .ok st'
    | .cont st' => if st'.q.isEmpty then .ok st' else h1Loop msKB maxField fuel st'

/-- one call of h1_chunked() after `m` was appended to the read queue -/
def h1Call (msKB maxField : Nat) (st : H1St) (m : Bytes) : H1Out :=
  let st1 := { st with q := st.q ++ m }
  if st1.q.isEmpty then .ok st1 else h1Loop msKB maxField (2 * st1.q.length + 2) st1

structure H1Run where
  st : H1St := {}
  n : Nat := 0
  fail : Option String := none      -- some "err <status>" | some "ub:…"
  maxrest : Nat := 0
deriving Repr, DecidableEq

def h1RunStep (msKB maxField : Nat) (r : H1Run) (m : Bytes) : H1Run :=
  if r.fail.isSome || r.st.done then r
  else
    match h1Call msKB maxField r.st m with
    | .ub w => { r with fail := some ("ub:" ++ w), n := r.n + 1 }
    | .err e => { r with fail := some ("err " ++ toString e), n := r.n + 1 }
    | .ok st' =>
      { r with st := st', n := r.n + 1,
               maxrest := if st'.done then r.maxrest else Nat.max r.maxrest st'.q.length }

def h1Run (msKB maxField : Nat) (reads : List Bytes) : H1Run := reads.foldl (h1RunStep msKB maxField) {}

/-! ### waiting for more header bytes: h1_recv_headers(), http_response_parse_headers() -/

inductive HeadDecision
  | reject          -- 431 / 502
  | wait            -- headers incomplete: keep the bytes and read more
  | complete (hlen : Nat)
deriving Repr, DecidableEq

/-- the decision both callers take on the bytes accumulated so far (`block`), with byte limit
    `limit` (max_request_field_size / MAX_HTTP_RESPONSE_FIELD_SIZE); `lineCheck` = the caller also
    tests `hoff[0] >= hoff431` (h1_recv_headers does, http_response_parse_headers does not) -/
def headDecision (limit : Nat) (lineCheck : Bool) (block : Bytes) : R HeadDecision :=
  match hoffScan 1 block with
  | .ub w => .ub w
  | .ok (ret, st) =>
    if (if ret ≠ 0 then ret else block.length) > limit || (lineCheck && st.cnt ≥ Extracted.hoff431)
    then .ok .reject
    else if ret = 0 then .ok .wait else .ok (.complete ret)

/-! ### HTTP/2 frame length checks -/

def flagEndStream : UInt8 := 0x01
def flagEndHeaders : UInt8 := 0x04
def flagPadded : UInt8 := 0x08
def flagPriority : UInt8 := 0x20
def has (flags f : UInt8) : Bool := flags &&& f ≠ 0

def u24 (bs : Bytes) (i : Nat) : Nat :=
  (bs.getD i 0).toNat * 65536 + (bs.getD (i + 1) 0).toNat * 256 + (bs.getD (i + 2) 0).toNat
def u32be (bs : Bytes) (i : Nat) : Nat :=
  (bs.getD i 0).toNat * 16777216 + u24 bs (i + 1)
def u31be (bs : Bytes) (i : Nat) : Nat := u32be bs i % 2147483648

inductive LenOut
  | ub (what : String)
  | protoErr
  | ok (off : Nat) (alen : Nat)     -- fragment / data = frame bytes [9+off, 9+off+alen)
deriving Repr, DecidableEq

/-- unsigned subtraction `a -= b` that the code performs only after a guard -/
def subU (a b : Nat) (what : String) : R Nat := if b ≤ a then .ok (a - b) else .ub what

/-- h2_recv_headers(): padding / priority length checks.  `flen` = frame length,
    `pad` = s[9] (used only when PADDED).  Result: offset of the header block fragment in the
    payload and its length `alen`. -/
def h2HeadersLen (flen : Nat) (flags : UInt8) (pad : Nat) : LenOut :=
  let padded := has flags flagPadded
  if padded && flen < 1 + pad then .protoErr                -- if (alen < 1 + pad) error
  else
    match (if padded then subU flen (1 + pad) "alen -= 1+pad" else R.ok flen) with
    | .ub w => .ub w
    | .ok alen =>
      let off := if padded then 1 else 0
      if has flags flagPriority then
        if alen < 5 then .protoErr                          -- if (alen < 5) error
        else
          match subU alen 5 "alen -= 5" with
          | .ub w => .ub w
          | .ok alen' => .ok (off + 5) alen'
      else .ok off alen

/-- h2_recv_data(): `if (pad >= len) error; alen -= 1 + pad` -/
def h2DataLen (len : Nat) (flags : UInt8) (pad : Nat) : LenOut :=
  if has flags flagPadded then
    if pad ≥ len then .protoErr
    else
      match subU len (1 + pad) "alen -= 1+pad" with
      | .ub w => .ub w
      | .ok alen => .ok 1 alen
  else .ok 0 len

/-- classification of a HEADERS frame by h2_recv_headers() before any HPACK decoding:
    `true` = connection error PROTOCOL_ERROR (even stream id, bad padding, short priority
    block, stream depending on itself) -/
def h2HeadersEarly (cid : Nat) (frame : Bytes) : R Bool :=
  let flen := frame.length - 9
  let flags := frame.getD 4 0
  let id := u31be frame 5
  if id % 2 = 0 then .ok true
  else
    match h2HeadersLen flen flags (frame.getD 9 0).toNat with
    | .ub w => .ub w
    | .protoErr => .ok true
    | .ok off _ =>
      if has flags flagPriority then
        let dep := u32be frame (9 + off - 5)
        .ok (dep = id && id > cid)
      else .ok false

inductive ContOut
  | ub (what : String)
  | incomplete (need : Nat) (calm : Bool)      -- returns n+9 / n : wait for more data
  | goaway (code : Nat)                        -- returns 0
  | merged (m : Nat) (buf : Bytes) (calm : Bool)   -- returns m; `calm` = GOAWAY(NO_ERROR) after 32 frames
deriving Repr, DecidableEq

/-- early outcomes of the scanning loop -/
inductive ScanStop
  | ub (what : String)
  | incomplete (need : Nat)
  | goaway (code : Nat)
deriving Repr

/-- scanning loop of h2_recv_continuation(): returns the offset after the last
    CONTINUATION frame and the number of frames, or the early outcome -/
def contScan (fsize id : Nat) (buf : Bytes) : Nat → Nat → Nat → Sum (ScanStop × Nat) (Nat × Nat)
  | 0, _, loops => .inl (.ub "fuel", loops)
  | fuel + 1, n, loops =>
    if n + 9 > u32Max then .inl (.ub "n+9 wraps", loops)
    else if buf.length < n + 9 then .inl (.incomplete (n + 9), loops)
    else if buf.getD (n + 3) 0 ≠ 9 then .inl (.goaway 1, loops)
    else
      let flags := buf.getD (n + 4) 0
      let flen := u24 buf n
      if id ≠ u32be buf (n + 5) then .inl (.goaway 1, loops)
      else if flen > fsize then .inl (.goaway 6, loops)
      else
        let n' := n + 9 + flen
        if n' > u32Max then .inl (.ub "n wraps", loops)
        else if n' ≥ Extracted.h2ContCap then .inl (.goaway 6, loops)
        else if buf.length < n' then .inl (.incomplete n', loops)
        else if has flags flagEndHeaders then .inr (n', loops + 1)
        else contScan fsize id buf fuel n' (loops + 1)

/-- merge loop: move each CONTINUATION payload down to offset m -/
def contMerge (buf : Bytes) : Nat → Nat → Nat → Bytes → R (Nat × Nat × Bytes)
  | 0, _, _, _ => .ub "fuel"
  | fuel + 1, n, m, acc =>
    -- acc = bytes [0, m) of the result so far
    if n + 9 > buf.length then .ub "read past data"
    else
      let flen := u24 buf n
      let flags := buf.getD (n + 4) 0
      if n + 9 + flen > buf.length then .ub "memmove source past data"
      else if m > n then .ub "memmove overlap forward"
      else
        let acc' := acc ++ (buf.drop (n + 9)).take flen
        let m' := m + flen
        let n' := n + 9 + flen
        if has flags flagEndHeaders then .ok (n', m', acc') else contMerge buf fuel n' m' acc'

def setU24 (v : Nat) : Bytes := [(v / 65536 % 256).toUInt8, (v / 256 % 256).toUInt8, (v % 256).toUInt8]

/-- h2_recv_continuation(9+flen0, clen, cqlen, cq, con) with the whole read queue = `buf`
    in one chunk (clen = cqlen = buf.length); the first frame (HEADERS, no END_HEADERS) is
    complete in `buf`. -/
def h2Cont (fsize : Nat) (buf : Bytes) : ContOut :=
  let flen0 := u24 buf 0
  let n0 := 9 + flen0
  let id := u31be buf 5
  match contScan fsize id buf (buf.length + 1) n0 0 with
  | .inl (.ub w, _) => .ub w
  | .inl (.incomplete need, loops) => .incomplete need (loops ≥ 32)
  | .inl (.goaway code, _) => .goaway code
  | .inr (_, loops) =>
    let flags0 := buf.getD 4 0
    let padded := has flags0 flagPadded
    let plen := (buf.getD 9 0).toNat
    if padded && flen0 < 1 + plen + (if has (buf.getD (n0 + 4) 0) flagPriority then 5 else 0) then .goaway 1
    else
      let m0 := if padded then n0 - plen else n0
      if padded && n0 < plen then .ub "m -= plen wraps"
      else
        let head := if padded then (buf.take m0).set 9 0 else buf.take m0
        match contMerge buf (buf.length + 1) n0 m0 head with
        | .ub w => .ub w
        | .ok (n, m, acc) =>
          if m < 9 then .ub "m-9 wraps"
          else
            let acc := setU24 (m - 9) ++ acc.drop 3
            let acc := acc.set 4 (acc.getD 4 0 ||| flagEndHeaders)      -- s[4] |= H2_FLAG_END_HEADERS
            let tail := if n < buf.length then buf.drop n else []
            .merged m (acc ++ tail) (loops ≥ 32)

end Arith
end LtVerif
