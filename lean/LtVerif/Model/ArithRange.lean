/-
  C12 — the arithmetic of http_range.c in checked form, over the model of Model/Range.lean (C15):
  every value the C code computes from a parsed number or a stored range goes through the int64
  check of Model/Arith.lean.  Props/C12.lean shows the checked forms never yield `ub` and equal the
  unchecked model on every state the parser can reach.
-/
import LtVerif.Model.Arith
import LtVerif.Model.Range
namespace LtVerif
namespace Arith
open B

/-! ### http_range.c arithmetic in checked form (over Model/Range.lean) -/

open Range in
/-- the values http_range_parse_next() computes from the first strtoll() result `n`
    (suffix form): `-n`, `len + n`, `len - 1` -/
def rangeSuffixChk (n len : Int) : R Rng :=
  if n = LLONG_MIN then .ub "-LLONG_MIN"
  else
    let neg := -n
    if !inI64 neg then .ub "-n"
    else
      let l1 := len - 1
      if !inI64 l1 then .ub "len-1"
      else if len > neg then
        let a := len + n
        if !inI64 a then .ub "len+n" else .ok (a, l1)
      else .ok (0, l1)

open Range in
/-- `ranges[n-2]-80` in http_range_parse() -/
def rangeStepChk (st : PSt) (rg : Rng) : R (PSt × Bool) :=
  match st.rs with
  | [] => .ok (parseStep st rg)
  | prev :: _ =>
    if prev.1 ≤ rg.1 then
      let t := rg.1 - 80
      if !inI64 t then .ub "ranges[n-2]-80" else .ok (parseStep st rg)
    else .ok (parseStep st rg)

open Range in
/-- `ranges[j]-80` / `b-80` in http_range_coalesce_unsorted() -/
def rangeOverlapsChk (b e : Int) (r : Rng) : R Bool :=
  if b ≤ r.1 then
    (if !inI64 (r.1 - 80) then .ub "ranges[j]-80" else .ok (overlaps b e r))
  else
    (if !inI64 (b - 80) then .ub "b-80" else .ok (overlaps b e r))

end Arith
end LtVerif
