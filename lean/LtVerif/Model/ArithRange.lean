/-
  C12 — http_range.c (http_range_parse_next, http_range_parse, http_range_coalesce_unsorted) as a
  *checked* machine-arithmetic model: every off_t value the C code computes goes through the int64
  check of Model/Arith.lean, every `ranges[]` access carries its index.  Self-contained (does not
  import the C15 model Model/Range.lean; the two describe the same function and are both tied to
  the C by their own correspondence streams).  Limits come from Extracted/RangeConst.lean.

  The C parser walks one NUL-terminated string; strtoll() consumes blanks, a sign and digits only,
  so no step crosses a ',' and the ','-separated pieces are parsed independently.
-/
import LtVerif.Model.Arith
import LtVerif.Extracted.RangeConst
namespace LtVerif
namespace Arith
namespace Rg
open B

abbrev Rng := Int × Int

def llMax : Int := Extracted.llongMax
def llMin : Int := Extracted.llongMin
def rmax : Nat := Extracted.rangeRMAX
def rmaxU : Nat := Extracted.rangeRMAXUnsorted

/-! ### strtoll(s, &e, 10) -/

def isSpace (b : UInt8) : Bool := b = 32 || (9 ≤ b && b ≤ 13)

def takeSign : Bytes → Bool × Bytes
  | 45 :: t => (true, t)
  | 43 :: t => (false, t)
  | s => (false, s)

def decVal (ds : Bytes) : Nat := ds.foldl (fun acc d => acc * 10 + (d.toNat - 48)) 0

def clampLL (neg : Bool) (v : Nat) : Int :=
  if neg then (if -(v : Int) < llMin then llMin else -(v : Int))
  else (if (v : Int) > llMax then llMax else (v : Int))

/-- `none` = no conversion (value 0, e = s); else (clamped value, digits consumed, text at e) -/
def strtoll (s : Bytes) : Option (Int × Bytes × Bytes) :=
  let (neg, s2) := takeSign (s.dropWhile isSpace)
  let ds := s2.takeWhile isDigit
  if ds = [] then none
  else some (clampLL neg (decVal ds), ds, s2.dropWhile isDigit)

def isBlank (b : UInt8) : Bool := b = 32 || b = 9
def skipWs (s : Bytes) : Bytes := s.dropWhile isBlank

/-- checked off_t computation -/
def chk (x : Int) (what : String) : R Int := if inI64 x then .ok x else .ub what

/-! ### http_range_parse_next() -/

/-- the range (none = `ranges[1]` left at -1) and the text at the returned pointer -/
def parseNext (s : Bytes) (len : Int) : R (Option Rng × Bytes) :=
  match strtoll s with
  | none => .ok (none, skipWs s)                              -- n = 0, s == e
  | some (n, _, e) =>
    if n ≥ 0 then
      if n ≠ llMax ∧ n < len then
        match skipWs e with
        | 45 :: s2 =>
          match chk (len - 1) "len-1" with
          | .ub w => .ub w
          | .ok l1 =>
            match strtoll s2 with
            | none => .ok (some (n, l1), skipWs s2)           -- "first-"
            | some (m, ds, e2) =>
              if m = 0 ∧ ds.getLast? ≠ some 48 then .ok (some (n, l1), skipWs e2)   -- n == 0 && e[-1] != '0'
              else if n ≤ m then .ok (some (n, if m < len then m else l1), skipWs e2)
              else .ok (none, skipWs e2)
        | e1 => .ok (none, skipWs e1)
      else .ok (none, skipWs e)
    else
      match chk (len - 1) "len-1" with
      | .ub w => .ub w
      | .ok l1 =>
        if n ≠ llMin then
          match chk (-n) "-n" with
          | .ub w => .ub w
          | .ok neg =>
            if len > neg then
              match chk (len + n) "len+n" with
              | .ub w => .ub w
              | .ok a => .ok (some (a, l1), skipWs e)
            else .ok (some (0, l1), skipWs e)
        else .ok (some (0, l1), skipWs e)                     -- clamped suffix-length: whole representation

/-! ### http_range_parse() -/

/-- accepted ranges, most recent first (array slots 2i, 2i+1), and the current limit in ranges -/
structure PSt where
  rs : List Rng
  lim : Nat
deriving Repr, DecidableEq

/-- the body of the do-while loop for one accepted range; Bool = `break` -/
def parseStep (st : PSt) (rg : Rng) : R (PSt × Bool) :=
  match st.rs with
  | [] => .ok ({ st with rs := [rg] }, false)
  | prev :: more =>
    if prev.1 ≤ rg.1 then
      match chk (rg.1 - 80) "ranges[n-2]-80" with
      | .ub w => .ub w
      | .ok t =>
        if prev.2 < t then .ok ({ st with rs := rg :: prev :: more }, false)
        else .ok ({ st with rs := (prev.1, if prev.2 < rg.2 then rg.2 else prev.2) :: more }, false)
    else if more.length + 2 > rmaxU then .ok (st, true)
    else .ok ({ rs := rg :: prev :: more, lim := rmaxU }, false)

def parseLoop (len : Int) : PSt → List Bytes → R PSt
  | st, [] => .ok st
  | st, p :: ps =>
    -- http_range_parse_next() writes ranges[n] and ranges[n+1] with n = 2 * (ranges held)
    if 2 * st.rs.length + 1 ≥ 2 * rmax then .ub "ranges[] index"
    else
      match parseNext p len with
      | .ub w => .ub w
      | .ok (some rg, []) =>
        match parseStep st rg with
        | .ub w => .ub w
        | .ok (st', brk) => if brk ∨ st'.rs.length ≥ st'.lim then .ok st' else parseLoop len st' ps
      | .ok _ => parseLoop len st ps

/-! ### http_range_coalesce_unsorted() -/

/-- the `continue` test negated -/
def overlaps (b e : Int) (r : Rng) : R Bool :=
  if b ≤ r.1 then
    match chk (r.1 - 80) "ranges[j]-80" with
    | .ub w => .ub w
    | .ok t => .ok (!(e < t))
  else
    match chk (b - 80) "b-80" with
    | .ub w => .ub w
    | .ok t => .ok (!(r.2 < t))

def mergeFirst (b e : Int) : List Rng → R (Option (Rng × List Rng))
  | [] => .ok none
  | r :: rest =>
    match overlaps b e r with
    | .ub w => .ub w
    | .ok true => .ok (some ((if b ≤ r.1 then b else r.1, if e ≥ r.2 then e else r.2), rest))
    | .ok false =>
      match mergeFirst b e rest with
      | .ub w => .ub w
      | .ok none => .ok none
      | .ok (some (m, rest')) => .ok (some (m, r :: rest'))

def coalescePass : List Rng → R (Option (List Rng))
  | [] => .ok none
  | r :: rest =>
    match mergeFirst r.1 r.2 rest with
    | .ub w => .ub w
    | .ok (some (m, rest')) => .ok (some (m :: rest'))
    | .ok none =>
      match coalescePass rest with
      | .ub w => .ub w
      | .ok none => .ok none
      | .ok (some rest') => .ok (some (r :: rest'))

/-- restart after every combination; every combination removes one range, so `fuel` = the
    number of ranges suffices -/
def coalesce : Nat → List Rng → R (List Rng)
  | 0, l => .ok l
  | fuel + 1, l =>
    match coalescePass l with
    | .ub w => .ub w
    | .ok none => .ok l
    | .ok (some l') => coalesce fuel l'

/-- http_range_parse(): `s` = text after "bytes=" (NUL-free), `len` = representation length -/
def parse (s : Bytes) (len : Int) : R (List Rng) :=
  match parseLoop len { rs := [], lim := rmax } (splitOn 44 s) with
  | .ub w => .ub w
  | .ok st =>
    let rs := st.rs.reverse
    if rs.length ≤ 1 then .ok rs
    else if st.lim = rmax then .ok rs
    else coalesce rs.length rs

end Rg
end Arith
end LtVerif
