/-
C12 — the server-wide scratch buffer `srv->tmp_buf` (`r->tmp_buf` of every request, h2 streams included)
as a HISTORY of the operations two modules apply to it, in machine arithmetic (`Buf`, `prepareCopy`,
`prepareAppend`, `truncate`, `clear` of `Model/Arith.lean` = buffer.c as it is):

* h2.c:`h2_init_con`           `buffer_string_prepare_copy(h2r->tmp_buf, 131071)` (extracted `h2TmpBufSize`)
* h2.c:`h2_parse_headers_frame` `force_assert(tb->size >= 65536)` before HPACK decoding into the buffer
  (`h2_send_headers`/`h2_send_headers_block` assert `>= 131072` before encoding)
* mod_fastcgi.c:`fcgi_recv_parse_loop`, case FCGI_STDERR with `packet.len != 0`:
  `buffer_clear(tb); fastcgi_get_packet_body(tb, hctx, &packet)` =
  `buffer_string_prepare_append(tb, len)` + `buffer_truncate(tb, 0 + len - padding)`, `len` = content + padding
  (uint16 + uint8 of the record header); FCGI_STDOUT does not touch the buffer once the head is complete.

core Lean only (closure of driver `ltm_arith`).
-/
import LtVerif.Model.Arith
namespace LtVerif
namespace Arith

/-- size h2_parse_headers_frame() asserts before decoding -/
def h2DecodeNeed : Nat := 65536
/-- size h2_send_headers() / h2_send_headers_block() assert before encoding -/
def h2EncodeNeed : Nat := 131072

inductive TbOp
  | h2init                  -- an HTTP/2 connection is set up
  | h2retire                -- it goes away
  | h2hdr                   -- a HEADERS frame is HPACK-decoded on the open connection
  | fcgiErr (n p : Nat)     -- FCGI_STDERR record: n content octets, p padding octets
  | fcgiOut (n p : Nat)     -- FCGI_STDOUT record (response head complete)
deriving Repr, DecidableEq

/-- scratch buffer + "an HTTP/2 connection is open" -/
structure TbSt where
  b : Buf
  h2open : Bool
deriving Repr, DecidableEq

/-- case FCGI_STDERR of fcgi_recv_parse_loop() -/
def tbFcgiErr (b : Buf) (n p : Nat) : BufOut :=
  if n + p = 0 then .ok b                                -- if (packet.len)
  else
    match prepareAppend (clear b) (n + p) with           -- buffer_clear; buffer_string_prepare_append(b, packet->len)
    | .abort => .abort
    | .ok b' => .ok (truncate b' (0 + (n + p) - p))       -- buffer_truncate(b, blen + len - padding), blen = 0

def tbStep (s : TbSt) : TbOp → Option TbSt
  | .h2init =>
    match prepareCopy s.b Extracted.h2TmpBufSize with
    | .abort => none
    | .ok b' => some ⟨b', true⟩
  | .h2retire => some { s with h2open := false }
  | .h2hdr =>
    if !s.h2open then some s                             -- no connection, no frame
    else if s.b.size ≥ h2DecodeNeed then some s else none   -- force_assert(tb->size >= 65536)
  | .fcgiErr n p =>
    match tbFcgiErr s.b n p with
    | .abort => none
    | .ok b' => some { s with b := b' }
  | .fcgiOut _ _ => some s

/-- run a history; `none` = the process aborted.  The trace is the buffer size after every step. -/
def tbRun : TbSt → List TbOp → Option (TbSt × List Nat)
  | s, [] => some (s, [])
  | s, op :: rest =>
    match tbStep s op with
    | none => none
    | some s' =>
      match tbRun s' rest with
      | none => none
      | some (sf, tr) => some (sf, s'.b.size :: tr)

end Arith
end LtVerif
