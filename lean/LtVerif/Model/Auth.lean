/-
  Model of HTTP authentication in lighttpd (C16):
    src/mod_auth.c        mod_auth_uri_handler(), mod_auth_check_basic(),
                          mod_auth_check_digest() and its helpers
                          (parse_authorization, validate_params, validate_userstar,
                          validate_nonce, digest_get, digest_mutate, append_nonce),
                          the auth cache (query/insert/periodic cleanup),
                          mod_auth_require_parse()
    src/mod_auth_api.c    http_auth_match_rules(), http_auth_digest_len()
    src/mod_authn_file.c  plain / htdigest / htpasswd backends (file scan)
    src/base64.c          li_base64_dec() (standard alphabet; table extracted)
    src/ck.c              ck_memeq_const_time*() (= equality of byte strings)
    src/algo_splaytree.c  the cache is modelled as a finite map keyed by the
                          integer cache key (tree shape is not observable)

  External functions are parameters (`Prims`): the message digest `H` (MD5 in this
  build: no crypto library is configured, so MD5 / MD5-sess are the only digest
  algorithms the code accepts), the cache-key hash (ARBITRARY: theorems hold for
  every hash, i.e. for every pattern of key collisions), and crypt(3)-style
  verification of htpasswd records.

  C strings: request header values and the user file are NUL-free (the request
  parser rejects NUL, C01); where C reads a base64-decoded buffer as a C string
  (strlen(pw), strlen(user)) the model uses `cstr`.

  History: three defects were found with this model and are fixed in /repo (base64 decode
  stopped by an invalid character, D22; nonce timestamp with bit 63 set, 26b0964; user-keyed
  cache entry answering a userhash=true request, D23); the model describes the code as it is now.
  One finding is OPEN and modelled as the code behaves: the cache is shared by all backend
  scopes (`Cfg.scopes`, `serve`), so an entry vouched for by one backend / user file answers
  requests whose conditions select another one (see c16_cache_upgrades_across_backend_scopes).
-/
import LtVerif.Model.Burl
import LtVerif.Extracted.AuthTables
namespace LtVerif.Auth
open LtVerif B

/-! ### small byte-string helpers -/

/-- C-string reading of a buffer: bytes before the first NUL -/
def cstr (b : Bytes) : Bytes := b.takeWhile (· ≠ 0)

def isWs (b : UInt8) : Bool := b = 32 || b = 9

/-- one byte of buffer_eq_icase_ssn() -/
def icaseEqByte (a b : UInt8) : Bool := a = b || ((a ^^^ b) = 0x20 && isAlpha a)

/-- buffer_eq_icase_ssn(s, pat, |pat|), `s` NUL-terminated, `pat` NUL-free -/
def icasePrefix : Bytes → Bytes → Bool
  | _, [] => true
  | [], _ :: _ => false
  | a :: s, p :: ps => icaseEqByte a p && icasePrefix s ps

/-- buffer_eq_icase_ss() -/
def icaseEq (a b : Bytes) : Bool := a.length = b.length && icasePrefix a b

/-- split at the first occurrence of `sep` (memchr) -/
def splitFirst (sep : UInt8) : Bytes → Option (Bytes × Bytes)
  | [] => none
  | b :: rest =>
    if b = sep then some ([], rest)
    else match splitFirst sep rest with
      | none => none
      | some (a, c) => some (b :: a, c)

def toHexLc (bs : Bytes) : Bytes :=
  bs.flatMap fun (b : UInt8) => [hexDigitLC (b >>> 4), hexDigitLC (b &&& 0xf)]

/-- li_hex2bin(): even number of hex digits (either case) -/
def hex2bin : Bytes → Option Bytes
  | [] => some []
  | [_] => none
  | h :: l :: rest =>
    match hexVal h, hexVal l, hex2bin rest with
    | some a, some b, some r => some (((a <<< 4) ||| b) :: r)
    | _, _, _ => none

/-- little-endian bytes of a machine integer -/
def leBytes : Nat → Nat → Bytes
  | 0, _ => []
  | n + 1, v => (v % 256).toUInt8 :: leBytes n (v / 256)

/-- number of bytes buffer_append_uint_hex_lc() prints (at least one) -/
def byteLen : Nat → Nat → Nat
  | 0, _ => 1
  | fuel + 1, v => if v < 256 then 1 else 1 + byteLen fuel (v / 256)

def hexFixed : Nat → Nat → Bytes
  | 0, _ => []
  | n + 1, v => hexFixed n (v / 16) ++ [hexDigitLC (v % 16).toUInt8]

/-- buffer_append_uint_hex_lc(): lower-case hex, whole bytes (even number of digits) -/
def hexLcEven (v : Nat) : Bytes := hexFixed (2 * byteLen 16 v) v

/-- value of a signed 64-bit integer with the given bit pattern -/
def toInt64 (n : Nat) : Int :=
  let m : Nat := n % 2 ^ 64
  if m < 2 ^ 63 then Int.ofNat m else Int.ofNat m - 2 ^ 64

/-- read up to `maxd` hex digits: (value, rest) -/
def hexPrefix : Nat → Bytes → Nat → Nat × Bytes
  | 0, s, acc => (acc, s)
  | _ + 1, [], acc => (acc, [])
  | n + 1, b :: rest, acc =>
    match hexVal b with
    | some d => hexPrefix n rest (acc * 16 + d.toNat)
    | none => (acc, b :: rest)

/-! ### base64 (li_base64_dec, BASE64_STANDARD) -/

def b64Class (b : UInt8) : Int :=
  if b < 128 then Extracted.b64StdRev.getD b.toNat (-1) else -1

structure B64Acc where
  out4 : Nat := 0
  i : Nat := 0
  out : Bytes := []        -- reversed
deriving Repr

/-- the decoding loop; second component: `none` = input exhausted,
    `some (class, byte)` = stopped at that byte -/
def b64Loop : Bytes → B64Acc → B64Acc × Option (Int × UInt8)
  | [], acc => (acc, none)
  | b :: rest, acc =>
    let ch := b64Class b
    if ch < 0 then
      if ch = -2 then b64Loop rest acc else (acc, some (ch, b))
    else
      let out4 := acc.out4 * 64 + ch.toNat
      let i := acc.i + 1
      if i % 4 = 0 then
        b64Loop rest { out4 := 0, i := i,
                       out := (out4 % 256).toUInt8 :: (out4 / 256 % 256).toUInt8
                              :: (out4 / 65536 % 256).toUInt8 :: acc.out }
      else b64Loop rest { acc with out4 := out4, i := i }

/-- li_base64_dec(): decoded bytes; `[]` = failure (the C returns length 0).
    A stop at a pad character or at NUL is tolerated, a stop at any other
    character is an error (property-conforming reading, see file header). -/
def base64Dec (inp : Bytes) : Bytes :=
  let r := b64Loop inp {}
  let acc := r.1
  let ok : Bool := match r.2 with
    | none => true
    | some (ch, b) => ch = -3 || b = 0
  let m := if ok then acc.i % 4 else 1
  if m = 0 then acc.out.reverse
  else if m = 2 then ((acc.out4 / 16 % 256).toUInt8 :: acc.out).reverse
  else if m = 3 then ((acc.out4 / 4 % 256).toUInt8 :: (acc.out4 / 1024 % 256).toUInt8 :: acc.out).reverse
  else []

/-! ### configuration -/

inductive Scheme | basic | digest
deriving DecidableEq, Repr

inductive Backend | none | plain | htdigest | htpasswd
deriving DecidableEq, Repr

/-- parsed "require" field of an auth.require rule (groups/hosts are accepted by
    the parser but never matched by mod_auth) -/
structure Require where
  validUser : Bool := false
  users : List Bytes := []
deriving DecidableEq, Repr

/-- one piece "key=value" of the require string; `none` = configuration error -/
def requireParsePieces : List Bytes → Require → Option Require
  | [], r => some r
  | p :: rest, r =>
    match splitFirst 61 p with
    | none => none
    | some (k, v) =>
      if v = [] then none
      else
        let r' : Option Require :=
          if k = ofString "user" then some { r with users := r.users ++ [v] }
          else if k = ofString "host" then some r
          else if k = ofString "group" then some r
          else none
        match r' with
        | none => none
        | some r' => if rest = [[]] then some r' else requireParsePieces rest r'

/-- mod_auth_require_parse() -/
def requireParse (b : Bytes) : Option Require :=
  if b = ofString "valid-user" then some { validUser := true }
  else requireParsePieces (splitOn 124 b) {}

/-- http_auth_match_rules(require, user, NULL, NULL); `user` is read as a C string -/
def matchRules (r : Require) (user : Bytes) : Bool :=
  r.validUser || r.users.contains (cstr user)

structure Rule where
  pfx : Bytes
  scheme : Scheme
  realm : Bytes
  algorithm : Nat           -- bit mask HTTP_AUTH_DIGEST_*
  secret : Option Bytes     -- nonce-secret
  userhash : Bool
  req : Require
deriving DecidableEq, Repr

structure Cfg where
  rules : List Rule
  backend : Backend          -- auth.backend in effect (global value; see `Cfg.at`)
  file : Bytes               -- contents of the user file in effect (auth.backend.*.userfile)
  cacheMaxAge : Option Int   -- auth.cache max-age (none: no cache)
  /-- backend / user file set inside config conditions (e.g. per `$HTTP["host"]`): mod_auth and
      mod_authn_file patch their configuration PER REQUEST (mod_auth_patch_config(),
      mod_authn_file_patch_config()), while auth.require and auth.cache here are the global ones,
      i.e. the cache is shared by all scopes -/
  scopes : List (Backend × Bytes) := []
  cur : Nat := 0             -- index of the scope in effect (recorded in cache entries as a ghost)
deriving Repr

/-- the configuration in effect for a request whose conditions select scope `s`
    (an index without entry in `scopes`: no condition overrides the global backend) -/
def Cfg.at (cfg : Cfg) (s : Nat) : Cfg :=
  match cfg.scopes[s]? with
  | some bf => { cfg with backend := bf.1, file := bf.2, cur := s }
  | none => { cfg with cur := s }

/-- external functions -/
structure Prims where
  H : Bytes → Bytes              -- message digest (binary)
  hash : Nat → Bytes → Int       -- cache key of (rule index, user)
  crypt : Bytes → Bytes → Bool   -- htpasswd record × password

/-- array_match_key_prefix(): first rule (configuration order) whose path is a prefix -/
def findRule : List Rule → Bytes → Nat → Option (Nat × Rule)
  | [], _, _ => none
  | r :: rs, path, i =>
    if r.pfx.isPrefixOf path then some (i, r) else findRule rs path (i + 1)

/-! ### user files (mod_authn_file.c) -/

def fileLines (data : Bytes) : List Bytes := splitOn 10 (cstr data)

/-- blank, comment and over-long lines are skipped -/
def skipLine (l : Bytes) : Bool :=
  (match l with
   | [] => true
   | b :: _ => b = 13 || b = 35) || l.length > 1024

def stripCR (b : Bytes) : Bytes := if b.getLast? = some 13 then b.dropLast else b

/-- mod_authn_file_htpasswd_get(): record of the first line "user:record" -/
def htpasswdScan : List Bytes → Bytes → Option Bytes
  | [], _ => none
  | l :: ls, user =>
    if skipLine l then htpasswdScan ls user
    else match splitFirst 58 l with
      | none => htpasswdScan ls user
      | some (u, p) => if u = user then some (stripCR p) else htpasswdScan ls user

def htpasswdGet (file user : Bytes) : Option Bytes := htpasswdScan (fileLines file) user

/-- what one line of an htdigest file does to the scan -/
inductive HtdLine
  | next (uname : Bytes)                    -- keep scanning (comparing with `uname`)
  | done (r : Option (Bytes × Bytes))       -- stop: found (user, digest) / error
deriving Repr

/-- the hex digest field: must have the expected length, else the line is passed over -/
def htdDigest (dlen : Nat) (pwd : Bytes) (onLen : HtdLine) (u : Bytes) : HtdLine :=
  if (stripCR pwd).length ≠ dlen * 2 then onLen
  else match hex2bin (stripCR pwd) with
    | some d => .done (some (u, d))
    | none => .done none

/-- "user:realm:hex[:userhash]" looked up by user name -/
def htdigestLineUser (realm : Bytes) (dlen : Nat) (l uname : Bytes) : HtdLine :=
  if skipLine l then .next uname
  else match splitFirst 58 l with
    | none => .next uname
    | some (u, r1) =>
      match splitFirst 58 r1 with
      | none => .next uname
      | some (rl, rest) =>
        if uname = u ∧ realm = rl then
          htdDigest dlen (match splitFirst 58 rest with | some (p, _) => p | none => rest) (.next uname) uname
        else .next uname

/-- the same line looked up by its 4th (userhash) field; on a match the user name is
    taken from the file (and is what later lines are compared with) -/
def htdigestLineHash (realm : Bytes) (dlen : Nat) (l uname : Bytes) : HtdLine :=
  if skipLine l then .next uname
  else match splitFirst 58 l with
    | none => .next uname
    | some (u, r1) =>
      match splitFirst 58 r1 with
      | none => .next uname
      | some (rl, rest) =>
        match splitFirst 58 rest with
        | none => .next uname
        | some (pwd, uh0) =>
          if uname = stripCR uh0 ∧ realm = rl ∧ u.length ≤ Extracted.authUserbufSize then
            htdDigest dlen pwd (.next u) u
          else .next uname

/-- mod_authn_file_htdigest_get_loop(): (user name, binary digest) of the matching line -/
def htdigestScan (realm : Bytes) (userhash : Bool) (dlen : Nat) : List Bytes → Bytes → Option (Bytes × Bytes)
  | [], _ => none
  | l :: ls, uname =>
    match (if userhash then htdigestLineHash realm dlen l uname else htdigestLineUser realm dlen l uname) with
    | .next u' => htdigestScan realm userhash dlen ls u'
    | .done r => r

/-- http_auth_digest_len() -/
def digestLen (algo : Nat) : Nat :=
  if algo &&& (Extracted.authDigestSha256 ||| Extracted.authDigestSha512_256) ≠ 0 then Extracted.authSha256BinLen
  else if algo &&& Extracted.authDigestMd5 ≠ 0 then Extracted.authMd5BinLen
  else 0

/-- mod_authn_file_digest(): H(user ":" realm ":" password) -/
def ha1 (P : Prims) (user realm pw : Bytes) : Bytes :=
  P.H (user ++ 58 :: realm ++ 58 :: pw)

/-- mod_authn_file_htpasswd_basic(): "{SHA}", "$apr1$" and crypt(3) records are
    verified by the external `crypt`; records shorter than 13 bytes (and not
    "{SHA}" / "$apr1$") never match. -/
def htpasswdVerify (P : Prims) (stored pw : Bytes) : Bool :=
  (stored.length ≥ 13 || (ofString "{SHA}").isPrefixOf stored || (ofString "$apr1$").isPrefixOf stored)
  && P.crypt stored pw

/-- backend->basic(): does the backend accept `pw` for `user` under this rule
    (authentication AND authorization; the backends call http_auth_match_rules) -/
def backendBasic (P : Prims) (cfg : Cfg) (rule : Rule) (user pw : Bytes) : Bool :=
  match cfg.backend with
  | .none => false
  | .plain =>
    match htpasswdGet cfg.file user with
    | none => false
    | some stored => stored = cstr pw && matchRules rule.req user
  | .htdigest =>
    let dalgo := rule.algorithm &&& 0xfffffffe
    match htdigestScan rule.realm false (digestLen dalgo) (fileLines cfg.file) user with
    | none => false
    | some (_, d) => d = ha1 P user rule.realm (cstr pw) && matchRules rule.req user
  | .htpasswd =>
    match htpasswdGet cfg.file user with
    | none => false
    | some stored => htpasswdVerify P stored (cstr pw) && matchRules rule.req user

/-- what a Digest check knows about the client (http_auth_info_t) -/
structure AI where
  dalgo : Nat
  dlen : Nat
  username : Bytes
  realm : Bytes
  userhash : Bool
  digest : Bytes := []
deriving DecidableEq, Repr

/-- the record a Digest backend holds for `name`: (user name, H(A1)).  The plain backend
    computes H(name ":" realm ":" password); the htdigest backend reads it from the file
    (looking `name` up in the userhash column when `userhash`, and then returning the
    user name of that line). -/
def backendLookup (P : Prims) (cfg : Cfg) (realm : Bytes) (userhash : Bool) (dlen : Nat) (name : Bytes) :
    Option (Bytes × Bytes) :=
  match cfg.backend with
  | .plain =>
    match htpasswdGet cfg.file name with
    | none => none
    | some pw => some (name, ha1 P name realm pw)
  | .htdigest => htdigestScan realm userhash dlen (fileLines cfg.file) name
  | _ => none

/-- backend->digest() -/
def backendDigest (P : Prims) (cfg : Cfg) (ai : AI) : Option AI :=
  match backendLookup P cfg ai.realm ai.userhash ai.dlen ai.username with
  | none => none
  | some (u, d) => some { ai with username := u, digest := d }

/-! ### outcomes, state -/

/-- the ways a request is refused -/
inductive Refusal
  | s401b (keepAlive : Bool)                           -- 401 + Basic challenge
  | s401d (staleAlgo : Nat) (keepAlive : Bool)         -- 401 + Digest challenge(s); staleAlgo ≠ 0: stale=true
  | s400
  | s500                                               -- backend missing / unusable for the scheme
deriving DecidableEq, Repr

inductive Outcome
  | pass                                               -- no rule covers the path
  | go (user : Bytes) (digestScheme : Bool) (nextnonce : Bool)   -- served; REMOTE_USER
  | refuse (r : Refusal)                               -- answered by mod_auth, never served
deriving DecidableEq, Repr

def Outcome.served : Outcome → Bool
  | .pass => true
  | .go _ _ _ => true
  | .refuse _ => false

/-- http_auth_cache_entry -/
structure Entry where
  rule : Nat            -- index of the rule (the C stores the http_auth_require_t pointer)
  ctime : Int
  dalgo : Nat
  dlen : Nat
  k : Bytes
  kIsUser : Bool        -- ae->k == ae->username
  username : Bytes
  pw : Bytes            -- Basic: password; Digest: H(A1)
  scope : Nat := 0      -- GHOST (not in the C struct): the backend scope that vouched for the entry
deriving DecidableEq, Repr

abbrev Cache := List (Int × Entry)

def Cache.insert (c : Cache) (key : Int) (e : Entry) : Cache :=
  (key, e) :: c.filter (fun p => p.1 ≠ key)

/-- mod_auth_periodic_cleanup() -/
def Cache.cleanup (c : Cache) (maxAge cur : Int) : Cache :=
  c.filter (fun p => !(cur - p.2.ctime > maxAge))

structure St where
  cache : Cache := []
  mono : Int          -- log_monotonic_secs
  epoch : Int         -- log_epoch_secs
deriving Repr

structure Req where
  method : Bytes      -- http_method_buf(r->http_method)
  target : Bytes      -- r->target_orig
  path : Bytes        -- r->uri.path
  auth : Option Bytes -- Authorization header
  protocol : Bool     -- HTTP/2: a ":protocol: websocket" pseudo-header was received (HTTP/1.x: false)
  scope : Nat := 0    -- which backend scope the request's config conditions select (`Cfg.at`; C14)
deriving Repr

/-- r->h2_connect_ext as mod_auth sees it: RFC 8441 extended CONNECT, i.e. ":protocol" counts
    only when the method is CONNECT (http_request_validate_pseudohdrs() clears it otherwise,
    wherever ":protocol" stood relative to ":method") -/
def Req.h2ext (r : Req) : Bool := r.method = ofString "CONNECT" && r.protocol

/-! ### Basic -/

/-- Authorization header → (user, password), or the early answer -/
def basicCreds (vb : Bytes) : Except Refusal (Bytes × Bytes) :=
  if !icasePrefix vb (ofString "Basic ") then .error (.s401b true)
  else if vb.length - 6 > 1363 then .error (.s401b true)
  else
    let dec := base64Dec (vb.drop 6)
    if dec = [] then .error .s400
    else match splitFirst 58 dec with
      | none => .error .s400
      | some up => .ok up

def basicEntry (scope ridx : Nat) (now : Int) (user pw : Bytes) : Entry :=
  { rule := ridx, ctime := now, dalgo := 0, dlen := pw.length, k := user, kIsUser := true,
    username := user, pw := pw, scope := scope }

/-- a cache entry usable for Basic: same rule, same user name (http_auth_cache_query()
    plus the collision checks of mod_auth_check_basic()) -/
def basicHit (c : Cache) (key : Int) (ridx : Nat) (user : Bytes) : Option Entry :=
  match c.lookup key with
  | some e => if e.rule = ridx ∧ e.username = user then some e else none
  | none => none

/-- cache lookup, else backend; a successful backend answer is cached -/
def basicAuth (P : Prims) (cfg : Cfg) (ridx : Nat) (rule : Rule) (st : St) (user pw : Bytes) : St × Bool :=
  match cfg.cacheMaxAge with
  | none => (st, backendBasic P cfg rule user pw)
  | some _ =>
    match basicHit st.cache (P.hash ridx user) ridx user with
    | some e => (st, e.pw = pw)
    | none =>
      if backendBasic P cfg rule user pw then
        ({ st with cache := st.cache.insert (P.hash ridx user) (basicEntry cfg.cur ridx st.mono user pw) }, true)
      else (st, false)

/-- mod_auth_check_basic() -/
def checkBasic (P : Prims) (cfg : Cfg) (ridx : Nat) (rule : Rule) (st : St) (req : Req) : St × Outcome :=
  if cfg.backend = .none then (st, .refuse .s500) else
  match req.auth with
  | none => (st, .refuse (.s401b true))
  | some vb =>
    match basicCreds vb with
    | .error o => (st, .refuse o)
    | .ok (user, pw) =>
      if (basicAuth P cfg ridx rule st user pw).2 then ((basicAuth P cfg ridx rule st user pw).1, .go user false false)
      else ((basicAuth P cfg ridx rule st user pw).1, .refuse (.s401b false))

/-! ### Digest: header parsing -/

structure Params where
  username : Option Bytes := none
  realm : Option Bytes := none
  nonce : Option Bytes := none
  uri : Option Bytes := none
  algorithm : Option Bytes := none
  qop : Option Bytes := none
  cnonce : Option Bytes := none
  nc : Option Bytes := none
  response : Option Bytes := none
  userstar : Option Bytes := none
  userhash : Option Bytes := none
deriving DecidableEq, Repr

inductive PKey
  | username | realm | nonce | uri | algorithm | qop | cnonce | nc | response | userstar | userhash
deriving DecidableEq, Repr

def pkeyOf (tok : Bytes) : Option PKey :=
  if tok = ofString "username" then some .username
  else if tok = ofString "realm" then some .realm
  else if tok = ofString "nonce" then some .nonce
  else if tok = ofString "uri" then some .uri
  else if tok = ofString "algorithm" then some .algorithm
  else if tok = ofString "qop" then some .qop
  else if tok = ofString "cnonce" then some .cnonce
  else if tok = ofString "nc" then some .nc
  else if tok = ofString "response" then some .response
  else if tok = ofString "username*" then some .userstar
  else if tok = ofString "userhash" then some .userhash
  else none

def Params.set (dp : Params) (k : PKey) (v : Bytes) : Params :=
  match k with
  | .username => { dp with username := some v }
  | .realm => { dp with realm := some v }
  | .nonce => { dp with nonce := some v }
  | .uri => { dp with uri := some v }
  | .algorithm => { dp with algorithm := some v }
  | .qop => { dp with qop := some v }
  | .cnonce => { dp with cnonce := some v }
  | .nc => { dp with nc := some v }
  | .response => { dp with response := some v }
  | .userstar => { dp with userstar := some v }
  | .userhash => { dp with userhash := some v }

/-- body of a quoted string: (raw value, rest starting at the closing quote);
    a backslash hides the next byte; `none` = unterminated -/
def scanQuoted : Nat → Bytes → Option (Bytes × Bytes)
  | 0, _ => none
  | _ + 1, [] => none
  | fuel + 1, b :: rest =>
    if b = 34 then some ([], b :: rest)
    else if b = 92 then
      match rest with
      | [] => none
      | e :: rest' =>
        match scanQuoted fuel rest' with
        | none => none
        | some (v, r) => some (b :: e :: v, r)
    else
      match scanQuoted fuel rest with
      | none => none
      | some (v, r) => some (b :: v, r)

def isSep (b : UInt8) : Bool := b = 32 || b = 9 || b = 44
def notTokEnd (b : UInt8) : Bool := !(b = 61 || b = 32 || b = 9)
def notValEnd (b : UInt8) : Bool := !(b = 44 || b = 32 || b = 9)

/-- "= value" after a recognised key.  `none`: the parser gives up (returns);
    `some (v, none)`: value stored, then the parser returns (no further ',');
    `some (v, some rest)`: value stored, `rest` starts at the next ','. -/
def parseValue (c : Bytes) : Option (Bytes × Option Bytes) :=
  let c1 : Option Bytes :=
    if c.head? = some 61 then some c
    else
      let c' := c.dropWhile isWs
      if c'.head? = some 61 then some c' else none
  match c1 with
  | none => none
  | some c1 =>
    let c2 := (c1.drop 1).dropWhile isWs
    let ve : Option (Bytes × Bytes) :=
      if c2.head? = some 34 then scanQuoted (c2.length + 1) (c2.drop 1)
      else some (c2.takeWhile notValEnd, c2.dropWhile notValEnd)
    match ve with
    | none => none
    | some (v, e) =>
      let next : Option Bytes :=
        if e.head? = some 44 then some e
        else
          let r := e.dropWhile (· ≠ 44)
          if r = [] then none else some r
      some (v, next)

def parseLoop : Nat → Bytes → Params → Params
  | 0, _, dp => dp
  | fuel + 1, c, dp =>
    if c = [] then dp else
    let c := c.dropWhile isSep
    if c = [] then dp else
    let tok := c.takeWhile notTokEnd
    match pkeyOf tok with
    | none => parseLoop fuel (c.drop 1) dp
    | some k =>
      match parseValue (c.drop tok.length) with
      | none => dp
      | some (v, none) => dp.set k v
      | some (v, some rest) => parseLoop fuel (rest.drop 1) (dp.set k v)

/-- mod_auth_digest_parse_authorization() on the text after "Digest " -/
def parseAuthorization (s : Bytes) : Params :=
  parseLoop (s.length + 1) (cstr s) {}

/-- mod_auth_algorithm_parse() in a build without a crypto library: (dalgo, dlen) -/
def algorithmParse (s : Bytes) : Option (Nat × Nat) :=
  if s = [] then some (Extracted.authDigestMd5, Extracted.authMd5BinLen) else
  let len := s.length
  let sess : Bool :=
    len > 5 && s.getD (len - 5) 0 = 45 && (s.getD (len - 4) 0 ||| 0x20) = 115
    && (s.getD (len - 3) 0 ||| 0x20) = 101 && (s.getD (len - 2) 0 ||| 0x20) = 115
    && (s.getD (len - 1) 0 ||| 0x20) = 115
  let base := if sess then s.take (len - 5) else s
  let sbit := if sess then Extracted.authDigestSess else 0
  if base.length = 3 && (base.getD 0 0 ||| 0x20) = 109 && (base.getD 1 0 ||| 0x20) = 100 && base.getD 2 0 = 53 then
    some (sbit ||| Extracted.authDigestMd5, Extracted.authMd5BinLen)
  else none

/-- buffer_is_valid_UTF8() -/
def isValidUtf8 : Nat → Bytes → Bool
  | 0, _ => true
  | _ + 1, [] => true
  | fuel + 1, c0 :: rest =>
    let c1 := rest.getD 0 0
    let c2 := rest.getD 1 0
    let c3 := rest.getD 2 0
    let cont (c : UInt8) : Bool := 0x80 ≤ c && c ≤ 0xbf
    if c0 < 0x80 then isValidUtf8 fuel rest
    else if 0xc2 ≤ c0 && c0 ≤ 0xdf && cont c1 then isValidUtf8 fuel (rest.drop 1)
    else if ((c0 = 0xe0 && 0xa0 ≤ c1 && c1 ≤ 0xbf)
             || (0xe1 ≤ c0 && c0 ≤ 0xef && c0 ≠ 0xed && cont c1)
             || (c0 = 0xed && 0x80 ≤ c1 && c1 ≤ 0x9f)) && cont c2 then isValidUtf8 fuel (rest.drop 2)
    else if ((c0 = 0xf0 && 0x90 ≤ c1 && c1 ≤ 0xbf)
             || (0xf1 ≤ c0 && c0 ≤ 0xf3 && cont c1)
             || (c0 = 0xf4 && 0x80 ≤ c1 && c1 ≤ 0x8f)) && cont c2 && cont c3 then isValidUtf8 fuel (rest.drop 3)
    else false

/-- mod_auth_digest_validate_userstar(): decoded user name, `none` = 400 -/
def validateUserstar (dp : Params) (v : Bytes) : Option Bytes :=
  if (dp.userhash.map List.length) = some 4 then none else
  let len := v.length
  let h := v.getD 0 0
  let after : Option Bytes :=
    if (h ||| 0x20) = 117 && len > 5 && icasePrefix v (ofString "utf-8") then some (v.drop 5)
    else if (h ||| 0x20) = 105 && len > 10 && icasePrefix v (ofString "iso-8859-1") then some (v.drop 10)
    else none
  match after with
  | none => none
  | some p =>
    if p.head? ≠ some 39 then none else
    match splitFirst 39 (p.drop 1) with
    | none => none
    | some (_, value) =>
      let tb := urldecodePath value
      if h = 117 && !isValidUtf8 (tb.length + 1) tb then none
      else if tb.length > Extracted.authUserbufSize then none
      else if tb.any (fun b => b < 0x20 || b = 127) then none
      else some tb

/-! ### Digest: nonce -/

/-- mod_auth_append_nonce() with the random number fixed to `rnd` -/
def appendNonce (P : Prims) (ts : Int) (secret : Option Bytes) (rnd : Nat) : Bytes :=
  let tsU := (ts % 2 ^ 64).toNat
  hexLcEven tsU ++ 58 ::
    ((match secret with
      | none => []
      | some _ => hexLcEven rnd ++ [58])
     ++ toHexLc (P.H (leBytes 8 tsU ++ leBytes 4 rnd ++ secret.getD [])))

/-- timestamp field of a nonce: value and the rest after the (up to 16) hex digits -/
def nonceTs (nonce : Bytes) : Int × Bytes :=
  let r := hexPrefix 16 nonce 0
  (toInt64 r.1, r.2)

/-- mod_auth_digest_validate_nonce(): `.ok nextnonce` or the answer -/
def validateNonce (P : Prims) (rule : Rule) (epoch : Int) (nonce : Bytes) (dalgo : Nat) : Except Refusal Bool :=
  let r := nonceTs nonce
  let ts := r.1
  if r.2.head? ≠ some 58 ∨ ts < 0 ∨ ts > epoch ∨ epoch - ts > 600 then .error (.s401d dalgo true)
  else
    let nn : Bool := epoch - ts > 540
    match rule.secret with
    | none => .ok nn
    | some sec =>
      let r2 := hexPrefix 8 (r.2.drop 1) 0
      if r2.2.head? ≠ some 58 then .error .s400
      else if appendNonce P ts (some sec) (r2.1 % 2 ^ 32) ≠ nonce then .error (.s401d 0 true)
      else .ok nn

/-! ### Digest: parameter validation -/

/-- the "check for required parameters" condition -/
def requiredPresent (dp : Params) : Bool :=
  (dp.qop.isNone || (dp.nc.isSome && dp.cnonce.isSome))
  && (dp.username.isSome != dp.userstar.isSome)
  && dp.realm.isSome && dp.nonce.isSome && dp.uri.isSome && dp.response.isSome

def qopAuthInt (dp : Params) : Bool :=
  match dp.qop with
  | some q => icaseEq q (ofString "auth-int")
  | none => false

/-- the user name the client claims: `username`, or the decoded `username*` -/
def claimedName (dp : Params) : Option Bytes :=
  match dp.username with
  | some u => some u
  | none => validateUserstar dp (dp.userstar.getD [])

/-- the request's userhash flag: any 4-byte value of the parameter reads as "true" -/
def userhashFlag (dp : Params) : Bool := (dp.userhash.map List.length) = some 4

/-- mod_auth_digest_validate_params() -/
def validateParams (rule : Rule) (req : Req) (dp : Params) : Except Refusal AI :=
  if !requiredPresent dp then .error .s400
  else match claimedName dp with
    | none => .error .s400
    | some uname =>
      if rule.realm ≠ dp.realm.getD [] then .error (.s401d 0 true)
      else match algorithmParse (dp.algorithm.getD []) with
        | none => .error (.s401d 0 true)
        | some (dalgo, dlen) =>
          if rule.algorithm &&& dalgo &&& 0xfffffffe = 0 then .error (.s401d 0 true)
          else if dalgo &&& Extracted.authDigestSess ≠ 0 ∧ dp.cnonce.isNone then .error .s400
          else if (dp.response.getD []).length ≠ dlen * 2 ∨ (hex2bin (dp.response.getD [])).isNone then .error .s400
          else if qopAuthInt dp then .error .s400
          else if req.target ≠ dp.uri.getD [] then .error .s400
          else .ok { dalgo := dalgo, dlen := dlen, username := uname, realm := dp.realm.getD [],
                     userhash := userhashFlag dp }

/-! ### Digest: response computation -/

/-- mod_auth_digest_mutate(): the expected `response` (binary) from H(A1) -/
def kd (P : Prims) (dalgo : Nat) (hA1 : Bytes) (dp : Params) (method : Bytes) : Bytes :=
  let nonce := dp.nonce.getD []
  let cnonce := dp.cnonce.getD []
  let a1 :=
    if dalgo &&& Extracted.authDigestSess ≠ 0 then
      toHexLc (P.H (toHexLc hA1 ++ 58 :: nonce ++ 58 :: cnonce))
    else toHexLc hA1
  let a2 := toHexLc (P.H (method ++ 58 :: dp.uri.getD []))
  let qop := dp.qop.getD []
  let mid : Bytes :=
    if qop = [] then [] else dp.nc.getD [] ++ 58 :: cnonce ++ 58 :: qop ++ [58]
  P.H (a1 ++ 58 :: nonce ++ 58 :: (mid ++ a2))

/-! ### Digest: cache + backend -/

def lowerUserhash (s : Bytes) : Bytes := s.map fun b => if isUpper b then b ||| 0x20 else b

/-- the string looked up (in the cache and at the backend) for a claimed name:
    a userhash is lower-cased when it fits userbuf -/
def lookupKey (userhash : Bool) (name : Bytes) : Bytes :=
  if userhash ∧ name.length ≤ Extracted.authUserbufSize then lowerUserhash name else name

def digestKey (ai : AI) : Bytes := lookupKey ai.userhash ai.username

/-- is a cache entry usable for this request?  (property-conforming: entry kind
    must agree with the request's userhash flag, see file header) -/
def digestHit (ridx : Nat) (ai : AI) (user : Bytes) (e : Entry) : Bool :=
  e.rule = ridx && e.dalgo = ai.dalgo && e.dlen = ai.dlen && e.k = user
  && (e.kIsUser = !ai.userhash)

def digestHitEntry (c : Cache) (key : Int) (ridx : Nat) (ai : AI) (user : Bytes) : Option Entry :=
  match c.lookup key with
  | some e => if digestHit ridx ai user e then some e else none
  | none => none

/-- the entry a backend answer is cached as -/
def digestEntry (cfg : Cfg) (ridx : Nat) (now : Int) (ai : AI) (user : Bytes) (ai2 : AI) : Entry :=
  { rule := ridx, ctime := now, dalgo := ai.dalgo, dlen := ai.dlen, k := user,
    kIsUser := !ai.userhash || (ai.username.length > Extracted.authUserbufSize && cfg.backend = .plain),
    username := ai2.username, pw := ai2.digest, scope := cfg.cur }

/-- mod_auth_digest_get(): H(A1) from the cache or the backend (`none` = 401) -/
def digestGet (P : Prims) (cfg : Cfg) (ridx : Nat) (st : St) (ai : AI) : St × Option AI :=
  match cfg.cacheMaxAge with
  | none => (st, backendDigest P cfg { ai with username := digestKey ai })
  | some _ =>
    match digestHitEntry st.cache (P.hash ridx (digestKey ai)) ridx ai (digestKey ai) with
    | some e =>
      (st, some { ai with digest := e.pw,
                          username := if !e.kIsUser ∧ e.username.length ≤ Extracted.authUserbufSize
                                      then e.username else ai.username })
    | none =>
      match backendDigest P cfg { ai with username := digestKey ai } with
      | none => (st, none)
      | some ai2 =>
        ({ st with cache := st.cache.insert (P.hash ridx (digestKey ai))
                              (digestEntry cfg ridx st.mono ai (digestKey ai) ai2) }, some ai2)

/-! ### Digest: the whole check -/

/-- everything before the credential lookup (no state involved) -/
def digestPre (P : Prims) (cfg : Cfg) (rule : Rule) (epoch : Int) (req : Req) :
    Except Refusal (Params × AI × Bool) :=
  if cfg.backend ≠ .plain ∧ cfg.backend ≠ .htdigest then .error .s500 else
  match req.auth with
  | none => .error (.s401d 0 true)
  | some vb =>
    if !icasePrefix vb (ofString "Digest ") then .error (.s401d 0 true) else
    let dp := parseAuthorization (vb.drop 7)
    match validateParams rule req dp with
    | .error o => .error o
    | .ok ai =>
      match validateNonce P rule epoch (dp.nonce.getD []) ai.dalgo with
      | .error o => .error o
      | .ok nn => .ok (dp, ai, nn)

/-- does the client's `response` equal the one recomputed from H(A1) over the request's
    own method (for an HTTP/2 extended CONNECT also: over "GET") and the digest uri -/
def responseMatches (P : Prims) (req : Req) (dp : Params) (dalgo : Nat) (hA1 : Bytes) : Bool :=
  hex2bin (dp.response.getD []) = some (kd P dalgo hA1 dp req.method)
  || (req.h2ext && hex2bin (dp.response.getD []) = some (kd P dalgo hA1 dp (ofString "GET")))

/-- everything after it -/
def digestPost (P : Prims) (rule : Rule) (req : Req) (dp : Params) (ai : AI) (nn : Bool) : Outcome :=
  if !responseMatches P req dp ai.dalgo ai.digest then .refuse (.s401d 0 false)
  else if !matchRules rule.req ai.username then .refuse (.s401d 0 true)
  else .go ai.username true nn

/-- mod_auth_check_digest() -/
def checkDigest (P : Prims) (cfg : Cfg) (ridx : Nat) (rule : Rule) (st : St) (req : Req) : St × Outcome :=
  match digestPre P cfg rule st.epoch req with
  | .error o => (st, .refuse o)
  | .ok (dp, ai, nn) =>
    match (digestGet P cfg ridx st ai).2 with
    | none => ((digestGet P cfg ridx st ai).1, .refuse (.s401d 0 false))
    | some ai' => ((digestGet P cfg ridx st ai).1, digestPost P rule req dp ai' nn)

/-! ### the handler and the clock -/

/-- mod_auth_uri_handler() -/
def handle (P : Prims) (cfg : Cfg) (st : St) (req : Req) : St × Outcome :=
  match findRule cfg.rules req.path 0 with
  | none => (st, .pass)
  | some (ridx, rule) =>
    match rule.scheme with
    | .basic => checkBasic P cfg ridx rule st req
    | .digest => checkDigest P cfg ridx rule st req

/-- mod_auth_uri_handler() with the per-request configuration patch -/
def serve (P : Prims) (cfg : Cfg) (st : St) (req : Req) : St × Outcome :=
  handle P (cfg.at req.scope) st req

/-- mod_auth_periodic(): cleanup when the (current) monotonic second is a multiple of 8 -/
def periodic (cfg : Cfg) (st : St) : St :=
  match cfg.cacheMaxAge with
  | some ma => if st.mono % 8 = 0 then { st with cache := st.cache.cleanup ma st.mono } else st
  | none => st

/-- one iteration of the server loop that finds the monotonic clock `dt` seconds later
    (server.c:server_main_loop / server_handle_sigalrm): nothing happens when the second has
    not changed; otherwise the triggers run FIRST — mod_auth_periodic() still sees the old
    second — and then the clocks are updated, once, whatever the jump -/
def loopIter (cfg : Cfg) (dt : Nat) (st : St) : St :=
  if dt = 0 then st
  else { periodic cfg st with mono := st.mono + dt, epoch := st.epoch + dt }

/-- `n` iterations one second apart (the idle loop: fdevent_poll() times out after 1000 ms) -/
def secs (cfg : Cfg) : Nat → St → St
  | 0, st => st
  | n + 1, st => secs cfg n (loopIter cfg 1 st)

inductive Op
  | request (r : Req)
  | adv (dt : Nat)            -- ONE loop iteration, dt seconds after the previous one (dt ≥ 2: the loop stalled)
  | secs (n : Nat)            -- n loop iterations one second apart
  | epochShift (d : Int)      -- the wall clock is stepped (NTP, admin)
deriving Repr

def step (P : Prims) (cfg : Cfg) (st : St) : Op → St × Option Outcome
  | .request r => ((serve P cfg st r).1, some (serve P cfg st r).2)
  | .adv dt => (loopIter cfg dt st, none)
  | .secs n => (secs cfg n st, none)
  | .epochShift d => ({ st with epoch := st.epoch + d }, none)

def run (P : Prims) (cfg : Cfg) : St → List Op → St
  | st, [] => st
  | st, op :: ops => run P cfg (step P cfg st op).1 ops

/-! ### HTTP/2 request header path (request.c): from the decoded header list to the request
    mod_auth sees.  http_request_parse_header() per field, http_request_validate_pseudohdrs()
    at the first regular field (or at the end), then http_request_parse().
    Domain exercised by the correspondence: lower-case regular field names, host names that
    pass the host policy, parse options `h2Opts`. -/

structure H2Acc where
  method : Option Bytes := none
  target : Bytes := []            -- r->target (":path")
  host : Option Bytes := none     -- r->http_host (":authority", lower-cased)
  scheme : Bool := false
  ext : Bool := false             -- ":protocol: websocket" seen
  pseudo : Bool := true           -- still in the pseudo-header block
  auth : Option Bytes := none     -- Authorization request header
  hlen : Nat := 0
deriving Repr

def knownMethod (m : Bytes) : Bool :=
  (Extracted.httpMethods.map fun l => l.map Nat.toUInt8).contains m

def trimWs (v : Bytes) : Bytes := ((v.dropWhile isWs).reverse.dropWhile isWs).reverse

/-- http_request_validate_pseudohdrs(): `.error status` or the accumulator with r->target final -/
def validatePseudo (a : H2Acc) : Except Nat H2Acc :=
  match a.method with
  | none => .error 400
  | some m =>
    if m ≠ ofString "CONNECT" ∨ a.ext then
      -- (":protocol" is ignored unless the method is CONNECT: both readings take this branch)
      if !a.scheme then .error 400
      else if a.target = [] then .error 400
      else if a.target.head? ≠ some 47 ∧ ¬(a.target = [42] ∧ m = ofString "OPTIONS") then .error 400
      else .ok { a with pseudo := false }
    else
      match a.host with
      | none => .error 400
      | some h =>
        if a.target ≠ [] ∨ a.scheme then .error 400
        else .ok { a with target := h, pseudo := false }

/-- one pseudo-header field -/
def h2Pseudo (a : H2Acc) (k v : Bytes) : Except Nat H2Acc :=
  if !a.pseudo then .error 400
  else if v = [] then .error 400
  else if k = ofString ":authority" then
    (if a.host.isSome then .error 400 else if v.length ≥ 1024 then .error 400
     else .ok { a with host := some (v.map toLower) })
  else if k = ofString ":method" then
    (if a.method.isSome then .error 400 else if !knownMethod v then .error 501
     else .ok { a with method := some v })
  else if k = ofString ":path" then
    (if a.target ≠ [] then .error 400 else .ok { a with target := v })
  else if k = ofString ":scheme" then
    (if a.scheme then .error 400 else .ok { a with scheme := true })
  else if k = ofString ":protocol" then
    (if v ≠ ofString "websocket" then .error 405 else .ok { a with ext := true })
  else .error 400

/-- one regular field (after the pseudo-header block has been validated) -/
def h2Regular (a : H2Acc) (k v : Bytes) : Except Nat H2Acc :=
  if v = [] then .ok a
  else if v.any (fun b => (b < 32 && b ≠ 9) || b = 127) then .error 400
  else if trimWs v = [] then .ok a
  else if !k.all (fun b => isLower b || b = 45) then .error 400
  else if k = ofString "authorization" then
    .ok { a with auth := some (match a.auth with
                               | none => trimWs v
                               | some o => o ++ ofString ", " ++ trimWs v) }
  else .ok a

/-- http_request_parse_header() -/
def h2Field (a : H2Acc) (k v : Bytes) : Except Nat H2Acc :=
  if k = [] then .error 400
  else if a.hlen + k.length + v.length + 4 > 8192 then .error 431
  else if k.head? = some 58 then h2Pseudo { a with hlen := a.hlen + k.length + v.length + 4 } k v
  else if a.pseudo then
    match validatePseudo { a with hlen := a.hlen + k.length + v.length + 4 } with
    | .error s => .error s
    | .ok a' => h2Regular a' k v
  else h2Regular { a with hlen := a.hlen + k.length + v.length + 4 } k v

def h2Fields : List (Bytes × Bytes) → H2Acc → Except Nat H2Acc
  | [], a => .ok a
  | kv :: rest, a =>
    match h2Field a kv.1 kv.2 with
    | .error s => .error s
    | .ok a' => h2Fields rest a'

/-- parse options of the correspondence run (header-strict, url-normalize, unreserved,
    ctrls-reject, path-2f-decode, dotseg-remove, invalid-utf8-reject) -/
def h2Opts : Opts := ⟨9561⟩

/-- the request mod_auth is handed for a decoded HTTP/2 header list; `.error status` when the
    request is answered by the parser (400 / 405 / 431 / 501) and never reaches mod_auth -/
def h2Request (o : Opts) (fields : List (Bytes × Bytes)) : Except Nat Req :=
  match h2Fields fields {} with
  | .error s => .error s
  | .ok a0 =>
    match (if a0.pseudo then validatePseudo a0 else .ok a0) with
    | .error s => .error s
    | .ok a =>
      match a.method with
      | none => .error 400
      | some m =>
        let special : Bool := (m = ofString "CONNECT" && !a.ext) || (m = ofString "OPTIONS" && a.target = [42])
        match parseTarget o special a.target with
        | .error s => .error s
        | .ok t =>
          if a.host.isNone then .error 400
          else .ok { method := m, target := a.target, path := t.path, auth := a.auth, protocol := a.ext }

/-! ### specification vocabulary (what "valid credentials of an authorized user" means) -/

/-- a nonce lighttpd could have issued and that has not expired: hex timestamp, ':' ,
    not in the future, at most 600 s old; under a nonce-secret, exactly the nonce
    mod_auth_append_nonce() builds for that timestamp and some random number -/
def NonceFresh (P : Prims) (rule : Rule) (epoch : Int) (nonce : Bytes) : Prop :=
  (nonceTs nonce).2.head? = some 58 ∧ 0 ≤ (nonceTs nonce).1 ∧ (nonceTs nonce).1 ≤ epoch
  ∧ epoch - (nonceTs nonce).1 ≤ 600
  ∧ ∀ sec, rule.secret = some sec → ∃ rnd, rnd < 2 ^ 32 ∧ nonce = appendNonce P (nonceTs nonce).1 (some sec) rnd

/-- valid Basic credentials for `u` under `rule`: the header decodes to `u:pw`, the
    backend's record for `u` matches `pw` (read as a C string), and the rule authorizes `u` -/
def BasicValid (P : Prims) (cfg : Cfg) (rule : Rule) (hdr u : Bytes) : Prop :=
  ∃ pw, basicCreds hdr = .ok (u, pw) ∧ matchRules rule.req u = true ∧
    match cfg.backend with
    | .plain => htpasswdGet cfg.file u = some (cstr pw)
    | .htdigest => ∃ name, htdigestScan rule.realm false (digestLen (rule.algorithm &&& 0xfffffffe))
                     (fileLines cfg.file) u = some (name, ha1 P u rule.realm (cstr pw))
    | .htpasswd => ∃ stored, htpasswdGet cfg.file u = some stored ∧ htpasswdVerify P stored (cstr pw) = true
    | .none => False

/-- valid Digest credentials for `u` under `rule` at wall-clock time `epoch`: the parameters
    name the rule's realm and the request's own request-target, the nonce is fresh (and
    issued under the nonce-secret), the algorithm is one the rule allows, the backend holds
    a record (u, H(A1)) for the claimed name, the response is KD(H(A1), ...) over the
    request's method and uri, and the rule authorizes `u` -/
def DigestValid (P : Prims) (cfg : Cfg) (rule : Rule) (epoch : Int) (req : Req) (hdr u : Bytes) : Prop :=
  icasePrefix hdr (ofString "Digest ") = true ∧
  ∃ (dp : Params) (nonce : Bytes) (dalgo dlen : Nat) (name hA1 : Bytes),
    dp = parseAuthorization (hdr.drop 7) ∧
    dp.realm = some rule.realm ∧ dp.uri = some req.target ∧
    dp.nonce = some nonce ∧ NonceFresh P rule epoch nonce ∧
    algorithmParse (dp.algorithm.getD []) = some (dalgo, dlen) ∧
    rule.algorithm &&& dalgo &&& 0xfffffffe ≠ 0 ∧
    claimedName dp = some name ∧
    backendLookup P cfg rule.realm (userhashFlag dp) dlen (lookupKey (userhashFlag dp) name) = some (u, hA1) ∧
    responseMatches P req dp dalgo hA1 = true ∧
    matchRules rule.req u = true

/-- the syntactic side conditions mod_auth_digest_validate_params() imposes besides what
    `DigestValid` says: the required parameters are present (nc and cnonce with qop; exactly one
    of username / username*), qop is not auth-int, a -sess algorithm comes with a cnonce, and
    the response has the length of the algorithm's hex digest -/
def DigestWellFormed (dp : Params) : Prop :=
  requiredPresent dp = true ∧ qopAuthInt dp = false ∧
  ∀ dalgo dlen, algorithmParse (dp.algorithm.getD []) = some (dalgo, dlen) →
    (dalgo &&& Extracted.authDigestSess ≠ 0 → dp.cnonce.isSome = true) ∧
    (dp.response.getD []).length = dlen * 2

end LtVerif.Auth
