/-
  C16 extension — the container behind auth.cache: algo_splaytree.c (top-down splay, D. Sleator)
  and the three mod_auth.c functions that use it (http_auth_cache_query, http_auth_cache_insert,
  mod_auth_tag_old_entries + mod_auth_periodic_cleanup).  Core Lean only.

  The C works on pointers; here a tree is a value.  `splay_tree N, *l, *r` (the two assembly
  trees of the top-down splay) are the frame lists `L`, `R`: every "link left" (`l->right = t; l = t`)
  pushes (t->left, t->key, t->data) on `L`, every "link right" pushes (t->key, t->data, t->right) on `R`;
  the head of the list is the node `l` / `r` points to.  `assemble` is the code after the loop.
  Comparisons are the plain `int` comparisons of the C (`i < t->key`, `i > t->key`; the `compare`
  macro is unused there).  The loop descends at least one level per iteration: fuel = number of nodes.
-/
namespace LtVerif.AuthSplay

inductive Tree (α : Type) where
  | nil : Tree α
  | node (l : Tree α) (k : Int) (v : α) (r : Tree α) : Tree α
deriving Repr

variable {α : Type}

def Tree.size : Tree α → Nat
  | .nil => 0
  | .node l _ _ r => l.size + 1 + r.size

/-- in-order contents (key, data) -/
def Tree.inorder : Tree α → List (Int × α)
  | .nil => []
  | .node l k v r => l.inorder ++ (k, v) :: r.inorder

/-- hang `acc` below the left assembly tree: `l->right = acc`, result = N.right -/
def buildL (acc : Tree α) : List (Tree α × Int × α) → Tree α
  | [] => acc
  | (lt, k, v) :: L => buildL (.node lt k v acc) L

/-- hang `acc` below the right assembly tree: `r->left = acc`, result = N.left -/
def buildR (acc : Tree α) : List (Int × α × Tree α) → Tree α
  | [] => acc
  | (k, v, rt) :: R => buildR (.node acc k v rt) R

/-- `l->right = t->left; r->left = t->right; t->left = N.right; t->right = N.left` -/
def assemble (l : Tree α) (k : Int) (v : α) (r : Tree α)
    (L : List (Tree α × Int × α)) (R : List (Int × α × Tree α)) : Tree α :=
  .node (buildL l L) k v (buildR r R)

/-- the `for (;;)` loop of splaytree_splay_nonnull() on the current node `t = node l k v r` -/
def splayGo (i : Int) : Nat → Tree α → Int → α → Tree α →
    List (Tree α × Int × α) → List (Int × α × Tree α) → Tree α
  | 0, l, k, v, r, L, R => assemble l k v r L R
  | fuel + 1, l, k, v, r, L, R =>
    if i < k then
      match l with
      | .nil => assemble l k v r L R                                   -- t->left == NULL: break
      | .node ll lk lv lr =>
        if i < lk then
          -- rotate right: y = t->left; t->left = y->right; y->right = t; t = y
          match ll with
          | .nil => assemble .nil lk lv (.node lr k v r) L R           -- t->left == NULL: break
          | .node a b c d =>                                           -- link right, t = t->left
            splayGo i fuel a b c d L ((lk, lv, .node lr k v r) :: R)
        else
          splayGo i fuel ll lk lv lr L ((k, v, r) :: R)                -- link right, t = t->left
    else if i > k then
      match r with
      | .nil => assemble l k v r L R                                   -- t->right == NULL: break
      | .node rl rk rv rr =>
        if i > rk then
          -- rotate left: y = t->right; t->right = y->left; y->left = t; t = y
          match rr with
          | .nil => assemble (.node l k v rl) rk rv .nil L R           -- t->right == NULL: break
          | .node a b c d =>                                           -- link left, t = t->right
            splayGo i fuel a b c d ((.node l k v rl, rk, rv) :: L) R
        else
          splayGo i fuel rl rk rv rr ((l, k, v) :: L) R                -- link left, t = t->right
    else assemble l k v r L R                                          -- found: break

/-- splaytree_splay_nonnull() (`nil` cannot be passed in the C: nonnull attribute) -/
def splayNonnull (t : Tree α) (i : Int) : Tree α :=
  match t with
  | .nil => .nil
  | .node l k v r => splayGo i (Tree.size (.node l k v r)) l k v r [] []

/-- algo_splaytree.h: splaytree_splay() -/
def splay (t : Tree α) (i : Int) : Tree α :=
  match t with
  | .nil => .nil
  | .node l k v r => if i = k then .node l k v r else splayNonnull (.node l k v r) i

/-- splaytree_insert_splayed() -/
def insertSplayed (t : Tree α) (i : Int) (d : α) : Tree α :=
  match t with
  | .nil => .node .nil i d .nil
  | .node l k v r =>
    if i < k then .node l i d (.node .nil k v r)
    else .node (.node l k v .nil) i d r

/-- splaytree_delete_splayed_node(): `x = t->right; if (t->left) { x = splay(t->left, t->key);
    x->right = t->right; }` — the right subtree of the splayed left part is OVERWRITTEN -/
def deleteSplayedNode (t : Tree α) : Tree α :=
  match t with
  | .nil => .nil
  | .node l k _ r =>
    match l with
    | .nil => r
    | .node .. =>
      match splayNonnull l k with
      | .nil => .nil
      | .node xl xk xv _ => .node xl xk xv r

/-- mod_auth.c: http_auth_cache_query() — new tree and the entry found -/
def cacheQuery (t : Tree α) (ndx : Int) : Tree α × Option α :=
  match splay t ndx with
  | .nil => (.nil, none)
  | .node l k v r => (.node l k v r, if k = ndx then some v else none)

/-- mod_auth.c: http_auth_cache_insert() on the tree as http_auth_cache_query() left it
    (the C does not splay again) -/
def cacheInsert (t : Tree α) (ndx : Int) (d : α) : Tree α :=
  match t with
  | .nil => insertSplayed .nil ndx d
  | .node l k v r =>
    if k ≠ ndx then insertSplayed (.node l k v r) ndx d
    else .node l k d r                                  -- collision: replace old entry

/-- mod_auth_tag_old_entries(): post-order walk, stops collecting at `cap` (8192) keys;
    `keys` is kept in collection order -/
def tagOld (old : α → Bool) (cap : Nat) : Tree α → List Int → List Int
  | .nil, keys => keys
  | .node l k v r, keys =>
    if keys.length = cap then keys else
    let keys := tagOld old cap l keys
    let keys := tagOld old cap r keys
    if keys.length = cap then keys else
    if old v then keys ++ [k] else keys

/-- the `for (i = 0; i < max_ndx; ++i)` loop of mod_auth_periodic_cleanup() -/
def deleteKeys (t : Tree α) : List Int → Tree α
  | [] => t
  | k :: ks =>
    match t with
    | .nil => .nil                                       -- (unreachable: every key is in the tree)
    | .node .. => deleteKeys (deleteSplayedNode (splayNonnull t k)) ks

/-- mod_auth_periodic_cleanup(): `do { … } while (max_ndx == 8192)`; every full round removes
    `cap` ≥ 1 nodes, fuel = number of nodes + 1 -/
def periodicCleanupGo (old : α → Bool) (cap : Nat) : Nat → Tree α → Tree α
  | 0, t => t
  | fuel + 1, t =>
    match t with
    | .nil => .nil
    | .node .. =>
      let keys := tagOld old cap t []
      let t' := deleteKeys t keys
      if keys.length = cap then periodicCleanupGo old cap fuel t' else t'

def periodicCleanup (old : α → Bool) (cap : Nat) (t : Tree α) : Tree α :=
  periodicCleanupGo old cap (t.size + 1) t

/-- keys strictly increasing in in-order: the search-tree invariant -/
def Sorted (t : Tree α) : Prop := t.inorder.Pairwise (fun a b => a.1 < b.1)

/-- shape dump for the correspondence run: pre-order, `.` = NULL -/
def Tree.shape (f : α → String) : Tree α → String
  | .nil => "."
  | .node l k v r => "(" ++ toString k ++ ":" ++ f v ++ " " ++ l.shape f ++ " " ++ r.shape f ++ ")"

end LtVerif.AuthSplay
