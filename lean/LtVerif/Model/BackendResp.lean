/-
  Model of the backend-response relay path (C10):

    http_response_parse_headers(), http_response_process_headers(), http_response_check_1xx(),
    http_response_append_mem()/_buffer(), http_response_transfer_cqlen(), http_response_read()
    (EOF / data / error classification), http_response_backend_done()/_error()
                                                                        (src/http-header-glue.c)
    http_chunk_append_mem(), http_chunk_close(), http_chunk_decode_append_mem()  (src/http_chunk.c)
    fcgi_recv_parse(), fcgi_recv_parse_loop(), fcgi_recv_0()                  (src/mod_fastcgi.c)
    gw_process_fdevent(), gw_recv_response(), gw_recv_response_error(), gw_backend_error(),
    gw_connection_close()                                                      (src/gw_backend.c)
    http_response_handler(), http_response_write_prepare(), http_response_merge_trailers(),
    http_response_static_errdoc()                                              (src/response.c)
    h1_send_headers(), h1_send_1xx()                                                 (src/h1.c)

  plus the few lines of connection_state_machine_loop()/connection_handle_write_state() (h1) and
  of the per-stream loop of h2_process_streams()/h2_send_end_stream() (h2) that decide when the
  response head is sent, when the backend is polled again and how the message ends.

  Granularity.  Everything that decides *what* the client receives (status, fields, body bytes,
  completeness) is a byte automaton: header accumulation (`hbuf`), Content-Length counting, the
  chunked decoder (Model/HttpChunkDecode.lean) and FastCGI record reassembly
  (Model/FcgiRecv.lean).  The *wire image* additionally depends on the read boundaries, because
  lighttpd frames each read as one chunk when it has to use chunked encoding towards the client;
  so the top level consumes one backend read ("segment") at a time: `onData`, then `onEnd`.

  The model describes the code with the C10 repairs applied (seeded/C10-fixes): CR check of the
  chunked decoder, CR stripped from merged trailer values, `gw_dechunk->done` for responses without
  Status, keep-alive off / 502 for a body the backend cut short, invalid Content-Length not relayed,
  502 instead of a partial response while the client-side head has not been sent.

  Not modelled (the harness keeps them switched off): authorizer mode, Upgrade/CONNECT,
  X-Sendfile, local redirects, error handlers / error_intercept, request bodies, write
  throttling and partial client writes, temp-file spill (same bytes), reconnect on
  nothing-sent-yet (C11).
-/
import LtVerif.Model.HttpChunkDecode
import LtVerif.Model.FcgiRecv
import LtVerif.Extracted.BackendRespConst
namespace LtVerif.BeResp
open LtVerif B

/-! ## small byte-string helpers -/

def lower (bs : Bytes) : Bytes := bs.map toLower
def isWs (b : UInt8) : Bool := b = sp || b = ht
def trimRightWs (v : Bytes) : Bytes := (v.reverse.dropWhile isWs).reverse

/-- li_restricted_strtoint64() consuming the whole string: digits only, value ≤ INT64_MAX -/
def strtoI64 (v : Bytes) : Option Nat :=
  if v.all isDigit then
    let n := v.foldl (fun acc d => acc * 10 + (d - 48).toNat) 0
    if n ≤ 9223372036854775807 then some n else none
  else none

/-- http_header_str_to_code(): exactly three digits followed by end / SP / HT / NUL -/
def strToCode (v : Bytes) : Option Nat :=
  match v with
  | a :: b :: c :: rest =>
    if isDigit a && isDigit b && isDigit c &&
       (match rest with | [] => true | d :: _ => d = sp || d = ht || d = 0) then
      some ((a - 48).toNat * 100 + (b - 48).toNat * 10 + (c - 48).toNat)
    else none
  | _ => none

def skipSep : Bytes → Bytes
  | [] => []
  | b :: rest => if b = sp || b = ht || b = 44 then skipSep rest else b :: rest

def skipToComma : Bytes → Bytes
  | [] => []
  | b :: rest => if b = 44 then b :: rest else skipToComma rest

/-- http_header_str_contains_token() -/
def containsTokenFuel (m : Bytes) : Nat → Bytes → Bool
  | 0, _ => false
  | fuel + 1, s =>
    let s1 := skipSep s
    if s1.length < m.length then false else
    let hit := eqIcase (s1.take m.length) m
    let after := s1.drop m.length
    if hit && (match after.head? with
               | none => true
               | some b => b = sp || b = ht || b = 44 || b = 59) then true
    else
      let s2 := skipToComma (if hit then after else s1)
      if s2.isEmpty then false else containsTokenFuel m fuel s2

def containsToken (s m : Bytes) : Bool := containsTokenFuel m (s.length + 1) s

/-- lower-case hex without leading zeros (http_chunk_len_append) -/
def hexLc (n : Nat) : Bytes := encHex n

/-- buffer_append_uint_hex(): lower-case hex padded to whole bytes -/
def hexLcEven (n : Nat) : Bytes :=
  let h := encHex n
  if h.length % 2 = 1 then 48 :: h else h

def crlf : Bytes := [cr, lf]

/-- decimal rendering (buffer_append_int for non-negative values) -/
def decDigits : Nat → Nat → Bytes
  | 0, _ => [48]
  | fuel + 1, n =>
    if n < 10 then [48 + n.toUInt8] else decDigits fuel (n / 10) ++ [48 + (n % 10).toUInt8]

def decBytes (n : Nat) : Bytes := decDigits 40 n

/-- http_status_append() -/
def statusText (status : Nat) : Bytes :=
  match Extracted.statusReasons.find? (·.1 = status) with
  | some (_, t) => ofString t
  | none => decBytes status ++ [sp]

/-! ## configuration and state -/

inductive Backend | proxy | cgi | fcgi | scgi
deriving Repr, DecidableEq

structure Cfg where
  be : Backend := .proxy
  ver : Nat := 1            -- client protocol: 0 = HTTP/1.0, 1 = HTTP/1.1, 2 = HTTP/2
  stream : Nat := 0         -- server.stream-response-body 0, 1, 2
  head : Bool := false      -- request method is HEAD
deriving Repr, DecidableEq

def Cfg.streaming (c : Cfg) : Bool := c.stream ≠ 0

/-- what the client side observes (h1: wire bytes; h2: logical frames) -/
inductive Ev
  | w (bytes : Bytes)                       -- bytes written to the client / DATA payload
  | interim (status : Nat) (hdrs : Bytes)   -- h2: 1xx HEADERS
  | hdrs (status : Nat) (hdrs : Bytes)      -- h2: final HEADERS
  | trailers (t : Bytes)                    -- h2: END_STREAM carried by trailers
  | endStream                               -- h2: END_STREAM
  | rst                                     -- h2: RST_STREAM
  | redispatch                              -- handler lost before the response started: the request
                                            -- would be dispatched again (not followed further)
deriving Repr, DecidableEq

inductive CState | handle | write | done | redispatch
deriving Repr, DecidableEq

structure St where
  -- response state of request_st
  status : Nat := 0
  started : Bool := false          -- resp_body_started
  finished : Bool := false         -- resp_body_finished
  handler : Bool := true           -- handler_module != NULL
  keepAlive : Bool := true
  headers : List (Bytes × Bytes) := []   -- resp_headers in insertion order ("" value = removed)
  scratch : Int := -1              -- resp_body_scratchpad
  decodeChunked : Bool := false    -- resp_decode_chunked
  sendChunked : Bool := false      -- resp_send_chunked
  dc : Option DcSt := none         -- gw_dechunk (mode, and `out` = not yet flushed decoded data)
  dcDone : Nat := 0                -- gw_dechunk->done (the status at the time the body ended)
  trailerBuf : Bytes := []         -- gw_dechunk->b once the body ended (cleared by the merge)
  wq : Bytes := []                 -- r->write_queue: queued for the client, not yet written
  -- backend connection
  hbuf : Bytes := []               -- response header bytes accumulated so far
  fcgi : FrSt := {}                -- hctx->rb reassembly
  fcgiSend : Bool := true          -- hctx->send_content_body
  open_ : Bool := true             -- backend context still exists (r->plugin_ctx[id])
  -- client connection
  cstate : CState := .handle
  hdrSent : Bool := false
  cerr : Bool := false             -- CON_STATE_ERROR reached
  evs : List Ev := []
deriving Repr, DecidableEq

/-! ## response header store (http_header_response_*) -/

def hdrFind (hs : List (Bytes × Bytes)) (lname : Bytes) : Option (Bytes × Bytes) :=
  hs.find? fun kv => lower kv.1 = lname

/-- `light_btst(r->resp_htags, id)`: a field of that name with a non-blank value is stored -/
def hasHdr (hs : List (Bytes × Bytes)) (lname : Bytes) : Bool :=
  match hdrFind hs lname with
  | some (_, v) => !v.isEmpty
  | none => false

def hdrMapFirst (f : Bytes × Bytes → Bytes × Bytes) (lname : Bytes) :
    List (Bytes × Bytes) → List (Bytes × Bytes)
  | [] => []
  | kv :: rest => if lower kv.1 = lname then f kv :: rest else kv :: hdrMapFirst f lname rest

/-- http_header_response_insert(): repeated fields are appended on a new line -/
def hdrInsert (h2 : Bool) (hs : List (Bytes × Bytes)) (k v : Bytes) : List (Bytes × Bytes) :=
  if v.isEmpty then hs
  else match hdrFind hs (lower k) with
    | some _ =>
      hdrMapFirst (fun kv =>
        if kv.2.isEmpty then (kv.1, v)
        else (kv.1, kv.2 ++ crlf ++ (if h2 then lower k else k) ++ [colon, sp] ++ v)) (lower k) hs
    | none => hs ++ [(k, v)]

/-- http_header_response_set() -/
def hdrSet (hs : List (Bytes × Bytes)) (k v : Bytes) : List (Bytes × Bytes) :=
  match hdrFind hs (lower k) with
  | some _ => hdrMapFirst (fun kv => (kv.1, v)) (lower k) hs
  | none => hs ++ [(k, v)]

/-- http_header_response_unset() -/
def hdrUnset (hs : List (Bytes × Bytes)) (k : Bytes) : List (Bytes × Bytes) :=
  if hasHdr hs (lower k) then hdrMapFirst (fun kv => (kv.1, [])) (lower k) hs else hs

/-- http_header_response_append() (comma separated) -/
def hdrAppend (hs : List (Bytes × Bytes)) (k v : Bytes) : List (Bytes × Bytes) :=
  if v.isEmpty then hs
  else match hdrFind hs (lower k) with
    | some _ =>
      hdrMapFirst (fun kv => if kv.2.isEmpty then (kv.1, v) else (kv.1, kv.2 ++ [44, sp] ++ v)) (lower k) hs
    | none => hs ++ [(k, v)]

def nStatus := ofString "status"
def nUpgrade := ofString "upgrade"
def nConnection := ofString "connection"
def nContentType := ofString "content-type"
def nContentLength := ofString "content-length"
def nTransferEncoding := ofString "transfer-encoding"
def nHttp2Settings := ofString "http2-settings"
def nLocation := ofString "location"
def nDate := ofString "date"
def nContentEncoding := ofString "content-encoding"
def nWwwAuthenticate := ofString "www-authenticate"
def nTrailer := ofString "trailer"

/-! ## queueing body data for the client (http_chunk_append_mem) -/

def chunkAppend (st : St) (data : Bytes) : St :=
  if data.isEmpty then st
  else if st.sendChunked then
    { st with wq := st.wq ++ hexLc data.length ++ crlf ++ data ++ crlf }
  else { st with wq := st.wq ++ data }

/-- http_chunk_decode_append_mem(): decode (or pass through) one piece of a chunked backend body;
    `none` = framing error (the C returns -1) -/
def dechunkAppend (st : St) (data : Bytes) : St × Bool :=
  match st.dc with
  | none => (st, false)
  | some d =>
    if st.dcDone ≠ 0 then (st, false)      -- excess data after the end
    else
      let d' := dcFeed { d with out := [] } data
      -- decoded data is queued as it is produced when lighttpd is not re-chunking
      let st1 : St := if st.sendChunked then st else { st with wq := st.wq ++ d'.out }
      let d'' := { d' with out := [] }
      match d'.mode with
      | .err => ({ st1 with dc := some d'' }, false)
      | .done acc =>
        -- (`done` records the response status, 200 if it is still unset)
        let st2 : St := { st1 with dc := some d'', dcDone := if st.status = 0 then 200 else st.status,
                                   trailerBuf := acc, finished := true }
        (if st.sendChunked then { st2 with wq := st2.wq ++ data } else st2, true)
      | _ =>
        let st2 : St := { st1 with dc := some d'' }
        (if st.sendChunked then { st2 with wq := st2.wq ++ data } else st2, true)

/-- http_response_append_mem() / http_response_append_buffer(): body bytes read from the backend -/
def appendMem (st : St) (data : Bytes) : St × Bool :=
  if st.decodeChunked then dechunkAppend st data
  else if st.scratch > 0 then
    let left := st.scratch - data.length
    if left ≤ 0 then
      -- Content-Length reached: silently truncate anything beyond it
      (chunkAppend { st with scratch := 0, finished := true } (data.take st.scratch.toNat), true)
    else (chunkAppend { st with scratch := left } data, true)
  else if st.scratch = 0 then (st, true)
  else (chunkAppend st data, true)

/-- http_response_transfer_cqlen(): body bytes of a FastCGI STDOUT record -/
def transferCqlen (st : St) (data : Bytes) : St × Bool :=
  if data.isEmpty then (st, true)
  else if st.decodeChunked then dechunkAppend st data
  else if st.scratch ≥ 0 then
    let left := st.scratch - data.length
    if left < 0 then (chunkAppend { st with scratch := 0 } (data.take st.scratch.toNat), true)
    else (chunkAppend { st with scratch := left } data, true)
  else (chunkAppend st data, true)

/-! ## response header parsing -/

def findIdx (p : UInt8 → Bool) : Bytes → Nat → Option Nat
  | [], _ => none
  | b :: rest, i => if p b then some i else findIdx p rest (i + 1)

/-- field name and value of one header line (line includes its LF); `none` = line is ignored -/
def fieldOfLine (line : Bytes) : Option (Bytes × Bytes) :=
  let body := line.dropLast
  match findIdx (· = colon) body 0 with
  | none => none
  | some ci =>
    let k := body.take ci
    if k.isEmpty then none
    else
      let v0 := (body.drop (ci + 1)).dropWhile isWs
      let v := if v0.getLast? = some cr then v0.dropLast else v0
      some (k, v)

/-- the field name ends in SP / HT (whitespace between name and colon) -/
def endsWs (k : Bytes) : Bool :=
  match k.getLast? with
  | some b => isWs b
  | none => false

/-- one response field from the backend (the switch of http_response_process_headers) -/
def applyField (cfg : Cfg) (st : St) (k v : Bytes) : St :=
  let lk := lower k
  let ins (st : St) (v : Bytes) : St := { st with headers := hdrInsert (cfg.ver ≥ 2) st.headers k v }
  if lk = nStatus then
    if cfg.be ≠ .proxy then
      match strToCode v with
      | some c => if c ≥ 100 then { st with status := c } else { st with status := 502, handler := false }
      | none => { st with status := 502, handler := false }
    else ins st v
  else if lk = nUpgrade then st
  else if lk = nConnection then
    if cfg.be = .proxy then st
    else if cfg.ver ≥ 2 then st
    else ins (if containsToken v (ofString "close") then { st with keepAlive := false } else st) v
  else if lk = nContentType then
    if v.length ≥ 22 && v.take 22 = ofString "application/javascript" then
      ins st (ofString "text" ++ v.drop 11)
    else ins st v
  else if lk = nContentLength then
    let v1 := if v.head? = some 43 then v.drop 1 else v
    if !st.decodeChunked && !hasHdr st.headers nContentLength then
      let t := trimRightWs v1
      if t.isEmpty then st
      else
        match strtoI64 t with
        | some n => ins { st with scratch := n } v1
        | none => { st with scratch := -1 }     -- invalid value: not relayed, read until backend EOF
    else st
  else if lk = nTransferEncoding then
    let st1 : St := if hasHdr st.headers nContentLength then
        { st with scratch := -1, headers := hdrUnset st.headers nContentLength } else st
    { st1 with decodeChunked := true, dc := some {}, dcDone := 0, trailerBuf := [] }
  else if lk = nHttp2Settings then st
  else if endsWs k then st
  else ins st v

def applyLine (cfg : Cfg) (st : St) (line : Bytes) : St :=
  match fieldOfLine line with
  | none => st
  | some (k, v) => applyField cfg st k v

/-- status of an NPH / HTTP status line (`s` = the whole header buffer) -/
def nphStatus (cfg : Cfg) (s : Bytes) : Option Nat :=
  let at_ (i : Nat) : UInt8 := s.getD i 0
  if (at_ 5 = 49 || cfg.be ≠ .proxy) && at_ 6 = dot && (at_ 7 = 49 || at_ 7 = 48) && at_ 8 = sp then
    let c12 := if at_ 12 = cr || at_ 12 = lf then 0 else at_ 12
    if isDigit (at_ 9) && isDigit (at_ 10) && isDigit (at_ 11) && (c12 = 0 || c12 = sp || c12 = ht) then
      let c := ((at_ 9) - 48).toNat * 100 + ((at_ 10) - 48).toNat * 10 + ((at_ 11) - 48).toNat
      if c ≥ 100 then some c else none
    else none
  else none

/-- the field lines of a response head, then CGI/1.1: a Location without status means 302 -/
def applyLines (cfg : Cfg) (st : St) (lines : List Bytes) : St :=
  let st1 := lines.foldl (applyLine cfg) st
  if st1.status = 0 && hasHdr st1.headers nLocation then { st1 with status := 302 } else st1

/-- http_response_process_headers() -/
def processHeaders (cfg : Cfg) (st : St) (buf : Bytes) (lines : List Bytes) (isNph : Bool) : St :=
  if isNph then
    match nphStatus cfg buf with
    | some c => applyLines cfg { st with status := c } (lines.drop 1)
    | none =>
      if st.status = 0 then { st with status := 502, handler := false }
      else applyLines cfg st lines
  else if cfg.be = .proxy then { st with status := 502, handler := false }
  else applyLines cfg st lines

/-- http_header_parse_hoff(): complete lines in front of the terminating empty line and the
    length of the header block including that line (0 = not complete) -/
def hoffGo : Bytes → Bytes → List Bytes → Nat → List Bytes × Nat
  | [], _, lines, _ => (lines.reverse, 0)
  | b :: rest, cur, lines, n =>
    if b = lf then
      let line := cur ++ [b]
      if line = [lf] || line = [cr, lf] then (lines.reverse, n + 1)
      else if lines.length + 1 ≥ 8190 then ((line :: lines).reverse, 0)
      else hoffGo rest [] (line :: lines) (n + 1)
    else hoffGo rest (cur ++ [b]) lines (n + 1)

def hoff (b : Bytes) : List Bytes × Nat := hoffGo b [] [] 0

/-- bytes up to and including the first LF -/
def firstLine (b : Bytes) : Option Bytes :=
  match findIdx (· = lf) b 0 with
  | some i => some (b.take (i + 1))
  | none => none

inductive Rc | goOn | finished | error
deriving Repr, DecidableEq

/-- rendering of the stored response fields as "K: V\r\n" lines (1xx, h2 observation) -/
def renderHdrs (hs : List (Bytes × Bytes)) : Bytes :=
  hs.flatMap fun kv => if kv.1.isEmpty || kv.2.isEmpty then [] else kv.1 ++ [colon, sp] ++ kv.2 ++ crlf

def pushW (evs : List Ev) (bytes : Bytes) : List Ev :=
  if bytes.isEmpty then evs
  else match evs.getLast? with
    | some (.w prev) => evs.dropLast ++ [.w (prev ++ bytes)]
    | _ => evs ++ [.w bytes]

/-- http_response_send_1xx() + http_response_header_clear() -/
def send1xx (cfg : Cfg) (st : St) : St :=
  let st1 : St :=
    if cfg.ver = 1 then
      -- h1_send_1xx(): written to the client at once (together with anything already queued)
      let blk := ofString "HTTP/1.1 " ++ statusText st.status ++
        (st.headers.flatMap fun kv =>
          if kv.1.isEmpty || kv.2.isEmpty then [] else crlf ++ kv.1 ++ [colon, sp] ++ kv.2) ++ crlf ++ crlf
      { st with evs := pushW st.evs (st.wq ++ blk), wq := [] }
    else if cfg.ver ≥ 2 then { st with evs := st.evs ++ [.interim st.status (renderHdrs st.headers)] }
    else st
  { st1 with status := 0, headers := [], sendChunked := false, decodeChunked := false, scratch := -1,
             dc := none, dcDone := 0, trailerBuf := [] }

/-- http_response_parse_headers() on the accumulated header bytes `st.hbuf` -/
def parseHeaders (cfg : Cfg) : Nat → St → St × Rc
  | 0, st => (st, .goOn)
  | fuel + 1, st =>
    let b := st.hbuf
    let (lines, hlen) := hoff b
    if (if hlen ≠ 0 then hlen else b.length) > Extracted.maxHttpResponseFieldSize then
      ({ st with status := 502, handler := false }, .finished)
    else
      let l1 := firstLine b
      let isNph := match l1 with
        | some l => l.length ≥ 12 && b.take 5 = ofString "HTTP/"
        | none => false
      let early : Option (St × Rc) :=
        match l1 with
        | some l =>
          if !isNph && !(l.dropLast).contains colon then
            if l.length ≤ 2 && (l.length = 1 || b.head? = some cr) then none
            else if cfg.be = .cgi then
              some ({ (chunkAppend st b) with status := 200, started := true }, .goOn)
            else some ({ st with status := 502, handler := false }, .finished)
          else none
        | none => none
      match early with
      | some r => r
      | none =>
        if hlen = 0 then (st, .goOn)
        else
          let rest := b.drop hlen
          let st1 := processHeaders cfg st b lines isNph
          if st1.status < 200 && st1.status ≠ 0 && st1.status ≠ 101 then
            parseHeaders cfg fuel { (send1xx cfg st1) with hbuf := rest }
          else
            let st2 : St := { st1 with started := true }
            if !st2.handler then (st2, .finished)
            else if rest.isEmpty then (st2, .goOn)
            else
              let (st3, ok) := appendMem st2 rest
              (st3, if ok then .goOn else .error)

/-- more response header bytes from the backend: accumulate and parse again from the start -/
def headerStep (cfg : Cfg) (st : St) (data : Bytes) : St × Rc :=
  parseHeaders cfg (st.hbuf.length + data.length + 1) { st with hbuf := st.hbuf ++ data }

/-! ## reading from the backend (http_response_read / fcgi_recv_parse) -/

/-- one read() that returned `seg` (non-empty), backends without a record layer -/
def readPlain (cfg : Cfg) (st : St) (seg : Bytes) : St × Rc :=
  if !st.started then
    let (st1, rc) := headerStep cfg st seg
    if rc ≠ .goOn then (st1, rc)
    else if st1.started then
      let st2 : St := { st1 with hbuf := [] }
      let st3 : St := if st2.scratch = 0 then { st2 with finished := true } else st2
      (st3, if st3.finished then .finished else .goOn)
    else (st1, .goOn)
  else
    let (st1, ok) := appendMem st seg
    if !ok then (st1, .error) else (st1, if st1.finished then .finished else .goOn)

/-- dispatch of completed FastCGI records (fcgi_recv_parse_loop); `true` = fin -/
def fcgiDispatch (cfg : Cfg) : List FrEv → St → St × Bool
  | [], st => (st, false)
  | ev :: rest, st =>
    match ev with
    | .stdout data =>
      if data.isEmpty then fcgiDispatch cfg rest st
      else if !st.started then
        let (st1, rc) := headerStep cfg st data
        if rc ≠ .goOn then ({ st1 with fcgiSend := false }, true)
        else fcgiDispatch cfg rest st1
      else if st.fcgiSend then
        let (st1, ok) := transferCqlen st data
        if !ok then ({ st1 with fcgiSend := false }, true) else fcgiDispatch cfg rest st1
      else fcgiDispatch cfg rest st
    | .stderr _ => fcgiDispatch cfg rest st
    | .endRequest => (st, true)
    | .other _ => fcgiDispatch cfg rest st

def readFcgi (cfg : Cfg) (st : St) (seg : Bytes) : St × Rc :=
  let f := frFeed { st.fcgi with evs := [] } seg
  let (st1, fin) := fcgiDispatch cfg f.evs { st with fcgi := { f with evs := [] } }
  (st1, if fin then .finished else .goOn)

/-! ## end-of-response classification -/

/-- http_chunk_close() -/
def chunkClose (st : St) : St :=
  if !st.sendChunked then st
  else if st.dc.isSome then (if st.dcDone = 0 then { st with keepAlive := false } else st)
  else { st with wq := st.wq ++ ofString "0\r\n\r\n" }

/-- http_response_body_clear() -/
def bodyClear (st : St) (preserveLength : Bool) : St :=
  let st1 : St := { st with finished := false, started := false, sendChunked := false, scratch := -1,
                            headers := hdrUnset st.headers nTransferEncoding, wq := [] }
  if preserveLength then st1
  else { st1 with headers := hdrUnset st1.headers nContentLength, decodeChunked := false,
                  dc := none, dcDone := 0, trailerBuf := [] }

/-- http_response_backend_incomplete(): the backend response is incomplete and the response head has
    not been sent to the client yet (`resp_header_len == 0`): answer 502 instead of a partial response -/
def backendIncomplete (st : St) : St :=
  { (bodyClear st false) with status := 502, handler := false }

/-- a response to HEAD and a 304 have no body, whatever Content-Length / Transfer-Encoding say -/
def bodiless (cfg : Cfg) (st : St) : Bool := cfg.head || st.status = 304

/-- the backend closed before the end of the body it announced: fewer bytes than Content-Length, or
    a chunked body without last-chunk (not for a response that has no body) -/
def bodyTruncated (cfg : Cfg) (st : St) : Bool :=
  (st.scratch > 0 || (st.dc.isSome && st.dcDone = 0)) && !bodiless cfg st

/-- http_response_backend_abort(): the backend response is incomplete and the response head is
    already out: the connection cannot be reused; an HTTP/2 stream is flagged for RST_STREAM -/
def backendAbort (cfg : Cfg) (st : St) : St :=
  { st with keepAlive := false, cerr := st.cerr || decide (cfg.ver ≥ 2) }

/-- http_response_backend_done() -/
def backendDone (cfg : Cfg) (st : St) : St :=
  if st.cstate = .done then st
  else if st.cstate = .handle && !st.started then
    { st with status := if st.status < 500 && st.status ≠ 400 then 500 else st.status, handler := false }
  else if !st.finished then
    if bodyTruncated cfg st && !st.hdrSent then backendIncomplete st
    else
      -- (head already sent: the connection cannot be reused)
      let st1 : St := if bodyTruncated cfg st then backendAbort cfg st else st
      { (if cfg.ver = 1 then chunkClose st1 else st1) with finished := true }
  else st

/-- http_response_backend_error() -/
def backendError (cfg : Cfg) (st : St) : St :=
  if st.started && bodiless cfg st then st       -- (complete with its head: finished by backendDone)
  else if st.started && !st.hdrSent then backendIncomplete st
  else if st.started then { (backendAbort cfg st) with handler := false, finished := true }
  else st

/-- gw_connection_close() -/
def gwClose (cfg : Cfg) (st : St) : St :=
  let st1 : St := { st with open_ := false }
  if st1.handler then backendDone cfg st1 else st1

/-- gw_backend_error() -/
def gwBackendError (cfg : Cfg) (st : St) : St := gwClose cfg (backendError cfg st)

/-- gw_recv_response() for a read that returned data -/
def gwRecvData (cfg : Cfg) (st : St) (seg : Bytes) : St :=
  let (st1, rc) := if cfg.be = .fcgi then readFcgi cfg st seg else readPlain cfg st seg
  match rc with
  | .goOn => st1
  | .finished => gwClose cfg st1
  | .error => gwBackendError cfg st1

inductive End | eof | rst | err | hup | none
deriving Repr, DecidableEq

/-- gw_process_fdevent() for the event that ends the backend stream -/
def gwRecvEnd (cfg : Cfg) (st : St) (e : End) : St :=
  match e with
  | .none => st
  | .eof =>
    -- read() returns 0
    if cfg.be = .fcgi then
      (if st.fcgi.ended then gwClose cfg st else gwBackendError cfg st)
    else gwClose cfg st
  | .rst =>
    -- read() fails (ECONNRESET)
    gwBackendError cfg st
  | .err => gwBackendError cfg st
  | .hup =>
    if st.started then
      (if cfg.be = .fcgi then (if st.fcgi.ended then gwClose cfg st else gwBackendError cfg st)
       else gwClose cfg st)
    else gwClose cfg st

/-! ## starting the response towards the client (response.c) -/

def errorPage (status : Nat) : Bytes :=
  ofString "<!DOCTYPE html>\n<html lang=\"en\">\n <head>\n  <meta charset=\"UTF-8\" />\n  <title>"
  ++ statusText status ++
  ofString "</title>\n </head>\n <body>\n  <h1>" ++ statusText status ++
  ofString "</h1>\n </body>\n</html>\n"

/-- http_response_static_errdoc() (no error handler, no errorfile-prefix configured) -/
def staticErrdoc (st : St) : St :=
  if st.handler then st
  else
    let wa : Option Bytes :=
      if st.status = 401 then
        (match hdrFind st.headers nWwwAuthenticate with
         | some (_, v) => if v.isEmpty then none else some v
         | none => none)
      else none
    let st1 := bodyClear { st with headers := [] } false
    let st2 : St := match wa with
      | some v => { st1 with headers := hdrSet st1.headers (ofString "WWW-Authenticate") v }
      | none => st1
    { st2 with finished := true, wq := errorPage st.status,
               headers := hdrSet st2.headers (ofString "Content-Type") (ofString "text/html") }

/-- lines of a byte string, each including its LF (an unterminated rest is dropped) -/
def linesOf : Bytes → Bytes → List Bytes
  | [], _ => []
  | b :: rest, cur => if b = lf then (cur ++ [b]) :: linesOf rest [] else linesOf rest (cur ++ [b])

/-- one trailer line (with LF) as response field; the CR in front of the LF is not part of the
    value -/
def trailerField (line : Bytes) : Option (Bytes × Bytes) :=
  let body := line.dropLast
  match findIdx (· = colon) body 0 with
  | none => none
  | some ci =>
    let k := body.take ci
    if k.isEmpty || isWs (k.headD 0) then none
    else
      let v0 := (body.drop (ci + 1)).dropWhile isWs
      if v0.isEmpty || v0.head? = some cr then none
      else some (k, if v0.getLast? = some cr then v0.dropLast else v0)

/-- http_response_merge_trailers() -/
def mergeTrailers (cfg : Cfg) (st : St) : St :=
  if st.dc.isNone then st
  else if st.dcDone = 0 then st
  else if st.dcDone < 400 && st.status ≥ 400 then st
  else
    -- the body is complete and the response has no trailer section: the Trailer field goes,
    -- whether or not `gw_dechunk->b` still holds the last-chunk line
    let hs0 := hdrUnset st.headers nTrailer
    if (dcTrailerFields st.trailerBuf).isEmpty then { st with headers := hs0 }
    else
      let ls := (linesOf st.trailerBuf []).drop 1
      let hs := ls.foldl (fun hs l => match trailerField l with
        | some (k, v) => hdrInsert (cfg.ver ≥ 2) hs k v
        | none => hs) hs0
      { st with headers := hs, trailerBuf := [] }

/-- http_response_write_prepare(), first part: responses without body and error documents -/
def wpStatus (st : St) : St :=
  if st.status = 204 || st.status = 205 then
    { (bodyClear { st with headers := hdrUnset st.headers nContentLength } true) with finished := true }
  else if st.status = 304 then { (bodyClear st true) with finished := true }
  else if st.status = 200 then st
  else if st.status ≥ 400 && st.status < 600 then staticErrdoc st
  else st

/-- neither Content-Length nor Transfer-Encoding is set on the response -/
def noLen (st : St) : Bool := !hasHdr st.headers nContentLength && !hasHdr st.headers nTransferEncoding

/-- ... the response body is complete: make sure its length is announced -/
def wpSetLength (cfg : Cfg) (st : St) : St :=
  if noLen st then
    if st.wq.length > 0 then
      { st with headers := hdrSet st.headers (ofString "Content-Length") (decBytes st.wq.length) }
    else if !cfg.head && st.status ≠ 204 && st.status ≠ 304 then
      { st with headers := hdrSet st.headers (ofString "Content-Length") (ofString "0") }
    else st
  else st

/-- ... the response body is not complete yet (HTTP/1.x): without a length from the backend use
    chunked encoding (HTTP/1.1; when passing the backend's chunked encoding through, the partially
    decoded chunk is reconstituted) or give up keep-alive (HTTP/1.0) -/
def wpStartStreaming (cfg : Cfg) (st : St) : St :=
  if noLen st && !hasHdr st.headers nUpgrade then
    if cfg.ver = 1 then
      let qlen0 := st.wq.length
      let (qlen, tail) : Nat × Bytes :=
        if st.decodeChunked then
          match st.dc with
          | some d =>
            if dcTe d.mode ≥ 2 then (qlen0 + (dcTe d.mode - 2), [])
            else if dcTe d.mode = 1 then (qlen0, [cr])
            else (qlen0, (if qlen0 ≠ 0 then crlf else []) ++ dcBuf d.mode)
          | none => (qlen0, [])
        else (qlen0, if qlen0 ≠ 0 then crlf else [])
      let body := st.wq ++ tail
      let wq' := if qlen ≠ 0 then hexLcEven qlen ++ crlf ++ body else body
      { st with sendChunked := true, wq := wq',
                headers := hdrAppend st.headers (ofString "Transfer-Encoding") (ofString "chunked") }
    else { st with keepAlive := false }
  else st

def wpLength (cfg : Cfg) (st : St) : St :=
  if st.finished then wpSetLength cfg st
  else if cfg.ver ≥ 2 then st
  else wpStartStreaming cfg st

/-- ... HEAD: like GET without the content -/
def wpHead (cfg : Cfg) (st : St) : St :=
  if cfg.head then { (bodyClear st true) with finished := true } else st

/-- http_response_write_prepare() -/
def writePrepare (cfg : Cfg) (st : St) : St :=
  wpHead cfg (wpLength cfg (mergeTrailers cfg (wpStatus st)))

def omitHeader (k : Bytes) : Bool :=
  let lk := lower k
  lk = ofString "x-sendfile" || (lk.take 11 = ofString "x-lighttpd-")

def dateLine : Bytes := ofString "\r\nDate: Sun, 09 Sep 2001 01:46:40 GMT"

/-- h1_send_headers(), the response fields: Connection as the keep-alive decision demands -/
def h1HeaderSet (cfg : Cfg) (st : St) : List (Bytes × Bytes) :=
  let hs1 :=
    if !st.keepAlive then hdrSet st.headers (ofString "Connection") (ofString "close")
    else if cfg.ver = 0 then hdrSet st.headers (ofString "Connection") (ofString "keep-alive")
    else st.headers
  if st.status = 304 && hasHdr hs1 nContentEncoding then hdrUnset hs1 nContentEncoding else hs1

/-- the field lines of the response head (each preceded by CRLF), Date added when missing -/
def h1FieldLines (hs : List (Bytes × Bytes)) : Bytes :=
  (hs.flatMap fun kv =>
    if kv.1.isEmpty || kv.2.isEmpty || omitHeader kv.1 then [] else crlf ++ kv.1 ++ [colon, sp] ++ kv.2) ++
  (if hasHdr hs nDate then [] else dateLine)

def h1StatusLine (cfg : Cfg) (status : Nat) : Bytes :=
  (if cfg.ver = 1 then ofString "HTTP/1.1 " else ofString "HTTP/1.0 ") ++ statusText status

/-- h1_send_headers(): serialise the response head in front of the queued body -/
def h1SendHeaders (cfg : Cfg) (st : St) : St :=
  let hs := h1HeaderSet cfg st
  { st with headers := hs, hdrSent := true,
            wq := h1StatusLine cfg st.status ++ h1FieldLines hs ++ crlf ++ crlf ++ st.wq }

/-! ## the connection state machine around it -/

/-- `gw_handle_subrequest()` with nothing to do (no pending backend event) returns
    HANDLER_WAIT_FOR_EVENT while the backend context exists, HANDLER_GO_ON afterwards -/
def subrequestWaits (st : St) : Bool := st.open_

/-- http_response_handler(): `true` = response start (headers can be sent) -/
def handlerStarts (cfg : Cfg) (st : St) : Bool :=
  if subrequestWaits st then st.finished || (st.started && cfg.streaming) else true

def flush (st : St) : St := { st with evs := pushW st.evs st.wq, wq := [] }

/-- how an HTTP/2 stream ends: END_STREAM on DATA, or on the trailers of a chunked backend body -/
def endStreamEv (st : St) : Ev :=
  if st.dc.isSome && st.dcDone ≠ 0 then
    (if (dcTrailerFields st.trailerBuf).isEmpty then .endStream else .trailers (dcTrailerFields st.trailerBuf))
  else .endStream

/-- HTTP/2 stream in the write state: DATA as far as allowed, END_STREAM when finished -/
def h2Progress (cfg : Cfg) (st : St) : St :=
  -- (stream flagged as failed after HEADERS: RST_STREAM, what is still queued is dropped)
  if st.cerr then { st with cstate := .done, evs := st.evs ++ [.rst] } else
  let st1 := if st.finished || cfg.streaming then flush st else st
  if st1.finished then { st1 with cstate := .done, evs := st1.evs ++ [endStreamEv st1] } else st1

/-- HTTP/1.x connection in the write state: write what is queued; response end when finished -/
def h1Progress (st : St) : St :=
  let st1 := flush st
  if st1.finished then { st1 with cstate := .done } else st1

/-- response start: http_response_handler() tail, then h1_send_headers() / h2_send_headers() -/
def startResponse (cfg : Cfg) (st : St) : St :=
  let st1 : St := if st.status = 0 then { st with status := 200 } else st
  let st2 := writePrepare cfg st1
  if cfg.ver ≥ 2 then
    h2Progress cfg { st2 with evs := st2.evs ++ [.hdrs st2.status (renderHdrs st2.headers)], hdrSent := true,
                              cstate := .write }
  else h1Progress { (h1SendHeaders cfg st2) with cstate := .write }

/-- run the client side after a backend event has been processed -/
def conStep (cfg : Cfg) (st : St) : St :=
  match st.cstate with
  | .done => st
  | .redispatch => st
  | .handle => if handlerStarts cfg st then startResponse cfg st else st
  | .write => if cfg.ver ≥ 2 then h2Progress cfg st else h1Progress st

/-- http_response_handler() finds handler_module NULL before the response started (an unusable
    Status field inside a 1xx block clears it while the backend context lives on): it would run
    http_response_prepare() again -/
def lostHandler (st : St) : Bool := st.cstate = .handle && !st.handler && st.open_

def onData (cfg : Cfg) (st : St) (seg : Bytes) : St :=
  if st.cstate = .done || st.cstate = .redispatch || !st.open_ || seg.isEmpty then st
  else if lostHandler st then { st with evs := st.evs ++ [.redispatch], cstate := .redispatch }
  else conStep cfg (gwRecvData cfg st seg)

def onEnd (cfg : Cfg) (st : St) (e : End) : St :=
  if st.cstate = .done || st.cstate = .redispatch || !st.open_ || e = .none then st
  else if lostHandler st then { st with evs := st.evs ++ [.redispatch], cstate := .redispatch }
  else conStep cfg (gwRecvEnd cfg st e)

def relay (cfg : Cfg) (segs : List Bytes) (e : End) : St :=
  onEnd cfg (segs.foldl (onData cfg) {}) e

end LtVerif.BeResp
