/-
  Basic byte-string vocabulary shared by all models.
  Core Lean only (no Mathlib): this file is in the import closure of the
  compiled driver `ltmodel`.
-/
namespace LtVerif

abbrev Bytes := List UInt8

namespace B

/-- ASCII string literal as bytes (kernel-reducible, unlike `String.toUTF8`) -/
def ofString (s : String) : Bytes := s.toList.map fun ch => ch.toNat.toUInt8

@[inline] def c (ch : Char) : UInt8 := ch.toNat.toUInt8

def slash : UInt8 := 47   -- '/'
def dot : UInt8 := 46     -- '.'
def pct : UInt8 := 37     -- '%'
def qmark : UInt8 := 63   -- '?'
def hash : UInt8 := 35    -- '#'
def sp : UInt8 := 32
def ht : UInt8 := 9
def cr : UInt8 := 13
def lf : UInt8 := 10
def colon : UInt8 := 58
def uscore : UInt8 := 95  -- '_'

def isDigit (b : UInt8) : Bool := 48 ≤ b && b ≤ 57
def isUpper (b : UInt8) : Bool := 65 ≤ b && b ≤ 90
def isLower (b : UInt8) : Bool := 97 ≤ b && b ≤ 122
def isAlpha (b : UInt8) : Bool := isUpper b || isLower b
def isAlnum (b : UInt8) : Bool := isAlpha b || isDigit b
def isXDigit (b : UInt8) : Bool :=
  isDigit b || (65 ≤ b && b ≤ 70) || (97 ≤ b && b ≤ 102)

def toLower (b : UInt8) : UInt8 := if isUpper b then b ||| 0x20 else b
def toUpper (b : UInt8) : UInt8 := if isLower b then b &&& 0xdf else b

/-- `hex2int` of buffer.c: value of a hex digit, `none` for anything else. -/
def hexVal (b : UInt8) : Option UInt8 :=
  if isDigit b then some (b - 48)
  else if 65 ≤ b && b ≤ 70 then some (b - 55)
  else if 97 ≤ b && b ≤ 102 then some (b - 87)
  else none

def hexDigitUC (n : UInt8) : UInt8 :=
  if n < 10 then 48 + n else 55 + n
def hexDigitLC (n : UInt8) : UInt8 :=
  if n < 10 then 48 + n else 87 + n

/-- lower-case hex rendering used on the line protocol -/
def toHex (bs : Bytes) : String :=
  if bs.isEmpty then "-" else
  String.ofList (bs.flatMap fun (b : UInt8) =>
    [Char.ofNat (hexDigitLC (b >>> 4)).toNat, Char.ofNat (hexDigitLC (b &&& 0xf)).toNat])

def ofHexAux : List Char → Bytes → Option Bytes
  | [], acc => some acc.reverse
  | [_], _ => none
  | a :: b :: rest, acc =>
    match hexVal (c a), hexVal (c b) with
    | some h, some l => ofHexAux rest (((h <<< 4) ||| l) :: acc)
    | _, _ => none

def ofHex (s : String) : Option Bytes :=
  if s = "-" then some [] else ofHexAux s.toList []

def eqIcase (a b : Bytes) : Bool := a.map toLower == b.map toLower

/-- split on a separator byte: n separators give n+1 pieces -/
def splitOn (sep : UInt8) : Bytes → List Bytes
  | [] => [[]]
  | x :: xs =>
    match splitOn sep xs with
    | [] => [[]]            -- unreachable
    | p :: ps => if x = sep then [] :: p :: ps else (x :: p) :: ps

def join (sep : UInt8) : List Bytes → Bytes
  | [] => []
  | [p] => p
  | p :: ps => p ++ sep :: join sep ps

def natToDec (n : Nat) : Bytes := ofString (toString n)

end B
end LtVerif
