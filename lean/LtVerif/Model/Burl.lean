/-
  Model of src/burl.c: burl_normalize() (both the `unreserved` and the
  `required` variants, reject-or-rewrite options) and burl_append().
  Byte class table and flag values come from Extracted/BurlTables.lean
  (regenerated from the C source on every run).
  Inputs are NUL-free (the C code relies on the NUL terminator for look-ahead).
-/
import LtVerif.Model.Path
import LtVerif.Extracted.BurlTables
namespace LtVerif
open B

def reqd (b : UInt8) : Bool := Extracted.uriReqdTable.getD b.toNat true

structure Opts where
  bits : Nat
deriving Repr, DecidableEq

namespace Opts
def has (o : Opts) (bit : Nat) : Bool := o.bits &&& bit != 0
def headerStrict (o : Opts) := o.has Extracted.opt_headerStrict
def hostStrict (o : Opts) := o.has Extracted.opt_hostStrict
def hostNormalize (o : Opts) := o.has Extracted.opt_hostNormalize
def urlNormalize (o : Opts) := o.has Extracted.opt_urlNormalize
def urlRequired (o : Opts) := o.has Extracted.opt_urlRequired
def ctrlsReject (o : Opts) := o.has Extracted.opt_ctrlsReject
def path2FDecode (o : Opts) := o.has Extracted.opt_path2FDecode
def path2FReject (o : Opts) := o.has Extracted.opt_path2FReject
def dotsegRemove (o : Opts) := o.has Extracted.opt_dotsegRemove
def dotsegReject (o : Opts) := o.has Extracted.opt_dotsegReject
def query20Plus (o : Opts) := o.has Extracted.opt_query20Plus
def invalidUtf8Reject (o : Opts) := o.has Extracted.opt_invalidUtf8Reject
def methodGetBody (o : Opts) := o.has 0x8000
end Opts

def isUnreserved (b : UInt8) : Bool :=
  isAlnum b || b = 45 || b = 46 || b = 95 || b = 126   -- - . _ ~

def utf8InvalidByte (b : UInt8) : Bool := b ≥ 0xF5 || (b ||| 1) = 0xC1

def pctEnc (b : UInt8) : Bytes := [pct, hexDigitUC (b >>> 4), hexDigitUC (b &&& 0xf)]

/-- two hex digits at the head of the input -/
def hex2 : Bytes → Option (UInt8 × UInt8)
  | h :: l :: _ =>
    match hexVal h, hexVal l with
    | some a, some b => some (a, b)
    | _, _ => none
  | _ => none

/-- result of the first normalisation pass -/
structure NormAcc where
  out : Bytes := []        -- reversed output
  qs : Option Nat := none  -- output index of the first '?'
  badUtf8 : Bool := false
deriving Repr

/-- one pass of burl_normalize_basic_{unreserved,required}{,_fix}:
    `required = false`: decode %XX of unreserved characters only;
    `required = true` : decode every %XX whose byte needs no encoding, except
    the delimiters of the part it is in ("/" "?" in the path, "&=;+" in the query). -/
def normBasic (required : Bool) : Bytes → NormAcc → NormAcc
  | [], acc => acc
  | b :: rest, acc =>
    if !reqd b then
      let acc' := if b = qmark ∧ acc.qs = none then { acc with qs := some acc.out.length } else acc
      normBasic required rest { acc' with out := b :: acc'.out }
    else if b = pct then
      match hex2 rest with
      | some (hv, lv) =>
        let x : UInt8 := (hv <<< 4) ||| lv
        let decode : Bool :=
          if required then
            !reqd x && (if acc.qs.isNone then x ≠ slash && x ≠ qmark
                        else x ≠ 38 && x ≠ 61 && x ≠ 59 && x ≠ 43)
          else isUnreserved x
        if decode then normBasic required (rest.drop 2) { acc with out := x :: acc.out }
        else normBasic required (rest.drop 2)
               { acc with out := hexDigitUC lv :: hexDigitUC hv :: pct :: acc.out,
                          badUtf8 := acc.badUtf8 || utf8InvalidByte x }
      | none => normBasic required rest { acc with out := (pctEnc b).reverse ++ acc.out }
    else if b = hash then acc
    else normBasic required rest
           { acc with out := (pctEnc b).reverse ++ acc.out,
                      badUtf8 := acc.badUtf8 || utf8InvalidByte b }
termination_by s => s.length
decreasing_by all_goals (simp only [List.length_drop, List.length_cons]; omega)

def findIdx (p : UInt8 → Bool) : Bytes → Nat → Option Nat
  | [], _ => none
  | b :: rest, i => if p b then some i else findIdx p rest (i + 1)

/-- burl_contains_ctrls(): "%0x" "%1x" "%7F" anywhere (after normalisation every '%'
    is followed by two upper-case hex digits) -/
def containsCtrls : Bytes → Bool
  | [] => false
  | [_] => false
  | [a, b] => a = pct && b < 50
  | a :: b :: c :: rest =>
    (a = pct && (b < 50 || (b = 55 && c = 70))) || containsCtrls (b :: c :: rest)

/-- replace every occurrence of the 3-byte pattern `%` `x` `y` by `r` -/
def replace3 (x y r : UInt8) : Bytes → Bytes
  | a :: b :: c :: rest =>
    if a = pct && b = x && c = y then r :: replace3 x y r rest
    else a :: replace3 x y r (b :: c :: rest)
  | l => l
termination_by s => s.length

def contains3 (x y : UInt8) : Bytes → Bool
  | a :: b :: c :: rest => (a = pct && b = x && c = y) || contains3 x y (b :: c :: rest)
  | _ => false

/-- does the path part need buffer_path_simplify()? (burl_normalize_path scan) -/
def needsSimplify (path : Bytes) : Bool :=
  let segs := splitOn slash path
  segs.any (fun s => s = segDot || s = segDotDot) ||
  ((segs.drop 1).dropLast.any (fun s => s = []))

/-- burl_normalize(): `none` = reject (-2); `some (url, qs)` = normalised url and the
    offset of the query '?' (if any). -/
def burlNormalize (o : Opts) (s : Bytes) : Option (Bytes × Option Nat) :=
  let acc := normBasic o.urlRequired s {}
  let url := acc.out.reverse
  if acc.badUtf8 && o.invalidUtf8Reject then none else
  let qs := acc.qs
  if o.ctrlsReject && containsCtrls url then none else
  let path := match qs with | some q => url.take q | none => url
  let query := match qs with | some q => url.drop q | none => []   -- includes '?'
  -- %2F
  let r2f : Option Bytes :=
    if (o.path2FDecode || o.path2FReject) && contains3 50 70 path then
      (if o.path2FDecode then some (replace3 50 70 slash path) else none)
    else some path
  match r2f with
  | none => none
  | some path =>
  -- dot segments
  let rds : Option Bytes :=
    if (o.dotsegRemove || o.dotsegReject) && needsSimplify path then
      (if o.dotsegReject then none else some (pathSimplify path))
    else some path
  match rds with
  | none => none
  | some path =>
  let query := if o.query20Plus && qs.isSome then
                 (match query with | q :: rest => q :: replace3 50 48 43 rest | [] => [])
               else query
  some (path ++ query, qs.map fun _ => path.length)

/-- components http_request_parse_target() derives from the request-target -/
structure Target where
  target : Bytes     -- (normalised) request-target
  path : Bytes       -- r->uri.path: decoded, simplified
  query : Bytes      -- r->uri.query
deriving Repr, DecidableEq

/-- http_request_parse_target(): `special` = CONNECT (without :protocol) or "OPTIONS *".
    `Except.error 400` = rejected. -/
def parseTarget (o : Opts) (special : Bool) (t : Bytes) : Except Nat Target :=
  if special then .ok { target := t, path := t, query := [] } else
  let norm : Option (Bytes × Option Nat) :=
    if o.urlNormalize then burlNormalize o t
    else
      let t' := t.takeWhile (· ≠ hash)
      some (t', findIdx (· = qmark) t' 0)
  match norm with
  | none => .error 400
  | some (t', qs) =>
    let rawPath := match qs with | some q => t'.take q | none => t'
    let query := match qs with | some q => t'.drop (q + 1) | none => []
    let path := pathSimplify (urldecodePath rawPath)
    if path.head? = some slash then .ok { target := t', path := path, query := query }
    else .error 400

end LtVerif
