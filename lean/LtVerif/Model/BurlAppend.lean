/-
  Model of burl_append() (src/burl.c) and of the base64url codec it uses
  (src/base64.c li_base64_enc / li_base64_dec with BASE64_URL, no padding).
  Flag values come from Extracted/BurlTables.lean, the base64url tables from
  Extracted/KvModifiers.lean (both regenerated from the C source on every run).

  `look` arguments: the bytes *behind* the string that is appended (the rest of the
  NUL-terminated buffer the string is a slice of).  burl_append_encode_nde/psnde check
  `i+2 < len` before they look at str[i+1], str[i+2], so these bytes have no influence
  (`burlAppend_look_irrelevant`); the correspondence keeps passing them to show that.
-/
import LtVerif.Model.Burl
import LtVerif.Extracted.KvModifiers
namespace LtVerif
open B

/-! ### percent-encoders -/

/-- burl_append_encode_all(): encode everything except unreserved (double-encodes '%') -/
def encAll (s : Bytes) : Bytes :=
  s.flatMap fun b => if isUnreserved b then [b] else pctEnc b

/-- burl_append_encode_nde() (`keepSlash = false`) / burl_append_encode_psnde() (`true`):
    encode everything except unreserved (and '/'), but an existing %XX is kept
    (decoded if it encodes an unreserved character). -/
def encNde (keepSlash : Bool) (s look : Bytes) : Bytes :=
  go s 0
where
  /-- `skip` = bytes already consumed as part of a %XX sequence -/
  go : Bytes → Nat → Bytes
    | [], _ => []
    | _ :: rest, skip + 1 => go rest skip
    | b :: rest, 0 =>
      if b = pct then
        match hex2 rest with          -- `i+2 < len`: both hex digits lie inside the string
        | some (hv, lv) =>
          let x : UInt8 := (hv <<< 4) ||| lv
          (if isUnreserved x then [x] else b :: rest.take 2) ++ go rest 2
        | none => pctEnc b ++ go rest 0
      else if isUnreserved b || (keepSlash && b = slash) then b :: go rest 0
      else pctEnc b ++ go rest 0

/-! ### case mapping that skips %XX -/

/-- the next two bytes are hex digits (light_isxdigit(p[1]) && light_isxdigit(p[2])) -/
def xdigit2 : Bytes → Bool
  | h :: l :: _ => isXDigit h && isXDigit l
  | _ => false

/-- burl_offset_tolower(): lower-case ASCII letters, skipping over %XX; stops at NUL -/
def lowerSkipPct : Bytes → Nat → Bytes
  | [], _ => []
  | b :: rest, skip + 1 => b :: lowerSkipPct rest skip
  | b :: rest, 0 =>
    if b = 0 then b :: rest
    else if isUpper b then (b ||| 0x20) :: lowerSkipPct rest 0
    else b :: lowerSkipPct rest (if b = pct && xdigit2 rest then 2 else 0)

/-- burl_offset_toupper() -/
def upperSkipPct : Bytes → Nat → Bytes
  | [], _ => []
  | b :: rest, skip + 1 => b :: upperSkipPct rest skip
  | b :: rest, 0 =>
    if b = 0 then b :: rest
    else if isLower b then (b &&& 0xdf) :: upperSkipPct rest 0
    else b :: upperSkipPct rest (if b = pct && xdigit2 rest then 2 else 0)

/-! ### base64url -/

def b64uChar (n : Nat) : UInt8 := Extracted.b64uTable.getD n 0

/-- li_base64_enc(BASE64_URL, pad = 0) -/
def b64uEnc : Bytes → Bytes
  | [] => []
  | [a] =>
    let v := a.toNat * 16
    [b64uChar (v / 64 % 64), b64uChar (v % 64)]
  | [a, b] =>
    let v := a.toNat * 1024 + b.toNat * 4
    [b64uChar (v / 4096 % 64), b64uChar (v / 64 % 64), b64uChar (v % 64)]
  | a :: b :: c :: rest =>
    let v := a.toNat * 65536 + b.toNat * 256 + c.toNat
    b64uChar (v / 262144 % 64) :: b64uChar (v / 4096 % 64) :: b64uChar (v / 64 % 64) ::
      b64uChar (v % 64) :: b64uEnc rest

/-- base64_url_reverse_table lookup: digit value, -1 invalid, -2 skip, -3 pad -/
def b64uRev (b : UInt8) : Int :=
  if b < 128 then Extracted.b64uReverse.getD b.toNat (-1) else -1

/-- the `switch (i & 3)` at the end of li_base64_dec(): flush a partial group.
    `acc` holds the `i` (< 4) digits collected since the last full group. -/
def b64Finish (acc i : Nat) (out : Bytes) : Bytes :=
  if i = 0 then out
  else if i = 2 then out ++ [(acc / 16 % 256).toUInt8]
  else if i = 3 then out ++ [(acc / 1024 % 256).toUInt8, (acc / 4 % 256).toUInt8]
  else []

/-- li_base64_dec(BASE64_URL) as used through buffer_append_base64_decode(): the bytes
    appended to the output.  Control bytes and space are skipped; a pad character or a NUL
    ends the input; any other character outside the alphabet makes the whole input
    invalid: nothing is appended.  (`i` = number of digits in the current group.) -/
def b64uDecGo : Bytes → Nat → Nat → Bytes → Bytes
  | [], acc, i, out => b64Finish acc i out
  | c :: rest, acc, i, out =>
    let ch := b64uRev c
    if ch = -2 then b64uDecGo rest acc i out
    else if ch = -3 || c = 0 then b64Finish acc i out
    else if ch < 0 then []
    else
      let acc' := acc * 64 + ch.toNat
      if i = 3 then
        b64uDecGo rest 0 0
          (out ++ [(acc' / 65536 % 256).toUInt8, (acc' / 256 % 256).toUInt8, (acc' % 256).toUInt8])
      else b64uDecGo rest acc' (i + 1) out

def b64uDec (s : Bytes) : Bytes := b64uDecGo s 0 0 []

/-! ### burl_append -/

def flagSet (flags bit : Nat) : Bool := flags &&& bit != 0

/-- the recoding step of burl_append() (first applicable encoder wins) -/
def burlEncode (flags : Nat) (s look : Bytes) : Bytes :=
  if flagSet flags Extracted.burlEncodeNone then s
  else if flagSet flags Extracted.burlEncodeAll then encAll s
  else if flagSet flags Extracted.burlEncodeNde then encNde false s look
  else if flagSet flags Extracted.burlEncodePsnde then encNde true s look
  else if flagSet flags Extracted.burlEncodeB64u then b64uEnc s
  else if flagSet flags Extracted.burlDecodeB64u then b64uDec s
  else s        -- no encoding flag (only case flags): unencoded

/-- burl_append(b, str, len, flags): the bytes appended to `b`.
    `s` = str[0..len), `look` = the bytes following it in memory (up to the NUL). -/
def burlAppend (flags : Nat) (s look : Bytes) : Bytes :=
  if s = [] then []
  else if flags = 0 then s
  else
    let e := burlEncode flags s look
    if flagSet flags Extracted.burlToLower then lowerSkipPct e 0
    else if flagSet flags Extracted.burlToUpper then upperSkipPct e 0
    else e

end LtVerif
