/-
  Model of the CGI meta-variable layer shared by all gateway backends:
    http_cgi_encode_varname()   (http_cgi.c)   -> `encodeVarname`
    http_cgi_headers()          (http_cgi.c)   -> `cgiEnv`
    buffer_copy_path_len2()     (buffer.c)     -> `pathJoin`
    path-info split of gw_check_extension() (gw_backend.c, check-local off,
      "/prefix" extensions)                    -> `gwPathinfoSplit`
    gw_upgrade_policy() effect on the Upgrade request header -> `gwUpgradeHeaders`
    cgi_env_add()               (mod_cgi.c)    -> `envpEncode` (the envp block of execve)
  The request is taken as already parsed (`CgiReq`); the request-head parser is
  modelled in Model/H1Parse.lean and the target split in Model/Burl.lean (`parseTarget`).
  Core Lean only.
-/
import LtVerif.Model.Basic
import LtVerif.Extracted.CgiConst
namespace LtVerif
open B

/-! ### small helpers -/

/-- decimal digits of a natural number, most significant first (buffer.c utostr()) -/
def decDigitsAux : Nat → Nat → Bytes → Bytes
  | 0, _, acc => acc
  | fuel + 1, n, acc =>
    let acc' := (48 + (n % 10).toUInt8) :: acc
    if n / 10 = 0 then acc' else decDigitsAux fuel (n / 10) acc'

def natDec (n : Nat) : Bytes := decDigitsAux (n + 1) n []

/-- li_itostrn() / buffer_append_int() -/
def intDec (i : Int) : Bytes :=
  if i < 0 then 45 :: natDec i.natAbs else natDec i.natAbs

/-- buffer_copy_path_len2(): join with exactly one '/' at the seam when possible -/
def pathJoin (a b : Bytes) : Bytes :=
  let bslash := b.head? = some slash
  if a ≠ [] ∧ a.getLast? = some slash then
    a ++ (if bslash then b.drop 1 else b)
  else
    a ++ (if bslash then b else slash :: b)

/-- index of the first occurrence of `pat` in `s` (strstr) -/
def findSub (pat : Bytes) : Bytes → Nat → Option Nat
  | [], i => if pat = [] then some i else none
  | b :: rest, i =>
    if pat.isPrefixOf (b :: rest) then some i else findSub pat rest (i + 1)

def indexOf (x : UInt8) : Bytes → Nat → Option Nat
  | [], _ => none
  | b :: rest, i => if b = x then some i else indexOf x rest (i + 1)

/-! ### header name -> variable name -/

/-- one byte of http_cgi_encode_varname(): upper-case alpha, pass digits, rest -> '_' -/
def encodeVarnameByte (c : UInt8) : UInt8 :=
  if isAlpha c then c &&& 0xdf else if isDigit c then c else uscore

def httpPrefix : Bytes := ofString "HTTP_"

/-- http_cgi_encode_varname() -/
def encodeVarname (isHdr : Bool) (s : Bytes) : Bytes :=
  (if isHdr then httpPrefix else []) ++ s.map encodeVarnameByte

/-- the variable a request header is passed as; `none` = header is not passed.
    (ds->ext == HTTP_HEADER_OTHER && key ~ "Proxy") is skipped; Content-Type is passed as
    CONTENT_TYPE.  `ext` ids are a function of the (case-insensitive) field name:
    "content-type" is in http_headers[], "proxy" is not (see Props: table obligations). -/
def headerVar (key val : Bytes) : Option (Bytes × Bytes) :=
  if val.isEmpty then none
  else if eqIcase key (ofString "Proxy") then none
  else if eqIcase key (ofString "Content-Type") then some (ofString "CONTENT_TYPE", val)
  else some (encodeVarname true key, val)

def headerVars (hs : List (Bytes × Bytes)) : List (Bytes × Bytes) :=
  hs.filterMap fun (k, v) => headerVar k v

/-! ### request / options -/

structure CgiOpts where
  authorizer : Bool := false
  breakScriptFilenameForPhp : Bool := false
  docroot : Option Bytes := none
  stripRequestUri : Option Bytes := none
deriving Repr

structure CgiReq where
  bodyLen : Int := 0                 -- r->reqbody_length
  query : Bytes := []                -- r->uri.query
  targetOrig : Bytes := []           -- r->target_orig
  target : Bytes := []               -- r->target
  errSaved : Bool := false           -- r->error_handler_saved_status != 0
  path : Bytes := []                 -- r->uri.path (after any path-info split)
  pathinfo : Bytes := []             -- r->pathinfo
  basedir : Bytes := []              -- r->physical.basedir
  physPath : Bytes := []             -- r->physical.path
  h2ConnectExt : Bool := false
  method : Bytes := []               -- http_method_buf(r->http_method)
  version : Nat := 1                 -- 0,1,2 = HTTP/1.0, HTTP/1.1, HTTP/2
  serverTag : Option Bytes := none   -- r->conf.server_tag
  scheme : Bytes := []               -- r->uri.scheme
  srvToken : Bytes := []             -- srv_socket->srv_token
  srvColon : Nat := 0                -- srv_socket->srv_token_colon
  srvInet : Bool := true             -- AF_INET / AF_INET6 listening socket
  srvWildcard : Bool := false
  localAddr : Bytes := []            -- what getsockname()+inet_ntop give for a wildcard socket ("" on failure)
  serverName : Bytes := []           -- *r->server_name
  remoteAddr : Bytes := []           -- *r->dst_addr_buf
  remotePort : Nat := 0
  headers : List (Bytes × Bytes) := []   -- r->rqst_headers.data[] in order: (key as stored, value)
  env : List (Bytes × Bytes) := []       -- r->env.data[] in order
deriving Repr

def versionName (v : Nat) : Bytes :=
  ofString (Extracted.C09.httpVersionNames.getD v "")

/-- REQUEST_URI: target_orig with the strip-request-uri prefix removed when it is
    followed by '/' -/
def requestUri (strip : Option Bytes) (t : Bytes) : Bytes :=
  match strip with
  | none => t
  | some p =>
    if p.isEmpty then t
    else if p.isPrefixOf t ∧ (t.drop p.length).head? = some slash then t.drop p.length
    else t

/-- SERVER_PORT -/
def serverPort (r : CgiReq) : Bytes :=
  if r.srvColon < r.srvToken.length then r.srvToken.drop (r.srvColon + 1) else [48]

/-- SERVER_ADDR -/
def serverAddr (r : CgiReq) : Bytes :=
  if r.srvInet then
    (if r.srvWildcard then r.localAddr else r.srvToken.take r.srvColon)
  else []

/-- SERVER_NAME: the host part of r->server_name; empty when r->server_name is empty -/
def serverNameVar (r : CgiReq) : Bytes :=
  let s := r.serverName
  if s.isEmpty then []
  else if s.head? = some 91 then
    match findSub [93, colon] s 0 with
    | some i => s.take (i + 1)
    | none => s
  else
    match indexOf colon s 0 with
    | some i => s.take i
    | none => s

def hasHeader (hs : List (Bytes × Bytes)) (name : Bytes) : Bool :=
  hs.any fun (k, v) => eqIcase k name && !v.isEmpty

/-- an entry of the list that is only emitted under a condition -/
def optE (c : Bool) (x : String × Bytes) : Option (String × Bytes) := if c then some x else none

/-- the fixed (server-defined) part of http_cgi_headers(), in emission order; names as
    string literals (`cgiMeta` converts them to bytes) -/
def cgiMetaS (o : CgiOpts) (r : CgiReq) : List (String × Bytes) :=
  let na := !o.authorizer
  let pi := na && !r.pathinfo.isEmpty
  let ext := r.h2ConnectExt
  [ optE na ("CONTENT_LENGTH", intDec r.bodyLen),
    some ("QUERY_STRING", r.query),
    some ("REQUEST_URI", requestUri o.stripRequestUri r.targetOrig),
    optE (r.target != r.targetOrig) ("REDIRECT_URI", r.target),
    optE (!r.errSaved) ("REDIRECT_STATUS", ofString "200"),
    optE na ("SCRIPT_NAME", r.path),
    optE pi ("PATH_INFO", r.pathinfo),
    optE pi ("PATH_TRANSLATED", pathJoin (o.docroot.getD r.basedir) r.pathinfo),
    some ("SCRIPT_FILENAME",
      match o.docroot with
      | some d => pathJoin d r.path
      | none => if o.breakScriptFilenameForPhp then pathJoin r.physPath r.pathinfo else r.physPath),
    some ("DOCUMENT_ROOT", o.docroot.getD r.basedir),
    some ("REQUEST_METHOD", if ext then ofString "GET" else r.method),
    some ("SERVER_PROTOCOL", if ext then ofString "HTTP/1.1" else versionName r.version),
    optE (ext && !hasHeader r.headers (ofString "Sec-WebSocket-Key"))
      ("HTTP_SEC_WEBSOCKET_KEY", ofString "MDAwMDAwMDAwMDAwMDAwMA=="),
    optE ext ("HTTP_UPGRADE", ofString "websocket"),
    optE ext ("HTTP_CONNECTION", ofString "upgrade"),
    some ("SERVER_SOFTWARE", r.serverTag.getD []),
    some ("GATEWAY_INTERFACE", ofString "CGI/1.1"),
    some ("REQUEST_SCHEME", r.scheme),
    optE (r.scheme == ofString "https") ("HTTPS", ofString "on"),
    some ("SERVER_PORT", serverPort r),
    some ("SERVER_ADDR", serverAddr r),
    some ("SERVER_NAME", serverNameVar r),
    some ("REMOTE_ADDR", r.remoteAddr),
    some ("REMOTE_PORT", natDec r.remotePort) ].filterMap id

def cgiMeta (o : CgiOpts) (r : CgiReq) : List (Bytes × Bytes) :=
  (cgiMetaS o r).map fun p => (ofString p.1, p.2)

/-- r->env entries (set by modules: REMOTE_USER, AUTH_TYPE, SSL_*, setenv) -/
def envVars (es : List (Bytes × Bytes)) : List (Bytes × Bytes) :=
  es.map fun (k, v) => (encodeVarname false k, v)

/-- http_cgi_headers(): the (name, value) pairs handed to the backend-specific callback, in order -/
def cgiEnv (o : CgiOpts) (r : CgiReq) : List (Bytes × Bytes) :=
  cgiMeta o r ++ headerVars r.headers ++ envVars r.env

/-! ### gw_check_extension(): path-info split for "/prefix" extensions (check-local off) -/

/-- `key` is the matched extension ("/prefix" form), `path` = r->uri.path.
    Returns (uri.path, pathinfo) after the split. -/
def gwPathinfoSplit (key : Bytes) (fixRoot : Bool) (path : Bytes) : Bytes × Bytes :=
  if key.length = 1 ∧ fixRoot then ([], path)
  else if path.length > key.length then
    match indexOf slash (path.drop key.length) 0 with
    | some i => (path.take (key.length + i), path.drop (key.length + i))
    | none => (path, [])
  else (path, [])

/-- does extension `key` select the request?  "/prefix": prefix of uri.path;
    otherwise suffix of `fn` (uri.path in the uri-path handler, physical path otherwise) -/
def gwExtMatches (key path fn : Bytes) : Bool :=
  if key.head? = some slash then key.isPrefixOf path
  else key.length ≤ fn.length && fn.drop (fn.length - key.length) == key

/-- gw_upgrade_policy(): effect on the request headers.  `upgradeOk` = host/module allows
    upgrade.  Returns the header list with Upgrade blanked when upgrade is not permitted
    (responder mode only), and the resulting upgrade flag. -/
def gwUpgradeHeaders (h2ConnectExt authorizer upgradeOk : Bool) (version : Nat) (bodyLen : Int)
    (hs : List (Bytes × Bytes)) : List (Bytes × Bytes) × Bool :=
  if h2ConnectExt then (hs, upgradeOk)
  else if !hasHeader hs (ofString "Upgrade") then (hs, false)
  else if !upgradeOk || version ≠ 1 || bodyLen ≠ 0 then
    (if authorizer then hs
     else hs.map fun (k, v) => if eqIcase k (ofString "Upgrade") then (k, []) else (k, v), false)
  else (hs, upgradeOk)

/-! ### mod_cgi: the envp block ("K=V\0" ...) built by cgi_env_add() -/

def envpEntry (k v : Bytes) : Bytes := k ++ 61 :: v ++ [0]

def envpEncode (env : List (Bytes × Bytes)) : Bytes :=
  env.flatMap fun (k, v) => envpEntry k v

/-- what execve() hands to the script: NUL-terminated strings, each split at its first '=' -/
def splitAtByte (x : UInt8) : Bytes → Bytes × Option Bytes
  | [] => ([], none)
  | b :: rest =>
    if b = x then ([], some rest)
    else match splitAtByte x rest with
      | (pre, post) => (b :: pre, post)

def envpDecodeAux : Nat → Bytes → Option (List (Bytes × Bytes))
  | 0, s => if s.isEmpty then some [] else none
  | fuel + 1, s =>
    if s.isEmpty then some [] else
    match splitAtByte 0 s with
    | (_, none) => none                       -- unterminated string
    | (entry, some rest) =>
      match splitAtByte 61 entry with
      | (_, none) => none                     -- no '='
      | (k, some v) =>
        match envpDecodeAux fuel rest with
        | some l => some ((k, v) :: l)
        | none => none

def envpDecode (s : Bytes) : Option (List (Bytes × Bytes)) := envpDecodeAux (s.length + 1) s

/-! ### mod_cgi: request body on the script's standard input -/

structure StdinSt where
  out : Bytes := []        -- bytes the script can read from its stdin
  eof : Bool := false      -- the script sees end of input
deriving Repr, DecidableEq

/-- cgi_write_request() / the single-temp-file hand-over of cgi_create_env(): the body bytes
    received so far, in order; the input is closed exactly when reqbody_length bytes were passed -/
def cgiStdin (bodyLen : Int) (segs : List Bytes) : StdinSt :=
  let out := segs.flatten
  { out := out, eof := (out.length : Int) = bodyLen }

/-! ### HTTP/2: DATA frames -> request body (h2_recv_data(), h2_recv_end_data(), h2_recv_reqbody()) -/

/-- a DATA frame as it is on the wire: flags and the whole frame payload
    ([Pad Length] data [padding]) -/
structure DataFrame where
  padded : Bool := false
  endStream : Bool := false
  raw : Bytes
deriving Repr

/-- the data a DATA frame carries (RFC 9113 6.1): Pad Length octet and padding removed;
    `none` = Pad Length >= frame length (connection error PROTOCOL_ERROR) -/
def DataFrame.data (f : DataFrame) : Option Bytes :=
  if f.padded then
    match f.raw with
    | [] => none
    | p :: rest => if p.toNat ≥ f.raw.length then none else some (rest.take (rest.length - p.toNat))
  else some f.raw

/-- a well-formed DATA frame carrying `d` with `pad` octets of padding -/
def DataFrame.mk' (d : Bytes) (pad : Option Nat) (endStream : Bool) : DataFrame :=
  match pad with
  | none => { endStream := endStream, raw := d }
  | some n => { padded := true, endStream := endStream, raw := n.toUInt8 :: d ++ List.replicate n 0 }

inductive H2StreamState
  | open | halfClosedRemote | closed
deriving Repr, DecidableEq

structure H2Cfg where
  consumer : Bool := false   -- the request body is streamed and the backend side has taken every byte
                             -- accepted before the current frame (reqbody_queue.bytes_out = bytes_in)
  maxSize : Nat := 0         -- server.max-request-size in kB, 0 = unlimited
deriving Repr

structure H2Body where
  out : Bytes := []                    -- all bytes put into r->reqbody_queue (bytes_in = out.length)
  bodyLen : Int := -1                  -- r->reqbody_length (-1: no Content-Length)
  state : H2StreamState := .open
  rst : Nat := 0                       -- RST_STREAM frames sent for the stream
  goaway : Bool := false               -- connection error sent; no further frame is processed
  status : Nat := 0                    -- r->http_status set here (413)
deriving Repr, DecidableEq

/-- one DATA frame on the stream (the flow-control windows are never the limit: lighttpd leaves
    the stream window untouched and re-credits the connection window).  The result does not
    depend on how the frame bytes were split across network reads. -/
def h2RecvData (c : H2Cfg) (st : H2Body) (f : DataFrame) : H2Body :=
  if st.goaway then st else
  match f.data with
  | none => { st with goaway := true, state := .closed }              -- h2_send_goaway_e(PROTOCOL_ERROR)
  | some d =>
    let total : Int := ((st.out.length + d.length : Nat) : Int)
    let bytesOut : Nat := if c.consumer then st.out.length else 0
    if st.state ≠ .open then
      { st with rst := st.rst + 1, state := .closed }                 -- STREAM_CLOSED
    else if st.bodyLen ≥ 0 ∧ st.bodyLen < total then
      { st with rst := st.rst + 1, state := .closed }                 -- more data than Content-Length
    else if f.endStream then
      -- h2_recv_end_data()
      if st.bodyLen = -1 then
        { st with out := st.out ++ d, bodyLen := total, state := .halfClosedRemote }
      else if st.bodyLen ≠ total ∧ bytesOut = 0 then
        { st with rst := st.rst + 1, state := .closed }               -- less data than Content-Length
      else { st with out := st.out ++ d, state := .halfClosedRemote } -- (short: the consumer is told, below)
    else if c.maxSize = 0 then { st with out := st.out ++ d }
    else
      let n : Int := ((c.maxSize * 1024 : Nat) : Int) - total
      if n ≥ 0 then { st with out := st.out ++ d }
      else if -n > 65536 ∨ st.status = 0 then
        (if st.status = 0 then { st with status := 413 }              -- frame discarded
         else { st with rst := st.rst + 1 })                          -- RST_STREAM (stream state unchanged)
      else { st with out := st.out ++ d }                             -- sink up to 64 KiB more

def h2Body (c : H2Cfg) (contentLength : Int) (frames : List DataFrame) : H2Body :=
  frames.foldl (h2RecvData c) { bodyLen := contentLength }

/-- the data carried by a list of frames, in order -/
def framesData (fs : List DataFrame) : Bytes := (fs.filterMap (·.data)).flatten

inductive ReadRes
  | ready        -- whole body received: the request can be handed on / completed
  | more         -- streaming: go on with what is there
  | wait
  | error        -- stream ended without the announced amount of data: request is aborted
deriving Repr, DecidableEq

/-- h2_recv_reqbody() (con->reqbody_read for HTTP/2): what the backend side is told -/
def h2ReqbodyRead (streaming : Bool) (st : H2Body) : ReadRes :=
  if (st.out.length : Int) = st.bodyLen then .ready
  else if st.state ≠ .open then .error
  else if streaming then .more else .wait

/-! ### NUL-free byte strings (what the request parser lets through; SCGI / envp need it) -/

def NulFree (b : Bytes) : Prop := (0 : UInt8) ∉ b

def EnvNulFree (env : List (Bytes × Bytes)) : Prop := ∀ p ∈ env, NulFree p.1 ∧ NulFree p.2

/-- every byte string of the request and of the backend options is NUL-free -/
structure ReqNulFree (o : CgiOpts) (r : CgiReq) : Prop where
  query : NulFree r.query
  targetOrig : NulFree r.targetOrig
  target : NulFree r.target
  path : NulFree r.path
  pathinfo : NulFree r.pathinfo
  basedir : NulFree r.basedir
  physPath : NulFree r.physPath
  method : NulFree r.method
  serverTag : NulFree (r.serverTag.getD [])
  scheme : NulFree r.scheme
  srvToken : NulFree r.srvToken
  localAddr : NulFree r.localAddr
  serverName : NulFree r.serverName
  remoteAddr : NulFree r.remoteAddr
  docroot : NulFree (o.docroot.getD [])
  headers : ∀ p ∈ r.headers, NulFree p.2
  env : ∀ p ∈ r.env, NulFree p.2

/-! ### names of the server-defined variables (used by the property statements) -/

def metaNamesS : List String :=
  ["CONTENT_LENGTH", "QUERY_STRING", "REQUEST_URI", "REDIRECT_URI", "REDIRECT_STATUS", "SCRIPT_NAME",
   "PATH_INFO", "PATH_TRANSLATED", "SCRIPT_FILENAME", "DOCUMENT_ROOT", "REQUEST_METHOD",
   "SERVER_PROTOCOL", "SERVER_SOFTWARE", "GATEWAY_INTERFACE", "REQUEST_SCHEME", "HTTPS", "SERVER_PORT",
   "SERVER_ADDR", "SERVER_NAME", "REMOTE_ADDR", "REMOTE_PORT"]

def metaNames : List Bytes := metaNamesS.map ofString

/-- the three request-header look-alikes synthesised for an HTTP/2 extended CONNECT -/
def h2ExtNamesS : List String := ["HTTP_SEC_WEBSOCKET_KEY", "HTTP_UPGRADE", "HTTP_CONNECTION"]

end LtVerif
