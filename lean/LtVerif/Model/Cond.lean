/-
  Model of conditional configuration (src/configfile-glue.c, src/configfile.c,
  src/h2.c h2_init_stream):

    data_config tree                       -> `Node`, `Tree`   (index = context_ndx)
    config_check_cond_nocache_eval()       -> `evalLocal`      (local comparison)
    config_check_cond{,_cached,_nocache}() -> `check`          (parent / else-chain
                                                                 dependencies + cache)
    config_cond_clear_node()               -> `clearNode`
    config_cond_cache_reset_item()         -> `resetItem`
    config_cond_cache_reset()              -> `Cache.empty`
    h2_init_stream() cache copy            -> `Op.spawn`
    config_patch_config() / mod_*_patch_config() -> `patch`

  The model follows the C control flow (it is not a specification): `check`
  threads the cache through the recursive calls exactly as the C does,
  `clearNode` prunes its walk at entries that are already unset.  The
  specification (`Applies`, `spec`) lives in Proofs/Cond.lean and Props/C14.lean.

  External: PCRE2 is replaced by a small backtracking matcher `Regex` for the
  regular-expression subset the correspondence generator uses.
-/
import LtVerif.Model.Basic
import LtVerif.Model.SockAddr
namespace LtVerif.Cond
open LtVerif B

/-- cond_result_t -/
inductive Res where
  | unset | skip | false_ | true_
deriving DecidableEq, Repr, Inhabited

def Res.toNat : Res → Nat
  | .unset => 0 | .skip => 1 | .false_ => 2 | .true_ => 3

def Res.ofBool (b : Bool) : Res := if b then .true_ else .false_

/-- comp_key_t (the fields a condition can test) -/
inductive Comp where
  | unset | socket | url | host | remoteIp | query | scheme | method | header
deriving DecidableEq, Repr, Inhabited

/-- config_cond_t -/
inductive CondOp where
  | unset | eq | ne | match_ | nomatch | prefix_ | suffix | else_
deriving DecidableEq, Repr, Inhabited

/-! ### regular expressions (stand-in for PCRE2, subset) -/

inductive Atom where
  | lit (c : UInt8)
  | any
  | cls (neg : Bool) (cs : List UInt8)
deriving DecidableEq, Repr

def Atom.ok : Atom → UInt8 → Bool
  | .lit c, x => x == c
  | .any, x => x != 10
  | .cls neg cs, x => (cs.contains x) != neg

inductive Quant where
  | one | star | plus | opt
deriving DecidableEq, Repr

structure Regex where
  bol : Bool                       -- leading '^'
  items : List (Atom × Quant)
  eol : Bool                       -- trailing '$'
deriving DecidableEq, Repr

def starLoop (ok : UInt8 → Bool) (k : Bytes → Bool) : Bytes → Bool
  | [] => k []
  | c :: s => k (c :: s) || (ok c && starLoop ok k s)

def matchHere : List (Atom × Quant) → Bool → Bytes → Bool
  | [], eol, s => !eol || s.isEmpty
  | (a, .one) :: r, eol, s =>
    match s with
    | c :: s' => a.ok c && matchHere r eol s'
    | [] => false
  | (a, .star) :: r, eol, s => starLoop a.ok (matchHere r eol) s
  | (a, .plus) :: r, eol, s =>
    match s with
    | c :: s' => a.ok c && starLoop a.ok (matchHere r eol) s'
    | [] => false
  | (a, .opt) :: r, eol, s =>
    matchHere r eol s ||
    (match s with
     | c :: s' => a.ok c && matchHere r eol s'
     | [] => false)

def anyTail (p : Bytes → Bool) : Bytes → Bool
  | [] => p []
  | c :: s => p (c :: s) || anyTail p s

def Regex.matches (re : Regex) (s : Bytes) : Bool :=
  if re.bol then matchHere re.items re.eol s else anyTail (matchHere re.items re.eol) s

/-! ### condition tree -/

/-- one data_config (a conditional block); index in the tree = context_ndx -/
structure Node where
  parent : Nat := 0                 -- dc->parent->context_ndx (0 = global scope)
  prev : Option Nat := none         -- dc->prev (earlier branch of the if/else chain)
  next : Option Nat := none         -- dc->next
  children : List Nat := []         -- dc->children
  comp : Comp := .unset
  tag : Bytes := []                 -- header name (lower case) for request-header conditions
  cond : CondOp := .unset
  str : Bytes := []                 -- dc->string
  cidr : Option (SockAddr × Nat) := none   -- parsed address + mask bits stored after dc->string
  re : Option Regex := none         -- compiled dc->string for =~ / !~
  sets : List (Nat × Nat) := []     -- directives assigned in this block: (directive id, value id)
deriving Repr, Inhabited

abbrev Tree := List Node

def Tree.node (t : Tree) (i : Nat) : Node := t.getD i default

/-! ### request attributes -/

structure Env where
  socket : Bytes := []
  url : Bytes := []
  host : Bytes := []
  query : Bytes := []
  scheme : Bytes := []
  method : Bytes := []
  ipStr : Bytes := []               -- r->dst_addr_buf
  addr : SockAddr := .other         -- r->dst_addr
  headers : List (Bytes × Bytes) := []   -- (lower-cased name, value)
deriving Repr, Inhabited

inductive AttrVal where
  | str (b : Bytes)
  | ip (a : SockAddr) (s : Bytes)
  | hdr (name : Bytes) (v : Bytes)
deriving Repr, Inhabited

def setHeader (hs : List (Bytes × Bytes)) (n v : Bytes) : List (Bytes × Bytes) :=
  (n, v) :: hs.filter (fun p => p.1 != n)

def getHeader (hs : List (Bytes × Bytes)) (n : Bytes) : Bytes :=
  match hs.find? (fun p => p.1 == n) with
  | some p => p.2
  | none => []

/-- change the attribute tested by conditions on `c` (nothing else) -/
def Env.set (e : Env) (c : Comp) (v : AttrVal) : Env :=
  match c, v with
  | .socket, .str b => { e with socket := b }
  | .url, .str b => { e with url := b }
  | .host, .str b => { e with host := b }
  | .query, .str b => { e with query := b }
  | .scheme, .str b => { e with scheme := b }
  | .method, .str b => { e with method := b }
  | .remoteIp, .ip a s => { e with addr := a, ipStr := s }
  | .header, .hdr n x => { e with headers := setHeader e.headers n x }
  | _, _ => e

/-- the attributes a request_st reaches through r->con (the same for every stream of the
    connection): listening socket and peer address; all request-level fields empty -/
def Env.connLevel (e : Env) : Env := { socket := e.socket, addr := e.addr, ipStr := e.ipStr }

/-- the buffer `l` config_check_cond_nocache_eval() compares
    (NULL and empty buffers are both compared as "") -/
def attr (nd : Node) (e : Env) : Bytes :=
  match nd.comp with
  | .host => e.host
  | .remoteIp => e.ipStr
  | .scheme => e.scheme
  | .url => e.url
  | .query => e.query
  | .socket => e.socket
  | .header => getHeader e.headers nd.tag
  | .method => e.method
  | .unset => []

/-- `$HTTP["host"] == "name[:port]"` when the lengths differ: names match whether
    or not a :port suffix is present on either side -/
def hostPort (l d : Bytes) : Bool :=
  if l.length > d.length then
    l.getD d.length 0 == colon && l.length - d.length ≤ 6 && l.take d.length == d
  else
    d.getD l.length 0 == colon && d.take l.length == l

/-- the `==` comparison (CONFIG_COND_EQ; CONFIG_COND_NE is its negation) -/
def eqLike (nd : Node) (e : Env) : Bool :=
  let l := attr nd e
  if nd.comp = .host ∧ nd.str.head? ≠ some slash ∧ l ≠ [] ∧ l.length ≠ nd.str.length then
    hostPort l nd.str
  else if nd.comp = .remoteIp ∧ nd.str.head? ≠ some slash then
    match nd.cidr with
    | some (a, bits) => if bits ≠ 0 then a.addrEqBits e.addr bits else a.addrEq e.addr
    | none => false
  else l == nd.str

/-- does the block's own condition hold for this request?
    (config_check_cond_nocache(): ELSE is true if reached;
     config_check_cond_nocache_eval(): everything else) -/
def evalLocal (nd : Node) (e : Env) : Bool :=
  if nd.cond = .else_ then true
  else if nd.comp = .unset then false
  else
    match nd.cond with
    | .eq => eqLike nd e
    | .ne => !eqLike nd e
    | .match_ => (match nd.re with | some re => re.matches (attr nd e) | none => false)
    | .nomatch => !(match nd.re with | some re => re.matches (attr nd e) | none => false)
    | .prefix_ => nd.str.isPrefixOf (attr nd e)
    | .suffix => nd.str.isSuffixOf (attr nd e)
    | .else_ => true
    | .unset => false

/-! ### the per-request cache -/

/-- one column of r->cond_cache[] (indexed by context_ndx) -/
abbrev Col := List Res

def colGet (l : Col) (i : Nat) : Res := l.getD i .unset
def colSet (l : Col) (i : Nat) (v : Res) : Col := l.set i v

/-- r->cond_cache[]: `res` = cond_cache_t.result, `loc` = cond_cache_t.local_result -/
structure Cache where
  res : Col
  loc : Col
deriving Repr, Inhabited

/-- config_cond_cache_reset(): memset 0 over `used` entries -/
def Cache.empty (n : Nat) : Cache := ⟨List.replicate n .unset, List.replicate n .unset⟩

def Cache.setRes (c : Cache) (i : Nat) (v : Res) : Cache := { c with res := colSet c.res i v }
def Cache.setLoc (c : Cache) (i : Nat) (v : Res) : Cache := { c with loc := colSet c.loc i v }

/-- the tail of config_check_cond_nocache() once parent and prev allow the block:
    field available?  remembered local result?  else evaluate and remember it -/
def localStep (valid : Comp → Bool) (nd : Node) (e : Env) (i : Nat) (c : Cache) : Res × Cache :=
  if !valid nd.comp then (.unset, c)
  else
    match colGet c.loc i with
    | .true_ => (.true_, c.setRes i .true_)
    | .false_ => (.false_, c.setRes i .false_)
    | _ =>
      let r := Res.ofBool (evalLocal nd e)
      (r, (c.setLoc i r).setRes i r)

/-- "check parent first": a nested block needs its (non-global) parent's result -/
def parentStep (rec : Nat → Cache → Res × Cache) (nd : Node) (c : Cache) : Res × Cache :=
  if nd.parent ≠ 0 then rec nd.parent c else (.true_, c)

/-- "make sure prev is checked first": an else branch needs the previous branch's result -/
def prevStep (rec : Nat → Cache → Res × Cache) (nd : Node) (c : Cache) : Res × Cache :=
  match nd.prev with
  | some k => rec k c
  | none => (.false_, c)

/-- an else branch runs only if the previous branch evaluated to false
    (not unset / skipped / true) -/
def afterPrev (valid : Comp → Bool) (nd : Node) (e : Env) (i : Nat) (q : Res × Cache) : Res × Cache :=
  match q.1 with
  | .unset => (.unset, q.2)
  | .skip => (.skip, q.2.setRes i .skip)
  | .true_ => (.skip, q.2.setRes i .skip)
  | .false_ => localStep valid nd e i q.2

/-- config_check_cond_cached() / config_check_cond() with config_check_cond_nocache()
    inlined.  `valid c` = bit `c` of r->conditional_is_valid.  The first argument is
    recursion fuel (parent and prev always have smaller indices; `t.length` suffices). -/
def check (t : Tree) (e : Env) (valid : Comp → Bool) : Nat → Nat → Cache → Res × Cache
  | 0, _, c => (.unset, c)
  | f + 1, i, c =>
    if colGet c.res i ≠ .unset then (colGet c.res i, c)
    else
      let nd := t.node i
      let p := parentStep (check t e valid f) nd c
      match p.1 with
      | .unset => (.unset, p.2)                 -- decide later
      | .skip => (.skip, p.2.setRes i .skip)    -- failed precondition
      | .false_ => (.skip, p.2.setRes i .skip)
      | .true_ => afterPrev valid nd e i (prevStep (check t e valid f) nd p.2)

/-- config_cond_clear_node().  `always = true` is the code as it is now: the
    else-chain (`dc->next`) is walked even if this node is already unset.
    `always = false` is the walk before fix f0e74a5 (kept to state the
    counterexample in Props/C14.lean). -/
def clearNode (always : Bool) (t : Tree) : Nat → Nat → Col → Col
  | 0, _, res => res
  | f + 1, i, res =>
    let nd := t.node i
    if colGet res i ≠ .unset then
      let res1 := colSet res i .unset
      let res2 := (nd.children.filter fun ch => (t.node ch).prev.isNone).foldl
        (fun r ch => clearNode always t f ch r) res1
      match nd.next with
      | some k => clearNode always t f k res2
      | none => res2
    else if always then
      match nd.next with
      | some k => clearNode always t f k res
      | none => res
    else res

/-- config_cond_cache_reset_item() -/
def resetItem (always : Bool) (t : Tree) (a : Comp) (c : Cache) : Cache :=
  (List.range t.length).foldl
    (fun c i =>
      if (t.node i).comp = a then
        { res := clearNode always t t.length i c.res, loc := colSet c.loc i .unset }
      else c) c

/-! ### directive merge -/

/-- value a module's patch_config() ends up with for each of its directives:
    defaults, then every block in file order whose condition holds -/
def mergeSets (conf : Nat → Nat) (sets : List (Nat × Nat)) : Nat → Nat :=
  sets.foldl (fun cf (kv : Nat × Nat) => fun d => if d = kv.1 then kv.2 else cf d) conf

/-- directives of block `nd` that belong to the module whose directive ids are `dirs` -/
def ownSets (dirs : List Nat) (nd : Node) : List (Nat × Nat) :=
  nd.sets.filter fun kv => dirs.contains kv.1

/-- config_patch_config() / mod_*_patch_config(): the module's cvlist holds the
    contexts (in file order) that assign at least one of its directives; context 0
    (global) gives the defaults. -/
def patchLoop (t : Tree) (e : Env) (valid : Comp → Bool) (dirs : List Nat) :
    List Nat → (Nat → Nat) × Cache → (Nat → Nat) × Cache
  | [], acc => acc
  | i :: is, (conf, c) =>
    let own := ownSets dirs (t.node i)
    if own.isEmpty then patchLoop t e valid dirs is (conf, c)
    else
      let (r, c') := check t e valid t.length i c
      patchLoop t e valid dirs is (if r = .true_ then mergeSets conf own else conf, c')

def patch (t : Tree) (e : Env) (valid : Comp → Bool) (dirs : List Nat) (c : Cache) :
    (Nat → Nat) × Cache :=
  let defaults := mergeSets (fun _ => 0) (ownSets dirs (t.node 0))
  patchLoop t e valid dirs ((List.range t.length).drop 1) (defaults, c)

/-! ### requests on one connection -/

/-- the condition-related state of one request_st -/
structure Req where
  env : Env
  valid : Comp → Bool
  cache : Cache

instance : Inhabited Req := ⟨⟨default, fun _ => false, Cache.empty 0⟩⟩

/-- a fresh request_st (request_init_data(): calloc'ed cache, no field valid yet) -/
def Req.fresh (n : Nat) : Req := ⟨default, fun _ => false, Cache.empty n⟩

inductive Op where
  | check (s i : Nat)                              -- config_check_cond(r, i)
  | setAttr (s : Nat) (c : Comp) (v : AttrVal)     -- rewrite attribute + config_cond_cache_reset_item
  | resetAll (s : Nat)                             -- config_cond_cache_reset
  | setValid (s : Nat) (valid : List Comp)         -- r->conditional_is_valid = …
  | newReq (s : Nat) (sets : List (Comp × AttrVal)) (valid : List Comp)
      -- next request on the connection: new attributes, then http_response_config()'s full reset
  | spawn                                          -- h2_init_stream(): new request_st, cache + valid bits of request 0
  | patch (s : Nat) (dirs : List Nat)              -- a module's patch_config()

/-- what an operation lets the caller observe -/
inductive Obs where
  | none
  | result (s i : Nat) (r : Res)
  | conf (s : Nat) (dirs : List Nat) (conf : Nat → Nat)

def applySets (e : Env) (sets : List (Comp × AttrVal)) : Env :=
  sets.foldl (fun e (cv : Comp × AttrVal) => e.set cv.1 cv.2) e

def validOf (l : List Comp) : Comp → Bool := fun c => l.contains c

def step (always : Bool) (t : Tree) (st : List Req) : Op → List Req × Obs
  | .check s i =>
    match st[s]? with
    | none => (st, .none)
    | some rq =>
      if i < t.length then     -- callers pass indices of existing contexts only
        let rc := check t rq.env rq.valid t.length i rq.cache
        (st.set s { rq with cache := rc.2 }, .result s i rc.1)
      else (st, .none)
  | .setAttr s a v =>
    match st[s]? with
    | none => (st, .none)
    | some rq =>
      (st.set s { rq with env := rq.env.set a v, cache := resetItem always t a rq.cache }, .none)
  | .resetAll s =>
    match st[s]? with
    | none => (st, .none)
    | some rq => (st.set s { rq with cache := Cache.empty t.length }, .none)
  | .setValid s v =>
    match st[s]? with
    | none => (st, .none)
    | some rq => (st.set s { rq with valid := validOf v }, .none)
  | .newReq s sets v =>
    match st[s]? with
    | none => (st, .none)
    | some rq =>
      (st.set s { env := applySets rq.env sets, valid := validOf v, cache := Cache.empty t.length }, .none)
  | .spawn =>
    -- h2_init_stream(): conditional_is_valid and cond_cache are copied from the
    -- connection's request; the stream's own request attributes are still empty, only
    -- what it reaches through r->con (socket, peer address) is shared
    match st[0]? with
    | none => (st, .none)
    | some rq => (st ++ [{ rq with env := rq.env.connLevel }], .none)
  | .patch s dirs =>
    match st[s]? with
    | none => (st, .none)
    | some rq =>
      let pc := patch t rq.env rq.valid dirs rq.cache
      (st.set s { rq with cache := pc.2 }, .conf s dirs pc.1)

/-- run a whole operation sequence, collecting the observations together with the
    state they were made in (the theorems relate each observation to the attributes
    the request had at that moment) -/
def run (always : Bool) (t : Tree) : List Req → List Op → List (List Req × Obs)
  | _, [] => []
  | st, op :: ops =>
    let (st', o) := step always t st op
    (st', o) :: run always t st' ops

/-! ### derived links (what configparser.y sets up from parent / prev) -/

/-- fill in `next` and `children` from `parent` / `prev` -/
def link (t : Tree) : Tree :=
  let n := t.length
  (List.range n).map fun i =>
    let nd := t.node i
    { nd with
      next := (List.range n).find? (fun j => (t.node j).prev == some i),
      children := (List.range n).filter (fun j => decide (1 ≤ j) && (t.node j).parent == i) }

end LtVerif.Cond
